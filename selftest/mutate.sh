#!/bin/bash
# usage: selftest/mutate.sh <check-args...> -- <file-relative-to-repo> <python-regex-from> <to>
# applies one textual mutation to a scratch worktree of /repo and runs ./check with VERIF_REPO pointing at it
set -e
args=()
while [ "$1" != "--" ]; do args+=("$1"); shift; done; shift
file="$1"; from="$2"; to="$3"
wt=$(mktemp -d /tmp/mut-XXXXXX); rmdir $wt
git -C /repo worktree add -q $wt HEAD
python3 - "$wt/$file" "$from" "$to" <<'PY'
import sys,re
p,f,t=sys.argv[1:4]
s=open(p).read()
n,c=re.subn(f,t,s,count=1,flags=re.S)
if c==0: print("MUTATION PATTERN NOT FOUND"); sys.exit(3)
open(p,'w').write(n)
PY
(cd $wt && git diff | grep '^[-+]' | grep -v '^+++\|^---' | head -6)
cd /verif && VERIF_REPO=$wt ./check "${args[@]}" 2>&1 | grep -v "^  obligation" | cut -c1-220 | head -12 || true
git -C /repo worktree remove --force $wt
