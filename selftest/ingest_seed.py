#!/usr/bin/env python3
"""usage: selftest/ingest_seed.py <seed-id> <property-id>   (seed output in /tmp/seed/<seed-id>-out)
Runs selftest/validate_seed.sh, stores the seed under seeded/<seed-id>/ with the verdict of this first run in meta.json."""
import json, os, shutil, glob, subprocess, sys, re
sid, pid = sys.argv[1], sys.argv[2]
root = os.path.dirname(os.path.dirname(os.path.abspath(__file__)))
src = "/tmp/seed/%s-out" % sid
out = subprocess.run([os.path.join(root, "selftest/validate_seed.sh"), src, pid], capture_output=True, text=True).stdout
lines = out.splitlines()
def after(tag):
    for i, l in enumerate(lines):
        if l.startswith(tag):
            return lines[i + 1] if i + 1 < len(lines) else ""
    return ""
ok_without = "ok." in after("== demo WITHOUT patch")
fail_with = "FAILED" in after("== demo WITH patch")
ws = [l for l in lines if l.startswith("workspace:")]
verd = [l for l in lines if re.match(r"^(OK|VIOLATION|UNDECIDED)", l)]
if any(l.startswith("VIOLATION") for l in verd):
    obs = sorted({re.sub(r".*/scratch/%s-(.*)\.json.*" % pid, r"\1", l) for l in verd if l.startswith("VIOLATION")})
    cr = "YES (first run): VIOLATION " + ", ".join(obs[:4]) + (" (+%d more)" % (len(obs) - 4) if len(obs) > 4 else "")
elif any(l.startswith("UNDECIDED") for l in verd):
    cr = "first run: UNDECIDED: " + [l for l in verd if l.startswith("UNDECIDED")][0][:300]
else:
    cr = "first run: NO (OK)"
dst = os.path.join(root, "seeded", sid)
os.makedirs(dst, exist_ok=True)
shutil.copy(src + "/patch.diff", dst)
for f in glob.glob(src + "/seed_demo_*.rs"):
    shutil.copy(f, dst)
m = json.load(open(src + "/meta.json"))
head = subprocess.run(["git", "-C", "/repo", "rev-parse", "--short", "HEAD"], capture_output=True, text=True).stdout.strip()
meta = {"property": pid, "seed_id": sid, "breaks": m.get("summary", ""), "needs_to_manifest": m.get("needs_to_manifest", ""),
        "confirmed_by_lead": bool(ok_without and fail_with),
        "ran": ["selftest/validate_seed.sh %s %s on /repo %s: demo without patch: %s; with patch: %s; %s" % (src, pid, head, after("== demo WITHOUT patch")[:60], after("== demo WITH patch")[:60], (ws or [""])[0])],
        "check_result": cr}
json.dump(meta, open(os.path.join(dst, "meta.json"), "w"), indent=1)
print("SEED %s property=%s valid=%s => %s" % (sid, pid, meta["confirmed_by_lead"], cr[:400]))
