#!/usr/bin/env python3
"""Regenerates the tables of DESIGN.md 11.4 (findings, from known_findings.json) and 11.5 (seeds, from seeded/*/meta.json)
in place: a table is the run of `|` lines that follows its header line."""
import json, os, glob, re
root = os.path.dirname(os.path.dirname(os.path.abspath(__file__)))
def esc(s): return str(s).replace("|", "/").replace("\n", " ")
def table(lines, header, rows):
    i = next(k for k, l in enumerate(lines) if l.startswith(header))
    j = i
    while j < len(lines) and lines[j].startswith("|"):
        j += 1
    return lines[:i + 2] + rows + lines[j:]
d = open(os.path.join(root, "DESIGN.md")).read().split("\n")
k = json.load(open(os.path.join(root, "known_findings.json")))["findings"]
rows = []
for f in k:
    obs = [f["obligation"]] if "obligation" in f else list(f.get("obligations", []))
    extra = len(obs) - 1 + len(f.get("also", []))
    st = "fixed `%s`" % f["commit"] if f["status"] == "fixed" else "**open** (KNOWN-FINDING)"
    rows.append("| %s | %s | %s | `%s`%s | %s | %s |" % (f["id"], f["property"], st, obs[0], " (+%d)" % extra if extra else "", esc(f["what"]), esc(f.get("input", ""))))
d = table(d, "| id | property | status |", rows)
rows = []
for m in sorted(glob.glob(os.path.join(root, "seeded", "*", "meta.json"))):
    sid = os.path.basename(os.path.dirname(m))
    j = json.load(open(m))
    rows.append("| %s | %s | %s | %s |" % (sid, esc(j.get("breaks", j.get("summary", ""))), esc(j.get("needs_to_manifest", "")), esc(j.get("check_result", ""))))
d = table(d, "| property | change | needs |", rows)
open(os.path.join(root, "DESIGN.md"), "w").write("\n".join(d))
print("tables regenerated")
