#!/bin/bash
# runs every registered check on /repo (quick tier), prints one line each; refreshes evidence/
cd /verif
export VERIF_KANI_TARGET=${VERIF_KANI_TARGET:-/verif/.cache/kani-target}
for p in $(python3 -c "import json;print(' '.join(c['property_id'] for c in json.load(open('MANIFEST.json'))['checks']))"); do
  ./check $p "$@" 2>&1 | grep "^OK\|^VIOL\|^UNDEC" | cut -c1-170
done
