#!/bin/bash
# usage: selftest/validate_seed.sh <seed-dir with patch.diff + seed_demo_*.rs> <property id> [check args]
# Confirms in a fresh scratch worktree of /repo HEAD: demo passes without the patch, fails with it, the
# crate's own tests still pass with it; then runs ./check <property> against the patched worktree.
src="$1"; pid="$2"
wt=$(mktemp -d /tmp/seedval-XXXXXX); rmdir $wt
export CARGO_TARGET_DIR=/tmp/seedval-target CARGO_NET_OFFLINE=true
git -C /repo worktree add -q $wt HEAD
demo=$(ls $src/seed_demo_*.rs | head -1); name=$(basename $demo .rs)
cp $demo $wt/tests/
cd $wt
echo "== demo WITHOUT patch"; cargo test --offline -q --features compiler --test $name 2>&1 | grep "test result" 
if ! git apply --check $src/patch.diff 2>/dev/null; then echo "PATCH DOES NOT APPLY to current HEAD"; git -C /repo worktree remove --force $wt; exit 3; fi
git apply $src/patch.diff
echo "== demo WITH patch"; cargo test --offline -q --features compiler --test $name 2>&1 | grep "test result"
echo "== crate tests WITH patch"; cargo test --offline -q --workspace --no-fail-fast --exclude-from-test x 2>/dev/null | grep "test result" | awk '{p+=$4; f+=$6} END {print "passed",p,"failed",f}'
cargo test --offline --workspace --no-fail-fast 2>&1 | grep "test result" | awk '{p+=$4; f+=$6} END {print "workspace: passed",p,"failed",f, "(includes the demo)"}'
echo "== check $pid against the patched tree"
cd /verif && VERIF_REPO=$wt ./check $pid "${@:3}" 2>&1 | cut -c1-250 | grep -v "^  obligation" | head -20
git -C /repo worktree remove --force $wt
