#!/bin/bash
# benign (semantics-preserving) edits: every check must stay OK (UNDECIDED is tolerated, VIOLATION is a false alarm)
run() { # prop file from to
  out=$(selftest/mutate.sh "$1" -- "$2" "$3" "$4" 2>&1 | grep -v "^KNOWN\|^warning" | grep "^OK\|^VIOL\|^UNDEC\|NOT FOUND" | head -2 | cut -c1-150)
  echo "[$1] $2 :: $3  =>  $out"
}
run C05 src/miniscript/types/correctness.rs 'dissatisfiable: left.dissatisfiable && right.dissatisfiable,\n            unit: true,' 'unit: true,\n            dissatisfiable: right.dissatisfiable \&\& left.dissatisfiable,'
run C05 src/miniscript/types/malleability.rs 'signed: left.signed \|\| right.signed,\n            non_malleable: left.non_malleable && right.non_malleable,\n        \}\n    \}\n\n    /// Constructor for the malleabilitiy properties of the `and_v`' 'signed: right.signed || left.signed,\n            non_malleable: right.non_malleable \&\& left.non_malleable,\n        }\n    }\n\n    /// Constructor for the malleabilitiy properties of the `and_v`'
run C01 src/miniscript/satisfy/mod.rs 'has_sig: self.has_sig \|\| other.has_sig' 'has_sig: other.has_sig || self.has_sig'
run C04 src/miniscript/lex.rs 'ret.push\(Token::Size\);' '{ let t = Token::Size; ret.push(t); }'
run C13 src/interpreter/stack.rs 'pub\(super\) fn evaluate_after' '#[inline]\n    pub(super) fn evaluate_after'
run C18 src/policy/semantic.rs 'let is_and = m == n;' 'let is_and = n == m;'
run C19 src/miniscript/decode.rs 'if mem::discriminant\(me\) != mem::discriminant\(you\) \{' 'if mem::discriminant(you) != mem::discriminant(me) {'
run C12 src/validation.rs 'pub const fn entails' '#[inline]\n    pub const fn entails'
