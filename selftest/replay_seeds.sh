#!/bin/bash
# usage: selftest/replay_seeds.sh [seed ids...]   -- applies each stored seeded change (seeded/<id>/patch.diff) to a scratch
# worktree of /repo HEAD and runs ./check <property> against it; prints one verdict line per seed.  Does not run the demos.
cd /verif
export VERIF_KANI_TARGET=${VERIF_KANI_TARGET:-/verif/.cache/kani-target}
ids="$@"; [ -z "$ids" ] && ids=$(ls -d seeded/*/ | xargs -n1 basename)
for id in $ids; do
  pid=$(python3 -c "import json;print(json.load(open('seeded/$id/meta.json'))['property'])")
  wt=$(mktemp -d /tmp/seedrun-XXXXXX); rmdir $wt
  git -C /repo worktree add -q --detach $wt HEAD
  if git -C $wt apply /verif/seeded/$id/patch.diff 2>/dev/null; then
    out=$(VERIF_REPO=$wt ./check $pid ${SEED_TIER:+--tier $SEED_TIER} 2>&1 | grep "^OK\|^VIOLATION\|^UNDECIDED" | head -3 | cut -c1-200 | tr '\n' '|')
    echo "SEED $id property=$pid => $out"
  else
    echo "SEED $id property=$pid => patch does not apply to HEAD"
  fi
  git -C /repo worktree remove --force $wt
done
