#!/usr/bin/env python3
"""usage: selftest/run_benign.py <dir with *.diff> [...]
For every patch: apply it to a scratch worktree of /repo HEAD and run every ENABLED unit that extracts from a patched file
(`./check --unit`); report obligations that fail with the patch but not on the unchanged tree (= false alarms if the patch is
semantics-preserving) and units that become undecided."""
import glob, os, re, subprocess, sys, json, tempfile
ROOT = os.path.dirname(os.path.dirname(os.path.abspath(__file__)))
env = dict(os.environ, VERIF_KANI_TARGET=os.environ.get("VERIF_KANI_TARGET", os.path.join(ROOT, ".cache/kani-target")))
enabled = [l.strip() for l in open(os.path.join(ROOT, "units/enabled.txt")) if l.strip() and not l.startswith("#")]
# which files does each unit extract from?  Verus units: build once against /repo and read the recorded provenance (plus any
# "src/..." literal in the unit's own text, for items / consts); Kani units: their INJECT list.
sys.path.insert(0, ROOT)
from vlib.extract import Repo
import importlib
files_of = {}
for u in enabled:
    m = importlib.import_module("units." + u)
    own = set(re.findall(r"src/[\w/]+\.rs", open(os.path.join(ROOT, "units", u + ".py")).read()))
    if m.ENGINE == "kani":
        files_of[u] = own | {a for a, _ in getattr(m, "INJECT", [])}
        continue
    try:
        vf = m.build(Repo("/repo"))
        files_of[u] = own | {f["file"] for f in vf.functions.values() if f.get("file")}
    except Exception as e:
        files_of[u] = own
src_of = {u: "\n".join(sorted(files_of[u])) for u in enabled}
if os.environ.get("BENIGN_SHOW"):
    for f in os.environ["BENIGN_SHOW"].split(","):
        print(f, [u for u in enabled if f in src_of[u]])
def run_unit(u, repo=None):
    e = dict(env)
    if repo:
        e["VERIF_REPO"] = repo
    out = subprocess.run([os.path.join(ROOT, "check"), "--unit", u], cwd=ROOT, env=e, capture_output=True, text=True).stdout
    fails = set(re.findall(r"^FAIL (\S+)", out, flags=re.M))
    status = re.search(r"^unit \S+: (\w+)", out, flags=re.M)
    und = re.search(r"^Undecided: (.*)", out, flags=re.M)
    return (status.group(1) if status else "?"), fails, (und.group(1)[:200] if und else "")
base = {}
def baseline(u):
    if u not in base:
        base[u] = run_unit(u)
    return base[u]
patches = sorted(p for d in sys.argv[1:] for p in glob.glob(os.path.join(d, "*.diff")))
for p in patches:
    files = re.findall(r"^\+\+\+ b/(\S+)", open(p).read(), flags=re.M)
    units = [u for u in enabled if any(f in src_of[u] or f.replace("src/", "") in src_of[u] for f in files)]
    if os.environ.get("BENIGN_SKIP_KANI"):
        units = [u for u in units if not u.startswith("k")]
    if os.environ.get("BENIGN_ONLY_KANI"):
        units = [u for u in units if u.startswith("k")]
    wt = tempfile.mkdtemp(prefix="benign-", dir="/tmp"); os.rmdir(wt)
    subprocess.run(["git", "-C", "/repo", "worktree", "add", "-q", "--detach", wt, "HEAD"], check=True)
    ok = subprocess.run(["git", "-C", wt, "apply", p]).returncode == 0
    res = []
    if ok:
        for u in units:
            st0, f0, _ = baseline(u)
            st, f, und = run_unit(u, wt)
            new = sorted(f - f0)
            if st != "ok":
                res.append("%s: UNDECIDED %s" % (u, und))
            elif new:
                res.append("%s: NEW FAIL %s" % (u, ", ".join(new)))
    subprocess.run(["git", "-C", "/repo", "worktree", "remove", "--force", wt])
    print("BENIGN %s files=%s units=%d => %s" % (os.path.basename(p), ",".join(os.path.basename(f) for f in files), len(units),
          "does not apply" if not ok else ("clean" if not res else " ;; ".join(res))), flush=True)
