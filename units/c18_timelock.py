"""C18 (Verus): `TimelockInfo::combine_threshold` for ANY number of children -- the fold is proved equal to the
property's pairwise statement ("some two different children need a height lock and a time lock of the same kind").

REAL REWRITE (R8, stated as an extraction loss): the function is generic over `I: IntoIterator<Item = Self>` and
folds with a closure,  `timelocks.into_iter().fold(Self::default(), |mut acc, t| { BODY; acc })`.
Verus has neither iterator adapters nor closures that own a `mut` accumulator, so the unit
  * specialises `I` to a slice `&[TimelockInfo]`,
  * turns the fold into an index `while` loop whose body is the closure's BODY, token for token
    (`let t = timelocks[i];` in front, the closure's trailing `acc` dropped, `i += 1` appended),
  * rewrites `x |= e` to `x = x || (e)` (R5).
The closure BODY -- the four conflict pairs, the `k > 1` test and the five unions -- is the text of /repo.
The same fold written as `let mut acc = INIT; for t in timelocks { BODY } acc` gets the same index loop (the names of
the accumulator and of the element are read off the text; a BODY with continue / break / return is UNDECIDED).
The same function is checked UN-rewritten by Kani (unit k18_timelock, bounded n <= 4); `combine_and/or`
(`once(a).chain(once(b))`) are rewritten to the slice `&[a, b]` here and proved complete, un-rewritten, by Kani.

Second part: the per-node match of `Concrete::timelock_info` (src/policy/concrete.rs), i.e. where the leaves are
created and which k each n-ary node passes to combine_threshold.  Oracle: BIP65 (after(n): height iff
n < 500_000_000), BIP68 (older(n): time iff bit 22), and the property statement: a node mixes iff a child does or
(more than one child is required: And = all, Or = one, Thresh = k) two different children conflict.  The closure
`(0..n).map(|_| infos.pop().unwrap())` is replaced by the stub `pop_children` (partial R9) and the resulting `Vec` is
passed as a slice (R8); `combine_threshold` is the function verified in the first part.
"""
import re

from vlib.verus import VerusFile, Contract, Clause, Undecided, sub, lit, rule, R5_BOOL_OPASSIGN
from vlib.extract import match_close

NAME = "c18_timelock"
ENGINE = "verus"
PROPS = ("C18", "C12", "C11")
EXT = "src/miniscript/types/extra_props.rs"
DROPPED = [
    "Concrete::timelock_info: the `for data in self.rtl_post_order_iter()` loop and the final pop are dropped (traversal contract, DESIGN 3.2); the closure `(0..n).map(|_| infos.pop().unwrap())` is replaced by the stub pop_children (partial R9); check_timelocks (reads contains_combination of the root) is not extracted",
    "TimelockInfo::combine_threshold: generic `I: IntoIterator` specialised to `&[TimelockInfo]`; closure fold rewritten to an index loop (R8) -- the closure body is kept verbatim; the un-rewritten text is checked by Kani bounded n <= 4 (k18_timelock)",
    "TimelockInfo::combine_and/combine_or: `once(a).chain(once(b))` rewritten to the slice `&[a, b]` (R8); un-rewritten text proved complete by Kani (k18_timelock)",
]

ORACLE = r"""
// ---- oracle: the property's pairwise statement (not the fold) -------------------------------------------
// ordered pair: `a` needs a height lock, `b` a time lock, of the SAME kind (csv/csv or cltv/cltv)
spec fn conflict(a: TimelockInfo, b: TimelockInfo) -> bool {
    (a.csv_with_height && b.csv_with_time) || (a.cltv_with_height && b.cltv_with_time)
}
spec fn some_csv_h(s: Seq<TimelockInfo>, n: int) -> bool { exists|i: int| 0 <= i < n && (#[trigger] s[i]).csv_with_height }
spec fn some_csv_t(s: Seq<TimelockInfo>, n: int) -> bool { exists|i: int| 0 <= i < n && (#[trigger] s[i]).csv_with_time }
spec fn some_cltv_h(s: Seq<TimelockInfo>, n: int) -> bool { exists|i: int| 0 <= i < n && (#[trigger] s[i]).cltv_with_height }
spec fn some_cltv_t(s: Seq<TimelockInfo>, n: int) -> bool { exists|i: int| 0 <= i < n && (#[trigger] s[i]).cltv_with_time }
spec fn some_comb(s: Seq<TimelockInfo>, n: int) -> bool { exists|i: int| 0 <= i < n && (#[trigger] s[i]).contains_combination }
spec fn some_pair_conflicts(s: Seq<TimelockInfo>, n: int) -> bool {
    exists|i: int, j: int| 0 <= i < n && 0 <= j < n && i != j && conflict(#[trigger] s[i], #[trigger] s[j])
}
// "some satisfying path needs both a height-based and a time-based lock of the same kind":
// a child already has such a path, or (k > 1, so two different children can be on one path) two children conflict
spec fn spec_combination(k: usize, s: Seq<TimelockInfo>, n: int) -> bool {
    some_comb(s, n) || (k > 1 && some_pair_conflicts(s, n))
}

// derived `Default` of a struct of five bools (assumption, listed)
impl TimelockInfo {
    #[verifier::external_body]
    fn default() -> (r: Self)
        ensures !r.csv_with_height, !r.csv_with_time, !r.cltv_with_height, !r.cltv_with_time, !r.contains_combination,
    { unimplemented!() }
}

// one more element: every `some_*` over n + 1 is the one over n or the new element
proof fn lemma_step(k: usize, s: Seq<TimelockInfo>, n: int)
    requires 0 <= n < s.len(),
    ensures
        some_csv_h(s, n + 1) == (some_csv_h(s, n) || s[n].csv_with_height),
        some_csv_t(s, n + 1) == (some_csv_t(s, n) || s[n].csv_with_time),
        some_cltv_h(s, n + 1) == (some_cltv_h(s, n) || s[n].cltv_with_height),
        some_cltv_t(s, n + 1) == (some_cltv_t(s, n) || s[n].cltv_with_time),
        some_comb(s, n + 1) == (some_comb(s, n) || s[n].contains_combination),
        some_pair_conflicts(s, n + 1) == (some_pair_conflicts(s, n)
            || (some_csv_h(s, n) && s[n].csv_with_time) || (some_csv_t(s, n) && s[n].csv_with_height)
            || (some_cltv_h(s, n) && s[n].cltv_with_time) || (some_cltv_t(s, n) && s[n].cltv_with_height)),
{
    let t = s[n];
    // <== direction of the pair statement: exhibit the witnesses
    if some_pair_conflicts(s, n) {
        let (i, j) = choose|i: int, j: int| 0 <= i < n && 0 <= j < n && i != j && conflict(#[trigger] s[i], #[trigger] s[j]);
        assert(0 <= i < n + 1 && 0 <= j < n + 1 && i != j && conflict(s[i], s[j]));
    }
    if some_csv_h(s, n) && t.csv_with_time {
        let i = choose|i: int| 0 <= i < n && (#[trigger] s[i]).csv_with_height;
        assert(0 <= i < n + 1 && 0 <= n < n + 1 && i != n && conflict(s[i], s[n]));
    }
    if some_csv_t(s, n) && t.csv_with_height {
        let i = choose|i: int| 0 <= i < n && (#[trigger] s[i]).csv_with_time;
        assert(0 <= i < n + 1 && 0 <= n < n + 1 && n != i && conflict(s[n], s[i]));
    }
    if some_cltv_h(s, n) && t.cltv_with_time {
        let i = choose|i: int| 0 <= i < n && (#[trigger] s[i]).cltv_with_height;
        assert(0 <= i < n + 1 && 0 <= n < n + 1 && i != n && conflict(s[i], s[n]));
    }
    if some_cltv_t(s, n) && t.cltv_with_height {
        let i = choose|i: int| 0 <= i < n && (#[trigger] s[i]).cltv_with_time;
        assert(0 <= i < n + 1 && 0 <= n < n + 1 && n != i && conflict(s[n], s[i]));
    }
    // ==> direction
    if some_pair_conflicts(s, n + 1) {
        let (i, j) = choose|i: int, j: int| 0 <= i < n + 1 && 0 <= j < n + 1 && i != j && conflict(#[trigger] s[i], #[trigger] s[j]);
        if i < n && j < n {
            assert(some_pair_conflicts(s, n));
        } else if j == n {
            assert(0 <= i < n);
            assert(s[i].csv_with_height || s[i].cltv_with_height);
        } else {
            assert(i == n && 0 <= j < n);
            assert(s[j].csv_with_time || s[j].cltv_with_time);
        }
    }
    // the five unions
    if some_csv_h(s, n + 1) { let i = choose|i: int| 0 <= i < n + 1 && (#[trigger] s[i]).csv_with_height; if i < n { assert(some_csv_h(s, n)); } }
    if some_csv_t(s, n + 1) { let i = choose|i: int| 0 <= i < n + 1 && (#[trigger] s[i]).csv_with_time; if i < n { assert(some_csv_t(s, n)); } }
    if some_cltv_h(s, n + 1) { let i = choose|i: int| 0 <= i < n + 1 && (#[trigger] s[i]).cltv_with_height; if i < n { assert(some_cltv_h(s, n)); } }
    if some_cltv_t(s, n + 1) { let i = choose|i: int| 0 <= i < n + 1 && (#[trigger] s[i]).cltv_with_time; if i < n { assert(some_cltv_t(s, n)); } }
    if some_comb(s, n + 1) { let i = choose|i: int| 0 <= i < n + 1 && (#[trigger] s[i]).contains_combination; if i < n { assert(some_comb(s, n)); } }
    if some_csv_h(s, n) { let i = choose|i: int| 0 <= i < n && (#[trigger] s[i]).csv_with_height; assert(0 <= i < n + 1 && s[i].csv_with_height); }
    if some_csv_t(s, n) { let i = choose|i: int| 0 <= i < n && (#[trigger] s[i]).csv_with_time; assert(0 <= i < n + 1 && s[i].csv_with_time); }
    if some_cltv_h(s, n) { let i = choose|i: int| 0 <= i < n && (#[trigger] s[i]).cltv_with_height; assert(0 <= i < n + 1 && s[i].cltv_with_height); }
    if some_cltv_t(s, n) { let i = choose|i: int| 0 <= i < n && (#[trigger] s[i]).cltv_with_time; assert(0 <= i < n + 1 && s[i].cltv_with_time); }
    if some_comb(s, n) { let i = choose|i: int| 0 <= i < n && (#[trigger] s[i]).contains_combination; assert(0 <= i < n + 1 && s[i].contains_combination); }
    assert(0 <= n < n + 1);
}
"""

INVARIANT = """
            invariant
                0 <= i <= timelocks.len(),
                acc.csv_with_height == some_csv_h(timelocks@, i as int),
                acc.csv_with_time == some_csv_t(timelocks@, i as int),
                acc.cltv_with_height == some_cltv_h(timelocks@, i as int),
                acc.cltv_with_time == some_cltv_t(timelocks@, i as int),
                acc.contains_combination == spec_combination(k, timelocks@, i as int),
            decreases timelocks.len() - i,
"""


def _index_loop(it, acc, init, elem, body):
    """`let mut ACC = INIT; let mut i = 0; while i < IT.len() INV { let ELEM = IT[i]; BODY i += 1; }` -- BODY token for token; the invariant names
    the accumulator and the slice as the text does"""
    code = re.sub(r"//[^\n]*", "", body)
    if re.search(r"\b(continue|break|return)\b", code) or re.search(r"\bi\b", code) or acc == "i" or elem == "i":
        raise Undecided("combine_threshold: loop body with continue / break / return or a local named `i` (index-loop rewrite not applicable)")
    inv = re.sub(r"\btimelocks\b", it, re.sub(r"\bacc\b", acc, INVARIANT))
    return ("let mut %s = %s;\n        let mut i: usize = 0;\n        while i < %s.len()" % (acc, init, it) + inv +
            "        {\n            let %s = %s[i];\n            proof { lemma_step(k, %s@, i as int); }\n" % (elem, it, it) + body +
            "\n            i += 1;\n        }\n        %s" % acc)


@rule("R8-fold-to-index-loop")
def fold_to_loop(text):
    """`IT.into_iter().fold(INIT, |mut ACC, ELEM| { BODY ACC })`                              (closure fold), or
       `let mut ACC = INIT; for ELEM in IT[.into_iter()] { BODY } ACC`                       (the same fold written as a loop)  ->
       `let mut ACC = INIT; let mut i = 0; while i < IT.len() INV { let ELEM = IT[i]; BODY i += 1; } ACC`
    BODY is copied token for token; IT, ACC, ELEM, INIT are read off the text."""
    m = re.search(r"\b(?P<it>\w+)\s*\.into_iter\(\)\s*\.fold\(\s*(?P<init>[^,|]+?)\s*,\s*\|\s*mut\s+(?P<acc>\w+)\s*,\s*(?P<elem>\w+)\s*\|\s*\{", text)
    if m:
        close = match_close(text, m.end() - 1)                 # the closure's `}`
        inner = text[m.end():close]
        mt = re.search(r"\n?[ \t]*\b%s\s*$" % re.escape(m.group("acc")), inner)  # the closure's trailing `ACC`
        end = re.match(r"\s*\)", text[close + 1:])
        if not mt or not end:
            return None
        body = inner[:mt.start()].strip("\n")
        return text[:m.start()] + _index_loop(m.group("it"), m.group("acc"), m.group("init"), m.group("elem"), body) + text[close + 1 + end.end():]
    m = re.search(r"\blet\s+mut\s+(?P<acc>\w+)\s*=\s*(?P<init>[^;]+?)\s*;\s*(?://[^\n]*\s*)*for\s+(?P<elem>\w+)\s+in\s+(?P<it>\w+)(?:\s*\.into_iter\(\))?\s*\{", text)
    if m:
        close = match_close(text, m.end() - 1)                 # the loop's `}`
        tail = re.match(r"\s*%s\b" % re.escape(m.group("acc")), text[close + 1:])    # the accumulator is what follows the loop
        if not tail:
            return None
        body = text[m.end():close].strip("\n").rstrip()
        return text[:m.start()] + _index_loop(m.group("it"), m.group("acc"), m.group("init"), m.group("elem"), body) + text[close + 1 + tail.end():]
    return None


R8_SIG = sub("R8-generic-iter-to-slice", r"fn combine_threshold<I>\(k: usize, timelocks: I\) -> Self\s*where\s*I: IntoIterator<Item = Self>,",
             "fn combine_threshold(k: usize, timelocks: &[TimelockInfo]) -> Self")


CONC = "src/policy/concrete.rs"

CONCRETE_PRELUDE = r"""
// ---- Concrete::timelock_info: per-node step ------------------------------------------------------------------
// R9 (partial, inside the And / Or / Thresh arms): the closure `(0..n).map(|_| infos.pop().unwrap())` captures the
// stack mutably; it is replaced by this stub, which returns the top n entries in pop order (what the closure yields).
#[verifier::external_body]
fn pop_children(infos: &mut Vec<TimelockInfo>, n: usize) -> (r: Vec<TimelockInfo>)
    requires old(infos)@.len() >= n,
    ensures r@ == children(old(infos)@, n as nat), final(infos)@ == old(infos)@.subrange(0, old(infos)@.len() - n),
{ unimplemented!() }
spec fn is_cleaf<Pk: MiniscriptKey>(p: Concrete<Pk>) -> bool { !(p is And) && !(p is Or) && !(p is Thresh) }
spec fn arity<Pk: MiniscriptKey>(p: Concrete<Pk>) -> nat {
    match p { Concrete::And(subs) => subs@.len(), Concrete::Or(subs) => subs@.len(), Concrete::Thresh(th) => th.inner@.len(), _ => 0 }
}
// the children's infos: the top `arity` stack entries, first child on top (rtl post-order)
spec fn children(st: Seq<TimelockInfo>, n: nat) -> Seq<TimelockInfo> { Seq::new(n, |i: int| st[st.len() - 1 - i]) }
// how many of the children must hold: all for And, one for Or, k for Thresh (semantics column)
spec fn required<Pk: MiniscriptKey>(p: Concrete<Pk>) -> nat {
    match p { Concrete::And(subs) => subs@.len(), Concrete::Or(_) => 1, Concrete::Thresh(th) => th.k as nat, _ => 0 }
}
"""


def concrete_step(vf):
    from units import c18_semantic as S
    vf.raw(S.KEY_STUBS, keep_vis=True)
    vf.trust("prelude stubs MiniscriptKey / AbsLockTime / RelLockTime (is_time_locked / is_height_locked external_body)",
             "out-of-unit types reduced to opaque values; bit 22 of the consensus value is the BIP68 type flag (k_locktime: rel_from_consensus.*)")
    vf.item("src/primitives/threshold.rs", "struct:Threshold", rewrites=[sub("derive-off", r"#\[derive\([^)]*\)\]\s*", "", required=False)])
    vf.raw(S.THRESH_SPEC)
    with vf.block("impl<T, const MAX: usize> Threshold<T, MAX>"):
        vf.fn("src/primitives/threshold.rs", "impl:Threshold<T, MAX>/fn:n", qual="Threshold", props=("C11",),
              contract=Contract(ensures=[Clause("n", (), "r == self.spec_n()")]))
        vf.fn("src/primitives/threshold.rs", "impl:Threshold<T, MAX>/fn:k", qual="Threshold", props=("C11",),
              contract=Contract(ensures=[Clause("k", (), "r == self.spec_k()")]))
    vf.raw(S.BITCOIN_STUBS, keep_vis=True)
    vf.trust("absolute::LockTime (stub of the bitcoin crate): From<AbsLockTime>, is_block_height / is_block_time (external_body)",
             "BIP65: values below 500_000_000 are heights; checked against the compiled crate by Kani (k_locktime abs_from_consensus.*, k18_policy lock_stub_abs)")
    vf.item(CONC, "enum:Policy", rewrites=[sub("derive-off", r"#\[derive\([^)]*\)\]\s*", ""), sub("R7-rename", r"\benum Policy<", "enum Concrete<")])
    vf.raw(CONCRETE_PRELUDE)
    vf.trust("pop_children (external_body)", "R9: stands for the closure `(0..n).map(|_| infos.pop().unwrap())`: yields the top n stack entries in pop order")
    s, n = "children(old(infos)@, arity(*data.node))", "arity(*data.node) as int"
    clos = sub("R9-closure-to-stub", r"\(0\.\.(subs\.len\(\)|thresh\.n\(\))\)\.map\(\|_\| infos\.pop\(\)\.unwrap\(\)\)", r"pop_children(infos, \1)")
    itr = lit("R8-iter-to-slice", "iter)", "iter.as_slice())")
    with vf.block("impl<Pk: MiniscriptKey> Concrete<Pk>"):
        vf.step(CONC, "impl:Policy<Pk>#3/fn:timelock_info/match:data.node", "Concrete::timelock_info_step",
                "fn timelock_info_step(data: PostOrderIterItem<&Concrete<Pk>>, infos: &mut Vec<TimelockInfo>) -> TimelockInfo",
                props=PROPS,
                arm_rewrites={"And(ref subs)": [clos, itr], "Or(ref subs)": [clos, itr], "Thresh(ref thresh)": [clos, itr]},
                pre_match="    use Concrete::*;\n    proof { lemma_children(old(infos)@, arity(*data.node)); }",
                contract=Contract(requires=["old(infos)@.len() >= arity(*data.node)"], ensures=[
                    Clause("after_unit_is_bip65_threshold", ("C18", "C12"),
                           "*data.node matches Concrete::After(t) ==> r.cltv_with_height == (t.consensus() < 500_000_000u32) && r.cltv_with_time == (t.consensus() >= 500_000_000u32) && !r.csv_with_height && !r.csv_with_time && !r.contains_combination"),
                    Clause("older_unit_is_bip68_type_flag", ("C18", "C12"),
                           "*data.node matches Concrete::Older(t) ==> r.csv_with_time == (t.consensus() & 0x0040_0000u32 != 0) && r.csv_with_height == (t.consensus() & 0x0040_0000u32 == 0) && !r.cltv_with_height && !r.cltv_with_time && !r.contains_combination"),
                    Clause("other_leaves_have_no_lock", ("C18", "C12"),
                           "is_cleaf(*data.node) && !(*data.node is After) && !(*data.node is Older) ==> !r.csv_with_height && !r.csv_with_time && !r.cltv_with_height && !r.cltv_with_time && !r.contains_combination"),
                    Clause("nary_flags_are_union", ("C18", "C12"),
                           "!is_cleaf(*data.node) ==> r.csv_with_height == some_csv_h(%s, %s) && r.csv_with_time == some_csv_t(%s, %s) && r.cltv_with_height == some_cltv_h(%s, %s) && r.cltv_with_time == some_cltv_t(%s, %s)" % ((s, n) * 4)),
                    Clause("nary_mixes_iff_path_needs_both", ("C18", "C12"),
                           "!is_cleaf(*data.node) ==> r.contains_combination == (some_comb(%s, %s) || (required(*data.node) > 1 && some_pair_conflicts(%s, %s)))" % (s, n, s, n)),
                    Clause("stack_frame", ("C18", "C12", "C11"), "final(infos)@ == old(infos)@.subrange(0, old(infos)@.len() - arity(*data.node))"),
                ]))
    vf.spec_obligation("lemma_children", LEMMA_CHILDREN, PROPS)


LEMMA_CHILDREN = r"""
proof fn lemma_children(st: Seq<TimelockInfo>, n: nat)
    requires st.len() >= n,
    ensures children(st, n).len() == n, forall|i: int| 0 <= i < n ==> children(st, n)[i] == st[st.len() - 1 - i],
{}
"""


def build(repo):
    vf = VerusFile(NAME, repo)
    vf.item(EXT, "struct:TimelockInfo", rewrites=[sub("derive-off", r"#\[derive\([^)]*\)\]", "#[derive(Copy, Clone)]")])
    vf.raw(ORACLE)
    vf.trust("TimelockInfo::default (external_body)", "derived Default on a struct of five bools yields all-false")
    s, n = "timelocks@", "timelocks@.len() as int"
    with vf.block("impl TimelockInfo"):
        vf.fn(EXT, "impl:TimelockInfo/fn:new", qual="TimelockInfo", props=PROPS, contract=Contract(ensures=[
            Clause("all_false", ("C18", "C12"), "!r.csv_with_height && !r.csv_with_time && !r.cltv_with_height && !r.cltv_with_time && !r.contains_combination")]))
        vf.fn(EXT, "impl:TimelockInfo/fn:contains_unspendable_path", qual="TimelockInfo", props=PROPS, contract=Contract(ensures=[
            Clause("is_combination_flag", ("C18", "C12"), "r == self.contains_combination")]))
        vf.fn(EXT, "impl:TimelockInfo/fn:combine_threshold", qual="TimelockInfo", props=PROPS,
              rewrites=[R8_SIG, fold_to_loop, R5_BOOL_OPASSIGN],
              contract=Contract(ensures=[
                  Clause("flags_are_union", ("C18", "C12"),
                         "r.csv_with_height == some_csv_h(%s, %s) && r.csv_with_time == some_csv_t(%s, %s) && r.cltv_with_height == some_cltv_h(%s, %s) && r.cltv_with_time == some_cltv_t(%s, %s)" % ((s, n) * 4)),
                  Clause("combination_iff_pairwise_conflict", ("C18", "C12"), "r.contains_combination == spec_combination(k, %s, %s)" % (s, n)),
                  Clause("or_never_adds_combination", ("C18", "C12"), "k <= 1 ==> (r.contains_combination == some_comb(%s, %s))" % (s, n)),
              ]))
        # and / or of two: the pairwise statement instantiated at the only pair (a, b)
        two = [lit("R8-once-chain-to-slice", "once(a).chain(once(b))", "&[a, b]"),
               lit("R10", "Self::combine_threshold(", "proof { lemma_two(a, b); }\n        Self::combine_threshold(")]
        vf.fn(EXT, "impl:TimelockInfo/fn:combine_and", qual="TimelockInfo", props=PROPS, rewrites=two, contract=Contract(ensures=[
            Clause("flags_are_union", ("C18", "C12"), "r.csv_with_height == (a.csv_with_height || b.csv_with_height) && r.csv_with_time == (a.csv_with_time || b.csv_with_time) && r.cltv_with_height == (a.cltv_with_height || b.cltv_with_height) && r.cltv_with_time == (a.cltv_with_time || b.cltv_with_time)"),
            Clause("combination_iff_conflict", ("C18", "C12"), "r.contains_combination == (a.contains_combination || b.contains_combination || conflict(a, b) || conflict(b, a))")]))
        vf.fn(EXT, "impl:TimelockInfo/fn:combine_or", qual="TimelockInfo", props=PROPS, rewrites=two, contract=Contract(ensures=[
            Clause("flags_are_union", ("C18", "C12"), "r.csv_with_height == (a.csv_with_height || b.csv_with_height) && r.csv_with_time == (a.csv_with_time || b.csv_with_time) && r.cltv_with_height == (a.cltv_with_height || b.cltv_with_height) && r.cltv_with_time == (a.cltv_with_time || b.cltv_with_time)"),
            Clause("combination_only_inherited", ("C18", "C12"), "r.contains_combination == (a.contains_combination || b.contains_combination)")]))
    vf.spec_obligation("lemma_two", LEMMA_TWO, PROPS)
    concrete_step(vf)
    return vf


LEMMA_TWO = r"""
proof fn lemma_two(a: TimelockInfo, b: TimelockInfo)
    ensures ({ let s = seq![a, b];
        &&& some_csv_h(s, 2) == (a.csv_with_height || b.csv_with_height)
        &&& some_csv_t(s, 2) == (a.csv_with_time || b.csv_with_time)
        &&& some_cltv_h(s, 2) == (a.cltv_with_height || b.cltv_with_height)
        &&& some_cltv_t(s, 2) == (a.cltv_with_time || b.cltv_with_time)
        &&& some_comb(s, 2) == (a.contains_combination || b.contains_combination)
        &&& some_pair_conflicts(s, 2) == (conflict(a, b) || conflict(b, a)) }),
{
    let s = seq![a, b];
    assert(s[0] == a && s[1] == b);
    if conflict(a, b) { assert(0 <= 0 < 2 && 0 <= 1 < 2 && 0 != 1 && conflict(s[0], s[1])); }
    if conflict(b, a) { assert(0 <= 1 < 2 && 0 <= 0 < 2 && 1 != 0 && conflict(s[1], s[0])); }
    if some_pair_conflicts(s, 2) {
        let (i, j) = choose|i: int, j: int| 0 <= i < 2 && 0 <= j < 2 && i != j && conflict(#[trigger] s[i], #[trigger] s[j]);
        assert((i == 0 && j == 1) || (i == 1 && j == 0));
    }
    lemma_step(0usize, s, 0);
    lemma_step(0usize, s, 1);
    assert(!some_csv_h(s, 0) && !some_csv_t(s, 0) && !some_cltv_h(s, 0) && !some_cltv_t(s, 0) && !some_comb(s, 0));
}
"""
