"""C14: discharges, on the REAL `bitcoin::psbt::Input`, the one dependency fact the Verus unit c14_finalize trusts
(`impl Default for Input` = every Option None, every map empty -- the value `mem::take` leaves behind).

The finalizer's state machine itself is NOT checked here: the planned 2-input Kani harness (kani::stub of
finalize_input_helper, field-wise frame, no clone / ==) exceeded 20 min in CBMC (10 min in a lighter variant);
Verus takes the real text instead (units/c14_finalize.py).

Second harness: `util::witness_to_scriptsig` (the legacy scriptSig builder inside finalization) must accept every
legal satisfaction element, in particular a 73-byte ECDSA signature push (72-byte DER + sighash byte) -- finalization
may fail, it must not crash."""
NAME = "k14_finalize"
ENGINE = "kani"
PROPS = ("C14", "C11")
INJECT = [("src/psbt/finalizer.rs", "contracts/kani/k14_finalize.rs"), ("src/util.rs", "contracts/kani/k14_scriptsig.rs")]
TRUSTED = ["k14_finalize: bitcoin::psbt::Input::default() is executed as compiled (derived Default); nothing stubbed"]
HARNESSES = [
    dict(name="witness_to_scriptsig_accepts_72_byte_push", fn="util::witness_to_scriptsig", props=("C14", "C11"), kind="bounded",
         bound="2-element witness: a 72-byte push, then a 5-byte redeem script", tier="thorough",   # control for the 73-byte harness
         tags=["C14,C11:witness_to_scriptsig.pushes_all_elements"]),
    dict(name="witness_to_scriptsig_accepts_73_byte_signature_push", fn="util::witness_to_scriptsig", props=("C14", "C11"), kind="bounded",
         bound="2-element witness: a 73-byte push (72-byte DER signature + sighash byte), then a 5-byte redeem script", tier="quick",
         tags=["C14,C11:witness_to_scriptsig.pushes_all_elements"]),
    dict(name="input_default_is_all_empty", fn="bitcoin::psbt::Input::default", props=("C14",), kind="complete", tier="quick",
         tags=["C14:input_default.utxo_and_final_none", "C14:input_default.options_none", "C14:input_default.maps_empty"]),
]
