"""C13, second tier: the interpreter's state machine `Iter::iter_next` (src/interpreter/mod.rs), one
step of the `while let Some(node_state) = self.state.pop() { match node_state.node.node { ARMS } }` loop,
against the OPCODE SEMANTICS OF EACH FRAGMENT'S SCRIPT TEMPLATE (Miniscript specification, column
"Bitcoin Script") on abstract stack elements {Satisfied = [1], Dissatisfied = [], Push = any other bytes}.

What is real text: the arms of the match (cut verbatim into `Iter::iter_step`), `push_evaluation_state`,
`Stack::{is_empty,len,pop,push,split_off,last}`, `Stack::evaluate_pk`, `Stack::evaluate_multi`, the four
hash evaluators, `enum Element`, `struct Stack`, `struct NodeEvaluationState`, `struct Iter`,
`enum SatisfiedConstraint`, `enum HashLockType`, `enum SigType`, `Terminal`, `Miniscript`, `Threshold`.
What is a stub: the bitcoin types, `Error` (reduced to the variants the extracted text names),
`verify_sersig` / the hash functions (uninterpreted), `evaluate_after` / `evaluate_older` (contract proved by
Kani in k13_interp), `evaluate_pkh` (trusted, needs key parsing).
"""
import re

from vlib.verus import VerusFile, Contract, Clause, sub, lit, drop_vis, Undecided
from vlib.extract import split_arms, strip_docs
from units import _tree

NAME = "c13_iter_step"
ENGINE = "verus"
PROPS = ("C13", "C11")
MOD = "src/interpreter/mod.rs"
STACK = "src/interpreter/stack.rs"
CTX = "src/miniscript/context.rs"
DROPPED = [
    "Iter::iter_next: the `while let Some(node_state) = self.state.pop()` loop header and the code after the loop (bare-key spend, final `stack == [Satisfied]` test) are not part of the step; `return x` inside an arm returns from the step function, falling out of the match returns None (= the loop continues)",
    "Iter / evaluators: `Box<dyn FnMut(&KeySigPair) -> bool>` is replaced by the opaque value type VerifySig (R7)",
    "Multi arm: the iterator chain `sigs.iter().map(..).filter(..).count()` is replaced by the stub count_dissatisfied (R9 on one expression)",
    "Stack::evaluate_pkh, evaluate_after, evaluate_older: bodies not verified here (contracts only)",
    "hash evaluators: `<[u8; 32]>::try_from(p).expect(..)` is replaced by the stub preimage32(p) whose precondition `p.len() == 32` keeps the panic an obligation",
    "SortedMulti / SortedMultiA share the arms of Multi / MultiA: the key ORDER clause is only meaningful for the unsorted variants (decode never produces the sorted ones, so the interpreter never sees them)",
]

PRELUDE = r"""
// ---- stubs of bitcoin / crate types the interpreter mentions (trusted, R7) -------------------------
mod sha256 { use vstd::prelude::*; verus!{ #[derive(Clone, Copy, PartialEq, Eq)] pub struct Hash(pub [u8; 32]); } }
mod hash256 { use vstd::prelude::*; verus!{ #[derive(Clone, Copy, PartialEq, Eq)] pub struct Hash(pub [u8; 32]); } }
mod ripemd160 { use vstd::prelude::*; verus!{ #[derive(Clone, Copy, PartialEq, Eq)] pub struct Hash(pub [u8; 20]); } }
mod absolute { use vstd::prelude::*; verus!{ #[derive(Clone, Copy)] pub struct LockTime(pub u32); } }
mod relative { use vstd::prelude::*; verus!{ #[derive(Clone, Copy)] pub struct LockTime(pub u32); } }
#[derive(Clone, Copy)]
pub struct Sequence(pub u32);
// bitcoin::Sequence::enables_absolute_lock_time: !is_final(), final = 0xffffffff (BIP65)
impl Sequence {
    #[verifier::external_body]
    pub fn enables_absolute_lock_time(&self) -> (r: bool) ensures r == (self.0 != 0xffff_ffffu32) { unimplemented!() }
}
#[derive(Clone, Copy, PartialEq, Eq)]
pub struct BitcoinKey { pub id: u64 }
impl MiniscriptKey for BitcoinKey {
    type Sha256 = sha256::Hash;
    type Hash256 = hash256::Hash;
    type Ripemd160 = ripemd160::Hash;
    type Hash160 = hash160::Hash;
    uninterp spec fn spec_is_uncompressed(&self) -> bool;
    #[verifier::external_body]
    fn is_uncompressed(&self) -> (r: bool) { unimplemented!() }
    uninterp spec fn spec_is_x_only_key(&self) -> bool;
    #[verifier::external_body]
    fn is_x_only_key(&self) -> (r: bool) { unimplemented!() }
}
pub struct NoChecks;
impl ScriptContext for NoChecks {}
#[derive(Clone, Copy)]
pub struct KeySigPair { pub opaque: u64 }
pub struct PkEvalErrInner { pub opaque: u64 }
pub struct VerifySig { pub opaque: u64 }

// the interpreter's Error, reduced to the variants named by the extracted text
pub enum Error {
    AbsoluteLockTimeNotMet(absolute::LockTime),
    CouldNotEvaluate,
    HashPreimageLengthMismatch,
    InsufficientSignaturesMultiSig,
    MissingExtraZeroMultiSig,
    MultiSigEvaluationError,
    PkEvaluationError(PkEvalErrInner),
    UnexpectedStackBoolean,
    UnexpectedStackEnd,
    UnexpectedStackElementPush,
    VerifyFailed,
    Other(u64),
}
"""

# everything below the extracted type definitions: uninterpreted primitives, evaluator oracles, step vocabulary
SPEC = r"""
impl vstd::std_specs::cmp::PartialEqSpecImpl for sha256::Hash { open spec fn obeys_eq_spec() -> bool { true } open spec fn eq_spec(&self, o: &sha256::Hash) -> bool { *self == *o } }
impl vstd::std_specs::cmp::PartialEqSpecImpl for hash256::Hash { open spec fn obeys_eq_spec() -> bool { true } open spec fn eq_spec(&self, o: &hash256::Hash) -> bool { *self == *o } }
impl vstd::std_specs::cmp::PartialEqSpecImpl for ripemd160::Hash { open spec fn obeys_eq_spec() -> bool { true } open spec fn eq_spec(&self, o: &ripemd160::Hash) -> bool { *self == *o } }
impl vstd::std_specs::cmp::PartialEqSpecImpl for hash160::Hash { open spec fn obeys_eq_spec() -> bool { true } open spec fn eq_spec(&self, o: &hash160::Hash) -> bool { *self == *o } }

// ---- uninterpreted primitives: hash functions, signature check, key hash, lock-time conversions -----
pub uninterp spec fn spec_sha256(d: Seq<u8>) -> sha256::Hash;
pub uninterp spec fn spec_hash256(d: Seq<u8>) -> hash256::Hash;
pub uninterp spec fn spec_ripemd160(d: Seq<u8>) -> ripemd160::Hash;
pub uninterp spec fn spec_hash160(d: Seq<u8>) -> hash160::Hash;
impl sha256::Hash { #[verifier::external_body] pub fn hash(d: &[u8]) -> (r: sha256::Hash) ensures r == spec_sha256(d@) { unimplemented!() } }
impl hash256::Hash { #[verifier::external_body] pub fn hash(d: &[u8]) -> (r: hash256::Hash) ensures r == spec_hash256(d@) { unimplemented!() } }
impl ripemd160::Hash { #[verifier::external_body] pub fn hash(d: &[u8]) -> (r: ripemd160::Hash) ensures r == spec_ripemd160(d@) { unimplemented!() } }
impl hash160::Hash { #[verifier::external_body] pub fn hash(d: &[u8]) -> (r: hash160::Hash) ensures r == spec_hash160(d@) { unimplemented!() } }
#[verifier::external_body]
fn preimage32(p: &[u8]) -> (r: [u8; 32]) requires p@.len() == 32 ensures r@ == p@ { unimplemented!() }

pub uninterp spec fn spec_sersig(v: VerifySig, pk: BitcoinKey, sig: Seq<u8>) -> Result<KeySigPair, Error>;
pub uninterp spec fn spec_sersig_next(v: VerifySig, pk: BitcoinKey, sig: Seq<u8>) -> VerifySig;
pub uninterp spec fn spec_pubkeyhash(pk: BitcoinKey, t: SigType) -> hash160::Hash;
impl BitcoinKey { #[verifier::external_body] fn to_pubkeyhash(self, sig_type: SigType) -> (r: hash160::Hash) ensures r == spec_pubkeyhash(self, sig_type) { unimplemented!() } }
#[verifier::external_body]
fn pk_eval_err_inner_from(pk: BitcoinKey) -> PkEvalErrInner { unimplemented!() }
// `absolute::LockTime::from(AbsLockTime)` / `RelLockTime.into()`: value preserving (proved by Kani: k13_interp
// after_arm_conversion / older_arm.conversion_preserves_n, the latter up to BIP68's mask, which BIP112 applies anyway)
#[verifier::external_body]
fn abs_lock_from(n: AbsLockTime) -> (r: absolute::LockTime) ensures r.0 == n.consensus() { unimplemented!() }
#[verifier::external_body]
fn rel_lock_from(n: RelLockTime) -> (r: relative::LockTime) ensures r.0 == n.consensus() { unimplemented!() }
#[verifier::external_body]
fn count_dissatisfied<'a>(sigs: &Vec<Element<'a>>) -> (r: usize)
    ensures r <= sigs@.len(), (r == sigs@.len()) <==> (forall|i: int| 0 <= i < sigs@.len() ==> sigs@[i] is Dissatisfied)
{ unimplemented!() }

// ---- vocabulary ------------------------------------------------------------------------------------
pub type Res = Option<Result<SatisfiedConstraint, Error>>;
pub open spec fn aborts(r: Res) -> bool { r is Some && r->Some_0 is Err }
pub open spec fn goes_on(r: Res) -> bool { r is None }
pub open spec fn reports(r: Res, c: SatisfiedConstraint) -> bool { r is Some && r->Some_0 is Ok && r->Some_0->Ok_0 == c }
pub open spec fn b2e<'a>(b: bool) -> Element<'a> { if b { Element::Satisfied } else { Element::Dissatisfied } }
pub open spec fn is_bool(e: Element) -> bool { e is Satisfied || e is Dissatisfied }
pub open spec fn truth(e: Element) -> bool { e is Satisfied }
impl<'txin> Stack<'txin> { pub open spec fn v(&self) -> Seq<Element<'txin>> { self.0@ } }

// ---- the leaf evaluators' oracles: opcode semantics of the leaf templates ----------------------------
// <key> CHECKSIG on top element `sig`: empty signature -> 0 is pushed; valid signature -> 1 is pushed and the
// (key, sig) pair is what was checked; anything else aborts (the interpreter is stricter than consensus here:
// NULLFAIL).  `s`/`s2` stack before/after, `v`/`v2` the signature checker before/after.
pub open spec fn checksig_post(pk: BitcoinKey, v: VerifySig, v2: VerifySig, s: Seq<Element>, s2: Seq<Element>, r: Res) -> bool {
    &&& (s.len() == 0 ==> aborts(r))
    &&& (s.len() > 0 && s.last() is Satisfied ==> aborts(r))
    &&& (s.len() > 0 && s.last() is Dissatisfied ==> goes_on(r) && s2 =~= s && v2 == v)
    &&& (s.len() > 0 && s.last() is Push && spec_sersig(v, pk, s.last()->Push_0@) is Err ==> aborts(r))
    &&& (s.len() > 0 && s.last() is Push && spec_sersig(v, pk, s.last()->Push_0@) is Ok ==>
            reports(r, SatisfiedConstraint::PublicKey { key_sig: spec_sersig(v, pk, s.last()->Push_0@)->Ok_0 })
            && s2 =~= s.drop_last().push(Element::Satisfied) && v2 == spec_sersig_next(v, pk, s.last()->Push_0@))
}
// one comparison of CHECKMULTISIG: the top signature against `pk`; a match consumes the signature, a mismatch
// leaves it for the next key
pub open spec fn multisig_cmp_post(pk: BitcoinKey, v: VerifySig, v2: VerifySig, s: Seq<Element>, s2: Seq<Element>, r: Res) -> bool {
    &&& (s.len() == 0 ==> aborts(r))
    &&& (s.len() > 0 && !(s.last() is Push) ==> aborts(r))
    &&& (s.len() > 0 && s.last() is Push && spec_sersig(v, pk, s.last()->Push_0@) is Err ==> goes_on(r) && s2 =~= s)
    &&& (s.len() > 0 && s.last() is Push && spec_sersig(v, pk, s.last()->Push_0@) is Ok ==>
            reports(r, SatisfiedConstraint::PublicKey { key_sig: spec_sersig(v, pk, s.last()->Push_0@)->Ok_0 }) && s2 =~= s.drop_last())
}
// SIZE <32> EQUALVERIFY <H> <h> EQUAL : size != 32 (that includes [] and [1]) aborts; else the result is H(top) == h
pub open spec fn hashlock_post(s: Seq<Element>, s2: Seq<Element>, r: Res, hit: bool, what: HashLockType) -> bool {
    &&& (s.len() == 0 ==> aborts(r))
    &&& (s.len() > 0 && !(s.last() is Push) ==> aborts(r))
    &&& (s.len() > 0 && s.last() is Push && s.last()->Push_0@.len() != 32 ==> aborts(r))
    &&& (s.len() > 0 && s.last() is Push && s.last()->Push_0@.len() == 32 && !hit ==> goes_on(r) && s2 =~= s.drop_last().push(Element::Dissatisfied))
    &&& (s.len() > 0 && s.last() is Push && s.last()->Push_0@.len() == 32 && hit ==>
            s2 =~= s.drop_last().push(Element::Satisfied) && r is Some && r->Some_0 is Ok
            && r->Some_0->Ok_0 is HashLock && r->Some_0->Ok_0->HashLock_hash == what && r->Some_0->Ok_0->HashLock_preimage@ == s.last()->Push_0@)
}
pub open spec fn top_bytes(s: Seq<Element>) -> Seq<u8> { if s.len() > 0 && s.last() is Push { s.last()->Push_0@ } else { Seq::empty() } }
// BIP65 on the two u32 values (rule on the input's nSequence: see clause After.bip65_final_input)
pub open spec fn bip65_values_ok(n: u32, lock_time: u32) -> bool { ((n < 500_000_000) == (lock_time < 500_000_000)) && n <= lock_time }
// BIP112 on the two u32 values (n without disable flag; tx.version is not available to the interpreter)
pub open spec fn bip112_values_ok(n: u32, seq: u32) -> bool {
    seq & 0x8000_0000u32 == 0 && (n & 0x0040_0000u32) == (seq & 0x0040_0000u32) && (n & 0xffffu32) <= (seq & 0xffffu32)
}
// <n> CHECKLOCKTIMEVERIFY / <n> CHECKSEQUENCEVERIFY leave <n> (non-zero = true) on the stack or abort
pub open spec fn timelock_post(ok: bool, c: SatisfiedConstraint, s: Seq<Element>, s2: Seq<Element>, r: Res) -> bool {
    &&& (ok ==> reports(r, c) && s2 =~= s.push(Element::Satisfied))
    &&& (!ok ==> aborts(r) && s2 =~= s)
}
// DUP HASH160 <h> EQUALVERIFY CHECKSIG (trusted: evaluate_pkh is not verified): only the stack shape is stated
pub uninterp spec fn spec_pkh_result(v: VerifySig, pkh: hash160::Hash, t: SigType, s: Seq<Element>) -> Res;
pub open spec fn pkh_post(s: Seq<Element>, s2: Seq<Element>, r: Res) -> bool {
    &&& (goes_on(r) ==> s.len() >= 2 && s2 =~= s.drop_last().drop_last().push(Element::Dissatisfied))
    &&& (r is Some && r->Some_0 is Ok ==> s.len() >= 2 && s2 =~= s.drop_last().drop_last().push(Element::Satisfied) && r->Some_0->Ok_0 is PublicKeyHash)
}
"""

STEP_SPEC = r"""
// ---- the step's vocabulary ---------------------------------------------------------------------------
pub type Ms = Miniscript<BitcoinKey, NoChecks>;
pub open spec fn stk<'a, 'b>(it: Iter<'a, 'b>) -> Seq<Element<'b>> { it.stack.0@ }
pub open spec fn sts<'a, 'b>(it: Iter<'a, 'b>) -> Seq<NodeEvaluationState<'a>> { it.state@ }
pub open spec fn frame(o: Iter, f: Iter) -> bool {
    f.sequence == o.sequence && f.lock_time == o.lock_time && f.sig_type == o.sig_type && f.public_key == o.public_key && f.has_errored == o.has_errored
}
pub open spec fn st<'a>(node: &'a Ms, ne: usize, ns: usize) -> NodeEvaluationState<'a> { NodeEvaluationState { node: node, n_evaluated: ne, n_satisfied: ns } }
pub open spec fn kid<'a>(x: &'a Arc<Ms>) -> NodeEvaluationState<'a> { NodeEvaluationState { node: &**x, n_evaluated: 0, n_satisfied: 0 } }
pub open spec fn same_state(o: Iter, f: Iter) -> bool { sts(f) =~= sts(o) }
pub open spec fn same_sigs(o: Iter, f: Iter) -> bool { f.verify_sig == o.verify_sig }
pub open spec fn pushed1<'a, 'b>(o: Iter<'a, 'b>, f: Iter<'a, 'b>, a: NodeEvaluationState<'a>) -> bool { sts(f) =~= sts(o).push(a) }
// b is on top of a: b is evaluated first, a is visited when b (and everything b schedules) is done
pub open spec fn pushed2<'a, 'b>(o: Iter<'a, 'b>, f: Iter<'a, 'b>, a: NodeEvaluationState<'a>, b: NodeEvaluationState<'a>) -> bool { sts(f) =~= sts(o).push(a).push(b) }
pub open spec fn stack_same(o: Iter, f: Iter) -> bool { stk(f) =~= stk(o) }
pub open spec fn has_top(o: Iter) -> bool { stk(o).len() > 0 }
pub open spec fn top<'a, 'b>(o: Iter<'a, 'b>) -> Element<'b> { stk(o).last() }
pub open spec fn popped(o: Iter, f: Iter) -> bool { has_top(o) && stk(f) =~= stk(o).drop_last() }
pub open spec fn replaced<'a, 'b>(o: Iter<'a, 'b>, f: Iter<'a, 'b>, e: Element<'b>) -> bool { has_top(o) && stk(f) =~= stk(o).drop_last().push(e) }
pub open spec fn spushed<'a, 'b>(o: Iter<'a, 'b>, f: Iter<'a, 'b>, e: Element<'b>) -> bool { stk(f) =~= stk(o).push(e) }
// abstraction function: what the revisit state of and_b / or_b remembers of the first operand
pub open spec fn rec_left(s: NodeEvaluationState) -> bool { s.n_satisfied == 1 }
// abstraction function: the running sum of `[X1] [X2] ADD ... [Xi] ADD` held in the revisit state of thresh,
// and the number of matched keys of multi / multi_a
pub open spec fn rec_count(s: NodeEvaluationState) -> int { s.n_satisfied as int }
pub open spec fn b2i(b: bool) -> int { if b { 1 } else { 0 } }

// the state machine's invariant on (node kind, n_evaluated, n_satisfied); every child is scheduled as (0, 0)
pub open spec fn inv3(t: Terminal<BitcoinKey, NoChecks>, ne: usize, ns: usize) -> bool {
    match t {
        Terminal::DupIf(_) => (ne == 0 && ns == 0) || (ne == 1 && ns == 1),
        Terminal::Verify(_) => ne <= 1 && ns == 0,
        Terminal::ZeroNotEqual(_) => ne <= 1 && ns == 0,
        Terminal::AndB(_, _) => (ne <= 1 && ns == 0) || (ne == 2 && ns <= 1),
        Terminal::OrB(_, _) => (ne <= 1 && ns == 0) || (ne == 2 && ns <= 1),
        Terminal::AndOr(_, _, _) => ne <= 1 && ns == 0,
        Terminal::OrC(_, _) => ne <= 1 && ns == 0,
        Terminal::OrD(_, _) => ne <= 1 && ns == 0,
        Terminal::Thresh(t) => (ne == 0 && ns == 0) || (1 <= ne && ne <= t.spec_n() && ns < ne),
        Terminal::MultiA(t) => ne <= t.spec_n() && ns <= ne,
        Terminal::SortedMultiA(t) => ne <= t.spec_n() && ns <= ne,
        Terminal::Multi(t) => ne <= t.spec_n() && ns <= ne && ns <= t.spec_k(),
        Terminal::SortedMulti(t) => ne <= t.spec_n() && ns <= ne && ns <= t.spec_k(),
        _ => ne == 0 && ns == 0,
    }
}
pub open spec fn inv_state(s: NodeEvaluationState) -> bool { inv3(s.node.node, s.n_evaluated, s.n_satisfied) }
// Threshold's type invariant (established by Threshold::new; C12) for the node being stepped
pub open spec fn node_wf(m: &Ms) -> bool {
    match m.node {
        Terminal::Thresh(t) => t.wf(),
        Terminal::Multi(t) => t.wf(),
        Terminal::SortedMulti(t) => t.wf(),
        Terminal::MultiA(t) => t.wf(),
        Terminal::SortedMultiA(t) => t.wf(),
        _ => true,
    }
}
"""


def _split_alternatives(pat):
    """Split a pattern at its top-level `|`."""
    alts, depth, cur = [], 0, ""
    for ch in pat:
        if ch in "([{":
            depth += 1
        elif ch in ")]}":
            depth -= 1
        if ch == "|" and depth == 0:
            alts.append(cur.strip())
            cur = ""
        else:
            cur += ch
    alts.append(cur.strip())
    return [a for a in alts if a]


def step_text(vf, repo, rel, anchor, signature, rewrites=(), arm_rewrites=None):
    """Unit-local variant of VerusFile.step: the arms of the match are cut verbatim; the generated wrapper
    is  `<signature> { match <scrutinee> { ARMS }; None }`  (arms of this match have type `()`; leaving the
    match means the `while let` loop of iter_next goes on, which the step function reports as None)."""
    reg = repo.at(rel, anchor)
    arms = split_arms(reg.src, reg.start, reg.end)
    if not arms:
        raise Undecided("no match arms at %s %s" % (rel, anchor))
    out, pats = [], []
    for a in arms:
        pat_n = re.sub(r"\s+", " ", a["pat"])
        guard = (" if " + a["guard"]) if a["guard"] else ""
        pats.append(pat_n + guard)
        alts = _split_alternatives(a["pat"])
        if a["guard"] and len(alts) > 1:
            # R12 (Verus: "match arm containing both an or-pattern and a match-guard" unsupported):
            # `A | B if g => e`  ->  `A if g => e, B if g => e`  (adjacent arms, same guard, same body)
            vf.rewrites_used.append("R12 or-pattern+guard split @ %s" % pat_n[:50])
            for alt in alts:
                out.append("        %s%s => %s," % (alt, guard, a["body"]))
        else:
            out.append("        %s%s => %s," % (a["pat"], guard, a["body"]))
    text = "%s {\n    match %s {\n%s\n    };\n    None\n}\n" % (signature.strip(), reg.scrutinee, "\n".join(out))
    text = drop_vis(strip_docs(text))
    text = vf._apply(text, rewrites, anchor)
    return reg, text, pats


# ------------------------------------------------------------------------------------------------------
# clauses of the step: one per (variant, state index)
# ------------------------------------------------------------------------------------------------------
N = "node_state.node.node"
NE = "node_state.n_evaluated"
NS = "node_state.n_satisfied"
O = "*old(self)"
F = "*final(self)"


def _fmt(s):
    return s.replace("$NE", NE).replace("$NS", NS).replace("$N", N).replace("$O", O).replace("$F", F).replace("$ME", "node_state.node")


def C(tag, cond, *concl):
    body = "({\n &&& %s })" % "\n &&& ".join("(%s)" % c for c in concl)
    if " matches " in cond and " && " in cond:
        # `x matches P(a) && c ==> ..` would end a's scope at `==>`: nest the implication instead
        m, rest = cond.split(" && ", 1)
        return Clause(tag, ("C13",), _fmt("%s ==> ((%s) ==> %s)" % (m, rest, body)))
    return Clause(tag, ("C13",), _fmt("%s ==> %s" % (cond, body)))


# common: a selector / result is read from the top of the stack; nothing to read or a non-boolean aborts
SEL_ABORT = ["!has_top($O) ==> aborts(r)", "has_top($O) && top($O) is Push ==> aborts(r)"]
CONT = "goes_on(r)"


def step_clauses():
    cl = []
    # ---- 0 / 1 -----------------------------------------------------------------------------------------
    cl.append(C("True.push_one", "$N is True", CONT, "spushed($O, $F, Element::Satisfied)", "same_state($O, $F)"))
    cl.append(C("False.push_zero", "$N is False", CONT, "spushed($O, $F, Element::Dissatisfied)", "same_state($O, $F)"))
    # ---- leaves: the right evaluator with the right operands, result forwarded, nothing scheduled ------------
    cl.append(C("PkK.checksig", "$N matches Terminal::PkK(pk)",
                "checksig_post(pk, ($O).verify_sig, ($F).verify_sig, stk($O), stk($F), r)", "same_state($O, $F)"))
    # (evaluate_pkh is trusted: the clauses pin which key hash / signature type reach it and that its result is forwarded)
    cl.append(C("PkH.pkh", "$N matches Terminal::PkH(pk)", "pkh_post(stk($O), stk($F), r)", "same_state($O, $F)",
                "r == spec_pkh_result(($O).verify_sig, spec_pubkeyhash(pk, ($O).sig_type), ($O).sig_type, stk($O))"))
    cl.append(C("RawPkH.pkh", "$N matches Terminal::RawPkH(h)", "pkh_post(stk($O), stk($F), r)", "same_state($O, $F)",
                "r == spec_pkh_result(($O).verify_sig, h, ($O).sig_type, stk($O))"))
    cl.append(C("After.bip65_locktime", "$N matches Terminal::After(n) && ($O).sequence.0 != 0xffff_ffffu32",
                "timelock_post(bip65_values_ok(n.consensus(), ($O).lock_time.0), SatisfiedConstraint::AbsoluteTimelock { n: absolute::LockTime(n.consensus()) }, stk($O), stk($F), r)",
                "same_state($O, $F)"))
    # BIP65: "the nSequence field of the txin is 0xffffffff" => CHECKLOCKTIMEVERIFY fails
    cl.append(C("After.bip65_final_input", "$N is After && ($O).sequence.0 == 0xffff_ffffu32", "aborts(r)"))
    cl.append(C("Older.bip112", "$N matches Terminal::Older(n)",
                "timelock_post(bip112_values_ok(n.consensus(), ($O).sequence.0), SatisfiedConstraint::RelativeTimelock { n: relative::LockTime(n.consensus()) }, stk($O), stk($F), r)",
                "same_state($O, $F)"))
    for v, f, hl in (("Sha256", "spec_sha256", "Sha256"), ("Hash256", "spec_hash256", "Hash256"),
                     ("Ripemd160", "spec_ripemd160", "Ripemd160"), ("Hash160", "spec_hash160", "Hash160")):
        cl.append(C("%s.hashlock" % v, "$N matches Terminal::%s(h)" % v,
                    "hashlock_post(stk($O), stk($F), r, %s(top_bytes(stk($O))) == h, HashLockType::%s(h))" % (f, hl), "same_state($O, $F)"))
    # ---- a: s: c:  (TOALTSTACK [X] FROMALTSTACK / SWAP [X] / [X] CHECKSIG with the check done at the key leaf) ----
    for v in ("Alt", "Swap", "Check"):
        cl.append(C("%s.transparent" % v, "$N matches Terminal::%s(x)" % v, CONT, "stack_same($O, $F)", "pushed1($O, $F, kid(&x))"))
    # ---- d:X  DUP IF [X] ENDIF ------------------------------------------------------------------------------
    cl.append(C("DupIf.select", "$N matches Terminal::DupIf(x) && $NE == 0", *SEL_ABORT,
                "has_top($O) && top($O) is Dissatisfied ==> goes_on(r) && stack_same($O, $F) && same_state($O, $F)",
                "has_top($O) && top($O) is Satisfied ==> goes_on(r) && popped($O, $F) && pushed2($O, $F, st($ME, 1, 1), kid(&x))"))
    cl.append(C("DupIf.after_child", "$N is DupIf && $NE == 1", CONT, "spushed($O, $F, Element::Satisfied)", "same_state($O, $F)"))
    # ---- v:X  [X] VERIFY ;  n:X  [X] 0NOTEQUAL ---------------------------------------------------------------
    cl.append(C("Verify.start", "$N matches Terminal::Verify(x) && $NE == 0", CONT, "stack_same($O, $F)", "pushed2($O, $F, st($ME, 1, 0), kid(&x))"))
    cl.append(C("Verify.after_child", "$N is Verify && $NE == 1",
                "!has_top($O) ==> aborts(r)",
                "has_top($O) && !(top($O) is Satisfied) ==> aborts(r)",
                "has_top($O) && top($O) is Satisfied ==> goes_on(r) && popped($O, $F) && same_state($O, $F)"))
    cl.append(C("ZeroNotEqual.start", "$N matches Terminal::ZeroNotEqual(x) && $NE == 0", CONT, "stack_same($O, $F)", "pushed2($O, $F, st($ME, 1, 0), kid(&x))"))
    cl.append(C("ZeroNotEqual.after_child", "$N is ZeroNotEqual && $NE == 1",
                "!has_top($O) ==> aborts(r)",
                "has_top($O) && top($O) is Dissatisfied ==> goes_on(r) && stack_same($O, $F) && same_state($O, $F)",
                "has_top($O) && !(top($O) is Dissatisfied) ==> goes_on(r) && replaced($O, $F, Element::Satisfied) && same_state($O, $F)"))
    # ---- j:X  SIZE 0NOTEQUAL IF [X] ENDIF --------------------------------------------------------------------
    cl.append(C("NonZero.select", "$N matches Terminal::NonZero(x)",
                "!has_top($O) ==> aborts(r)",
                "has_top($O) && top($O) is Dissatisfied ==> goes_on(r) && stack_same($O, $F) && same_state($O, $F)",
                "has_top($O) && !(top($O) is Dissatisfied) ==> goes_on(r) && stack_same($O, $F) && pushed1($O, $F, kid(&x))"))
    # ---- and_v  [X] [Y] --------------------------------------------------------------------------------------
    cl.append(C("AndV.sequence", "$N matches Terminal::AndV(x, y)", CONT, "stack_same($O, $F)", "pushed2($O, $F, kid(&y), kid(&x))"))
    # ---- and_b  [X] [Y] BOOLAND ;  or_b  [X] [Z] BOOLOR -------------------------------------------------------
    for v, op in (("AndB", "&&"), ("OrB", "||")):
        cl.append(C("%s.start" % v, "$N matches Terminal::%s(x, y) && $NE == 0" % v, CONT, "stack_same($O, $F)", "pushed2($O, $F, st($ME, 1, 0), kid(&x))"))
        cl.append(C("%s.after_left" % v, "$N matches Terminal::%s(x, y) && $NE == 1" % v, *SEL_ABORT,
                    "has_top($O) && is_bool(top($O)) ==> goes_on(r) && popped($O, $F) && sts($F).len() == sts($O).len() + 2"
                    " && sts($F).subrange(0, sts($O).len() as int) =~= sts($O) && sts($F).last() == kid(&y)"
                    " && sts($F)[sts($O).len() as int].node == $ME && sts($F)[sts($O).len() as int].n_evaluated == 2"
                    " && rec_left(sts($F)[sts($O).len() as int]) == truth(top($O))"))
        cl.append(C("%s.after_right" % v, "$N is %s && $NE == 2" % v,
                    "!has_top($O) ==> aborts(r)",
                    "has_top($O) && is_bool(top($O)) ==> goes_on(r) && replaced($O, $F, b2e(rec_left(node_state) %s truth(top($O)))) && same_state($O, $F)" % op))
    # ---- andor  [X] NOTIF [Z] ELSE [Y] ENDIF ;  or_c  [X] NOTIF [Z] ENDIF ;  or_d  [X] IFDUP NOTIF [Z] ENDIF ------
    cl.append(C("AndOr.start", "$N matches Terminal::AndOr(x, y, z) && $NE == 0", CONT, "stack_same($O, $F)", "pushed2($O, $F, st($ME, 1, 0), kid(&x))"))
    cl.append(C("AndOr.after_left", "$N matches Terminal::AndOr(x, y, z) && $NE == 1", *SEL_ABORT,
                "has_top($O) && top($O) is Satisfied ==> goes_on(r) && popped($O, $F) && pushed1($O, $F, kid(&y))",
                "has_top($O) && top($O) is Dissatisfied ==> goes_on(r) && popped($O, $F) && pushed1($O, $F, kid(&z))"))
    cl.append(C("OrC.start", "$N matches Terminal::OrC(x, z) && $NE == 0", CONT, "stack_same($O, $F)", "pushed2($O, $F, st($ME, 1, 0), kid(&x))"))
    cl.append(C("OrC.after_left", "$N matches Terminal::OrC(x, z) && $NE == 1", *SEL_ABORT,
                "has_top($O) && top($O) is Satisfied ==> goes_on(r) && popped($O, $F) && same_state($O, $F)",
                "has_top($O) && top($O) is Dissatisfied ==> goes_on(r) && popped($O, $F) && pushed1($O, $F, kid(&z))"))
    cl.append(C("OrD.start", "$N matches Terminal::OrD(x, z) && $NE == 0", CONT, "stack_same($O, $F)", "pushed2($O, $F, st($ME, 1, 0), kid(&x))"))
    cl.append(C("OrD.after_left", "$N matches Terminal::OrD(x, z) && $NE == 1", *SEL_ABORT,
                "has_top($O) && top($O) is Satisfied ==> goes_on(r) && stack_same($O, $F) && same_state($O, $F)",
                "has_top($O) && top($O) is Dissatisfied ==> goes_on(r) && popped($O, $F) && pushed1($O, $F, kid(&z))"))
    # ---- or_i  IF [X] ELSE [Z] ENDIF ---------------------------------------------------------------------------
    cl.append(C("OrI.select", "$N matches Terminal::OrI(x, z)", *SEL_ABORT,
                "has_top($O) && top($O) is Satisfied ==> goes_on(r) && popped($O, $F) && pushed1($O, $F, kid(&x))",
                "has_top($O) && top($O) is Dissatisfied ==> goes_on(r) && popped($O, $F) && pushed1($O, $F, kid(&z))"))
    # ---- thresh  [X1] [X2] ADD ... [Xn] ADD <k> EQUAL ------------------------------------------------------------
    cl.append(C("Thresh.start", "$N matches Terminal::Thresh(t) && $NE == 0", CONT, "stack_same($O, $F)",
                "pushed2($O, $F, st($ME, 1, 0), kid(&t.elems()[0]))"))
    cl.append(C("Thresh.next", "$N matches Terminal::Thresh(t) && 0 < $NE < t.spec_n()", *SEL_ABORT,
                "has_top($O) && is_bool(top($O)) ==> goes_on(r) && popped($O, $F) && sts($F).len() == sts($O).len() + 2"
                " && sts($F).subrange(0, sts($O).len() as int) =~= sts($O) && sts($F).last() == kid(&t.elems()[$NE as int])"
                " && sts($F)[sts($O).len() as int].node == $ME && sts($F)[sts($O).len() as int].n_evaluated == $NE + 1"
                " && rec_count(sts($F)[sts($O).len() as int]) == rec_count(node_state) + b2i(truth(top($O)))"))
    cl.append(C("Thresh.final", "$N matches Terminal::Thresh(t) && $NE == t.spec_n()", *SEL_ABORT,
                "has_top($O) && is_bool(top($O)) ==> goes_on(r) && same_state($O, $F)"
                " && replaced($O, $F, b2e(rec_count(node_state) + b2i(truth(top($O))) == t.spec_k()))"))
    # ---- multi_a  <k1> CHECKSIG <k2> CHECKSIGADD ... <kn> CHECKSIGADD <k> NUMEQUAL --------------------------------
    cl.append(C("MultiA.next", "$N matches Terminal::MultiA(t) && $NE < t.spec_n()",
                "!has_top($O) ==> aborts(r)",
                "has_top($O) && top($O) is Satisfied ==> aborts(r)",
                "has_top($O) && top($O) is Dissatisfied ==> goes_on(r) && popped($O, $F) && pushed1($O, $F, st($ME, ($NE + 1) as usize, $NS))",
                "has_top($O) && top($O) is Push && spec_sersig(($O).verify_sig, t.elems()[$NE as int], top_bytes(stk($O))) is Err ==> aborts(r)",
                "has_top($O) && top($O) is Push && spec_sersig(($O).verify_sig, t.elems()[$NE as int], top_bytes(stk($O))) is Ok ==> "
                "reports(r, SatisfiedConstraint::PublicKey { key_sig: spec_sersig(($O).verify_sig, t.elems()[$NE as int], top_bytes(stk($O)))->Ok_0 })"
                " && popped($O, $F) && pushed1($O, $F, st($ME, ($NE + 1) as usize, ($NS + 1) as usize))"))
    cl.append(C("MultiA.final", "$N matches Terminal::MultiA(t) && $NE == t.spec_n()", CONT, "same_state($O, $F)",
                "spushed($O, $F, b2e(rec_count(node_state) == t.spec_k()))"))
    # ---- multi  <k> <k1> ... <kn> <n> CHECKMULTISIG ---------------------------------------------------------------
    # all-empty dissatisfaction `0 0 ... 0` (k+1 elements) -> 0 ; anything else that starts with an empty top aborts
    cl.append(C("Multi.dissat", "$N matches Terminal::Multi(t) && $NE == 0 && has_top($O) && top($O) is Dissatisfied",
                "stk($O).len() < t.spec_k() + 1 ==> aborts(r)",
                "stk($O).len() >= t.spec_k() + 1 && (forall|i: int| stk($O).len() - (t.spec_k() + 1) <= i < stk($O).len() ==> stk($O)[i] is Dissatisfied)"
                " ==> goes_on(r) && same_state($O, $F) && stk($F) =~= stk($O).subrange(0, stk($O).len() - (t.spec_k() + 1)).push(Element::Dissatisfied)",
                "stk($O).len() >= t.spec_k() + 1 && !(forall|i: int| stk($O).len() - (t.spec_k() + 1) <= i < stk($O).len() ==> stk($O)[i] is Dissatisfied) ==> aborts(r)"))
    # the comparison loop of CHECKMULTISIG: keys from the last to the first, signatures from the top down
    cl.append(C("Multi.compare", "$N matches Terminal::Multi(t) && $NS < t.spec_k() && $NE < t.spec_n() && !($NE == 0 && has_top($O) && top($O) is Dissatisfied)"
                " && !($NE == 0 && stk($O).len() < t.spec_k() + 1)",
                "!has_top($O) ==> aborts(r)",
                "has_top($O) && !(top($O) is Push) ==> aborts(r)",
                "has_top($O) && top($O) is Push && spec_sersig(($O).verify_sig, t.elems()[t.spec_n() - $NE - 1], top_bytes(stk($O))) is Err ==> "
                "goes_on(r) && stack_same($O, $F) && pushed1($O, $F, st($ME, ($NE + 1) as usize, $NS))",
                "has_top($O) && top($O) is Push && spec_sersig(($O).verify_sig, t.elems()[t.spec_n() - $NE - 1], top_bytes(stk($O))) is Ok ==> "
                "reports(r, SatisfiedConstraint::PublicKey { key_sig: spec_sersig(($O).verify_sig, t.elems()[t.spec_n() - $NE - 1], top_bytes(stk($O)))->Ok_0 })"
                " && popped($O, $F) && pushed1($O, $F, st($ME, ($NE + 1) as usize, ($NS + 1) as usize))"))
    cl.append(C("Multi.too_few_elements", "$N matches Terminal::Multi(t) && $NE == 0 && stk($O).len() < t.spec_k() + 1", "aborts(r)"))
    # all k signatures matched: the dummy element must be empty (NULLDUMMY, BIP147), result 1
    cl.append(C("Multi.final", "$N matches Terminal::Multi(t) && $NE != 0 && rec_count(node_state) == t.spec_k()",
                "!has_top($O) || !(top($O) is Dissatisfied) ==> aborts(r)",
                "has_top($O) && top($O) is Dissatisfied ==> goes_on(r) && replaced($O, $F, Element::Satisfied) && same_state($O, $F)"))
    cl.append(C("Multi.keys_exhausted", "$N matches Terminal::Multi(t) && $NE != 0 && $NS < t.spec_k() && $NE == t.spec_n()", "aborts(r)"))
    return cl


VARIANTS = ["True", "False", "PkK", "PkH", "RawPkH", "After", "Older", "Sha256", "Hash256", "Ripemd160", "Hash160",
            "Alt", "Swap", "Check", "DupIf", "Verify", "NonZero", "ZeroNotEqual", "AndV", "AndB", "AndOr", "OrB", "OrD", "OrC", "OrI",
            "Thresh", "Multi", "SortedMulti", "MultiA", "SortedMultiA"]

GLOBAL = [
    Clause("inv_preserved", ("C13", "C11"), _fmt("forall|i: int| sts($O).len() <= i < sts($F).len() ==> inv_state(#[trigger] sts($F)[i])")),
    Clause("only_pushes", ("C13",), _fmt("sts($F).len() >= sts($O).len() && sts($F).subrange(0, sts($O).len() as int) =~= sts($O)")),
    Clause("frame", ("C13",), _fmt("frame($O, $F)")),
]
# under the invariant the catch-all arm `_ => CouldNotEvaluate` ("should not be reached in any valid type checked
# Miniscript") is dead.  Stated for the fragment kinds whose arms do not forward an evaluator's (unconstrained) error.
CATCH_ALL_DEAD = Clause("catch_all_dead", ("C13", "C11"), "!(r is Some && r->Some_0 is Err && r->Some_0->Err_0 is CouldNotEvaluate)")
NO_EVALUATOR = ("True", "False", "Alt", "Swap", "Check", "DupIf", "Verify", "NonZero", "ZeroNotEqual", "AndV", "AndB", "AndOr", "OrB", "OrD", "OrC", "OrI", "Thresh")


def stack_contracts():
    E = lambda tag, text: Clause(tag, ("C11",), text)
    return {
        "is_empty": Contract(ensures=[E("spec", "r == (self.v().len() == 0)")]),
        "len": Contract(ensures=[E("spec", "r == old(self).v().len() && final(self).v() == old(self).v()")]),
        "pop": Contract(ensures=[E("spec", "old(self).v().len() == 0 ==> r is None && final(self).v() == old(self).v()"),
                                 E("spec2", "old(self).v().len() > 0 ==> r == Some(old(self).v().last()) && final(self).v() == old(self).v().drop_last()")]),
        "push": Contract(ensures=[E("spec", "final(self).v() =~= old(self).v().push(elem)")]),
        "split_off": Contract(requires=["k <= old(self).v().len()"],
                              ensures=[E("spec", "final(self).v() == old(self).v().subrange(0, k as int) && r@ == old(self).v().subrange(k as int, old(self).v().len() as int)")]),
        "last": Contract(ensures=[E("spec", "self.v().len() == 0 ==> r is None"), E("spec2", "self.v().len() > 0 ==> r is Some && *r->Some_0 == self.v().last()")]),
    }


VS = lit("R7", "&mut Box<dyn FnMut(&KeySigPair) -> bool + 'intp>", "&mut VerifySig")


def build(repo):
    vf = VerusFile(NAME, repo)
    _tree.emit(vf, ext="opaque", types="defs")
    vf.raw(PRELUDE, keep_vis=True)
    vf.trust("prelude stubs sha256/hash256/ripemd160::Hash, absolute/relative::LockTime, Sequence, BitcoinKey, NoChecks, KeySigPair, PkEvalErrInner, VerifySig, Error",
             "bitcoin / crate types reduced to opaque Copy values; Error reduced to the variants the extracted text names")
    noderive = sub("derive-off", r"#\[derive\([^)]*\)\]\s*", "#[derive(Clone, Copy)]\n")
    vf.item(CTX, "enum:SigType", rewrites=[noderive])
    vf.item(STACK, "enum:Element", rewrites=[noderive])
    vf.item(STACK, "struct:Stack", rewrites=[sub("derive-off", r"#\[derive\([^)]*\)\]\s*", "")])
    vf.item(MOD, "enum:HashLockType", rewrites=[noderive])
    vf.item(MOD, "enum:SatisfiedConstraint", rewrites=[noderive])
    vf.item(MOD, "struct:NodeEvaluationState")
    vf.item(MOD, "struct:Iter", rewrites=[lit("R7", "Box<dyn FnMut(&KeySigPair) -> bool + 'intp>", "VerifySig")])
    vf.raw(SPEC)
    vf.trust("hash functions, verify_sersig, BitcoinKey::to_pubkeyhash, PkEvalErrInner::from (external_body, uninterpreted spec fns)",
             "no Script / secp / SHA executor: results are uninterpreted functions of their arguments (verify_sersig additionally of the FnMut's state)")
    vf.trust("PartialEqSpecImpl for the four hash stubs", "derived PartialEq on byte-array newtypes is structural equality")
    vf.trust("preimage32 (external_body)", "stands for <[u8; 32]>::try_from(slice).expect(..): requires len == 32 (so the expect is an obligation), returns the same bytes")
    vf.trust("abs_lock_from / rel_lock_from (external_body)", "the From conversions into bitcoin's lock-time types keep the consensus value: proved by Kani harnesses after_arm_conversion / evaluate_older_bip112 (k13_interp)")
    vf.trust("count_dissatisfied (external_body)", "stands for sigs.iter().map(|s| *s == Dissatisfied).filter(|e| *e).count(): only `== len <==> all Dissatisfied` and `<= len` are assumed")

    # ---- Stack: primitive operations (real text) ---------------------------------------------------------
    sc = stack_contracts()
    hash_rw = [sub("R7", r"<\[u8; 32\]>::try_from\(preimage\)\.expect\(\"length checked above\"\)", "preimage32(preimage)")]
    with vf.block("impl<'txin> Stack<'txin>"):
        for f in ("is_empty", "len", "pop", "push", "split_off", "last"):
            vf.fn(STACK, "impl:Stack/fn:%s" % f, qual="Stack", props=("C11",), contract=sc[f])
        # ---- leaf evaluators verified on their real text ---------------------------------------------------
        vf.fn(STACK, "impl:Stack/fn:evaluate_pk", qual="Stack", props=PROPS, rewrites=[VS, lit("R7", "PkEvalErrInner::from(pk)", "pk_eval_err_inner_from(pk)")],
              contract=Contract(ensures=[Clause("checksig", ("C13",), "checksig_post(pk, *old(verify_sig), *final(verify_sig), old(self).v(), final(self).v(), r)")]))
        vf.fn(STACK, "impl:Stack/fn:evaluate_multi", qual="Stack", props=PROPS, rewrites=[VS],
              contract=Contract(ensures=[Clause("checkmultisig_compare", ("C13",), "multisig_cmp_post(*pk, *old(verify_sig), *final(verify_sig), old(self).v(), final(self).v(), r)")]))
        for name, spec, hl in (("sha256", "spec_sha256", "Sha256"), ("hash256", "spec_hash256", "Hash256"),
                               ("hash160", "spec_hash160", "Hash160"), ("ripemd160", "spec_ripemd160", "Ripemd160")):
            vf.fn(STACK, "impl:Stack/fn:evaluate_%s" % name, qual="Stack", props=PROPS, rewrites=hash_rw,
                  contract=Contract(ensures=[Clause("size_rule_and_compare", ("C13",),
                                    "hashlock_post(old(self).v(), final(self).v(), r, %s(top_bytes(old(self).v())) == *hash, HashLockType::%s(*hash))" % (spec, hl))]))
    # ---- leaf evaluators consumed through their contracts only -------------------------------------------
    vf.raw(r"""
impl<'txin> Stack<'txin> {
    // proved by Kani (k13_interp: evaluate_after_bip65) from the same statement
    #[verifier::external_body]
    fn evaluate_after(&mut self, n: &absolute::LockTime, lock_time: absolute::LockTime) -> (r: Option<Result<SatisfiedConstraint, Error>>)
        ensures timelock_post(bip65_values_ok(n.0, lock_time.0), SatisfiedConstraint::AbsoluteTimelock { n: *n }, old(self).v(), final(self).v(), r)
    { unimplemented!() }
    // proved by Kani (k13_interp: evaluate_older_bip112) from the same statement
    #[verifier::external_body]
    fn evaluate_older(&mut self, n: &relative::LockTime, sequence: Sequence) -> (r: Option<Result<SatisfiedConstraint, Error>>)
        ensures timelock_post(bip112_values_ok(n.0, sequence.0), SatisfiedConstraint::RelativeTimelock { n: *n }, old(self).v(), final(self).v(), r)
    { unimplemented!() }
    // NOT verified (key parsing through secp): trusted stack shape only
    #[verifier::external_body]
    fn evaluate_pkh(&mut self, verify_sig: &mut VerifySig, pkh: hash160::Hash, sig_type: SigType) -> (r: Option<Result<SatisfiedConstraint, Error>>)
        ensures pkh_post(old(self).v(), final(self).v(), r), r == spec_pkh_result(*old(verify_sig), pkh, sig_type, old(self).v())
    { unimplemented!() }
}
""", keep_vis=True)
    vf.trust("Stack::evaluate_after / evaluate_older (external_body)", "contracts proved complete by Kani in unit k13_interp (BIP65 / BIP112 on the raw u32 values, Satisfied pushed on success, stack untouched on error)")
    vf.trust("Stack::evaluate_pkh (external_body)", "not verified (bitcoin key parsing): only its stack shape (two elements replaced by one boolean, or an error) is assumed")
    vf.fn(MOD, "fn:verify_sersig", assumed=True, rewrites=[lit("R7", "&mut Box<dyn FnMut(&KeySigPair) -> bool + 'txin>", "&mut VerifySig")],
          contract=Contract(ensures=[Clause("uninterpreted", (), "r == spec_sersig(*old(verify_sig), *pk, sigser@) && *final(verify_sig) == spec_sersig_next(*old(verify_sig), *pk, sigser@)")]))

    # ---- the step ---------------------------------------------------------------------------------------
    vf.raw(STEP_SPEC)
    sig = "fn iter_step(&mut self, node_state: NodeEvaluationState<'intp>) -> Option<Result<SatisfiedConstraint, Error>>"
    with vf.block("impl<'intp, 'txin: 'intp> Iter<'intp, 'txin>"):
        vf.fn(MOD, "impl:Iter/fn:push_evaluation_state", qual="Iter", props=("C11",), contract=Contract(ensures=[
            Clause("spec", ("C11",), "pushed1(*old(self), *final(self), st(node, n_evaluated, n_satisfied)) && stack_same(*old(self), *final(self)) && frame(*old(self), *final(self)) && same_sigs(*old(self), *final(self))")]))
        reg, text, pats = step_text(vf, repo, MOD, "impl:Iter/fn:iter_next/match:node_state.node.node", sig, rewrites=[
            lit("R7", "stack::Element", "Element"),
            lit("R3", "Some(&Element::Dissatisfied)", "Some(Element::Dissatisfied)"),
            # Verus has no spec for core::panicking::assert_failed: same panic condition, only the message differs
            sub("R13", r"debug_assert_eq!\(([^,;]+), ([^,;]+)\);", r"debug_assert!(\1 == \2);"),
            sub("R7", r"absolute::LockTime::from\(\s*\*n,?\s*\)", "abs_lock_from(*n)"),
            lit("R7", "&(*n).into()", "&rel_lock_from(*n)"),
            sub("R9", r"sigs\s*\.iter\(\)\s*\.map\(\|sig\| \*sig == Element::Dissatisfied\)\s*\.filter\(\|empty\| \*empty\)\s*\.count\(\)", "count_dissatisfied(&sigs)"),
            # ghost hint: the split-off tail is the top k+1 elements of the old stack, index by index
            lit("R10", "let nonsat = count_dissatisfied(&sigs);", "let nonsat = count_dissatisfied(&sigs);\n"
                "proof { let s0 = old(self).stack.0@; let a = s0.len() - (thresh.spec_k() + 1);\n"
                "        assert(forall|i: int| a <= i < s0.len() ==> #[trigger] s0[i] == sigs@[i - a]); }"),
        ])
        # case split by fragment kind (keeps each SMT query small): the same text is verified once per Terminal
        # variant V under the extra precondition `node is V`, carrying V's clauses; exhaustiveness is a lemma
        clauses = step_clauses()
        for v in VARIANTS:
            mine = [c for c in clauses if c.tag.split(".")[0] == v]
            t2 = re.sub(r"\bfn\s+iter_step\b", "fn iter_step__%s" % v, text, count=1)
            vf.fn_text("Iter::iter_step__%s" % v, t2,
                       Contract(requires=["inv_state(node_state)", "node_wf(node_state.node)", "node_state.node.node is %s" % v],
                                ensures=GLOBAL + ([CATCH_ALL_DEAD] if v in NO_EVALUATOR else []) + mine),
                       PROPS, file=MOD, lines=reg.lines(), anchor="impl:Iter/fn:iter_next/match:node_state.node.node")
        unowned = [c.tag for c in clauses if c.tag.split(".")[0] not in VARIANTS]
        if unowned:
            raise Undecided("clauses without a case: %s" % unowned)
    vf.spec_obligation("Iter::iter_step__cases_exhaustive",
                       "proof fn iter_step__cases_exhaustive(t: Terminal<BitcoinKey, NoChecks>)\n    ensures %s,\n{}\n" % " || ".join("t is %s" % v for v in VARIANTS), PROPS)
    return vf
