"""C14 / C01: the numeric half of `PsbtInputSatisfier`'s lock-time checks on the COMPILED crate and dependency (Kani).

Companion of the Verus unit c14_psbt_satisfier, which verifies the real text of `check_after` / `check_older` against
BIP65 / BIP68 / BIP112 but consumes the `bitcoin` dependency's lock-time arithmetic through trusted stubs.  This unit
(1) discharges every one of those stubs on the compiled dependency over the full u32 / i32 / u16 domains (`dep_*`),
(2) re-checks the crate's lock-time satisfiers `impl Satisfier for Sequence / absolute::LockTime` (satisfy/mod.rs), and
(3) runs `PsbtInputSatisfier::{check_after, check_older}` on a real two-input `Psbt` with symbolic nVersion, nLockTime,
    both nSequence values, index and operand (twin of the Verus clauses, including the frame on the other input).
The dep_* / seq_* / abs_* harnesses are loop-free over their full input domain => complete; the two psbt_* harnesses fix the
number of inputs at 2 => bounded (the unbounded statement is the Verus unit's).  The map lookups are NOT run under Kani
(BTreeMap code; see DESIGN C14): they are decided by the Verus unit.
"""
NAME = "k14_psbt_satisfier"
ENGINE = "kani"
PROPS = ("C14", "C01", "C11")
INJECT = [("src/psbt/mod.rs", "contracts/kani/k14_psbt_satisfier.rs")]
TRUSTED = [
    "k14_psbt_satisfier: bitcoin::{Sequence, TxIn, absolute::LockTime, relative::LockTime, transaction::Version, Psbt} are executed as compiled; nothing stubbed",
    "k14_psbt_satisfier: Pk is instantiated at bitcoin::PublicKey (parametricity: the lock-time methods never touch a key; no key value is built, no secp call)",
    "k14_psbt_satisfier: psbt harnesses: two inputs, all PSBT maps empty (the lock-time checks read only unsigned_tx.{version, lock_time, input[index].sequence})",
]
_P = ("C14", "C01", "C11")
_B = "PSBT with exactly 2 inputs and empty maps; nVersion, nLockTime, both nSequence values, the index and the operand fully symbolic"
HARNESSES = [
    dict(name="dep_sequence_flags", fn="bitcoin::Sequence::{is_relative_lock_time, enables_absolute_lock_time}, TxIn::enables_lock_time", props=("C14",), kind="complete", tier="quick",
         tags=["C14:dep_sequence.is_relative_lock_time", "C14:dep_sequence.enables_absolute_lock_time", "C14:dep_txin.enables_lock_time"]),
    dict(name="dep_to_relative_lock_time", fn="bitcoin::Sequence::to_relative_lock_time", props=("C14",), kind="complete", tier="quick",
         tags=["C14:dep_to_relative_lock_time.none_iff_disabled", "C14:dep_to_relative_lock_time.type_flag_and_value"]),
    dict(name="dep_rel_is_implied_by", fn="bitcoin::relative::LockTime::is_implied_by", props=("C14",), kind="complete", tier="quick",
         tags=["C14:dep_rel_lock_time.consensus_is_flag_and_value", "C14:dep_rel_is_implied_by.same_unit_and_le"]),
    dict(name="dep_abs_is_implied_by", fn="bitcoin::absolute::LockTime::is_implied_by", props=("C14",), kind="complete", tier="quick",
         tags=["C14:dep_abs_lock_time.consensus_roundtrip", "C14:dep_abs_is_implied_by.same_unit_and_le"]),
    dict(name="dep_version_lt_two", fn="bitcoin::transaction::Version::partial_cmp", props=("C14",), kind="complete", tier="quick",
         tags=["C14:dep_version.lt_two_is_signed_lt_2", "C14:dep_version.two_is_2"]),
    dict(name="seq_check_older_bip112", fn="<Sequence as Satisfier>::check_older", props=_P, kind="complete", tier="quick",
         tags=["C14,C01:seq_check_older.bip112", "C14,C01:seq_check_after.never"]),
    dict(name="abs_check_after_bip65", fn="<absolute::LockTime as Satisfier>::check_after", props=_P, kind="complete", tier="quick",
         tags=["C14,C01:abs_check_after.bip65_values", "C14,C01:abs_check_older.never"]),
    dict(name="psbt_check_after_bip65", fn="PsbtInputSatisfier::check_after", props=_P, kind="bounded", bound=_B, tier="quick",
         tags=["C14,C01:psbt_check_after.input_not_final", "C14,C01:psbt_check_after.same_kind", "C14,C01:psbt_check_after.value_reached",
               "C14:psbt_check_after.exactly_bip65"]),
    dict(name="psbt_check_older_bip112", fn="PsbtInputSatisfier::check_older", props=_P, kind="bounded", bound=_B, tier="quick",
         tags=["C14,C01:psbt_check_older.version_at_least_2", "C14,C01:psbt_check_older.sequence_is_relative", "C14,C01:psbt_check_older.same_unit",
               "C14,C01:psbt_check_older.value_reached", "C14:psbt_check_older.exactly_bip112_for_nonnegative_version"]),
]
