"""C18 (Verus): per-node steps of the abstract-policy functions of src/policy/semantic.rs, the leading arms of
`entails`, and the per-node arms of the Concrete -> Semantic lift (src/policy/mod.rs).

`at_age`, `at_lock_time`, `minimum_n_keys`, `n_terminals`, `sorted` are "rtl-post-order loop + per-node match".
The arms of each per-node `match` are cut verbatim into a step function (vf.step); for `at_age`, `at_lock_time`
and `sorted` the second per-node `match new_policy { Some(..) => push(Arc::new(..)), None => push(Arc::clone(node)) }`
is extracted as a second step, so that "leaf unchanged" is a statement about what is pushed, not about an `Option`.
The same loop written with the two matches folded (`let x = match .. { .. => Arc::new(..), _ => Arc::clone(data.node) }; stack.push(x);`)
is recognised too (class LoopBody): the arms then yield the `Arc` that is pushed, the clauses speak about `*r` instead of
`r->Some_0` / `r is None`, and the rest of the loop body (the push) is the second step, verbatim.

Oracle (all written here, none read off the code)
* `sem(p, a)`: truth-table meaning of an abstract policy under an assignment `a` = (set of keys that sign, sets of
  known preimages, set of older(t) atoms that hold, set of after(t) atoms that hold).  Semantics column of the Miniscript specification: Thresh(k, subs) = at least k of the subs hold;
  older(t) holds iff t is BIP68-implied by the sequence (same unit, t <= value); after(t) likewise with BIP65.
* at_age(p, age): for every assignment whose sequence is `age`, sem(at_age(p, age), a) == sem(p, a), and what is kept
  holds under every such assignment (identity would satisfy the first half alone); stated at the leaves in BIP68
  terms: Older(t) is kept iff same unit and t <= age, else replaced by Unsatisfiable; every other leaf is pushed
  unchanged.  at_lock_time: the same with After(t) and BIP65.
* minimum_n_keys: Key -> Some(1); Unsatisfiable -> None; every other leaf -> Some(0) -- and that table IS the fewest
  signing keys of any satisfying assignment (None iff no assignment satisfies): lemma_min_keys_leaf.
* n_terminals: number of constraint atoms: Trivial/Unsatisfiable 0, every other leaf 1.
* entails (leading arms): the answer is the truth-table implication forall a. sem(p, a) ==> sem(q, a).
* lift (Concrete -> Semantic): sem(lift(c), a) == csem(c, a) with csem: And = all, Or = any (weights dropped),
  Thresh = at least k, leaves = the same atoms.  The children's lifts are the induction hypothesis (stub).

History: on the snapshot d33f88e6 the clauses entails_step.trivial_entails_or_with_trivial_branch,
entails_step.and_with_unsatisfiable_branch_entails_unsatisfiable and lift_step.and_is_all were red (genuine defects,
reproduced against the crate); they are green since the fixes 0ce2f32b (entails normalizes before the constant arms)
and 2d1d554e (lift of and() requires all n children).  `entails` now matches on the NORMALIZED operands: the step
calls `normalized()` through its contract (proved in unit c18_normalized: sem-preserving, leaves unchanged,
or(TRIVIAL,..) -> TRIVIAL, and(UNSATISFIABLE,..) -> UNSATISFIABLE) under the Threshold type invariant `wf_deep`.
The truth table ranges over ALL assignments of the atoms (older / after atoms are independent variables); the
assignments possible at a given nSequence / nLockTime are the predicates at_sequence / at_nlocktime.
"""
import re

from vlib.verus import VerusFile, Contract, Clause, Undecided, sub, lit
from vlib.extract import match_close
from units import _tree

NAME = "c18_semantic"
ENGINE = "verus"
PROPS = ("C18", "C11")
SEM = "src/policy/semantic.rs"
CONC = "src/policy/concrete.rs"
PMOD = "src/policy/mod.rs"
DROPPED = [
    "at_age / at_lock_time / sorted / minimum_n_keys / n_terminals: the `for data in ..rtl_post_order_iter()` loop, the final `pop().unwrap()` / `Arc::try_unwrap` and (at_age, at_lock_time) the trailing `.normalized()` (sem-preserving: unit c18_normalized) are dropped; only the per-node matches are verified (traversal contract: DESIGN 3.2); the whole functions are NOT checked: the bounded Kani harnesses exceeded the budget (k18_policy)",
    "Thresh arms of at_age, at_lock_time, sorted, minimum_n_keys, n_terminals capture the stack in a closure / sort / sum over iterator adapters: excluded (R9), NOT covered: Kani harnesses exceeded the budget (k18_policy)",
    "n_keys (pre_order_iter().filter().count()), first_constraint, satisfy_constraint and the recursive arm of entails: iterator chains / recursion -- not in this unit; NOT covered: the bounded Kani harnesses for them exceeded the budget (k18_policy)",
    "Concrete::lift: the recursive lifting of the children inside the And / Or / Thresh arms (iter().map(lift).collect(), translate_ref closure, `?` error path) is replaced by a stub stating the induction hypothesis (partial R9); the check_timelocks call before the match and the trailing .normalized() are dropped",
    "entails: only the four leading (constant) arms on the normalized operands; `normalized()` is consumed through its contract (c18_normalized); the recursive arm (first_constraint / satisfy_constraint) is excluded (R9) and the n_terminals guard before the match is dropped",
    "`data.node.as_ref()` (Arc as AsRef) has no Verus specification: the scrutinee is rewritten to `&**data.node` (R7)",
]

KEY_STUBS = r"""
use std::sync::Arc;
// ---- stubs of out-of-unit items (trusted, listed) ------------------------------------------------------------
pub trait MiniscriptKey: Sized + Clone {
    type Sha256: Clone;
    type Hash256: Clone;
    type Ripemd160: Clone;
    type Hash160: Clone;
}
// crate::AbsLockTime / crate::RelLockTime: wrappers of a consensus u32 (constructors are verified in k_locktime)
#[derive(Clone, Copy)]
pub struct AbsLockTime(pub u32);
#[derive(Clone, Copy)]
pub struct RelLockTime(pub u32);
impl AbsLockTime {
    pub open spec fn consensus(self) -> u32 { self.0 }
    pub fn to_consensus_u32(self) -> (r: u32) ensures r == self.consensus() { self.0 }
}
impl RelLockTime {
    pub open spec fn consensus(self) -> u32 { self.0 }
    pub fn to_consensus_u32(self) -> (r: u32) ensures r == self.consensus() { self.0 }
    // BIP68 type flag (bit 22); RelLockTime never has the disable flag set (k_locktime: rel_from_consensus.*)
    #[verifier::external_body]
    pub fn is_time_locked(&self) -> (r: bool) ensures r == (self.consensus() & 0x0040_0000u32 != 0) { unimplemented!() }
    #[verifier::external_body]
    pub fn is_height_locked(&self) -> (r: bool) ensures r == (self.consensus() & 0x0040_0000u32 == 0) { unimplemented!() }
}
"""

THRESH_SPEC = r"""
impl<T, const MAX: usize> Threshold<T, MAX> {
    spec fn spec_k(&self) -> usize { self.k }
    spec fn spec_n(&self) -> nat { self.inner@.len() }
    spec fn elems(&self) -> Seq<T> { self.inner@ }
}
"""

BITCOIN_STUBS = r"""
// ---- stubs of the bitcoin crate's lock-time types (trusted; each `ensures` is the BIP's rule and is itself checked
//      against the compiled dependency by the Kani harnesses lock_stub_* of unit k18_policy) ------------------------
pub mod relative {
    use vstd::prelude::*;
    verus!{
    // bitcoin::relative::LockTime: BIP68 -- a 16-bit count of blocks or of 512-second intervals
    #[derive(Clone, Copy)]
    pub enum LockTime { Blocks(u16), Time(u16) }
    impl LockTime {
        // BIP68: a lock is satisfied by an nSequence of the SAME unit whose value is at least the lock's
        pub open spec fn implied_by(self, other: LockTime) -> bool {
            match (self, other) {
                (LockTime::Blocks(t), LockTime::Blocks(o)) => t <= o,
                (LockTime::Time(t), LockTime::Time(o)) => t <= o,
                _ => false,
            }
        }
        #[verifier::external_body]
        pub fn is_implied_by(&self, other: LockTime) -> (r: bool) ensures r == self.implied_by(other) { unimplemented!() }
        // BIP68 encoding: type flag (bit 22) for 512-second intervals, value in the low 16 bits (only so that code comparing raw
        // encodings is JUDGED; not used by the unchanged code)
        pub open spec fn consensus(self) -> u32 {
            match self { LockTime::Blocks(n) => n as u32, LockTime::Time(n) => (0x0040_0000u32 + n as u32) as u32 }
        }
        #[verifier::external_body]
        pub fn to_consensus_u32(&self) -> (r: u32) ensures r == self.consensus() { unimplemented!() }
    }
    }
}
pub mod absolute {
    use vstd::prelude::*;
    verus!{
    // bitcoin::absolute::LockTime: BIP65 -- values < 500_000_000 are block heights, others UNIX times
    #[derive(Clone, Copy)]
    pub enum LockTime { Blocks(u32), Seconds(u32) }
    impl LockTime {
        pub open spec fn implied_by(self, other: LockTime) -> bool {
            match (self, other) {
                (LockTime::Blocks(t), LockTime::Blocks(o)) => t <= o,
                (LockTime::Seconds(t), LockTime::Seconds(o)) => t <= o,
                _ => false,
            }
        }
        #[verifier::external_body]
        pub fn is_implied_by(&self, other: LockTime) -> (r: bool) ensures r == self.implied_by(other) { unimplemented!() }
        #[verifier::external_body]
        pub fn is_block_height(&self) -> (r: bool) ensures r == (*self is Blocks) { unimplemented!() }
        #[verifier::external_body]
        pub fn is_block_time(&self) -> (r: bool) ensures r == (*self is Seconds) { unimplemented!() }
    }
    }
}
// BIP68: bit 22 of the consensus value selects 512-second units, the low 16 bits are the value
pub open spec fn bip68_lock(n: u32) -> relative::LockTime {
    if n & 0x0040_0000u32 != 0 { relative::LockTime::Time((n & 0xffffu32) as u16) } else { relative::LockTime::Blocks((n & 0xffffu32) as u16) }
}
// BIP65: threshold 500_000_000
pub open spec fn bip65_lock(n: u32) -> absolute::LockTime {
    if n < 500_000_000u32 { absolute::LockTime::Blocks(n) } else { absolute::LockTime::Seconds(n) }
}
impl From<RelLockTime> for relative::LockTime {
    #[verifier::external_body]
    fn from(lock_time: RelLockTime) -> (r: Self) ensures r == bip68_lock(lock_time.consensus()) { unimplemented!() }
}
impl From<AbsLockTime> for absolute::LockTime {
    #[verifier::external_body]
    fn from(lock_time: AbsLockTime) -> (r: Self) ensures r == bip65_lock(lock_time.consensus()) { unimplemented!() }
}
// what the rtl-post-order iterator yields (only the field the steps read)
struct PostOrderIterItem<T> { node: T }
"""

ORACLE = r"""
// ---- oracle: truth-table meaning of an abstract policy ----------------------------------------------------
pub struct Asg<Pk: MiniscriptKey> {
    pub keys: Set<Pk>,                      // keys that sign
    pub sha256: Set<Pk::Sha256>, pub hash256: Set<Pk::Hash256>, pub ripemd160: Set<Pk::Ripemd160>, pub hash160: Set<Pk::Hash160>,
    pub older: Set<u32>,                    // the older(t) atoms that hold (by consensus value)
    pub after: Set<u32>,                    // the after(t) atoms that hold
}
// the truth table ranges over ALL assignments of the atoms; the assignments that can occur for a spending input whose
// nSequence is `age` (BIP68) / a transaction whose nLockTime is `n` (BIP65) are:
pub open spec fn at_sequence<Pk: MiniscriptKey>(a: Asg<Pk>, age: relative::LockTime) -> bool {
    forall|t: u32| #[trigger] a.older.contains(t) == bip68_lock(t).implied_by(age)
}
pub open spec fn at_nlocktime<Pk: MiniscriptKey>(a: Asg<Pk>, n: absolute::LockTime) -> bool {
    forall|t: u32| #[trigger] a.after.contains(t) == bip65_lock(t).implied_by(n)
}
pub open spec fn sem<Pk: MiniscriptKey>(p: Semantic<Pk>, a: Asg<Pk>) -> bool
    decreases p, 1nat, 0nat
{
    match p {
        Semantic::Unsatisfiable => false,
        Semantic::Trivial => true,
        Semantic::Key(pk) => a.keys.contains(pk),
        Semantic::After(t) => a.after.contains(t.consensus()),
        Semantic::Older(t) => a.older.contains(t.consensus()),
        Semantic::Sha256(h) => a.sha256.contains(h),
        Semantic::Hash256(h) => a.hash256.contains(h),
        Semantic::Ripemd160(h) => a.ripemd160.contains(h),
        Semantic::Hash160(h) => a.hash160.contains(h),
        Semantic::Thresh(th) => sem_count(p, th.inner@.len(), a) >= th.k,
    }
}
// number of the first n children of the Thresh node p that hold
pub open spec fn sem_count<Pk: MiniscriptKey>(p: Semantic<Pk>, n: nat, a: Asg<Pk>) -> nat
    decreases p, 0nat, n
{
    match p {
        Semantic::Thresh(th) => if n == 0 || n > th.inner@.len() { 0 } else {
            sem_count(p, (n - 1) as nat, a) + (if sem(*th.inner@[n - 1], a) { 1nat } else { 0nat }) },
        _ => 0,
    }
}
pub open spec fn is_leaf<Pk: MiniscriptKey>(p: Semantic<Pk>) -> bool { !(p is Thresh) }

// ---- R9: excluded Thresh arms (nothing is assumed about their result or their effect on the stack) ------------
#[verifier::external_body]
fn thresh_arm_excluded<Pk: MiniscriptKey, S, R>(thresh: &Threshold<Arc<Semantic<Pk>>, 0>, stack: &mut Vec<S>) -> R { unimplemented!() }
"""


# R7: `data.node.as_ref()` (Arc<T> as AsRef<T>, no Verus specification without allocator_api) -> `&**data.node`
AS_REF = "&**data.node"


def semantic_enum(vf):
    vf.item(SEM, "enum:Policy", rewrites=[
        sub("derive-off", r"#\[derive\([^)]*\)\]\s*", ""),
        sub("R7-rename", r"\benum Policy<", "enum Semantic<"),
    ])



MIN_KEYS_ORACLE = r"""
// ---- oracle for minimum_n_keys: "the fewest signatures in any satisfying assignment" --------------------------
spec fn is_min_keys<Pk: MiniscriptKey>(p: Semantic<Pk>, r: Option<usize>) -> bool {
    match r {
        None => forall|a: Asg<Pk>| !sem(p, a),
        Some(n) => (exists|a: Asg<Pk>| sem(p, a) && a.keys.len() == n)
            && (forall|a: Asg<Pk>| sem(p, a) ==> a.keys.len() >= n),
    }
}
// the table of the property statement, for leaves
spec fn table_min_keys<Pk: MiniscriptKey>(p: Semantic<Pk>) -> Option<usize> {
    match p { Semantic::Key(_) => Some(1usize), Semantic::Unsatisfiable => None, _ => Some(0usize) }
}
"""

MIN_KEYS_LEMMAS = [("lemma_min_keys_leaf", r"""
// the table IS the fewest-signatures statement at every leaf (witness assignments constructed explicitly)
proof fn lemma_min_keys_leaf<Pk: MiniscriptKey>(p: Semantic<Pk>)
    ensures is_leaf(p) ==> is_min_keys(p, table_min_keys(p)),
{
    let base = Asg::<Pk> { keys: Set::empty(), sha256: Set::empty(), hash256: Set::empty(), ripemd160: Set::empty(), hash160: Set::empty(),
                           older: Set::empty(), after: Set::empty() };
    match p {
        Semantic::Unsatisfiable => {}
        Semantic::Trivial => { assert(sem(p, base) && base.keys.len() == 0); }
        Semantic::Key(pk) => {
            let a = Asg::<Pk> { keys: Set::empty().insert(pk), ..base };
            assert(sem(p, a) && a.keys.len() == 1);
            assert forall|a2: Asg<Pk>| sem(p, a2) implies a2.keys.len() >= 1 by {
                if a2.keys.len() == 0 { assert(a2.keys =~= Set::empty()); }
            }
        }
        Semantic::After(t) => {
            let a = Asg::<Pk> { after: Set::empty().insert(t.consensus()), ..base };
            assert(sem(p, a) && a.keys.len() == 0);
        }
        Semantic::Older(t) => {
            let a = Asg::<Pk> { older: Set::empty().insert(t.consensus()), ..base };
            assert(sem(p, a) && a.keys.len() == 0);
        }
        Semantic::Sha256(h) => { let a = Asg::<Pk> { sha256: Set::empty().insert(h), ..base }; assert(sem(p, a) && a.keys.len() == 0); }
        Semantic::Hash256(h) => { let a = Asg::<Pk> { hash256: Set::empty().insert(h), ..base }; assert(sem(p, a) && a.keys.len() == 0); }
        Semantic::Ripemd160(h) => { let a = Asg::<Pk> { ripemd160: Set::empty().insert(h), ..base }; assert(sem(p, a) && a.keys.len() == 0); }
        Semantic::Hash160(h) => { let a = Asg::<Pk> { hash160: Set::empty().insert(h), ..base }; assert(sem(p, a) && a.keys.len() == 0); }
        Semantic::Thresh(_) => {}
    }
}
""")]


LIFT_ORACLE = r"""
// ---- oracle for the lift: meaning of a CONCRETE policy (And = all, Or = any with the weights dropped, Thresh = at least k)
spec fn csem<Pk: MiniscriptKey>(p: Concrete<Pk>, a: Asg<Pk>) -> bool
    decreases p, 1nat, 0nat
{
    match p {
        Concrete::Unsatisfiable => false,
        Concrete::Trivial => true,
        Concrete::Key(pk) => a.keys.contains(pk),
        Concrete::After(t) => a.after.contains(t.consensus()),
        Concrete::Older(t) => a.older.contains(t.consensus()),
        Concrete::Sha256(h) => a.sha256.contains(h),
        Concrete::Hash256(h) => a.hash256.contains(h),
        Concrete::Ripemd160(h) => a.ripemd160.contains(h),
        Concrete::Hash160(h) => a.hash160.contains(h),
        Concrete::And(subs) => csem_count(p, subs@.len(), a) == subs@.len(),
        Concrete::Or(subs) => csem_count(p, subs@.len(), a) >= 1,
        Concrete::Thresh(th) => csem_count(p, th.inner@.len(), a) >= th.k,
    }
}
// number of the first n children of the n-ary node p that hold
spec fn csem_count<Pk: MiniscriptKey>(p: Concrete<Pk>, n: nat, a: Asg<Pk>) -> nat
    decreases p, 0nat, n
{
    match p {
        Concrete::And(subs) => if n == 0 || n > subs@.len() { 0 } else {
            csem_count(p, (n - 1) as nat, a) + (if csem(*subs@[n - 1], a) { 1nat } else { 0nat }) },
        Concrete::Or(subs) => if n == 0 || n > subs@.len() { 0 } else {
            csem_count(p, (n - 1) as nat, a) + (if csem(*subs@[n - 1].1, a) { 1nat } else { 0nat }) },
        Concrete::Thresh(th) => if n == 0 || n > th.inner@.len() { 0 } else {
            csem_count(p, (n - 1) as nat, a) + (if csem(*th.inner@[n - 1], a) { 1nat } else { 0nat }) },
        _ => 0,
    }
}
spec fn is_cleaf<Pk: MiniscriptKey>(p: Concrete<Pk>) -> bool { !(p is And) && !(p is Or) && !(p is Thresh) }

// `Clone` of keys and hashes returns an equal value (assumption, DESIGN 3.4)
#[verifier::external_body]
proof fn axiom_clone_is_equal<T: Clone>()
    ensures forall|x: T, y: T| #[trigger] cloned::<T>(x, y) ==> x == y,
{}
proof fn lemma_lift_clone<Pk: MiniscriptKey>(c: Concrete<Pk>, s: Semantic<Pk>)
    ensures
        c is Key && s is Key && cloned::<Pk>(c->Key_0, s->Key_0) ==> c->Key_0 == s->Key_0,
        c is Sha256 && s is Sha256 && cloned::<Pk::Sha256>(c->Sha256_0, s->Sha256_0) ==> c->Sha256_0 == s->Sha256_0,
        c is Hash256 && s is Hash256 && cloned::<Pk::Hash256>(c->Hash256_0, s->Hash256_0) ==> c->Hash256_0 == s->Hash256_0,
        c is Ripemd160 && s is Ripemd160 && cloned::<Pk::Ripemd160>(c->Ripemd160_0, s->Ripemd160_0) ==> c->Ripemd160_0 == s->Ripemd160_0,
        c is Hash160 && s is Hash160 && cloned::<Pk::Hash160>(c->Hash160_0, s->Hash160_0) ==> c->Hash160_0 == s->Hash160_0,
{
    axiom_clone_is_equal::<Pk>(); axiom_clone_is_equal::<Pk::Sha256>(); axiom_clone_is_equal::<Pk::Hash256>();
    axiom_clone_is_equal::<Pk::Ripemd160>(); axiom_clone_is_equal::<Pk::Hash160>();
}
// i-th child of an n-ary concrete node
spec fn cchild<Pk: MiniscriptKey>(c: Concrete<Pk>, i: int) -> Concrete<Pk> {
    match c { Concrete::And(subs) => *subs@[i], Concrete::Or(subs) => *subs@[i].1, Concrete::Thresh(th) => *th.inner@[i], _ => c }
}
spec fn carity<Pk: MiniscriptKey>(c: Concrete<Pk>) -> nat {
    match c { Concrete::And(subs) => subs@.len(), Concrete::Or(subs) => subs@.len(), Concrete::Thresh(th) => th.inner@.len(), _ => 0 }
}
// "the children have been lifted correctly" (induction hypothesis of the per-node step)
spec fn children_lifted<Pk: MiniscriptKey>(c: Concrete<Pk>, s: Seq<Arc<Semantic<Pk>>>) -> bool {
    s.len() == carity(c) && (forall|i: int, a: Asg<Pk>| 0 <= i < s.len() ==> #[trigger] sem(*s[i], a) == csem(cchild(c, i), a))
}
#[verifier::external_body]
fn lift_and_children_excluded<Pk: MiniscriptKey>(subs: &Vec<Arc<Concrete<Pk>>>) -> (r: Vec<Arc<Semantic<Pk>>>)
    ensures r@.len() == subs@.len(), forall|i: int, a: Asg<Pk>| 0 <= i < r@.len() ==> #[trigger] sem(*r@[i], a) == csem(*subs@[i], a),
{ unimplemented!() }
#[verifier::external_body]
fn lift_or_children_excluded<Pk: MiniscriptKey>(subs: &Vec<(usize, Arc<Concrete<Pk>>)>) -> (r: Vec<Arc<Semantic<Pk>>>)
    ensures r@.len() == subs@.len(), forall|i: int, a: Asg<Pk>| 0 <= i < r@.len() ==> #[trigger] sem(*r@[i], a) == csem(*subs@[i].1, a),
{ unimplemented!() }
#[verifier::external_body]
fn lift_thresh_children_excluded<Pk: MiniscriptKey>(thresh: &Threshold<Arc<Concrete<Pk>>, 0>) -> (r: Threshold<Arc<Semantic<Pk>>, 0>)
    ensures r.k == thresh.k, r.inner@.len() == thresh.inner@.len(),
        forall|i: int, a: Asg<Pk>| 0 <= i < r.inner@.len() ==> #[trigger] sem(*r.inner@[i], a) == csem(*thresh.inner@[i], a),
{ unimplemented!() }
"""

# R10 ghost code after the extracted match: instantiate the Clone assumption for the cloned key / hash
LIFT_HINT = """    proof {
        lemma_lift_clone(*self, step_result);
        if !is_cleaf(*self) {
            let n = carity(*self);
            assert(step_result is Thresh && children_lifted(*self, step_result->Thresh_0.inner@));
            assert forall|a: Asg<Pk>| sem_count(step_result, n, a) == csem_count(*self, n, a) && sem_count(step_result, n, a) <= n
                && sem(step_result, a) == (sem_count(step_result, n, a) >= step_result->Thresh_0.k)
                && csem(*self, a) == (if *self is And { csem_count(*self, n, a) == n } else if *self is Or { csem_count(*self, n, a) >= 1 } else { csem_count(*self, n, a) >= self->Thresh_0.k }) by {
                lemma_lift_counts(*self, step_result, n, a);
            }
        }
    }"""

LIFT_LEMMAS = [("lemma_lift_counts", r"""
// children pointwise sem-equal  ==>  the same number of them hold
proof fn lemma_lift_counts<Pk: MiniscriptKey>(c: Concrete<Pk>, s: Semantic<Pk>, n: nat, a: Asg<Pk>)
    requires !is_cleaf(c), s is Thresh, children_lifted(c, s->Thresh_0.inner@), n <= carity(c),
    ensures sem_count(s, n, a) == csem_count(c, n, a), sem_count(s, n, a) <= n,
    decreases n,
{
    if n > 0 {
        lemma_lift_counts(c, s, (n - 1) as nat, a);
        assert(sem(*s->Thresh_0.inner@[n - 1], a) == csem(cchild(c, n - 1), a));
    }
}
""")]

ENTAILS_ORACLE = r"""
// ---- oracle for entails: truth-table implication ---------------------------------------------------------------
spec fn implies<Pk: MiniscriptKey>(p: Semantic<Pk>, q: Semantic<Pk>) -> bool { forall|a: Asg<Pk>| sem(p, a) ==> sem(q, a) }
#[verifier::external_body]
fn entails_rec_excluded<Pk: MiniscriptKey>(a: Semantic<Pk>, b: Semantic<Pk>) -> Option<bool> { unimplemented!() }
"""

ENTAILS_LEMMAS = [("lemma_count_bounds", r"""
proof fn lemma_count_bounds<Pk: MiniscriptKey>(p: Semantic<Pk>, n: nat, a: Asg<Pk>)
    requires p is Thresh, 1 <= n <= p->Thresh_0.inner@.len(),
    ensures
        sem_count(p, n, a) >= (if sem(*p->Thresh_0.inner@[0], a) { 1nat } else { 0nat }),
        sem_count(p, n, a) + (if sem(*p->Thresh_0.inner@[0], a) { 0nat } else { 1nat }) <= n,
    decreases n,
{
    if n > 1 { lemma_count_bounds(p, (n - 1) as nat, a); }
    else { assert(sem_count(p, 0, a) == 0); }
}
"""), ("lemma_constant_branch", r"""
// the oracle's verdict on the two operand shapes used by the entails clauses
proof fn lemma_constant_branch<Pk: MiniscriptKey>(p: Semantic<Pk>)
    ensures
        or_with_trivial_branch(p) ==> (forall|a: Asg<Pk>| sem(p, a)) && implies(Semantic::<Pk>::Trivial, p),
        and_with_unsatisfiable_branch(p) ==> (forall|a: Asg<Pk>| !sem(p, a)) && implies(p, Semantic::<Pk>::Unsatisfiable),
{
    if or_with_trivial_branch(p) || and_with_unsatisfiable_branch(p) {
        assert forall|a: Asg<Pk>| (or_with_trivial_branch(p) ==> sem(p, a)) && (and_with_unsatisfiable_branch(p) ==> !sem(p, a)) by {
            lemma_count_bounds(p, p->Thresh_0.inner@.len(), a);
        }
    }
}
"""), ("lemma_leaf_witnesses", r"""
// every leaf but UNSATISFIABLE has a satisfying assignment, every leaf but TRIVIAL a falsifying one
proof fn lemma_leaf_witnesses<Pk: MiniscriptKey>(p: Semantic<Pk>)
    ensures
        is_leaf(p) && !(p is Unsatisfiable) ==> exists|a: Asg<Pk>| sem(p, a),
        is_leaf(p) && !(p is Trivial) ==> exists|a: Asg<Pk>| !sem(p, a),
{
    lemma_min_keys_leaf(p);
    let base = Asg::<Pk> { keys: Set::empty(), sha256: Set::empty(), hash256: Set::empty(), ripemd160: Set::empty(), hash160: Set::empty(),
                           older: Set::empty(), after: Set::empty() };
    match p {
        Semantic::Thresh(_) => {}
        Semantic::Trivial => {}
        _ => { assert(!sem(p, base)); }
    }
    if is_leaf(p) && !(p is Unsatisfiable) {
        assert(is_min_keys(p, table_min_keys(p)));
    }
}
""")]

NODE = "**data.node"        # steps whose iterator item is `&Arc<Policy>`  (at_age, at_lock_time, sorted)
RNODE = "*data.node"        # steps whose iterator item is `&Policy`       (minimum_n_keys, n_terminals)
ARC_ITEM = "data: PostOrderIterItem<&Arc<Semantic<Pk>>>"
REF_ITEM = "data: PostOrderIterItem<&Semantic<Pk>>"
STACK = "Vec<Arc<Semantic<Pk>>>"


class LoopBody:
    """The body of `for data in ..rtl_post_order_iter() { let NAME = match data.node.as_ref() { ARMS }; REST }`, read off the text.

    Two spellings of the same loop are understood (the local's NAME is read off the text):
      option : ARMS yield `Option<Self>` (`None` = node unchanged) and REST is `match NAME { Some(p) => push(Arc::new(p)), None => push(Arc::clone(data.node)) }`
      arc    : ARMS yield the `Arc<Self>` to push (`Arc::new(..)` / `Arc::clone(data.node)`) and REST pushes NAME
    In both the ARMS are one step and REST (verbatim) is a second step that receives NAME; a wrong guess of the type of NAME is a rustc error (UNDECIDED)."""

    def __init__(self, vf, impl_no, fn):
        self.fn_anchor = "impl:Policy<Pk>#%d/fn:%s" % (impl_no, fn)
        reg = vf.repo.at(SEM, self.fn_anchor)
        text = reg.text
        m = re.search(r"\blet\s+(\w+)\s*=\s*match\s+data\s*\.node\s*\.as_ref\(\)\s*\{", text)
        loops = list(re.finditer(r"\bfor\s+data\s+in\b[^{;]*\{", text[:m.start()])) if m else []
        if not m or not loops:
            raise Undecided("%s: `for data in .. { let NAME = match data.node.as_ref() {..}; .. }` not found (shape not modelled)" % self.fn_anchor)
        self.name = m.group(1)
        loop_close = match_close(text, loops[-1].end() - 1)
        semi = re.match(r"\s*;", text[match_close(text, m.end() - 1) + 1:])
        if not semi:
            raise Undecided("%s: `let %s = match ..` is not a statement of its own" % (self.fn_anchor, self.name))
        rest_start = match_close(text, m.end() - 1) + 1 + semi.end()
        self.rest = text[rest_start:loop_close].strip()
        self.rest_lines = (reg.line_of(reg.start + rest_start), reg.line_of(reg.start + loop_close))
        self.option = re.match(r"match\s+%s\s*\{" % re.escape(self.name), self.rest) is not None
        self.match_anchor = self.fn_anchor + "/match:data.node.as_ref()"
        # how the clauses speak about the policy the node step hands on
        self.ret = "Option<Self>" if self.option else "Arc<Self>"


def filter_step(vf, fn, stack, variant, lock_arg, lock_ty, lock_spec, field):
    """at_age / at_lock_time: node step + push step."""
    L = LoopBody(vf, 2, fn)
    # `built`: the policy the step hands on for a lock node; `unchanged`: "this node is handed on as it is"
    built, is_built, unchanged = ("r->Some_0", "r is Some && ", "r is None") if L.option else ("*r", "", "*r == %s" % NODE)
    kept = "(if %s(t.consensus()).implied_by(%s) { %%s(Semantic::<Pk>::%s(t)) } else { %%s(Semantic::<Pk>::Unsatisfiable) })" % (lock_spec, lock_arg, variant)
    vf.step(SEM, L.match_anchor, "Semantic::%s_step" % fn,
            "fn %s_step(%s, %s: &mut %s, %s: %s::LockTime) -> %s" % (fn, ARC_ITEM, stack, STACK, lock_arg, lock_ty, L.ret),
            props=PROPS, scrutinee=AS_REF,
            exclude={"Self::Thresh(ref thresh)": "thresh_arm_excluded(thresh, %s)" % stack},
            contract=Contract(ensures=[
                # the BIP's rule, at the leaf
                Clause("%s_kept_iff_implied" % variant.lower(), ("C18",),
                       "%s matches Semantic::%s(t) ==> %s == %s" % (NODE, variant, "r" if L.option else "*r", kept % (("Some", "Some") if L.option else ("", "")))),
                # truth table restricted to the assignments whose sequence / lock time is the given one
                Clause("%s_restricted_exactly" % variant.lower(), ("C18",),
                       "%s is %s ==> %s(forall|a: Asg<Pk>| %s(a, %s) ==> sem(%s, a) == sem(%s, a))" % (NODE, variant, is_built, field, lock_arg, built, NODE)),
                # ... and nothing that is kept still depends on it: what is kept holds under every such assignment
                Clause("%s_kept_only_if_it_holds" % variant.lower(), ("C18",),
                       "%s is %s ==> %s(%s is Unsatisfiable || (forall|a: Asg<Pk>| %s(a, %s) ==> sem(%s, a)))" % (NODE, variant, is_built, built, field, lock_arg, built)),
                Clause("other_leaves_unchanged", ("C18",), "is_leaf(%s) && !(%s is %s) ==> %s" % (NODE, NODE, variant, unchanged)),
                Clause("leaf_stack_frame", ("C18", "C11"), "is_leaf(%s) ==> final(%s)@ == old(%s)@" % (NODE, stack, stack)),
            ]))
    push_step(vf, fn, stack, L)


def push_step(vf, fn, stack, L):
    """REST of the loop body: `match NAME { Some(p) => stack.push(Arc::new(p)), None => stack.push(Arc::clone(data.node)) }`, or `stack.push(NAME);`
    when the arms already build the Arc"""
    nm = L.name
    one = Clause("pushes_exactly_one", ("C18", "C11"), "final(%s)@.len() == old(%s)@.len() + 1 && final(%s)@.drop_last() == old(%s)@" % ((stack,) * 4))
    if L.option:
        vf.step(SEM, L.fn_anchor + "/match:" + nm, "Semantic::%s_push_step" % fn,
                "fn %s_push_step(%s, %s: &mut %s, %s: Option<Self>)" % (fn, ARC_ITEM, stack, STACK, nm),
                props=PROPS,
                contract=Contract(ensures=[
                    one,
                    Clause("none_means_node_unchanged", ("C18",), "%s is None ==> *final(%s)@.last() == %s" % (nm, stack, NODE)),
                    Clause("some_is_pushed", ("C18",), "%s is Some ==> *final(%s)@.last() == %s->Some_0" % (nm, stack, nm)),
                    Clause("meaning_pushed", ("C18",),
                           "forall|a: Asg<Pk>| sem(*final(%s)@.last(), a) == sem(match %s { Some(p) => p, None => %s }, a)" % (stack, nm, NODE)),
                ]))
        return
    # the arms hand on the Arc itself (the unchanged node is `Arc::clone(data.node)`, claimed by the node step): REST verbatim
    vf.rewrites_used.append("R16-loop-body-rest `%s` as a step receiving `%s` @ %s" % (L.rest, nm, L.fn_anchor))
    vf.fn_text("Semantic::%s_push_step" % fn,
               "fn %s_push_step(%s, %s: &mut %s, %s: Arc<Self>) {\n    %s\n}" % (fn, ARC_ITEM, stack, STACK, nm, L.rest),
               Contract(ensures=[
                   one,
                   Clause("none_means_node_unchanged", ("C18",), "*%s == %s ==> *final(%s)@.last() == %s" % (nm, NODE, stack, NODE)),
                   Clause("some_is_pushed", ("C18",), "*final(%s)@.last() == *%s" % (stack, nm)),
                   Clause("meaning_pushed", ("C18",), "forall|a: Asg<Pk>| sem(*final(%s)@.last(), a) == sem(*%s, a)" % (stack, nm)),
               ]), PROPS, file=SEM, lines=L.rest_lines, anchor=L.fn_anchor + "/loop body after the node match")


def build(repo):
    vf = VerusFile(NAME, repo)
    vf.raw(KEY_STUBS, keep_vis=True)
    vf.trust("prelude stubs MiniscriptKey / AbsLockTime / RelLockTime (is_time_locked / is_height_locked external_body)",
             "out-of-unit types reduced to opaque values (a key type with four hash types; a consensus u32 whose bit 22 is the BIP68 type flag)")
    vf.item(_tree.THRESH, "struct:Threshold", rewrites=[sub("derive-off", r"#\[derive\([^)]*\)\]\s*", "", required=False)])
    vf.raw(THRESH_SPEC)
    vf.raw(BITCOIN_STUBS, keep_vis=True)
    vf.trust("relative::LockTime / absolute::LockTime (stubs of the bitcoin crate): is_implied_by and From<RelLockTime>/From<AbsLockTime> (external_body)",
             "BIP68 / BIP65 rules as `ensures`; checked against the compiled bitcoin crate by the Kani harnesses lock_stub_rel / lock_stub_abs (k18_policy)")
    semantic_enum(vf)
    vf.raw(ORACLE)
    vf.trust("thresh_arm_excluded (external_body)", "R9: Thresh arms (closures capturing the stack, sort, iterator sums) are not verified here; nothing is assumed about them")
    vf.raw(MIN_KEYS_ORACLE)
    for name, text in MIN_KEYS_LEMMAS:
        vf.spec_obligation(name, text, PROPS)

    with vf.block("impl<Pk: MiniscriptKey> Semantic<Pk>"):
        # ---- at_age / at_lock_time ------------------------------------------------------------------
        filter_step(vf, "at_age", "at_age", "Older", "age", "relative", "bip68_lock", "at_sequence")
        filter_step(vf, "at_lock_time", "at_age", "After", "n", "absolute", "bip65_lock", "at_nlocktime")
        # ---- sorted: leaves are pushed unchanged ----------------------------------------------------
        L = LoopBody(vf, 3, "sorted")
        vf.step(SEM, L.match_anchor, "Semantic::sorted_step",
                "fn sorted_step(%s, sorted: &mut %s) -> %s" % (ARC_ITEM, STACK, L.ret),
                props=PROPS, scrutinee=AS_REF,
                exclude={"Self::Thresh(ref thresh)": "thresh_arm_excluded(thresh, sorted)"},
                contract=Contract(ensures=[
                    Clause("leaves_unchanged", ("C18",), "is_leaf(%s) ==> %s" % (NODE, "r is None" if L.option else "*r == %s" % NODE)),
                    Clause("leaf_stack_frame", ("C18", "C11"), "is_leaf(%s) ==> final(sorted)@ == old(sorted)@" % NODE),
                ]))
        push_step(vf, "sorted", "sorted", L)
        # ---- minimum_n_keys -------------------------------------------------------------------------
        vf.step(SEM, "impl:Policy<Pk>#2/fn:minimum_n_keys/match:data.node", "Semantic::minimum_n_keys_step",
                "fn minimum_n_keys_step(%s, minimum_n_keys: &mut Vec<Option<usize>>) -> Option<usize>" % REF_ITEM,
                props=PROPS,
                exclude={"Self::Thresh(ref thresh)": "thresh_arm_excluded(thresh, minimum_n_keys)"},
                post_match="    proof { lemma_min_keys_leaf(*data.node); }",
                contract=Contract(ensures=[
                    Clause("key_needs_one_signature", ("C18",), "%s is Key ==> r == Some(1usize)" % RNODE),
                    Clause("unsatisfiable_has_no_minimum", ("C18",), "%s is Unsatisfiable ==> r is None" % RNODE),
                    Clause("other_leaves_need_no_signature", ("C18",), "is_leaf(%s) && !(%s is Key) && !(%s is Unsatisfiable) ==> r == Some(0usize)" % ((RNODE,) * 3)),
                    Clause("leaf_is_fewest_keys_of_any_satisfying_assignment", ("C18",), "is_leaf(%s) ==> is_min_keys(%s, r)" % (RNODE, RNODE)),
                    Clause("leaf_stack_frame", ("C18", "C11"), "is_leaf(%s) ==> final(minimum_n_keys)@ == old(minimum_n_keys)@" % RNODE),
                ]))
        # ---- n_terminals ----------------------------------------------------------------------------
        vf.step(SEM, "impl:Policy<Pk>#1/fn:n_terminals/match:data.node", "Semantic::n_terminals_step",
                "fn n_terminals_step(%s, n_terminals: &mut Vec<usize>) -> usize" % REF_ITEM,
                props=PROPS,
                exclude={"Self::Thresh(thresh)": "thresh_arm_excluded(thresh, n_terminals)"},
                contract=Contract(ensures=[
                    Clause("constants_are_no_constraints", ("C18",), "(%s is Trivial || %s is Unsatisfiable) ==> r == 0" % (RNODE, RNODE)),
                    Clause("every_other_leaf_is_one_constraint", ("C18",), "is_leaf(%s) && !(%s is Trivial) && !(%s is Unsatisfiable) ==> r == 1" % ((RNODE,) * 3)),
                    Clause("leaf_stack_frame", ("C18", "C11"), "is_leaf(%s) ==> final(n_terminals)@ == old(n_terminals)@" % RNODE),
                ]))
        # ---- is_trivial / is_unsatisfiable ----------------------------------------------------------
        vf.fn(SEM, "impl:Policy<Pk>#2/fn:is_trivial", qual="Semantic", props=PROPS, contract=Contract(ensures=[
            Clause("detects_trivial_node", ("C18",), "r == (*self is Trivial)"),
            Clause("sound", ("C18",), "r ==> (forall|a: Asg<Pk>| sem(*self, a))")]))
        vf.fn(SEM, "impl:Policy<Pk>#2/fn:is_unsatisfiable", qual="Semantic", props=PROPS, contract=Contract(ensures=[
            Clause("detects_unsatisfiable_node", ("C18",), "r == (*self is Unsatisfiable)"),
            Clause("sound", ("C18",), "r ==> (forall|a: Asg<Pk>| !sem(*self, a))")]))
    # ---- entails: the four leading arms (the recursive arm is excluded, R9) -------------------------------
    vf.raw(ENTAILS_ORACLE)
    vf.trust("entails_rec_excluded (external_body)", "R9: the recursive arm of entails (normalized / first_constraint / satisfy_constraint, `?`) is not verified; nothing is assumed about its answer")
    for name, text in ENTAILS_LEMMAS:
        vf.spec_obligation(name, text, PROPS)
    # `normalized` is consumed through its contract (proved in unit c18_normalized from the same contract text)
    from units import c18_normalized as N
    from vlib.extract import AnchorLost
    N.emit_normalized(vf, assumed=True)
    vf.trust("contract of Semantic::normalized (external_body here)", "proved in unit c18_normalized from the identical clause text")
    clauses = [
        Clause("unsatisfiable_entails_everything", ("C18",), "self is Unsatisfiable ==> r == Some(true) && implies(self, other)"),
        Clause("constant_vs_leaf_agrees_with_truth_table", ("C18",),
               "is_leaf(self) && is_leaf(other) && (self is Trivial || self is Unsatisfiable || other is Unsatisfiable) ==> r == Some(implies(self, other))"),
        # `entails` is a public function on ARBITRARY policies.  Decidable instances of "the answer is the truth-table
        # implication" on operands that are constant only after normalisation (lemma_constant_branch proves that the
        # oracle's answer is `true` for them):
        Clause("trivial_entails_or_with_trivial_branch", ("C18",), "self is Trivial && or_with_trivial_branch(other) ==> r == Some(true)"),
        Clause("and_with_unsatisfiable_branch_entails_unsatisfiable", ("C18",), "other is Unsatisfiable && and_with_unsatisfiable_branch(self) ==> r == Some(true)"),
        Clause("and_with_unsatisfiable_branch_entails_everything", ("C18",), "and_with_unsatisfiable_branch(self) ==> r == Some(true)"),
    ]
    with vf.block("impl<Pk: MiniscriptKey> Semantic<Pk>"):
        try:
            # current shape: `match (self.normalized(), other.normalized()) { .. (a_norm, b_norm) => {..} }`
            vf.repo.at(SEM, "impl:Policy<Pk>#1/fn:entails/match:(self.normalized(), other.normalized())")
            anchor, rec = "impl:Policy<Pk>#1/fn:entails/match:(self.normalized(), other.normalized())", "(a_norm, b_norm)"
        except AnchorLost:
            # shape before the fix 0ce2f32b: `match (self, other) { .. (a, b) => {..} }` (the same clauses apply)
            anchor, rec = "impl:Policy<Pk>#1/fn:entails/match:(self, other)", "(a, b)"
        vf.step(SEM, anchor, "Semantic::entails_step",
                "fn entails_step(self, other: Self) -> Option<bool>", props=PROPS,
                exclude={rec: "entails_rec_excluded(%s)" % rec.strip("()")},
                pre_match="    proof { lemma_leaf_witnesses(self); lemma_leaf_witnesses(other); }",
                contract=Contract(requires=["wf_deep(self) && wf_deep(other)"], ensures=clauses))
    # ---- Concrete -> Semantic lift ---------------------------------------------------------------------
    vf.item(CONC, "enum:Policy", rewrites=[sub("derive-off", r"#\[derive\([^)]*\)\]\s*", ""), sub("R7-rename", r"\benum Policy<", "enum Concrete<")])
    vf.item(_tree.THRESH, "struct:ThresholdError", rewrites=[sub("derive-debug-only", r"#\[derive\([^)]*\)\]", "#[derive(Debug)]")])
    vf.fn(_tree.THRESH, "fn:validate_k_n", assumed=True, contract=Contract(ensures=[
        Clause("k_n", (), "r is Ok <==> !(k == 0 || k > n || (MAX > 0 && n > MAX))")]))
    vf.trust("validate_k_n (external_body, contract only)", "three-line function whose error value uses bool::then_some; contract read off its condition (the C12 unit verifies it)")
    with vf.block("impl<T, const MAX: usize> Threshold<T, MAX>"):
        vf.fn(_tree.THRESH, "impl:Threshold<T, MAX>/fn:new", qual="Threshold", props=("C11", "C18"), contract=Contract(ensures=[
            Clause("new_ok_iff_valid", (), "r is Ok <==> (1 <= k && k <= inner@.len() && (MAX == 0 || inner@.len() <= MAX))"),
            Clause("new_keeps_k_and_children", (), "r is Ok ==> r->Ok_0.k == k && r->Ok_0.inner@ == inner@")]))
    vf.raw(LIFT_ORACLE)
    vf.trust("axiom_clone_is_equal (external_body proof fn)", "Clone::clone of keys / hashes returns an equal value (DESIGN 3.4)")
    vf.trust("lift_and_children_excluded / lift_or_children_excluded / lift_thresh_children_excluded (external_body)",
             "R9 (partial): the recursive lifting of the children (`subs.iter().map(lift).collect()`, `translate_ref` closure, `?`) is replaced by a stub returning "
             "children that are sem-equal to the concrete ones (the induction hypothesis of the per-node step); for Thresh the stub also keeps k (translate_ref). "
             "The error path (`?` when a child fails to lift) is dropped")
    for name, text in LIFT_LEMMAS:
        vf.spec_obligation(name, text, PROPS)
    and_rw = sub("R9-children-lift-to-stub", r"let semantic_subs: Result<Vec<Semantic<Pk>>, Error> =\s*subs\.iter\(\)\.map\(Liftable::lift\)\.collect\(\);\s*let semantic_subs(?:: Vec<_>)? = semantic_subs\?\.into_iter\(\)\.map\(Arc::new\)\.collect\(\);",
                 "let semantic_subs = lift_and_children_excluded(subs);")
    or_rw = sub("R9-children-lift-to-stub", r"let semantic_subs: Result<Vec<Semantic<Pk>>, Error> =\s*subs\.iter\(\)\.map\(\|\(_p, sub\)\| sub\.lift\(\)\)\.collect\(\);\s*let semantic_subs = semantic_subs\?\.into_iter\(\)\.map\(Arc::new\)\.collect\(\);",
                "let semantic_subs = lift_or_children_excluded(subs);")
    th_rw = lit("R9-children-lift-to-stub", "thresh.translate_ref(|sub| Liftable::lift(sub).map(Arc::new))?", "lift_thresh_children_excluded(thresh)")
    ALL = "(forall|a: Asg<Pk>| sem(r, a) == csem(*self, a))"
    with vf.block("impl<Pk: MiniscriptKey> Concrete<Pk>"):
        vf.step(PMOD, "impl:Liftable<Pk> for Concrete<Pk>/fn:lift/match:*self", "Concrete::lift_step",
                "fn lift_step(&self) -> Semantic<Pk>", props=PROPS,
                arm_rewrites={"Self::And(ref subs)": [and_rw], "Self::Or(ref subs)": [or_rw], "Self::Thresh(ref thresh)": [th_rw]},
                post_match=LIFT_HINT,
                contract=Contract(
                    # no-panic precondition of the two `Threshold::new(..).unwrap()`: `and` / `or` are not empty
                    requires=["(*self matches Concrete::And(subs) ==> subs@.len() >= 1) && (*self matches Concrete::Or(subs) ==> subs@.len() >= 1)"],
                    ensures=[
                    Clause("leaf_same_meaning", ("C18",), "is_cleaf(*self) ==> " + ALL),
                    Clause("leaf_stays_leaf", ("C18",), "is_cleaf(*self) ==> is_leaf(r)"),
                    Clause("constants", ("C18",), "(*self is Trivial ==> r is Trivial) && (*self is Unsatisfiable ==> r is Unsatisfiable)"),
                    Clause("locks_same_value", ("C18",), "(*self matches Concrete::After(t) ==> r == Semantic::<Pk>::After(t)) && (*self matches Concrete::Older(t) ==> r == Semantic::<Pk>::Older(t))"),
                    Clause("or_is_any_weights_dropped", ("C18",), "*self is Or ==> " + ALL),
                    Clause("thresh_is_at_least_k", ("C18",), "*self is Thresh ==> " + ALL),
                    Clause("binary_and_is_all", ("C18",), "*self matches Concrete::And(subs) && subs@.len() == 2 ==> " + ALL),
                    # Concrete::And is a public n-ary variant (`Vec`); timelock_info / is_valid treat it as n-ary
                    Clause("and_is_all", ("C18",), "*self is And ==> " + ALL),
                ]))
    return vf
