"""C12 unit (Verus): validation parameters, validation switches, context rules, thresholds.

Part 1  src/validation.rs      ValidationParams::{eq, intersect, entails, validate_pk} + constants against
                               the product lattice (every `allow_*` switch ordered by implication, every
                               `max_*` limit by <=); the per-context constants of src/miniscript/context.rs
                               against a table written from Bitcoin's consensus / standardness rules.
Part 2  src/miniscript/mod.rs  Miniscript::validate / validate_non_top_level: every switch rejects exactly the
                               scripts with the stated defect; tightening parameters never admits more scripts.
Part 3  src/miniscript/context.rs  check_pk / check_global_consensus_validity / check_global_policy_validity /
                               check_local_* / other_top_level_checks for Legacy, Segwitv0, Tap, BareCtx.
Part 4  src/primitives/threshold.rs  validate_k_n, Threshold::{new, set_maximum, forget_maximum, or, and}.

What Verus cannot reach (FnMut closures over the tree, iterator adapters, descriptor constructors) is in the Kani
unit k12_context.
"""
import re

from vlib.verus import VerusFile, Contract, Clause, Undecided, sub, lit, rule
from vlib.extract import match_close, split_arms, strip_docs, Region
from units import _tree

NAME = "c12_validation"
ENGINE = "verus"
PROPS = ("C12", "C11")

VAL = "src/validation.rs"
CTX = "src/miniscript/context.rs"
MSMOD = "src/miniscript/mod.rs"
ANALYZE = "src/miniscript/analyzable.rs"
THRESH = "src/primitives/threshold.rs"
LIMITS = "src/miniscript/limits.rs"
EXT = "src/miniscript/types/extra_props.rs"

DROPPED = [
    "Miniscript::validate_non_top_level: the `for ms in self.iter() { match ms.node {..} }` loop statement and the FnMut closure "
    "`multipath_check` (+ its captured state) are cut out of the function text; the loop is replaced by a call to the stub "
    "`vnt_nodes_loop` (contract: fold of the per-node step over every node). The arms of the cut `match` are verified as the "
    "per-node step `vnt_node_step`, the closure body as `multipath_check` (captured `multipath_len` turned into a `&mut` parameter).",
    "Miniscript::has_repeated_keys (BTreeSet / iterator adapters) is an uninterpreted predicate `spec_has_repeated_keys`; "
    "Miniscript::script_size (pre-order loop) is an uninterpreted figure `spec_script_size`.",
    "error payload strings (`key.to_string()`, `Self::name_str()`) are opaque values.",
    "ScriptContext::top_level_type_check (local enum + FnMut closure over for_each_key) and the descriptor constructors are not "
    "in this unit: Kani unit k12_context (bounded).",
    "Threshold::from_iter (generic iterator, closure capturing &mut Vec): Kani unit k12_context (bounded).",
]

# ------------------------------------------------------------------------------------------------------------
# Part 1 oracle.  Written from the doc comments of `ValidationParams`: a switch `allow_X` set to false forbids
# defect/feature X (false <= true: allowing is weaker); a limit `max_Y` bounds figure Y from above (<= on numbers).
# The lists below are the oracle's enumeration; `fields_of` reads the extracted struct and the unit is UNDECIDED
# when the two disagree (a new field needs a reviewed oracle entry).
# ------------------------------------------------------------------------------------------------------------
SWITCH_DOC = {
    "allow_compressed_keys": "33-byte compressed keys",
    "allow_duplicate_keys": "duplicate public keys",
    "allow_dup_if": "the d: fragment",
    "allow_malleability": "third-party malleability",
    "allow_multi": "multi / sortedmulti (CHECKMULTISIG)",
    "allow_multi_a": "multi_a / sortedmulti_a (CHECKSIGADD)",
    "allow_mixed_time_locks": "height and time locks mixed in one spending path",
    "allow_or_i": "the or_i fragment",
    "allow_raw_pkh": "expr_raw_pkh (raw key hash)",
    "allow_sigless_branch": "a spending path without signature",
    "allow_non_b": "top-level type other than B",
    "allow_uncompressed_keys": "65-byte uncompressed / hybrid keys",
    "allow_unsatisfiable": "unsatisfiable programs",
    "allow_x_only_keys": "32-byte x-only keys",
    "allow_inconsistent_multipath_keys": "multipath keys of different lengths",
}
LIMIT_DOC = {
    "max_opcode_count": "non-push opcodes executed in any branch",
    "max_script_size": "bytes of the encoded script",
    "max_witness_items": "witness stack items",
    "max_exec_stack_size": "stack elements during execution",
    "max_recursive_depth": "depth of the Miniscript tree (library limit, 402)",
}


def fields_of(repo):
    """[(name, type)] of the extracted `struct ValidationParams` (the real field list, in source order)."""
    reg = repo.at(VAL, "struct:ValidationParams")
    text = strip_docs(reg.text)
    body = text[text.index("{") + 1:text.rindex("}")]
    out = []
    for m in re.finditer(r"(?:pub(?:\([^)]*\))?\s+)?(\w+)\s*:\s*([^,\n]+),", body):
        out.append((m.group(1), m.group(2).strip()))
    if not out:
        raise Undecided("struct ValidationParams: no fields found (anchor lost)")
    return out


def lattice_spec(fields):
    sw = [n for n, t in fields if t == "bool"]
    lim = [n for n, t in fields if t == "usize"]
    other = [(n, t) for n, t in fields if t not in ("bool", "usize")]
    if other:
        raise Undecided("ValidationParams has a field that is neither a switch nor a limit: %s" % other)
    if set(sw) != set(SWITCH_DOC) or set(lim) != set(LIMIT_DOC):
        raise Undecided("ValidationParams field list differs from the oracle's enumeration: switches +%s -%s, limits +%s -%s" % (
            sorted(set(sw) - set(SWITCH_DOC)), sorted(set(SWITCH_DOC) - set(sw)), sorted(set(lim) - set(LIMIT_DOC)), sorted(set(LIMIT_DOC) - set(lim))))
    bad = [n for n in sw if not n.startswith("allow_")] + [n for n in lim if not n.startswith("max_")]
    if bad:
        raise Undecided("switch/limit naming convention broken (order direction unknown): %s" % bad)
    leq = " &&\n    ".join(["(a.%s ==> b.%s)" % (n, n) for n in sw] + ["a.%s <= b.%s" % (n, n) for n in lim])
    meet = " &&\n    ".join(["m.%s == (a.%s && b.%s)" % (n, n, n) for n in sw] +
                            ["m.%s == (if a.%s <= b.%s { a.%s } else { b.%s })" % (n, n, n, n, n) for n in lim])
    same = " &&\n    ".join(["a.%s == b.%s" % (n, n) for n in sw + lim])
    return sw, lim, r"""
// ---- product-lattice oracle over ALL fields of the extracted struct (generated from its field list) ----------
// vp_leq(a, b): a is at least as strict as b  (every switch: a allows ==> b allows; every limit: a.max <= b.max)
pub open spec fn vp_leq(a: ValidationParams, b: ValidationParams) -> bool {
    %s
}
// vp_is_meet(m, a, b): m is the componentwise meet (switches: and; limits: min)
pub open spec fn vp_is_meet(m: ValidationParams, a: ValidationParams, b: ValidationParams) -> bool {
    %s
}
pub open spec fn vp_same(a: ValidationParams, b: ValidationParams) -> bool {
    %s
}
// the enumeration is complete: agreeing on every listed field is structural equality of the struct
proof fn vp_same_is_equality(a: ValidationParams, b: ValidationParams)
    ensures vp_same(a, b) <==> a == b,
{}
impl vstd::std_specs::cmp::PartialEqSpecImpl for ValidationParams {
    open spec fn obeys_eq_spec() -> bool { true }
    open spec fn eq_spec(&self, other: &ValidationParams) -> bool { *self == *other }
}
""" % (leq, meet, same)


LATTICE_LAWS = r"""
// ---- lattice laws, stated on the REAL functions (through their contracts) ----------------------------------------
fn law_intersect_commutative(a: &ValidationParams, b: &ValidationParams) {
    let x = a.intersect(b); let y = b.intersect(a);
    assert(x == y);
}
fn law_intersect_associative(a: &ValidationParams, b: &ValidationParams, c: &ValidationParams) {
    let x = a.intersect(b).intersect(c); let y = a.intersect(&b.intersect(c));
    assert(x == y);
}
fn law_intersect_idempotent(a: &ValidationParams) {
    let x = a.intersect(a);
    assert(x == *a);
}
fn law_intersect_lower_bound(a: &ValidationParams, b: &ValidationParams) {
    let m = a.intersect(b);
    let l = m.entails(a); let r = m.entails(b);
    assert(l && r);
}
fn law_intersect_greatest(a: &ValidationParams, b: &ValidationParams, c: &ValidationParams) {
    let ca = c.entails(a); let cb = c.entails(b); let cm = c.entails(&a.intersect(b));
    assert(ca && cb ==> cm);
    assert(cm ==> ca && cb);
}
fn law_entails_reflexive(a: &ValidationParams) {
    let r = a.entails(a);
    assert(r);
}
fn law_entails_transitive(a: &ValidationParams, b: &ValidationParams, c: &ValidationParams) {
    let ab = a.entails(b); let bc = b.entails(c); let ac = a.entails(c);
    assert(ab && bc ==> ac);
}
fn law_entails_antisymmetric(a: &ValidationParams, b: &ValidationParams) {
    let ab = a.entails(b); let ba = b.entails(a); let e = a.eq(b);
    assert((ab && ba) <==> e);
}
fn law_eq_equivalence(a: &ValidationParams, b: &ValidationParams, c: &ValidationParams) {
    let aa = a.eq(a); let ab = a.eq(b); let ba = b.eq(a); let bc = b.eq(c); let ac = a.eq(c);
    assert(aa && (ab == ba) && (ab && bc ==> ac));
}
fn law_intersect_monotone(a: &ValidationParams, b: &ValidationParams, c: &ValidationParams) {
    let ab = a.entails(b); let r = a.intersect(c).entails(&b.intersect(c));
    assert(ab ==> r);
}
"""
LAWS = ["law_intersect_commutative", "law_intersect_associative", "law_intersect_idempotent", "law_intersect_lower_bound",
        "law_intersect_greatest", "law_entails_reflexive", "law_entails_transitive", "law_entails_antisymmetric",
        "law_eq_equivalence", "law_intersect_monotone"]

# ------------------------------------------------------------------------------------------------------------
# The table of context rules -- written from Bitcoin's rules, NOT from context.rs.
#   consensus: script/interpreter.cpp, script/script.h (MAX_SCRIPT_SIZE 10000, MAX_OPS_PER_SCRIPT 201,
#              MAX_SCRIPT_ELEMENT_SIZE 520 -- a P2SH redeem script is one pushed element --, MAX_STACK_SIZE 1000,
#              MAX_PUBKEYS_PER_MULTISIG 20), BIP141/143 (P2WSH), BIP342 (tapscript: no script-size / opcode limit,
#              CHECKMULTISIG disabled, CHECKSIGADD added, 32-byte x-only keys, 1000-element stack limit kept and
#              extended to the initial stack, MINIMALIF consensus).
#   standardness: policy/policy.h (MAX_STANDARD_P2WSH_SCRIPT_SIZE 3600, MAX_STANDARD_P2WSH_STACK_ITEMS 100,
#              scriptSig <= 1650 bytes); Miniscript's P2WSH rules (compressed keys only: BIP143 policy made a
#              context rule by the Miniscript specification).
# A switch that has nothing to do with the script context (duplicate keys, malleability, mixed time locks, raw key
# hash, signature-less branch, satisfiability, multipath consistency) is `true` in every CONSENSUS and `false` in
# every SANE ("sensible": none of the defects named by the property); `allow_non_b` is false everywhere (a
# top-level script must be a complete boolean script).
# ------------------------------------------------------------------------------------------------------------
INF = "usize::MAX"
GENERIC_CONSENSUS = dict(allow_duplicate_keys=True, allow_malleability=True, allow_mixed_time_locks=True, allow_raw_pkh=True,
                         allow_sigless_branch=True, allow_unsatisfiable=True, allow_inconsistent_multipath_keys=True,
                         allow_non_b=False, max_recursive_depth="402")
GENERIC_SANE = dict(allow_duplicate_keys=False, allow_malleability=False, allow_mixed_time_locks=False, allow_raw_pkh=False,
                    allow_sigless_branch=False, allow_unsatisfiable=False, allow_inconsistent_multipath_keys=False,
                    allow_non_b=False, max_recursive_depth="402")
CTX_CONSENSUS = {
    # pre-segwit script: ECDSA keys of 33 or 65 bytes; OP_CHECKSIGADD does not exist; IF/NOTIF arguments need not be
    # minimal, which makes or_i / d: MALLEABLE but not consensus-invalid
    "Legacy": dict(allow_compressed_keys=True, allow_uncompressed_keys=True, allow_x_only_keys=False, allow_multi=True, allow_multi_a=False,
                   allow_dup_if=True, allow_or_i=True,
                   max_opcode_count="201", max_script_size="520", max_witness_items=INF, max_exec_stack_size="1000"),
    "BareCtx": dict(allow_compressed_keys=True, allow_uncompressed_keys=True, allow_x_only_keys=False, allow_multi=True, allow_multi_a=False,
                    allow_dup_if=True, allow_or_i=True,
                    max_opcode_count="201", max_script_size="10000", max_witness_items=INF, max_exec_stack_size="1000"),
    "Segwitv0": dict(allow_compressed_keys=True, allow_uncompressed_keys=False, allow_x_only_keys=False, allow_multi=True, allow_multi_a=False,
                     allow_dup_if=True, allow_or_i=True,
                     max_opcode_count="201", max_script_size="10000", max_witness_items=INF, max_exec_stack_size="1000"),
    "Tap": dict(allow_compressed_keys=False, allow_uncompressed_keys=False, allow_x_only_keys=True, allow_multi=False, allow_multi_a=True,
                allow_dup_if=True, allow_or_i=True,
                max_opcode_count=INF, max_script_size=INF, max_witness_items=INF, max_exec_stack_size="1000"),
}
# what SANE adds on top of CONSENSUS per context (standardness limits; malleable fragments)
CTX_SANE_EXTRA = {
    "Legacy": dict(allow_dup_if=False, allow_or_i=False),
    "BareCtx": dict(allow_dup_if=False, allow_or_i=False),
    "Segwitv0": dict(max_script_size="3600", max_witness_items="100"),
    "Tap": dict(),
}
# Deliberate, documented deviations of the crate from the table (each justified by a comment in the code); the clause
# is then emitted against the documented value and tagged `deliberate_*` so that it stays visible in the evidence.
DELIBERATE = {
    ("*", "SANE", "allow_unsatisfiable"): (True, "validation.rs: `FIXME should make allow_unsatisfiable false, but for compatibility with existing code we leave it as true even for \"sane\" scripts`"),
    ("Legacy", "CONSENSUS", "max_exec_stack_size"): (INF, "context.rs Legacy::check_local_policy_validity: with the 520-byte P2SH limit the 1000-element limit cannot be reached, so it is not checked"),
    ("Legacy", "SANE", "max_exec_stack_size"): (INF, "same as Legacy::CONSENSUS"),
    # not documented in the code; accepted by analogy: BareCtx::CONSENSUS does enforce the 201-opcode limit, every stack element a fragment
    # creates or consumes costs a counted opcode (or is one of the <= 20 keys of a CHECKMULTISIG, which are counted), so 1000 is out of reach
    ("BareCtx", "CONSENSUS", "max_exec_stack_size"): (INF, "unreachable under the 201-opcode limit (undocumented; by analogy with Legacy)"),
    ("BareCtx", "SANE", "max_exec_stack_size"): (INF, "same as BareCtx::CONSENSUS"),
}


def table_value(ctx, kind, field):
    if kind == "CONSENSUS":
        v = CTX_CONSENSUS[ctx].get(field, GENERIC_CONSENSUS.get(field))
    else:
        v = CTX_SANE_EXTRA[ctx].get(field, GENERIC_SANE.get(field, CTX_CONSENSUS[ctx].get(field)))
    return v


def rust_val(v):
    return ("true" if v else "false") if isinstance(v, bool) else str(v)


def const_clauses(ctx, kind, fields, ret="r"):
    out = []
    for f, _ in fields:
        v = table_value(ctx, kind, f)
        if v is None:
            raise Undecided("context table has no entry for %s::%s.%s" % (ctx, kind, f))
        d = DELIBERATE.get((ctx, kind, f)) or DELIBERATE.get(("*", kind, f))
        if d is not None:
            out.append(Clause("deliberate_%s" % f, ("C12",), "%s.%s == %s" % (ret, f, rust_val(d[0]))))
        else:
            out.append(Clause(f, ("C12",), "%s.%s == %s" % (ret, f, rust_val(v))))
    return out


# R13: an associated `const NAME: T = EXPR;` of a trait impl becomes the nullary function `fn NAME() -> T { EXPR }` of
# an inherent impl (Verus consts cannot call exec functions such as `intersect`); uses `Self::NAME` -> `Self::NAME()`.
# Constant evaluation of a `const fn` body is its run-time evaluation, so the value is the same.
def const_to_fn(text):
    m = re.match(r"\s*const\s+(\w+)\s*:\s*([\w:]+)\s*=\s*(.*);\s*$", text, flags=re.S)
    if not m:
        return None
    body = re.sub(r"\bSelf::(CONSENSUS|SANE)\b(?!\()", r"Self::\1()", m.group(3))
    return "fn %s() -> %s {\n    %s\n}" % (m.group(1), m.group(2), body)


const_to_fn.rule = "R13-const-to-fn"



def emit_part1(vf, repo):
    fields = fields_of(repo)
    sw, lim, spec = lattice_spec(fields)
    vf.item(VAL, "struct:ValidationParams", rewrites=[sub("R1-attrs", r"#\[non_exhaustive\]\s*", "", required=False),
                                                        sub("derive-off", r"#\[derive\([^)]*\)\]\s*", "#[derive(Copy, Clone, PartialEq, Eq)]\n", required=True)])
    vf.raw(spec)
    vf.functions["vp_same_is_equality"] = dict(props=PROPS, file=None, lines=None, clauses={}, start=vf._lines - 12, end=vf._lines - 5, origin="verif")
    vf.trust("PartialEqSpecImpl for ValidationParams", "derived PartialEq on a struct of bool/usize fields is structural equality")
    for c in ("MAX_OPS_PER_SCRIPT", "MAX_STANDARD_P2WSH_STACK_ITEMS", "MAX_SCRIPT_SIZE", "MAX_STANDARD_P2WSH_SCRIPT_SIZE",
              "MAX_SCRIPT_ELEMENT_SIZE", "MAX_SCRIPTSIG_SIZE", "MAX_STACK_SIZE"):
        vf.item(LIMITS, "const:%s" % c)
    with vf.block("impl ValidationParams"):
        for c in ("MAX", "SANE", "CONSENSUS"):
            vf.item(VAL, "impl:ValidationParams/const:%s" % c)
        vf.fn(VAL, "impl:ValidationParams/fn:eq", qual="ValidationParams", props=PROPS, contract=Contract(ensures=[
            Clause("structural", ("C12",), "r == (*self == *other)"),
            Clause("all_fields", ("C12",), "r == vp_same(*self, *other)")]))
        vf.fn(VAL, "impl:ValidationParams/fn:intersect", qual="ValidationParams", props=PROPS, contract=Contract(ensures=[
            Clause("is_meet", ("C12",), "vp_is_meet(r, *self, *other)")]))
        vf.fn(VAL, "impl:ValidationParams/fn:entails", qual="ValidationParams", props=PROPS, contract=Contract(ensures=[
            Clause("iff_pointwise", ("C12",), "r == vp_leq(*self, *other)")]))
    vf.raw(LATTICE_LAWS)
    # register each law as its own obligation (line ranges found by scanning the emitted text)
    _register_raw_fns(vf, LAWS, ("C12",))
    return fields


def _register_raw_fns(vf, names, props):
    text = vf.text()
    for n in names:
        m = re.search(r"(?m)^(?:proof )?fn %s\b" % re.escape(n), text)
        if not m:
            raise Undecided("internal: raw fn %s not found" % n)
        start = text.count("\n", 0, m.start()) + 1
        brace = text.index("{", m.end())
        # body end: matching brace
        end_pos = match_close(text, brace)
        end = text.count("\n", 0, end_pos) + 1
        vf.functions[n] = dict(props=tuple(props), file=None, lines=None, clauses={}, start=start, end=end, origin="verif")


CTX_TYPES = ["Legacy", "Segwitv0", "Tap", "BareCtx"]


def emit_ctx_consts(vf, fields):
    for ctx in CTX_TYPES:
        with vf.block("impl %s" % ctx):
            # CONSENSUS: a plain struct literal -> copied verbatim as an associated const of the marker type (R7: the
            # trait impl block `impl ScriptContext for X` is emitted as the inherent `impl X`)
            anchor = "impl:ScriptContext for %s/const:CONSENSUS" % ctx
            vf.item(CTX, anchor)
            # SANE: calls the exec fn `intersect` -> R13
            anchor = "impl:ScriptContext for %s/const:SANE" % ctx
            reg = vf.repo.at(CTX, anchor)
            text = const_to_fn(strip_docs(reg.text))
            if text is None:
                raise Undecided("R13: %s::SANE is not a `const NAME: T = EXPR;`" % ctx)
            text = text.replace("Self::CONSENSUS()", "Self::CONSENSUS")
            vf.rewrites_used.append("R13-const-to-fn @ %s::SANE" % ctx)
            vf.fn_text("%s::SANE" % ctx, text, Contract(ensures=const_clauses(ctx, "SANE", fields)), PROPS, file=CTX, lines=reg.lines(), anchor=anchor)
        reg = vf.repo.at(CTX, "impl:ScriptContext for %s/const:CONSENSUS" % ctx)
        vf.fn_text("%s::CONSENSUS" % ctx, "proof fn table_%s_CONSENSUS() {}" % ctx,
                   Contract(ensures=const_clauses(ctx, "CONSENSUS", fields, ret="%s::CONSENSUS" % ctx)), PROPS, file=CTX, lines=reg.lines(),
                   anchor="impl:ScriptContext for %s/const:CONSENSUS" % ctx)
    # the context-free constants of validation.rs: no context rule at all (every fragment / key kind allowed, no resource limit
    # but the library's depth limit); MAX = "anything goes"
    free = {f: (True if t == "bool" else INF) for f, t in fields}
    free["max_recursive_depth"] = "402"
    for kind, tab in (("MAX", dict(free)), ("CONSENSUS", dict(free, **GENERIC_CONSENSUS)), ("SANE", dict(free, **GENERIC_SANE))):
        ens = []
        for f, _ in fields:
            d = DELIBERATE.get(("*", kind, f))
            ens.append(Clause(("deliberate_%s" % f) if d else f, ("C12",), "ValidationParams::%s.%s == %s" % (kind, f, rust_val(d[0] if d else tab[f]))))
        reg = vf.repo.at(VAL, "impl:ValidationParams/const:%s" % kind)
        vf.fn_text("ValidationParams::%s" % kind, "proof fn table_generic_%s() {}" % kind, Contract(ensures=ens), PROPS, file=VAL, lines=reg.lines(),
                   anchor="impl:ValidationParams/const:%s" % kind)
    laws = []
    for ctx in CTX_TYPES:
        laws.append("law_%s_sane_entails_consensus" % ctx)
        vf.raw("""
fn law_%s_sane_entails_consensus() {
    let s = %s::SANE(); let c = %s::CONSENSUS; let g = ValidationParams::CONSENSUS;
    let r = s.entails(&c); let rg = c.entails(&g);
    assert(r);      // sensible scripts are consensus-valid scripts
    assert(rg);     // a context's consensus rules are at least the context-free ones
}
""" % (ctx, ctx, ctx))
    vf.raw("""
fn law_generic_sane_entails_consensus() {
    let s = ValidationParams::SANE; let c = ValidationParams::CONSENSUS; let m = ValidationParams::MAX;
    let r = s.entails(&c); let rm = c.entails(&m);
    assert(r && rm);
}
""")
    laws.append("law_generic_sane_entails_consensus")
    _register_raw_fns(vf, laws, ("C12",))


# ------------------------------------------------------------------------------------------------------------
# Part 4: thresholds
# ------------------------------------------------------------------------------------------------------------
# R12: `(c).then_some(x)` with side-effect free x  ->  `if c { Some(x) } else { None }`  (definition of bool::then_some)
# Structural: any comparison of two names / literals as the condition, any name / literal as the value (both side-effect free by
# their shape).  Optional: a text without `then_some` (the option written as `if c { Some(x) } else { None }` or a `match`) needs
# no rewrite and is verified as it is; a `then_some` of another shape is rejected by Verus (UNDECIDED), never mis-verified.
THEN_SOME = sub("R12-then_some", r"\((\w+ (?:>|<|>=|<=|==|!=) \w+)\)\.then_some\((\w+)\)", r"(if \1 { Some(\2) } else { None })",
                required=False)

THRESH_SPEC = r"""
// ---- threshold oracle (Miniscript specification: thresh / multi / multi_a need 1 <= k <= n, n within the cap) ----
pub open spec fn k_n_ok(k: usize, n: usize, max: usize) -> bool { 1 <= k && k <= n && (max == 0 || n <= max) }
"""


def emit_part4(vf):
    vf.item(THRESH, "struct:ThresholdError", rewrites=[sub("derive-off", r"#\[derive\([^)]*\)\]\s*", "", required=False)])
    vf.fn(THRESH, "fn:validate_k_n", props=PROPS, rewrites=[THEN_SOME], contract=Contract(ensures=[
        Clause("ok_iff_in_range", ("C12",), "r is Ok <==> k_n_ok(k, n, MAX)"),
        Clause("err_payload", ("C12",), "r is Err ==> r->Err_0.k == k && r->Err_0.n == n && r->Err_0.max == (if MAX > 0 { Some(MAX) } else { None::<usize> })")]))
    with vf.block("impl<T, const MAX: usize> Threshold<T, MAX>"):
        vf.fn(THRESH, "impl:Threshold<T, MAX>/fn:new", qual="Threshold", props=PROPS, contract=Contract(ensures=[
            Clause("ok_iff_in_range", ("C12",), "r is Ok <==> k_n_ok(k, inner@.len() as usize, MAX)"),
            Clause("keeps_k_and_data", ("C12",), "r is Ok ==> r->Ok_0.spec_k() == k && r->Ok_0.elems() == inner@"),
            Clause("wf", ("C12", "C11"), "r is Ok ==> r->Ok_0.wf()")]))
        vf.fn(THRESH, "impl:Threshold<T, MAX>/fn:or", qual="Threshold", props=PROPS, contract=Contract(
            requires=["MAX == 0 || MAX > 1"], ensures=[
                Clause("is_1_of_2", ("C12",), "r.spec_k() == 1 && r.elems() == seq![left, right]"),
                Clause("wf", ("C12", "C11"), "r.wf()")]))
        vf.fn(THRESH, "impl:Threshold<T, MAX>/fn:and", qual="Threshold", props=PROPS, contract=Contract(
            requires=["MAX == 0 || MAX > 1"], ensures=[
                Clause("is_2_of_2", ("C12",), "r.spec_k() == 2 && r.elems() == seq![left, right]"),
                Clause("wf", ("C12", "C11"), "r.wf()")]))
        vf.fn(THRESH, "impl:Threshold<T, MAX>/fn:set_maximum", qual="Threshold", props=PROPS, contract=Contract(ensures=[
            Clause("ok_iff_in_range", ("C12",), "r is Ok <==> k_n_ok(self.spec_k(), self.elems().len() as usize, NEWMAX)"),
            Clause("keeps_k_and_data", ("C12",), "r is Ok ==> r->Ok_0.spec_k() == self.spec_k() && r->Ok_0.elems() == self.elems()"),
            Clause("wf", ("C12", "C11"), "r is Ok ==> r->Ok_0.wf()")]))
        vf.fn(THRESH, "impl:Threshold<T, MAX>/fn:forget_maximum", qual="Threshold", props=PROPS, contract=Contract(
            requires=["self.wf()"], ensures=[
                Clause("keeps_k_and_data", ("C12",), "r.spec_k() == self.spec_k() && r.elems() == self.elems()"),
                Clause("wf", ("C12", "C11"), "r.wf()")]))
        vf.fn(THRESH, "impl:Threshold<T, MAX>/fn:is_or", qual="Threshold", props=PROPS, contract=Contract(ensures=[
            Clause("is_or", ("C12",), "r == (self.spec_k() == 1)")]))
        vf.fn(THRESH, "impl:Threshold<T, MAX>/fn:is_and", qual="Threshold", props=PROPS, contract=Contract(ensures=[
            Clause("is_and", ("C12",), "r == (self.spec_k() == self.spec_n())")]))



# ------------------------------------------------------------------------------------------------------------
# Tree prelude for parts 2-4: the real Terminal / Miniscript / Threshold / Type / ExtData definitions with stubs for
# the external traits (own copy of units/_tree.py's prelude: the key trait needs two more methods here).
# ------------------------------------------------------------------------------------------------------------
STUBS = _tree.STUBS
for old_, new_ in [
    ("    fn is_x_only_key(&self) -> (r: bool) ensures r == self.spec_is_x_only_key();\n",
     "    fn is_x_only_key(&self) -> (r: bool) ensures r == self.spec_is_x_only_key();\n"
     "    spec fn spec_num_der_paths(&self) -> usize;\n"
     "    fn num_der_paths(&self) -> (r: usize) ensures r == self.spec_num_der_paths();\n"
     "    fn to_string(&self) -> String;      // stands for `Display` (error payloads only)\n")]:
    if old_ not in STUBS:
        raise RuntimeError("units/_tree.py STUBS changed: cannot extend the MiniscriptKey stub")
    STUBS = STUBS.replace(old_, new_)

SCRIPT_CONTEXT = r"""
// ScriptContext reduced to what the extracted functions call through the trait: the context's satisfaction-size figure
trait ScriptContext: Sized {
    spec fn spec_max_satisfaction_size<Pk: MiniscriptKey>(ms: &Miniscript<Pk, Self>) -> Option<usize>;
    fn max_satisfaction_size<Pk: MiniscriptKey>(ms: &Miniscript<Pk, Self>) -> (r: Option<usize>)
        ensures r == Self::spec_max_satisfaction_size(ms);
}
// crate::Error reduced to the variants the extracted functions construct
enum Error { ImpossibleSatisfaction, NonStandardBareScript, MultipathDescLenMismatch, Other }
impl vstd::std_specs::cmp::PartialEqSpecImpl for Base {
    open spec fn obeys_eq_spec() -> bool { true }
    open spec fn eq_spec(&self, other: &Base) -> bool { *self == *other }
}
// bitcoin::Weight::MAX_BLOCK.to_wu() (BIP141: 4,000,000 weight units)
struct Weight(u64);
impl Weight {
    const MAX_BLOCK: Weight = Weight(4_000_000);
    fn to_wu(self) -> (r: u64) ensures r == self.0 { self.0 }
}
"""


def emit_tree(vf):
    vf.raw(STUBS, keep_vis=True)
    vf.raw(SCRIPT_CONTEXT)
    vf.trust("prelude stubs MiniscriptKey (is_uncompressed / is_x_only_key / num_der_paths as uninterpreted key attributes, to_string opaque) / "
             "ScriptContext (only max_satisfaction_size) / crate::Error (3 variants) / hash160::Hash / AbsLockTime / RelLockTime / bitcoin::Weight::MAX_BLOCK = 4_000_000 wu",
             "external or out-of-unit types reduced to opaque values + the methods the unit calls")
    vf.trust("PartialEqSpecImpl for Base", "derived PartialEq on a field-less enum is structural equality")
    for c in ("MAX_PUBKEYS_PER_MULTISIG", "MAX_PUBKEYS_IN_CHECKSIGADD"):
        vf.item(LIMITS, "const:%s" % c)
    vf.item(_tree.CORR, "enum:Base")
    vf.item(_tree.CORR, "enum:Input")
    vf.item(_tree.CORR, "struct:Correctness")
    vf.item(_tree.MALL, "enum:Dissat")
    vf.item(_tree.MALL, "struct:Malleability")
    vf.item(_tree.TYPES, "struct:Type")
    vf.item(EXT, "struct:TimelockInfo")
    vf.item(EXT, "struct:SatData")
    vf.item(EXT, "struct:ExtData")
    vf.item(THRESH, "struct:Threshold", rewrites=[sub("derive-off", r"#\[derive\([^)]*\)\]\s*", "", required=False)])
    vf.raw("""
impl<T, const MAX: usize> Threshold<T, MAX> {
    spec fn spec_k(&self) -> usize { self.k }
    spec fn spec_n(&self) -> nat { self.inner@.len() }
    spec fn elems(&self) -> Seq<T> { self.inner@ }
    // the invariant `Threshold::new` establishes
    spec fn wf(&self) -> bool { k_n_ok(self.k, self.inner@.len() as usize, MAX) }
}
""")
    with vf.block("impl<T, const MAX: usize> Threshold<T, MAX>"):
        vf.fn(THRESH, "impl:Threshold<T, MAX>/fn:n", qual="Threshold", props=("C11",),
              contract=Contract(ensures=[Clause("n", (), "r == self.spec_n()")]))
        vf.fn(THRESH, "impl:Threshold<T, MAX>/fn:k", qual="Threshold", props=("C11",),
              contract=Contract(ensures=[Clause("k", (), "r == self.spec_k()")]))
        vf.fn(THRESH, "impl:Threshold<T, MAX>/fn:data", qual="Threshold", props=("C11",),
              contract=Contract(ensures=[Clause("data", (), "r@ == self.elems()")]))
    vf.item(_tree.DECODE, "enum:Terminal")
    vf.item(MSMOD, "mod:private/struct:Miniscript",
            rewrites=[lit("R7", "types::extra_props::ExtData", "ExtData"), lit("R7", "types::Type", "Type")])
    # the four contexts implement the reduced trait: the spec figure is the oracle, the exec fn is the real text
    for c in CTX_TYPES:
        with vf.block("impl ScriptContext for %s" % c):
            vf.raw("    spec fn spec_max_satisfaction_size<Pk: MiniscriptKey>(ms: &Miniscript<Pk, Self>) -> Option<usize> { %s }" % CTX_SAT_FIG[c])
            vf.fn(CTX, "impl:ScriptContext for %s/fn:max_satisfaction_size" % c, qual=c, props=PROPS,
                  rewrites=[closure_annot("data", "SatData", "usize")])


# R10 (ghost annotation of a closure): `|x| EXPR` -> `|x: T| -> (o: U) [requires PRE] ensures o == EXPR { EXPR }`
def closure_annot(var, ty, ret, pre=None):
    @rule("R10-closure-annot")
    def rw(text):
        m = re.search(r"\|%s\|\s*([^()]*?)\)" % var, text)
        if not m:
            return None
        expr = m.group(1).strip()
        req = (" requires %s" % pre) if pre else ""
        return text[:m.start()] + "|%s: %s| -> (o: %s)%s ensures o == %s { %s })" % (var, ty, ret, req, expr, expr) + text[m.end():]
    return rw


# the context's "size of a satisfaction" figure (oracle: scriptSig bytes before segwit, witness bytes after)
CTX_SAT_FIG = {
    "Legacy": "match ms.ext.sat_data { Some(d) => Some(d.max_script_sig_size), None => None }",
    "BareCtx": "match ms.ext.sat_data { Some(d) => Some(d.max_script_sig_size), None => None }",
    "Segwitv0": "match ms.ext.sat_data { Some(d) => Some(d.max_witness_stack_size), None => None }",
    "Tap": "match ms.ext.sat_data { Some(d) => Some(d.max_witness_stack_size), None => None }",
}

# ------------------------------------------------------------------------------------------------------------
# Part 2 oracle: the defect each switch is about, as a predicate on the script (written from the property statement
# and the switches' doc comments); the figures each limit is about.
# ------------------------------------------------------------------------------------------------------------
PART2_SPEC = r"""
// ---- key kinds -------------------------------------------------------------------------------------------------
// a key that is neither uncompressed nor x-only is a 33-byte compressed key.  Every kind a key has must be allowed.
// Deliberate (comment in validate_pk): a compressed key also passes where x-only keys are allowed -- it is used as
// an x-only key by dropping its parity byte.
pub open spec fn key_ok<Pk: MiniscriptKey>(p: ValidationParams, k: Pk) -> bool {
    &&& (k.spec_is_uncompressed() ==> p.allow_uncompressed_keys)
    &&& (k.spec_is_x_only_key() ==> p.allow_x_only_keys)
    &&& (!k.spec_is_uncompressed() && !k.spec_is_x_only_key() ==> p.allow_compressed_keys || p.allow_x_only_keys)
}
pub open spec fn keys_ok<Pk: MiniscriptKey>(p: ValidationParams, s: Seq<Pk>) -> bool {
    forall|i: int| 0 <= i < s.len() ==> key_ok(p, #[trigger] s[i])
}
// ---- per-node: which fragment kinds / keys a node contributes ------------------------------------------------------
pub open spec fn node_keys<Pk: MiniscriptKey, Ctx: ScriptContext>(t: Terminal<Pk, Ctx>) -> Seq<Pk> {
    match t {
        Terminal::PkK(k) => seq![k],
        Terminal::PkH(k) => seq![k],
        Terminal::Multi(th) => th.elems(),
        Terminal::SortedMulti(th) => th.elems(),
        Terminal::MultiA(th) => th.elems(),
        Terminal::SortedMultiA(th) => th.elems(),
        _ => Seq::empty(),
    }
}
pub open spec fn node_switch_ok<Pk: MiniscriptKey, Ctx: ScriptContext>(t: Terminal<Pk, Ctx>, p: ValidationParams) -> bool {
    &&& (t is DupIf ==> p.allow_dup_if)
    &&& (t is OrI ==> p.allow_or_i)
    &&& (t is RawPkH ==> p.allow_raw_pkh)
    &&& (t is Multi || t is SortedMulti ==> p.allow_multi)
    &&& (t is MultiA || t is SortedMultiA ==> p.allow_multi_a)
}
// ---- multipath consistency (BIP389): all multipath keys (>= 2 derivation paths) have the same number of paths --------
pub open spec fn is_mp<Pk: MiniscriptKey>(k: Pk) -> bool { k.spec_num_der_paths() >= 2 }
// one-cell memory: None = no multipath key seen yet, Some(x) = all multipath keys seen so far have x paths; result None = mismatch
pub open spec fn mp_step(st: Option<usize>, n: usize) -> Option<Option<usize>> {
    if n < 2 { Some(st) } else { match st { None => Some(Some(n)), Some(x) => if x == n { Some(st) } else { None } } }
}
pub open spec fn mp_fold<Pk: MiniscriptKey>(st: Option<usize>, s: Seq<Pk>) -> Option<Option<usize>>
    decreases s.len()
{
    if s.len() == 0 { Some(st) } else {
        match mp_step(st, s[0].spec_num_der_paths()) { None => None, Some(st2) => mp_fold(st2, s.drop_first()) }
    }
}
proof fn lemma_mp_fold_single<Pk: MiniscriptKey>()
    ensures forall|st: Option<usize>, k: Pk| #[trigger] mp_fold(st, seq![k]) == mp_step(st, k.spec_num_der_paths()),
{
    assert forall|st: Option<usize>, k: Pk| #[trigger] mp_fold(st, seq![k]) == mp_step(st, k.spec_num_der_paths()) by {
        reveal_with_fuel(mp_fold, 3);
        assert(seq![k].drop_first().len() == 0);
    }
}
proof fn lemma_mp_fold_empty<Pk: MiniscriptKey>()
    ensures forall|st: Option<usize>| #[trigger] mp_fold(st, Seq::<Pk>::empty()) == Some(st),
{}
// what one node does to the state (None = the node is rejected)
pub open spec fn step_spec<Pk: MiniscriptKey, Ctx: ScriptContext>(t: Terminal<Pk, Ctx>, p: ValidationParams, st: Option<usize>) -> Option<Option<usize>> {
    if !(node_switch_ok(t, p) && keys_ok(p, node_keys(t))) { None }
    else if p.allow_inconsistent_multipath_keys { Some(st) }
    else { mp_fold(st, node_keys(t)) }
}
// the loop `for ms in self.iter() { step }` with early exit, as a fold over the nodes it visits
pub open spec fn loop_spec<Pk: MiniscriptKey, Ctx: ScriptContext>(nodes: Seq<Terminal<Pk, Ctx>>, p: ValidationParams, st: Option<usize>) -> Option<Option<usize>>
    decreases nodes.len()
{
    if nodes.len() == 0 { Some(st) } else {
        match step_spec(nodes[0], p, st) { None => None, Some(st2) => loop_spec(nodes.drop_first(), p, st2) }
    }
}
// ---- the declarative statement the property makes about the nodes ------------------------------------------------------
pub open spec fn mp_consistent<Pk: MiniscriptKey, Ctx: ScriptContext>(nodes: Seq<Terminal<Pk, Ctx>>) -> bool {
    forall|i: int, j: int, a: int, b: int| 0 <= i < nodes.len() && 0 <= j < nodes.len() && 0 <= a < node_keys(nodes[i]).len() && 0 <= b < node_keys(nodes[j]).len()
        && is_mp(#[trigger] node_keys(nodes[i])[a]) && is_mp(#[trigger] node_keys(nodes[j])[b])
        ==> node_keys(nodes[i])[a].spec_num_der_paths() == node_keys(nodes[j])[b].spec_num_der_paths()
}
pub open spec fn nodes_ok<Pk: MiniscriptKey, Ctx: ScriptContext>(nodes: Seq<Terminal<Pk, Ctx>>, p: ValidationParams) -> bool {
    &&& forall|i: int| 0 <= i < nodes.len() ==> node_switch_ok(#[trigger] nodes[i], p) && keys_ok(p, node_keys(nodes[i]))
    &&& (p.allow_inconsistent_multipath_keys || mp_consistent(nodes))
}
// ---- script-level defects and figures -------------------------------------------------------------------------------
pub uninterp spec fn spec_nodes<Pk: MiniscriptKey, Ctx: ScriptContext>(ms: Miniscript<Pk, Ctx>) -> Seq<Terminal<Pk, Ctx>>;   // every node of the tree (iteration order of Miniscript::iter)
pub uninterp spec fn spec_has_repeated_keys<Pk: MiniscriptKey, Ctx: ScriptContext>(ms: Miniscript<Pk, Ctx>) -> bool;
pub uninterp spec fn spec_script_size<Pk: MiniscriptKey, Ctx: ScriptContext>(ms: Miniscript<Pk, Ctx>) -> usize;
pub open spec fn d_malleable<Pk: MiniscriptKey, Ctx: ScriptContext>(ms: Miniscript<Pk, Ctx>) -> bool { !ms.ty.mall.non_malleable }
pub open spec fn d_sigless<Pk: MiniscriptKey, Ctx: ScriptContext>(ms: Miniscript<Pk, Ctx>) -> bool { !ms.ty.mall.signed }
pub open spec fn d_non_b<Pk: MiniscriptKey, Ctx: ScriptContext>(ms: Miniscript<Pk, Ctx>) -> bool { !(ms.ty.corr.base is B) }
pub open spec fn d_unsat<Pk: MiniscriptKey, Ctx: ScriptContext>(ms: Miniscript<Pk, Ctx>) -> bool { ms.ext.sat_data is None }
pub open spec fn d_mixed_locks<Pk: MiniscriptKey, Ctx: ScriptContext>(ms: Miniscript<Pk, Ctx>) -> bool { ms.ext.timelock_info.contains_combination }
// figures (ExtData / SatData field docs): witness items = initial stack elements + the witness script itself;
// executed opcodes = static non-push opcodes + the dynamic ones of the costliest satisfaction;
// execution stack = initial elements + the maximum growth during execution
pub open spec fn fig_witness_items(d: SatData) -> int { d.max_witness_stack_count + 1 }
pub open spec fn fig_ops(e: ExtData, d: SatData) -> int { e.static_ops + d.max_exec_op_count }
pub open spec fn fig_stack(d: SatData) -> int { d.max_witness_stack_count + d.max_exec_stack_count }
// no figure is anywhere near usize::MAX (a script lives in memory); precondition against overflow (2^30: Verus leaves the width of usize open, 32 or 64 bit)
pub open spec fn ext_small(e: ExtData) -> bool {
    &&& e.pk_cost < 0x4000_0000 && e.static_ops < 0x4000_0000 && e.tree_height < 0x4000_0000
    &&& (e.sat_data matches Some(d) ==> d.max_witness_stack_size < 0x4000_0000 && d.max_witness_stack_count < 0x4000_0000
            && d.max_script_sig_size < 0x4000_0000 && d.max_exec_stack_count < 0x4000_0000 && d.max_exec_op_count < 0x4000_0000)
}
pub open spec fn limits_ok<Pk: MiniscriptKey, Ctx: ScriptContext>(ms: Miniscript<Pk, Ctx>, p: ValidationParams) -> bool {
    &&& ms.ext.tree_height <= p.max_recursive_depth
    &&& spec_script_size(ms) <= p.max_script_size
    &&& (ms.ext.sat_data matches Some(d) ==> fig_witness_items(d) <= p.max_witness_items && fig_ops(ms.ext, d) <= p.max_opcode_count && fig_stack(d) <= p.max_exec_stack_size)
}
pub open spec fn vnt_ok<Pk: MiniscriptKey, Ctx: ScriptContext>(ms: Miniscript<Pk, Ctx>, p: ValidationParams) -> bool {
    &&& limits_ok(ms, p)
    &&& (p.allow_duplicate_keys || !spec_has_repeated_keys(ms))
    &&& (p.allow_mixed_time_locks || !d_mixed_locks(ms))
    &&& nodes_ok(spec_nodes(ms), p)
}
pub open spec fn validate_ok<Pk: MiniscriptKey, Ctx: ScriptContext>(ms: Miniscript<Pk, Ctx>, p: ValidationParams) -> bool {
    &&& vnt_ok(ms, p)
    &&& (p.allow_malleability || !d_malleable(ms))
    &&& (p.allow_non_b || !d_non_b(ms))
    &&& (p.allow_sigless_branch || !d_sigless(ms))
    &&& (p.allow_unsatisfiable || !d_unsat(ms))
}
"""

FOLD_LEMMAS = r"""
// ---- the fold computes the declarative statement (induction over the node sequence) ---------------------------------
// state invariant: None <=> no multipath key so far; Some(x) <=> some multipath key so far and all of them have x paths
pub open spec fn mp_inv<Pk: MiniscriptKey>(s: Seq<Pk>, st: Option<usize>) -> bool {
    match st {
        None => forall|i: int| 0 <= i < s.len() ==> !is_mp(#[trigger] s[i]),
        Some(x) => x >= 2 && (exists|i: int| 0 <= i < s.len() && is_mp(#[trigger] s[i])) && (forall|i: int| 0 <= i < s.len() && is_mp(#[trigger] s[i]) ==> s[i].spec_num_der_paths() == x),
    }
}
pub open spec fn seq_consistent<Pk: MiniscriptKey>(s: Seq<Pk>) -> bool {
    forall|i: int, j: int| 0 <= i < s.len() && 0 <= j < s.len() && is_mp(#[trigger] s[i]) && is_mp(#[trigger] s[j]) ==> s[i].spec_num_der_paths() == s[j].spec_num_der_paths()
}
// seen ++ rest: folding `rest` from a state that summarises `seen` succeeds iff seen ++ rest is consistent
proof fn lemma_mp_fold<Pk: MiniscriptKey>(seen: Seq<Pk>, rest: Seq<Pk>, st: Option<usize>)
    requires mp_inv(seen, st),
    ensures mp_fold(st, rest) is Some <==> seq_consistent(seen + rest),
            mp_fold(st, rest) matches Some(st2) ==> mp_inv(seen + rest, st2),
    decreases rest.len()
{
    let all = seen + rest;
    if rest.len() == 0 {
        assert(all =~= seen);
        match st {
            None => {},
            Some(x) => {},
        }
    } else {
        let k = rest[0];
        let seen2 = seen.push(k);
        assert(seen2 + rest.drop_first() =~= all);
        assert(all[seen.len() as int] == k);
        assert forall|i: int| 0 <= i < seen.len() implies all[i] == seen[i] by {}
        match mp_step(st, k.spec_num_der_paths()) {
            None => {
                // st == Some(x), k multipath with a different length; some earlier key has x paths
                let x = st->Some_0;
                let w = choose|i: int| 0 <= i < seen.len() && is_mp(#[trigger] seen[i]);
                assert(is_mp(all[w]) && is_mp(all[seen.len() as int]));
                assert(!seq_consistent(all));
            },
            Some(st2) => {
                assert(mp_inv(seen2, st2)) by {
                    assert forall|i: int| 0 <= i < seen2.len() implies (i < seen.len() ==> seen2[i] == seen[i]) && (i == seen.len() ==> seen2[i] == k) by {}
                    if is_mp(k) {
                        assert(is_mp(seen2[seen.len() as int]));
                    } else {
                        match st { None => {}, Some(x) => { let w = choose|i: int| 0 <= i < seen.len() && is_mp(#[trigger] seen[i]); assert(is_mp(seen2[w])); } }
                    }
                }
                lemma_mp_fold(seen2, rest.drop_first(), st2);
            },
        }
    }
}
"""

# ------------------------------------------------------------------------------------------------------------
# Part 2 emission
# ------------------------------------------------------------------------------------------------------------
# R14: `E.map_err(Ctor)?;` -> `match E { Ok(v) => v, Err(e) => return Err(Ctor(e)) };`  (definition of map_err + `?`
# with identical error types; Verus has no datatype constructors as function values)
R14_MAP_ERR = sub("R14-map_err", r"([\w.]+\([\w, ]*\))\.map_err\((\w+::\w+)\)\?;", r"match \1 { Ok(v) => v, Err(e) => return Err(\2(e)) };")
# R15: lambda lifting -- the FnMut closure `multipath_check` captures `params` and `&mut multipath_len`; as a function they
# are explicit parameters
R15_CALL = lit("R15-lambda-lift", "multipath_check(key)?;", "multipath_check(params, multipath_len, key)?;")
R15_CALL_PK = lit("R15-lambda-lift", "multipath_check(pk)?;", "multipath_check(params, multipath_len, pk)?;")


def for_to_while(var, coll, invariants, ghost=""):
    """R8: `for VAR in COLL.iter() { BODY }` over a Threshold's slice -> index loop
    `let mut idx_ = 0; while idx_ < COLL.n() invariant.. decreases.. { let VAR = &COLL.data()[idx_]; BODY; idx_ += 1; }`."""
    @rule("R8")
    def rw(text):
        pat = "for %s in %s.iter() {" % (var, coll)
        n = 0
        while pat in text:
            i = text.index(pat)
            brace = i + len(pat) - 1
            close = match_close(text, brace)
            body = text[brace + 1:close]
            new = ("{ let mut idx_: usize = 0;\n proof { assert(%s.elems().skip(0) =~= %s.elems()); }\n while idx_ < %s.n()\n invariant %s\n decreases %s.spec_n() - idx_\n {\n %s let %s = &%s.data()[idx_];%s\n idx_ += 1;\n }\n }" % (
                coll, coll, coll, ",\n ".join(invariants), coll, ghost, var, coll, body))
            text = text[:i] + new + text[close + 1:]
            n += 1
        return text if n else None
    return rw


def cut_stmt(prefix, replacement, name):
    """R9: cut the statement starting with `prefix` (up to the matching close of its brace block and a trailing `;`)."""
    @rule(name)
    def rw(text):
        if prefix not in text:
            return None
        i = text.index(prefix)
        brace = text.index("{", i + len(prefix) - 1)
        close = match_close(text, brace)
        end = close + 1
        m = re.match(r"\s*;", text[end:])
        if m:
            end += m.end()
        return text[:i] + replacement + text[end:]
    return rw


def closure_body(repo):
    """the text of the closure `multipath_check` inside validate_non_top_level (between its braces)."""
    reg = repo.at(MSMOD, "mod:private/impl:Miniscript<Pk, Ctx>/fn:validate_non_top_level")
    text = reg.text
    pat = "let mut multipath_check = |pk: &Pk| {"
    if pat not in text:
        raise Undecided("closure `multipath_check` not found in validate_non_top_level (anchor lost)")
    i = text.index(pat) + len(pat) - 1
    close = match_close(text, i)
    start_line = reg.line_of(reg.start + i)
    return text[i + 1:close], (start_line, reg.line_of(reg.start + close))


VNT_PRELUDE = r"""
// the loop statement cut out of validate_non_top_level (DESIGN 3.2): Miniscript::iter yields every node once; the loop
// body is `vnt_node_step`, verified below; an `Err` of the step leaves the function at once
#[verifier::external_body]
fn vnt_nodes_loop<Pk: MiniscriptKey, Ctx: ScriptContext>(ms: &Miniscript<Pk, Ctx>, params: &ValidationParams) -> (r: Result<(), ValidationError>)
    ensures r is Ok <==> loop_spec(spec_nodes(*ms), *params, None) is Some,
            r is Err ==> r->Err_0 is IllegalDupIf || r->Err_0 is IllegalMulti || r->Err_0 is IllegalMultiA || r->Err_0 is IllegalOrI || r->Err_0 is IllegalRawPkh
                         || r->Err_0 is Key || r->Err_0 is MultipathKeyLenMismatch,
{ unimplemented!() }
"""

LOOP_LEMMA = r"""
// all keys of a node sequence, in visiting order
pub open spec fn all_keys<Pk: MiniscriptKey, Ctx: ScriptContext>(nodes: Seq<Terminal<Pk, Ctx>>) -> Seq<Pk>
    decreases nodes.len()
{
    if nodes.len() == 0 { Seq::empty() } else { node_keys(nodes[0]) + all_keys(nodes.drop_first()) }
}
proof fn lemma_mp_fold_append<Pk: MiniscriptKey>(st: Option<usize>, a: Seq<Pk>, b: Seq<Pk>)
    ensures mp_fold(st, a + b) == (match mp_fold(st, a) { None => None, Some(st2) => mp_fold(st2, b) }),
    decreases a.len()
{
    if a.len() == 0 {
        assert(a + b =~= b);
    } else {
        assert((a + b).drop_first() =~= a.drop_first() + b);
        assert((a + b)[0] == a[0]);
        match mp_step(st, a[0].spec_num_der_paths()) {
            None => {},
            Some(st2) => { lemma_mp_fold_append(st2, a.drop_first(), b); },
        }
    }
}
pub open spec fn nodes_local_ok<Pk: MiniscriptKey, Ctx: ScriptContext>(nodes: Seq<Terminal<Pk, Ctx>>, p: ValidationParams) -> bool {
    forall|i: int| 0 <= i < nodes.len() ==> node_switch_ok(#[trigger] nodes[i], p) && keys_ok(p, node_keys(nodes[i]))
}
// the loop (fold with early exit) accepts iff every node passes its local rules and the multipath fold over all keys succeeds
proof fn lemma_loop_spec<Pk: MiniscriptKey, Ctx: ScriptContext>(nodes: Seq<Terminal<Pk, Ctx>>, p: ValidationParams, st: Option<usize>)
    ensures loop_spec(nodes, p, st) is Some <==> nodes_local_ok(nodes, p) && (p.allow_inconsistent_multipath_keys || mp_fold(st, all_keys(nodes)) is Some),
    decreases nodes.len()
{
    if nodes.len() == 0 {
    } else {
        let rest = nodes.drop_first();
        assert forall|i: int| 0 <= i < rest.len() implies rest[i] == nodes[i + 1] by {}
        match step_spec(nodes[0], p, st) {
            None => {
                if node_switch_ok(nodes[0], p) && keys_ok(p, node_keys(nodes[0])) {
                    lemma_mp_fold_append(st, node_keys(nodes[0]), all_keys(rest));
                }
            },
            Some(st2) => {
                lemma_loop_spec(rest, p, st2);
                lemma_mp_fold_append(st, node_keys(nodes[0]), all_keys(rest));
                if nodes_local_ok(rest, p) {
                    assert forall|i: int| 0 <= i < nodes.len() implies node_switch_ok(#[trigger] nodes[i], p) && keys_ok(p, node_keys(nodes[i])) by {
                        if i > 0 { assert(nodes[i] == rest[i - 1]); }
                    }
                }
                if nodes_local_ok(nodes, p) {
                    assert forall|i: int| 0 <= i < rest.len() implies node_switch_ok(#[trigger] rest[i], p) && keys_ok(p, node_keys(rest[i])) by {
                        assert(rest[i] == nodes[i + 1]);
                    }
                }
            },
        }
    }
}
// consistency of the flattened key sequence is the declarative per-node statement
proof fn lemma_all_keys_index<Pk: MiniscriptKey, Ctx: ScriptContext>(nodes: Seq<Terminal<Pk, Ctx>>, i: int, a: int) -> (idx: int)
    requires 0 <= i < nodes.len(), 0 <= a < node_keys(nodes[i]).len(),
    ensures 0 <= idx < all_keys(nodes).len(), all_keys(nodes)[idx] == node_keys(nodes[i])[a],
    decreases nodes.len()
{
    if i == 0 { a } else {
        let rest = nodes.drop_first();
        assert(rest[i - 1] == nodes[i]);
        let j = lemma_all_keys_index(rest, i - 1, a);
        node_keys(nodes[0]).len() as int + j
    }
}
proof fn lemma_all_keys_origin<Pk: MiniscriptKey, Ctx: ScriptContext>(nodes: Seq<Terminal<Pk, Ctx>>, idx: int) -> (ia: (int, int))
    requires 0 <= idx < all_keys(nodes).len(),
    ensures 0 <= ia.0 < nodes.len(), 0 <= ia.1 < node_keys(nodes[ia.0]).len(), all_keys(nodes)[idx] == node_keys(nodes[ia.0])[ia.1],
    decreases nodes.len()
{
    if nodes.len() == 0 { (0, 0) }
    else if idx < node_keys(nodes[0]).len() { (0, idx) }
    else {
        let rest = nodes.drop_first();
        let r = lemma_all_keys_origin(rest, idx - node_keys(nodes[0]).len());
        assert(rest[r.0] == nodes[r.0 + 1]);
        (r.0 + 1, r.1)
    }
}
proof fn lemma_consistent_flat<Pk: MiniscriptKey, Ctx: ScriptContext>(nodes: Seq<Terminal<Pk, Ctx>>)
    ensures seq_consistent(all_keys(nodes)) <==> mp_consistent(nodes),
{
    let flat = all_keys(nodes);
    if seq_consistent(flat) {
        assert forall|i: int, j: int, a: int, b: int| 0 <= i < nodes.len() && 0 <= j < nodes.len() && 0 <= a < node_keys(nodes[i]).len() && 0 <= b < node_keys(nodes[j]).len()
            && is_mp(#[trigger] node_keys(nodes[i])[a]) && is_mp(#[trigger] node_keys(nodes[j])[b])
            implies node_keys(nodes[i])[a].spec_num_der_paths() == node_keys(nodes[j])[b].spec_num_der_paths() by {
            let x = lemma_all_keys_index(nodes, i, a);
            let y = lemma_all_keys_index(nodes, j, b);
            assert(is_mp(flat[x]) && is_mp(flat[y]));
        }
    }
    if mp_consistent(nodes) {
        assert forall|x: int, y: int| 0 <= x < flat.len() && 0 <= y < flat.len() && is_mp(#[trigger] flat[x]) && is_mp(#[trigger] flat[y])
            implies flat[x].spec_num_der_paths() == flat[y].spec_num_der_paths() by {
            let p = lemma_all_keys_origin(nodes, x);
            let q = lemma_all_keys_origin(nodes, y);
            assert(is_mp(node_keys(nodes[p.0])[p.1]) && is_mp(node_keys(nodes[q.0])[q.1]));
        }
    }
}
// MAIN: what the cut loop computes is exactly the declarative statement of the property
proof fn lemma_loop_is_nodes_ok<Pk: MiniscriptKey, Ctx: ScriptContext>(nodes: Seq<Terminal<Pk, Ctx>>, p: ValidationParams)
    ensures loop_spec(nodes, p, None) is Some <==> nodes_ok(nodes, p),
{
    lemma_loop_spec(nodes, p, None);
    lemma_mp_fold(Seq::<Pk>::empty(), all_keys(nodes), None);
    assert(Seq::<Pk>::empty() + all_keys(nodes) =~= all_keys(nodes));
    lemma_consistent_flat(nodes);
}
// tightening the parameters never admits more scripts
proof fn lemma_nodes_ok_monotone<Pk: MiniscriptKey, Ctx: ScriptContext>(nodes: Seq<Terminal<Pk, Ctx>>, p: ValidationParams, q: ValidationParams)
    requires vp_leq(p, q), nodes_ok(nodes, p),
    ensures nodes_ok(nodes, q),
{
    assert forall|i: int| 0 <= i < nodes.len() implies node_switch_ok(#[trigger] nodes[i], q) && keys_ok(q, node_keys(nodes[i])) by {
        assert(node_switch_ok(nodes[i], p) && keys_ok(p, node_keys(nodes[i])));
        let s = node_keys(nodes[i]);
        assert forall|j: int| 0 <= j < s.len() implies key_ok(q, #[trigger] s[j]) by { assert(key_ok(p, s[j])); }
    }
}
"""
PROOF_FNS = ["lemma_mp_fold_single", "lemma_mp_fold_empty", "lemma_mp_fold", "lemma_mp_fold_append", "lemma_loop_spec", "lemma_all_keys_index",
             "lemma_all_keys_origin", "lemma_consistent_flat", "lemma_loop_is_nodes_ok", "lemma_nodes_ok_monotone"]

VALIDATE_LAWS = r"""
// ---- laws on the REAL validate (through its contract) ------------------------------------------------------------------
// tightening the parameters never admits more scripts
fn law_validate_monotone<Pk: MiniscriptKey, Ctx: ScriptContext>(ms: &Miniscript<Pk, Ctx>, p: &ValidationParams, q: &ValidationParams)
    requires ext_small(ms.ext),
{
    let e = p.entails(q);
    let r1 = ms.validate(p);
    let r2 = ms.validate(q);
    proof { if e && r1 is Ok { lemma_nodes_ok_monotone(spec_nodes(*ms), *p, *q); } }
    assert(e && r1 is Ok ==> r2 is Ok);
}
fn law_validate_intersection<Pk: MiniscriptKey, Ctx: ScriptContext>(ms: &Miniscript<Pk, Ctx>, p: &ValidationParams, q: &ValidationParams)
    requires ext_small(ms.ext),
{
    // a script valid for both parameter sets is valid for their intersection, and conversely
    let m = p.intersect(q);
    let r1 = ms.validate(p);
    let r2 = ms.validate(q);
    let rm = ms.validate(&m);
    proof {
        if rm is Ok { lemma_nodes_ok_monotone(spec_nodes(*ms), m, *p); lemma_nodes_ok_monotone(spec_nodes(*ms), m, *q); }
    }
    assert(rm is Ok ==> r1 is Ok && r2 is Ok);
}
"""


def switch_law(name, switch, defect):
    """each validation switch, on its own, rejects exactly the scripts that have the stated defect"""
    return """
fn law_switch_%s<Pk: MiniscriptKey, Ctx: ScriptContext>(ms: &Miniscript<Pk, Ctx>)
    requires ext_small(ms.ext), ms.ext.tree_height <= 402,
{
    let p = ValidationParams { %s: false, ..ValidationParams::MAX };
    let r = ms.validate(&p);
    proof { lemma_only_switch(spec_nodes(*ms), p); }
    assert(r is Err <==> %s);
}
""" % (name, switch, defect)


SWITCH_LAWS = [
    ("duplicate_keys", "allow_duplicate_keys", "spec_has_repeated_keys(*ms)"),
    ("mixed_time_locks", "allow_mixed_time_locks", "d_mixed_locks(*ms)"),
    ("malleability", "allow_malleability", "d_malleable(*ms)"),
    ("sigless_branch", "allow_sigless_branch", "d_sigless(*ms)"),
    ("non_b", "allow_non_b", "d_non_b(*ms)"),
    ("unsatisfiable", "allow_unsatisfiable", "d_unsat(*ms)"),
    ("raw_pkh", "allow_raw_pkh", "exists|i: int| 0 <= i < spec_nodes(*ms).len() && #[trigger] spec_nodes(*ms)[i] is RawPkH"),
    ("dup_if", "allow_dup_if", "exists|i: int| 0 <= i < spec_nodes(*ms).len() && #[trigger] spec_nodes(*ms)[i] is DupIf"),
    ("or_i", "allow_or_i", "exists|i: int| 0 <= i < spec_nodes(*ms).len() && #[trigger] spec_nodes(*ms)[i] is OrI"),
    ("multi", "allow_multi", "exists|i: int| 0 <= i < spec_nodes(*ms).len() && (#[trigger] spec_nodes(*ms)[i] is Multi || spec_nodes(*ms)[i] is SortedMulti)"),
    ("multi_a", "allow_multi_a", "exists|i: int| 0 <= i < spec_nodes(*ms).len() && (#[trigger] spec_nodes(*ms)[i] is MultiA || spec_nodes(*ms)[i] is SortedMultiA)"),
    ("multipath", "allow_inconsistent_multipath_keys", "!mp_consistent(spec_nodes(*ms))"),
]
ONLY_SWITCH_LEMMA = r"""
// with every key kind allowed, a node is accepted iff its fragment kind is
proof fn lemma_only_switch<Pk: MiniscriptKey, Ctx: ScriptContext>(nodes: Seq<Terminal<Pk, Ctx>>, p: ValidationParams)
    requires p.allow_compressed_keys && p.allow_uncompressed_keys && p.allow_x_only_keys,
    ensures nodes_ok(nodes, p) <==> (forall|i: int| 0 <= i < nodes.len() ==> node_switch_ok(#[trigger] nodes[i], p)) && (p.allow_inconsistent_multipath_keys || mp_consistent(nodes)),
{
    assert forall|i: int| 0 <= i < nodes.len() implies keys_ok(p, node_keys(#[trigger] nodes[i])) by {}
}
"""


def emit_part2(vf, repo):
    vf.raw(PART2_SPEC)
    vf.raw(FOLD_LEMMAS)
    vf.item(VAL, "enum:KeyError", rewrites=[sub("derive-off", r"#\[derive\([^)]*\)\]\s*", "", required=False)])
    vf.item(VAL, "enum:Error", rewrites=[sub("derive-off", r"#\[derive\([^)]*\)\]\s*", "", required=False),
                                         lit("R7-rename", "enum Error {", "enum ValidationError {"),
                                         lit("R7", "crate::miniscript::types::Base", "Base")])
    with vf.block("impl ValidationParams"):
        vf.fn(VAL, "impl:ValidationParams/fn:validate_pk", qual="ValidationParams", props=PROPS,
              rewrites=[lit("R7", "crate::MiniscriptKey", "MiniscriptKey")], contract=Contract(ensures=[
                  Clause("rejects_exactly", ("C12",), "r is Ok <==> key_ok(*self, *key)"),
                  Clause("err_uncompressed", ("C12",), "r matches Err(KeyError::IllegalUncompressedKey(_)) ==> key.spec_is_uncompressed() && !self.allow_uncompressed_keys"),
                  Clause("err_x_only", ("C12",), "r matches Err(KeyError::IllegalXOnlyKey(_)) ==> key.spec_is_x_only_key() && !self.allow_x_only_keys"),
                  Clause("err_compressed", ("C12",), "r matches Err(KeyError::IllegalCompressedKey(_)) ==> !key.spec_is_uncompressed() && !key.spec_is_x_only_key() && !self.allow_compressed_keys")]))
    with vf.block("impl TimelockInfo"):
        vf.fn(EXT, "impl:TimelockInfo/fn:contains_unspendable_path", qual="TimelockInfo", props=PROPS, contract=Contract(ensures=[
            Clause("is_combination_flag", ("C12",), "r == self.contains_combination")]))
    with vf.block("impl ExtData"):
        vf.fn(EXT, "impl:ExtData#1/fn:sat_op_count", qual="ExtData", props=PROPS,
              rewrites=[closure_annot("data", "SatData", "usize", pre="self.static_ops + data.max_exec_op_count <= usize::MAX")],
              contract=Contract(requires=["ext_small(*self)"], ensures=[
                  Clause("figure", ("C12",), "r == (match self.sat_data { Some(d) => Some(fig_ops(*self, d) as usize), None => None })")]))
    vf.raw(VNT_PRELUDE)
    vf.trust("vnt_nodes_loop (external_body)", "DESIGN 3.2: the `for ms in self.iter()` loop of validate_non_top_level is replaced by its fold specification "
             "`loop_spec` over `spec_nodes` (uninterpreted: the nodes Miniscript::iter yields); the loop BODY is verified as vnt_node_step against `step_spec`, "
             "and `loop_spec` is proved equal to the declarative `nodes_ok` (lemma_loop_is_nodes_ok). Trusted: the iterator visits every node of the tree once.")
    vf.trust("Miniscript::has_repeated_keys / script_size (external_body)", "BTreeSet / pre-order loop code outside Verus' subset: uninterpreted defect predicate "
             "`spec_has_repeated_keys` and figure `spec_script_size`; nothing is assumed about them")
    # --- the closure, lambda-lifted ---------------------------------------------------------------------------------------
    body, lines = closure_body(repo)
    ctext = ("fn multipath_check<Pk: MiniscriptKey>(params: &ValidationParams, multipath_len: &mut Option<usize>, pk: &Pk) -> Result<(), ValidationError> {%s}" % body)
    for old_, new_ in [("match (multipath_len, pk.num_der_paths())", "match (*multipath_len, pk.num_der_paths())"),
                       ("(None, n) => multipath_len = Some(n),", "(None, n) => *multipath_len = Some(n),")]:
        if old_ not in ctext:
            raise Undecided("R15 lambda lifting: `%s` not found in closure multipath_check" % old_)
        ctext = ctext.replace(old_, new_)
    vf.rewrites_used.append("R15-lambda-lift @ closure multipath_check of validate_non_top_level")
    vf.fn_text("multipath_check", strip_docs(ctext), Contract(ensures=[
        Clause("allowed_is_noop", ("C12",), "params.allow_inconsistent_multipath_keys ==> r is Ok && *final(multipath_len) == *old(multipath_len)"),
        Clause("rejects_exactly", ("C12",), "!params.allow_inconsistent_multipath_keys ==> (r is Ok <==> mp_step(*old(multipath_len), pk.spec_num_der_paths()) is Some)"),
        Clause("state", ("C12",), "!params.allow_inconsistent_multipath_keys && r is Ok ==> Some(*final(multipath_len)) == mp_step(*old(multipath_len), pk.spec_num_der_paths())"),
        Clause("err_payload", ("C12",), "r is Err ==> (r->Err_0 matches ValidationError::MultipathKeyLenMismatch { len1, len2 } && Some(len1) == *old(multipath_len) && len2 == pk.spec_num_der_paths() && len1 != len2)"),
    ]), PROPS, file=MSMOD, lines=lines, anchor="fn:validate_non_top_level/closure:multipath_check")
    # --- the loop body, per node ------------------------------------------------------------------------------------------
    inv = ["idx_ <= thresh.spec_n()",
           "forall|j: int| 0 <= j < idx_ ==> key_ok(*params, #[trigger] thresh.elems()[j])",
           "params.allow_inconsistent_multipath_keys ==> *multipath_len == *old(multipath_len)",
           "!params.allow_inconsistent_multipath_keys ==> mp_fold(*old(multipath_len), thresh.elems()) == mp_fold(*multipath_len, thresh.elems().skip(idx_ as int))"]
    ghost = "proof { assert(thresh.elems().skip(idx_ as int).drop_first() =~= thresh.elems().skip(idx_ as int + 1)); assert(thresh.elems().skip(idx_ as int)[0] == thresh.elems()[idx_ as int]); }\n"
    pats = vf.step(MSMOD, "mod:private/impl:Miniscript<Pk, Ctx>/fn:validate_non_top_level/match:ms.node", "vnt_node_step",
                   "fn vnt_node_step<Pk: MiniscriptKey, Ctx: ScriptContext>(ms: &Miniscript<Pk, Ctx>, params: &ValidationParams, multipath_len: &mut Option<usize>) -> Result<(), ValidationError>",
                   props=PROPS, attrs="#[verifier::loop_isolation(false)]",
                   pre_match="proof { lemma_mp_fold_single::<Pk>(); lemma_mp_fold_empty::<Pk>(); }",
                   post_match="let step_result: Result<(), ValidationError> = Ok(step_result);",
                   rewrites=[for_to_while("key", "thresh", inv, ghost), R14_MAP_ERR, R15_CALL, R15_CALL_PK],
                   contract=Contract(ensures=[
                       Clause("rejects_exactly", ("C12",), "r is Ok <==> step_spec(ms.node, *params, *old(multipath_len)) is Some"),
                       Clause("state", ("C12",), "r is Ok ==> Some(*final(multipath_len)) == step_spec(ms.node, *params, *old(multipath_len))"),
                       Clause("err_dup_if", ("C12",), "r matches Err(ValidationError::IllegalDupIf) ==> ms.node is DupIf && !params.allow_dup_if"),
                       Clause("err_or_i", ("C12",), "r matches Err(ValidationError::IllegalOrI) ==> ms.node is OrI && !params.allow_or_i"),
                       Clause("err_raw_pkh", ("C12",), "r matches Err(ValidationError::IllegalRawPkh) ==> ms.node is RawPkH && !params.allow_raw_pkh"),
                       Clause("err_multi", ("C12",), "r matches Err(ValidationError::IllegalMulti) ==> (ms.node is Multi || ms.node is SortedMulti) && !params.allow_multi"),
                       Clause("err_multi_a", ("C12",), "r matches Err(ValidationError::IllegalMultiA) ==> (ms.node is MultiA || ms.node is SortedMultiA) && !params.allow_multi_a"),
                       Clause("err_key", ("C12",), "r matches Err(ValidationError::Key(_)) ==> !keys_ok(*params, node_keys(ms.node))"),
                       Clause("err_kinds", ("C12",), "r is Err ==> r->Err_0 is IllegalDupIf || r->Err_0 is IllegalMulti || r->Err_0 is IllegalMultiA || r->Err_0 is IllegalOrI || r->Err_0 is IllegalRawPkh || r->Err_0 is Key || r->Err_0 is MultipathKeyLenMismatch"),
                   ]))
    vf.raw(LOOP_LEMMA)
    vf.raw(ONLY_SWITCH_LEMMA)
    _register_raw_fns(vf, PROOF_FNS + ["lemma_only_switch"], ("C12",))
    # --- analyzable.rs + helpers ------------------------------------------------------------------------------------------
    with vf.block("impl<Pk: MiniscriptKey, Ctx: ScriptContext> Miniscript<Pk, Ctx>"):
        vf.fn(ANALYZE, "impl:Miniscript<Pk, Ctx>/fn:requires_sig", qual="Miniscript", props=PROPS, contract=Contract(ensures=[
            Clause("is_s_property", ("C12",), "r == !d_sigless(*self)")]))
        vf.fn(ANALYZE, "impl:Miniscript<Pk, Ctx>/fn:is_non_malleable", qual="Miniscript", props=PROPS, contract=Contract(ensures=[
            Clause("is_m_property", ("C12",), "r == !d_malleable(*self)")]))
        vf.fn(ANALYZE, "impl:Miniscript<Pk, Ctx>/fn:has_mixed_timelocks", qual="Miniscript", props=PROPS, contract=Contract(ensures=[
            Clause("is_combination_flag", ("C12",), "r == d_mixed_locks(*self)")]))
        vf.fn(ANALYZE, "impl:Miniscript<Pk, Ctx>/fn:has_repeated_keys", qual="Miniscript", assumed=True, contract=Contract(ensures=[
            Clause("uninterpreted", (), "r == spec_has_repeated_keys(*self)")]))
        vf.fn(MSMOD, "impl:Miniscript<Pk, Ctx>/fn:script_size", qual="Miniscript", assumed=True, contract=Contract(ensures=[
            Clause("uninterpreted", (), "r == spec_script_size(*self)")]))
        vf.fn(MSMOD, "impl:Miniscript<Pk, Ctx>/fn:max_satisfaction_witness_elements", qual="Miniscript", props=PROPS,
              rewrites=[closure_annot("data", "SatData", "usize", pre="data.max_witness_stack_count < usize::MAX")],
              contract=Contract(requires=["ext_small(self.ext)"], ensures=[
                  Clause("figure", ("C12",), "match self.ext.sat_data { Some(d) => r == Ok::<usize, Error>(fig_witness_items(d) as usize), None => r is Err }")]))
        vf.fn(MSMOD, "impl:Miniscript<Pk, Ctx>/fn:max_satisfaction_size", qual="Miniscript", props=PROPS,
              contract=Contract(ensures=[
                  Clause("figure", ("C12",), "match Ctx::spec_max_satisfaction_size(self) { Some(n) => r == Ok::<usize, Error>(n), None => r is Err }")]))
        err = lambda v, body: "r matches Err(ValidationError::%s) ==> %s" % (v, body)
        vf.fn(MSMOD, "mod:private/impl:Miniscript<Pk, Ctx>/fn:validate_non_top_level", qual="Miniscript", props=PROPS,
              rewrites=[lit("R9-cut-closure-state", "let mut multipath_len = None;", ""),
                        cut_stmt("let mut multipath_check = |pk: &Pk| {", "", "R9-cut-closure"),
                        cut_stmt("for ms in self.iter() {", "proof { lemma_loop_is_nodes_ok(spec_nodes(*self), *params); }\n            vnt_nodes_loop(self, params)?;", "R9-cut-loop"),
                        ],
              contract=Contract(requires=["ext_small(self.ext)"], ensures=[
                  Clause("rejects_exactly", ("C12",), "r is Ok <==> vnt_ok(*self, *params)"),
                  Clause("err_depth", ("C12",), err("MaxRecursiveDepthExceeded { limit }", "limit == params.max_recursive_depth && self.ext.tree_height > limit")),
                  Clause("err_duplicate_keys", ("C12",), err("DuplicateKeys", "!params.allow_duplicate_keys && spec_has_repeated_keys(*self)")),
                  Clause("err_mixed_time_locks", ("C12",), err("MixedTimeLocks", "!params.allow_mixed_time_locks && d_mixed_locks(*self)")),
                  Clause("err_script_size", ("C12",), err("MaxScriptSizeExceeded { actual, limit }", "limit == params.max_script_size && actual == spec_script_size(*self) && actual > limit")),
                  Clause("err_witness_items", ("C12",), err("MaxWitnessItemsExceeded { actual, limit }", "limit == params.max_witness_items && self.ext.sat_data is Some && actual == fig_witness_items(self.ext.sat_data->Some_0) && actual > limit")),
                  Clause("err_opcode_count", ("C12",), err("MaxOpCountExceeded { actual, limit }", "limit == params.max_opcode_count && self.ext.sat_data is Some && actual == fig_ops(self.ext, self.ext.sat_data->Some_0) && actual > limit")),
                  Clause("err_exec_stack_size", ("C12",), err("MaxExecStackSizeExceeded { actual, limit }", "limit == params.max_exec_stack_size && self.ext.sat_data is Some && actual == fig_stack(self.ext.sat_data->Some_0) && actual > limit")),
                  Clause("err_never_top_level", ("C12",), "r is Err ==> !(r->Err_0 is Malleable || r->Err_0 is NonBase || r->Err_0 is SiglessBranch || r->Err_0 is Unsatisfiable)"),
              ]))
        vf.fn(MSMOD, "mod:private/impl:Miniscript<Pk, Ctx>/fn:validate", qual="Miniscript", props=PROPS,
              rewrites=[lit("R7", "types::Base::", "Base::")],
              contract=Contract(requires=["ext_small(self.ext)"], ensures=[
                  Clause("rejects_exactly", ("C12",), "r is Ok <==> validate_ok(*self, *params)"),
                  Clause("non_top_level_first", ("C12",), "r is Ok ==> vnt_ok(*self, *params)"),
                  Clause("err_malleable", ("C12",), err("Malleable", "!params.allow_malleability && d_malleable(*self)")),
                  Clause("err_non_b", ("C12",), err("NonBase(b)", "!params.allow_non_b && d_non_b(*self) && b == self.ty.corr.base")),
                  Clause("err_sigless", ("C12",), err("SiglessBranch", "!params.allow_sigless_branch && d_sigless(*self)")),
                  Clause("err_unsatisfiable", ("C12",), err("Unsatisfiable", "!params.allow_unsatisfiable && d_unsat(*self)")),
                  Clause("accepted_is_b", ("C12",), "r is Ok && !params.allow_non_b ==> self.ty.corr.base is B"),
              ]))
    vf.raw(VALIDATE_LAWS)
    vf.raw("".join(switch_law(*x) for x in SWITCH_LAWS))
    _register_raw_fns(vf, ["law_validate_monotone", "law_validate_intersection"] + ["law_switch_%s" % x[0] for x in SWITCH_LAWS], ("C12",))



# ------------------------------------------------------------------------------------------------------------
# Part 3: per-context node rules (context.rs).  Oracle = the same table as for the constants, spelled per node:
#   key kinds      Legacy/Bare: no x-only keys;  Segwitv0: no uncompressed, no x-only;  Tap: no uncompressed
#   multisig       multi/sortedmulti (CHECKMULTISIG) everywhere but Tap;  multi_a/sortedmulti_a (CHECKSIGADD) only in Tap
#   script size    Legacy 520 (P2SH push), Segwitv0 10000 (consensus) / 3600 (standard), Bare 10000, Tap: block weight only
#   satisfaction   <= 201 executed non-push opcodes (not Tap); <= 1000 stack elements (Tap, BIP342); standardness:
#                  scriptSig <= 1650 bytes (Legacy), <= 100 witness items (P2WSH)
#   bare outputs   standard forms only: pk, pkh, multi with n <= 3
# ------------------------------------------------------------------------------------------------------------
CTX_KEY_RULE = {
    "Legacy": "!k.spec_is_x_only_key()",
    "BareCtx": "!k.spec_is_x_only_key()",
    "Segwitv0": "!k.spec_is_uncompressed() && !k.spec_is_x_only_key()",
    "Tap": "!k.spec_is_uncompressed()",
}
CTX_SCRIPT_LIMIT = {"Legacy": "520", "Segwitv0": "10000", "BareCtx": "10000", "Tap": "4000000"}
CTX_MULTI = {"Legacy": "multi", "Segwitv0": "multi", "BareCtx": "multi", "Tap": "multi_a"}


def split_or_guard(scrutinee):
    """R16: `A | B if G => BODY` -> `A if G => BODY, B if G => BODY` (Verus: no or-pattern together with a guard; the
    alternatives are tried in order with the same guard, which is what the or-pattern arm does)."""
    @rule("R16-split-or-guard")
    def rw(text):
        reg = Region("<text>", text, 0, len(text))
        try:
            m = reg._find_match(scrutinee, 0)
        except Exception:
            return None
        for a in split_arms(text, m.start, m.end):
            if a["guard"] and "|" in a["pat"]:
                alts = [x.strip() for x in a["pat"].split("|")]
                body = text[a["body_start"]:a["body_end"]]
                new = ",\n".join("%s if %s => %s" % (alt, a["guard"], body) for alt in alts)
                return text[:a["start"]] + new + text[a["end"]:]
        return None
    return rw


def part3_spec():
    out = ["// ---- per-context node rules (oracle) ----------------------------------------------------------------"]
    for c in CTX_TYPES:
        out.append("pub open spec fn %s_key_ok<Pk: MiniscriptKey>(k: Pk) -> bool { %s }" % (c, CTX_KEY_RULE[c]))
        out.append("pub open spec fn %s_keys_ok<Pk: MiniscriptKey>(s: Seq<Pk>) -> bool { forall|i: int| 0 <= i < s.len() ==> %s_key_ok(#[trigger] s[i]) }" % (c, c))
        if CTX_MULTI[c] == "multi":
            out.append("pub open spec fn %s_flavour_ok<Pk: MiniscriptKey, Ctx: ScriptContext>(t: Terminal<Pk, Ctx>) -> bool { !(t is MultiA || t is SortedMultiA) }" % c)
        else:
            out.append("pub open spec fn %s_flavour_ok<Pk: MiniscriptKey, Ctx: ScriptContext>(t: Terminal<Pk, Ctx>) -> bool { !(t is Multi || t is SortedMulti) }" % c)
    out.append("""
proof fn lemma_singleton_keys<Pk: MiniscriptKey>()
    ensures forall|k: Pk| (#[trigger] seq![k]).len() == 1 && seq![k][0] == k,
{}
pub open spec fn ops_ok(e: ExtData) -> bool { e.sat_data matches Some(d) && fig_ops(e, d) <= 201 }
pub open spec fn is_bare_standard<Pk: MiniscriptKey, Ctx: ScriptContext>(t: Terminal<Pk, Ctx>) -> bool {
    ||| (t matches Terminal::Check(sub) && (sub.node is PkK || sub.node is PkH || sub.node is RawPkH))
    ||| (t matches Terminal::Multi(th) && th.spec_n() <= 3)
    ||| (t matches Terminal::SortedMulti(th) && th.spec_n() <= 3)
}
""")
    return "\n".join(out) + "\n"


def emit_part3(vf):
    vf.raw(part3_spec())
    vf.item(CTX, "enum:ScriptContextError", rewrites=[sub("derive-off", r"#\[derive\([^)]*\)\]\s*", "", required=False)])
    E = "ScriptContextError"
    for c in CTX_TYPES:
        impl = "impl:ScriptContext for %s" % c
        lim = CTX_SCRIPT_LIMIT[c]
        with vf.block("impl %s" % c):
            vf.fn(CTX, impl + "/fn:name_str", qual=c, props=("C11",))
            vf.fn(CTX, impl + "/fn:check_pk", qual=c, props=PROPS, contract=Contract(ensures=[
                Clause("rejects_exactly", ("C12",), "r is Ok <==> %s_key_ok(*pk)" % c),
                Clause("agrees_with_consensus_params", ("C12",), "r is Ok <==> key_ok(%s::CONSENSUS, *pk)" % c),
                Clause("err_kinds", ("C12",), "r is Err ==> (r->Err_0 is XOnlyKeysNotAllowed && pk.spec_is_x_only_key()) || (r->Err_0 is UncompressedKeysNotAllowed && pk.spec_is_uncompressed())")]))
            inv = ["idx_ <= thresh.spec_n()", "forall|j: int| 0 <= j < idx_ ==> %s_key_ok(#[trigger] thresh.elems()[j])" % c]
            size_err = {"Legacy": "MaxRedeemScriptSizeExceeded", "Segwitv0": "MaxWitnessScriptSizeExceeded", "Tap": "MaxWitnessScriptSizeExceeded", "BareCtx": "MaxBareScriptSizeExceeded"}[c]
            other_multi = "MultiANotAllowed" if CTX_MULTI[c] == "multi" else "TaprootMultiDisabled"
            vf.fn(CTX, impl + "/fn:check_global_consensus_validity", qual=c, props=PROPS, attrs="#[verifier::loop_isolation(false)]",
                  rewrites=[for_to_while("pk", "thresh", inv),
                            lit("R10", "let node_checked = match ms.node {", "proof { lemma_singleton_keys::<Pk>(); }\n        let node_checked = match ms.node {")],
                  contract=Contract(ensures=[
                      Clause("multisig_flavour", ("C12",), "r is Ok ==> %s_flavour_ok(ms.node)" % c),
                      Clause("key_kinds", ("C12",), "r is Ok && !(ms.node is PkH) ==> %s_keys_ok(node_keys(ms.node))" % c),
                      Clause("key_kinds_pk_h", ("C12",), "r is Ok && ms.node is PkH ==> %s_keys_ok(node_keys(ms.node))" % c),
                      Clause("script_size", ("C12",), "r is Ok ==> ms.ext.pk_cost <= %s" % lim),
                      Clause("rejects_only_for_cause", ("C12",), "r is Err ==> !(%s_flavour_ok(ms.node) && %s_keys_ok(node_keys(ms.node)) && ms.ext.pk_cost <= %s)" % (c, c, lim)),
                      Clause("err_flavour", ("C12",), "r matches Err(%s::%s) ==> !%s_flavour_ok(ms.node)" % (E, other_multi, c)),
                      Clause("err_size_payload", ("C12",), "r matches Err(%s::%s { max, got }) ==> max == %s && got == ms.ext.pk_cost && got > max" % (E, size_err, lim)),
                  ]))
            gpv = impl + "/fn:check_global_policy_validity" if c in ("Segwitv0", "Tap") else "trait:ScriptContext/fn:check_global_policy_validity"
            vf.fn(CTX, gpv, qual=c, props=PROPS, contract=Contract(ensures=[
                Clause("standard_script_size", ("C12",), "r is Ok <==> %s" % ("ms.ext.pk_cost <= 3600" if c == "Segwitv0" else "true")),
                Clause("err_size_payload", ("C12",), "r matches Err(%s::MaxWitnessScriptSizeExceeded { max, got }) ==> max == 3600 && got == ms.ext.pk_cost && got > max" % E)
            ] if c == "Segwitv0" else [Clause("no_rule", ("C12",), "r is Ok")]))
            if c != "Tap":
                vf.fn(CTX, impl + "/fn:check_local_consensus_validity", qual=c, props=PROPS, contract=Contract(requires=["ext_small(ms.ext)"], ensures=[
                    Clause("opcode_limit", ("C12",), "r is Ok <==> ops_ok(ms.ext)"),
                    Clause("err_payload", ("C12",), "r matches Err(%s::MaxOpCountExceeded { actual, limit }) ==> limit == 201 && ms.ext.sat_data is Some && actual == fig_ops(ms.ext, ms.ext.sat_data->Some_0) && actual > limit" % E),
                    Clause("err_impossible", ("C12",), "r matches Err(%s::ImpossibleSatisfaction) ==> ms.ext.sat_data is None" % E)]))
            else:
                vf.fn(CTX, impl + "/fn:check_local_consensus_validity", qual=c, props=PROPS, contract=Contract(requires=["ext_small(ms.ext)"], ensures=[
                    Clause("stack_limit", ("C12",), "r is Ok <==> (ms.ext.sat_data matches Some(d) ==> fig_stack(d) <= 1000)"),
                    Clause("err_payload", ("C12",), "r matches Err(%s::StackSizeLimitExceeded { actual, limit }) ==> limit == 1000 && ms.ext.sat_data is Some && actual == fig_stack(ms.ext.sat_data->Some_0) && actual > limit" % E)]))
            if c == "Legacy":
                vf.fn(CTX, impl + "/fn:check_local_policy_validity", qual=c, props=PROPS, contract=Contract(ensures=[
                    Clause("scriptsig_limit", ("C12",), "r is Ok <==> (ms.ext.sat_data matches Some(d) && d.max_script_sig_size <= 1650)"),
                    Clause("err_payload", ("C12",), "r matches Err(%s::MaxScriptSigSizeExceeded { actual, limit }) ==> limit == 1650 && ms.ext.sat_data is Some && actual == ms.ext.sat_data->Some_0.max_script_sig_size && actual > limit" % E)]))
            elif c == "Segwitv0":
                vf.fn(CTX, impl + "/fn:check_local_policy_validity", qual=c, props=PROPS, contract=Contract(requires=["ext_small(ms.ext)"], ensures=[
                    Clause("witness_items_limit", ("C12",), "r is Ok <==> (ms.ext.sat_data matches Some(d) && fig_witness_items(d) <= 100)"),
                    Clause("err_payload", ("C12",), "r matches Err(%s::MaxWitnessItemsExceeded { actual, limit }) ==> limit == 100 && ms.ext.sat_data is Some && actual == fig_witness_items(ms.ext.sat_data->Some_0) && actual > limit" % E)]))
            else:
                lpv = impl + "/fn:check_local_policy_validity" if c == "Tap" else "trait:ScriptContext/fn:check_local_policy_validity"
                vf.fn(CTX, lpv, qual=c, props=PROPS, contract=Contract(ensures=[Clause("no_rule", ("C12",), "r is Ok")]))
            # the provided (default) methods of the trait, instantiated at this context
            gcv = "%s_flavour_ok(ms.node) && %s_keys_ok(node_keys(ms.node)) && ms.ext.pk_cost <= %s" % (c, c, lim)
            vf.fn(CTX, "trait:ScriptContext/fn:check_global_validity", qual=c, props=PROPS, contract=Contract(ensures=[
                Clause("consensus_and_policy", ("C12",), "r is Ok ==> %s_flavour_ok(ms.node) && ms.ext.pk_cost <= %s" % (c, "3600" if c == "Segwitv0" else lim)),
                Clause("key_kinds", ("C12",), "r is Ok ==> %s_keys_ok(node_keys(ms.node))" % c)]))
            local = {"Legacy": "ops_ok(ms.ext) && ms.ext.sat_data->Some_0.max_script_sig_size <= 1650",
                     "Segwitv0": "ops_ok(ms.ext) && fig_witness_items(ms.ext.sat_data->Some_0) <= 100",
                     "BareCtx": "ops_ok(ms.ext)",
                     "Tap": "(ms.ext.sat_data matches Some(d) ==> fig_stack(d) <= 1000)"}[c]
            vf.fn(CTX, "trait:ScriptContext/fn:check_local_validity", qual=c, props=PROPS, contract=Contract(requires=["ext_small(ms.ext)"], ensures=[
                Clause("within_resource_limits", ("C12",), "r is Ok ==> %s_flavour_ok(ms.node) && ms.ext.pk_cost <= %s && %s" % (c, "3600" if c == "Segwitv0" else lim, local))]))
            if c == "BareCtx":
                vf.fn(CTX, impl + "/fn:other_top_level_checks", qual=c, props=PROPS, rewrites=[split_or_guard("&ms.node")], contract=Contract(ensures=[
                    Clause("standard_bare_only", ("C12",), "r is Ok <==> is_bare_standard(ms.node)")]))
            else:
                vf.fn(CTX, "trait:ScriptContext/fn:other_top_level_checks", qual=c, props=PROPS, contract=Contract(ensures=[
                    Clause("no_rule", ("C12",), "r is Ok")]))


def emit_cross_laws(vf):
    """what the per-node context checks (run by from_ast, i.e. by the descriptor parser) accept, the consensus PARAMETERS of the
    same context accept too (node by node); stated on the real functions through their contracts"""
    names = []
    for c in CTX_TYPES:
        for nm, concl in [
            ("multisig_rule_matches_params", "((ms.node is Multi || ms.node is SortedMulti) ==> %s::CONSENSUS.allow_multi) && ((ms.node is MultiA || ms.node is SortedMultiA) ==> %s::CONSENSUS.allow_multi_a)" % (c, c)),
            ("key_rule_matches_params", "keys_ok(%s::CONSENSUS, node_keys(ms.node))" % c),
            ("conditional_fragments_match_params", "(ms.node is DupIf ==> %s::CONSENSUS.allow_dup_if) && (ms.node is OrI ==> %s::CONSENSUS.allow_or_i)" % (c, c)),
            ("script_size_matches_params", "ms.ext.pk_cost <= %s::CONSENSUS.max_script_size" % c),
        ]:
            n = "law_%s_%s" % (c, nm)
            names.append(n)
            vf.raw("""
fn %s<Pk: MiniscriptKey>(ms: &Miniscript<Pk, %s>) {
    let r = %s::check_global_validity(ms);
    proof { if r is Ok { let s = node_keys(ms.node); assert forall|i: int| 0 <= i < s.len() implies key_ok(%s::CONSENSUS, #[trigger] s[i]) by { assert(%s_key_ok(s[i])); } } }
    assert(r is Ok ==> %s);
}
""" % (n, c, c, c, c, concl))
    _register_raw_fns(vf, names, ("C12",))


def build(repo):
    vf = VerusFile(NAME, repo)
    fields = emit_part1(vf, repo)
    vf.raw("// context marker types (`pub enum Legacy {}` ... in context.rs; Verus rejects empty enums): type-level tags only\n" + "\n".join("struct %s;" % c for c in CTX_TYPES) + "\n")
    emit_ctx_consts(vf, fields)
    # tree prelude (real Terminal / Miniscript / Threshold) for parts 2-4
    vf.raw(THRESH_SPEC)
    emit_tree(vf)
    emit_part4(vf)
    emit_part2(vf, repo)
    emit_part3(vf)
    emit_cross_laws(vf)
    return vf
