"""C14, state-machine half: the PSBT finalizer's frame / atomicity / idempotence contract (Verus).

Verified text (verbatim from /repo): `finalizer::finalize_input`, `finalizer::finalize_helper`,
`PsbtExt for Psbt :: finalize_mut / finalize_mall_mut / finalize_inp_mut / finalize_inp_mall_mut /
finalize / finalize_mall / finalize_inp / finalize_inp_mall`.  `psbt::Input` and `Psbt` are the REAL
struct definitions, cut from the `bitcoin` dependency source that /repo's Cargo.lock pins (all field
types opaque).  The satisfier + interpreter part `finalize_input_helper` (takes `&Psbt`, cannot mutate)
and `sanity_check` are consumed as arbitrary pure functions of their arguments.

Oracle: BIP174, role "Input Finalizer" (what is written, what is kept, what is cleared) and the C14
property text (already-final inputs are never altered; a failed finalization leaves the PSBT untouched;
other inputs are never touched; every index visited once, exactly the failing indices' errors are
returned).  NOT decided here: that the helper's (witness, scriptSig) is a valid spend (secp, sighash),
order-independence of added signatures, `update_*_with_descriptor`.
"""
import glob
import os
import re

from vlib.verus import VerusFile, Contract, Clause, sub, lit, rule
from vlib.extract import Repo, AnchorLost, strip_docs

NAME = "c14_finalize"
ENGINE = "verus"
PROPS = ("C14", "C11")
FIN = "src/psbt/finalizer.rs"
PMOD = "src/psbt/mod.rs"
DROPPED = [
    "c14_finalize: `impl PsbtExt for Psbt` methods are emitted in an inherent `impl Psbt` block (Verus allows no `requires` on trait-impl methods); paths `finalizer::` / `super::` are flattened into the single module (R7)",
    "c14_finalize: finalize_input_helper (descriptor inference, satisfier, interpreter check; secp FFI) and sanity_check are NOT verified: replaced by arbitrary deterministic functions of (psbt, index, allow_mall) resp. (psbt)",
    "c14_finalize: every other function of finalizer.rs (construct_tap_witness, get_scriptpubkey, get_utxo, prevouts, get_descriptor, interpreter_check, interpreter_inp_check) is a signature-only stub with an arbitrary result, so that code motion between them and finalize_input is judged by the contracts instead of breaking the weave; in those stub signatures `&Script` is written `&ScriptBuf` and the `Borrow<TxOut>` bound is dropped (R7)",
    "c14_finalize: psbt::Input / Psbt field types (maps, scripts, keys, transactions) are opaque values; `Input::default()` is assumed to be all-None / all-empty (derived Default)",
]

# the signer / updater data that BIP174 tells the Input Finalizer to clear ("All other data except the UTXO
# and unknown fields in the input key-value map should be cleared from the PSBT")
MAP_FIELDS = ["partial_sigs", "bip32_derivation", "ripemd160_preimages", "sha256_preimages", "hash160_preimages",
              "hash256_preimages", "tap_script_sigs", "tap_scripts", "tap_key_origins"]
OPT_FIELDS = ["sighash_type", "redeem_script", "witness_script", "tap_key_sig", "tap_internal_key", "tap_merkle_root"]
KEPT_UNKNOWN = ["proprietary", "unknown"]          # BIP174: unknown (and proprietary = unknown to others) fields are kept
ALL_FIELDS = (["non_witness_utxo", "witness_utxo", "final_script_sig", "final_script_witness"] + MAP_FIELDS + OPT_FIELDS + KEPT_UNKNOWN)

PRELUDE = r"""
use core::marker::PhantomData;
use core::mem;

// ---- opaque stand-ins for the dependency types the finalizer only moves around (trusted, listed) ----
#[verifier::external_body]
#[verifier::accept_recursive_types(K)]
#[verifier::accept_recursive_types(V)]
pub struct BTreeMap<K, V> { k: PhantomData<K>, v: PhantomData<V> }
impl<K, V> BTreeMap<K, V> {
    pub uninterp spec fn spec_is_empty(&self) -> bool;
}
pub struct Transaction { pub opaque: u64 }
pub struct TxOut { pub opaque: u64 }
pub struct Output { pub opaque: u64 }
pub struct PublicKey { pub opaque: u64 }
pub struct XOnlyPublicKey { pub opaque: u64 }
pub struct PsbtSighashType { pub opaque: u32 }
pub struct KeySource { pub opaque: u64 }
pub struct TapLeafHash { pub opaque: u64 }
pub struct TapNodeHash { pub opaque: u64 }
pub struct ControlBlock { pub opaque: u64 }
pub struct LeafVersion { pub opaque: u8 }
pub struct Xpub { pub opaque: u64 }
pub struct InputError { pub opaque: u64 }
pub mod ecdsa { use vstd::prelude::*; verus!{ pub struct Signature { pub opaque: u64 } } }
pub mod taproot { use vstd::prelude::*; verus!{ pub struct Signature { pub opaque: u64 } } }
pub mod raw { use vstd::prelude::*; verus!{ pub struct Key { pub opaque: u64 } pub struct ProprietaryKey { pub opaque: u64 } } }
pub mod ripemd160 { use vstd::prelude::*; verus!{ pub struct Hash { pub opaque: u64 } } }
pub mod sha256 { use vstd::prelude::*; verus!{ pub struct Hash { pub opaque: u64 } } }
pub mod sha256d { use vstd::prelude::*; verus!{ pub struct Hash { pub opaque: u64 } } }
pub mod hash160 { use vstd::prelude::*; verus!{ pub struct Hash { pub opaque: u64 } } }
pub mod secp256k1 {
    use vstd::prelude::*;
    verus!{
    pub trait Verification {}
    pub struct PublicKey { pub opaque: u64 }
    pub struct Secp256k1<C> { pub ctx: C }
    }
}
use secp256k1::Secp256k1;

pub struct ScriptBuf { pub opaque: u64 }
pub struct Witness { pub opaque: u64 }
// types that only occur in the signatures of finalizer.rs functions consumed as arbitrary-result stubs (so that code
// motion between those functions and finalize_input still type-checks, and is then judged by the contracts)
pub struct Script { pub opaque: u64 }
pub struct PsbtInputSatisfier { pub opaque: u64 }
pub struct Descriptor<Pk> { pub opaque: u64, pub phantom: PhantomData<Pk> }
pub enum Prevouts<'u, T: 'u> { All(&'u [T]), One(usize, T) }
pub mod sighash { pub use crate::Prevouts; }
pub mod bitcoin { pub use crate::{PublicKey, Script, ScriptBuf, Transaction, TxOut, Witness}; pub use crate::sighash; }
impl Clone for ScriptBuf {
    #[verifier::external_body]
    fn clone(&self) -> (r: ScriptBuf) ensures r == *self { unimplemented!() }
}
impl Clone for Witness {
    #[verifier::external_body]
    fn clone(&self) -> (r: Witness) ensures r == *self { unimplemented!() }
}
impl Default for ScriptBuf {
    #[verifier::external_body]
    fn default() -> (r: ScriptBuf) ensures r.spec_is_empty() { unimplemented!() }
}
impl Default for Witness {
    #[verifier::external_body]
    fn default() -> (r: Witness) ensures r.spec_is_empty() { unimplemented!() }
}
impl ScriptBuf {
    pub uninterp spec fn spec_is_empty(&self) -> bool;
    #[verifier::external_body]
    pub fn is_empty(&self) -> (r: bool) ensures r == self.spec_is_empty() { unimplemented!() }
}
impl Witness {
    pub uninterp spec fn spec_is_empty(&self) -> bool;
    #[verifier::external_body]
    pub fn is_empty(&self) -> (r: bool) ensures r == self.spec_is_empty() { unimplemented!() }
}
"""

MEM_TAKE = r"""
// ---- std: core::mem::take (assumed specification) ----
pub assume_specification<T: Default> [core::mem::take::<T>] (x: &mut T) -> (r: T)
    ensures r == *old(x), call_ensures(T::default, (), *final(x));
"""

DEFAULT = r"""
// ---- the derived Default of psbt::Input (pub: a trait method's ensures may only mention pub items) ----
pub open spec fn input_is_default(i: Input) -> bool {
    &&& i.non_witness_utxo is None && i.witness_utxo is None && i.final_script_sig is None && i.final_script_witness is None
%(default_body)s
}
impl Default for Input {
    #[verifier::external_body]
    fn default() -> (r: Input) ensures input_is_default(r) { unimplemented!() }
}
"""

SPEC = r"""
// ---- the parts of the finalizer that are not verified: arbitrary pure functions of their arguments ----
uninterp spec fn helper_spec(psbt: Psbt, index: usize, allow_mall: bool) -> Result<(Witness, ScriptBuf), Error>;
uninterp spec fn sanity_spec(psbt: Psbt) -> Result<(), Error>;

// ---- oracle: BIP174 "Input Finalizer" + the C14 property text ------------------------------------------
spec fn is_final(i: Input) -> bool { i.final_script_sig is Some || i.final_script_witness is Some }

// everything of a PSBT that is not the input maps
spec fn same_globals(a: Psbt, b: Psbt) -> bool {
    &&& a.unsigned_tx == b.unsigned_tx && a.version == b.version && a.xpub == b.xpub && a.proprietary == b.proprietary
    &&& a.unknown == b.unknown && a.outputs == b.outputs && a.inputs@.len() == b.inputs@.len()
}
spec fn unchanged(a: Psbt, b: Psbt) -> bool { same_globals(a, b) && a.inputs@ == b.inputs@ }
spec fn frame_except(a: Psbt, b: Psbt, index: int) -> bool {
    same_globals(a, b) && (forall|j: int| 0 <= j < a.inputs@.len() && j != index ==> #[trigger] b.inputs@[j] == a.inputs@[j])
}
// BIP174: "it must construct the 0x07 Finalized scriptSig and 0x08 Finalized scriptWitness and place them into the
// input key-value map. If scriptSig is empty for an input, 0x07 should remain unset rather than assigned an empty
// array. Likewise [...] 0x08 [...]. All other data except the UTXO and unknown fields in the input key-value map
// should be cleared from the PSBT. The UTXO should be kept."
spec fn finalized_must(before: Input, after: Input, w: Witness, s: ScriptBuf) -> bool {
    &&& after.final_script_witness == (if w.spec_is_empty() { None::<Witness> } else { Some(w) })
    &&& after.final_script_sig == (if s.spec_is_empty() { None::<ScriptBuf> } else { Some(s) })
    &&& after.non_witness_utxo == before.non_witness_utxo && after.witness_utxo == before.witness_utxo
%(cleared_body)s
}
// one step of the finalizer on input `index` (relation between the PSBT before and after), as the property states it
spec fn fin_step(a: Psbt, b: Psbt, index: int, allow_mall: bool) -> bool {
    let i = a.inputs@[index];
    let h = helper_spec(a, index as usize, allow_mall);
    if is_final(i) { unchanged(a, b) }
    else if h is Err { unchanged(a, b) }
    else { frame_except(a, b, index) && finalized_must(i, b.inputs@[index], h->Ok_0.0, h->Ok_0.1) }
}
spec fn step_err(a: Psbt, index: int, allow_mall: bool) -> bool {
    !is_final(a.inputs@[index]) && helper_spec(a, index as usize, allow_mall) is Err
}
// the finalizer visits the indices lo..hi once each, in order: tr[j] is the PSBT before index j is visited
spec fn is_trace(tr: Seq<Psbt>, n: int, allow_mall: bool) -> bool {
    tr.len() == n + 1 && (forall|j: int| 0 <= j < n ==> #[trigger] fin_step(tr[j], tr[j + 1], j, allow_mall))
}
spec fn errs_of(tr: Seq<Psbt>, k: int, allow_mall: bool) -> Seq<Error>
    decreases k
{
    if k <= 0 { Seq::<Error>::empty() }
    else if step_err(tr[k - 1], k - 1, allow_mall) { errs_of(tr, k - 1, allow_mall).push(helper_spec(tr[k - 1], (k - 1) as usize, allow_mall)->Err_0) }
    else { errs_of(tr, k - 1, allow_mall) }
}
spec fn no_err_before(tr: Seq<Psbt>, k: int, allow_mall: bool) -> bool {
    forall|j: int| 0 <= j < k ==> !(#[trigger] step_err(tr[j], j, allow_mall))
}
// (d) the whole-PSBT loops
spec fn fin_all(a: Psbt, b: Psbt, allow_mall: bool, ok: bool, errs: Seq<Error>) -> bool {
    exists|tr: Seq<Psbt>| #[trigger] is_trace(tr, a.inputs@.len() as int, allow_mall) && tr[0] == a && tr[a.inputs@.len() as int] == b
        && (ok <==> no_err_before(tr, a.inputs@.len() as int, allow_mall)) && (!ok ==> errs == errs_of(tr, a.inputs@.len() as int, allow_mall))
}
spec fn final_kept(a: Psbt, b: Psbt) -> bool {
    forall|j: int| 0 <= j < a.inputs@.len() && is_final(a.inputs@[j]) ==> #[trigger] b.inputs@[j] == a.inputs@[j]
}
spec fn utxos_kept(a: Psbt, b: Psbt) -> bool {
    forall|j: int| 0 <= j < a.inputs@.len() ==> (#[trigger] b.inputs@[j]).non_witness_utxo == a.inputs@[j].non_witness_utxo && b.inputs@[j].witness_utxo == a.inputs@[j].witness_utxo
}
// the deprecated free functions finalize / finalize_mall stop at the first failing index
spec fn fin_until_first_error(a: Psbt, b: Psbt, allow_mall: bool, r: Result<(), Error>) -> bool {
    if sanity_spec(a) is Err { r == Err::<(), Error>(sanity_spec(a)->Err_0) && unchanged(a, b) }
    else {
        exists|tr: Seq<Psbt>, k: int| 0 <= k <= a.inputs@.len() && #[trigger] is_trace(tr, k, allow_mall) && tr[0] == a && unchanged(tr[k], b)
            && no_err_before(tr, k, allow_mall) && (r is Ok <==> k == a.inputs@.len())
            && (r is Err ==> step_err(tr[k], k, allow_mall) && r->Err_0 == helper_spec(tr[k], k as usize, allow_mall)->Err_0)
    }
}
proof fn lemma_errs_empty(tr: Seq<Psbt>, k: int, allow_mall: bool)
    requires 0 <= k
    ensures errs_of(tr, k, allow_mall).len() == 0 <==> no_err_before(tr, k, allow_mall)
    decreases k
{
    if k > 0 { lemma_errs_empty(tr, k - 1, allow_mall); }
}
proof fn lemma_errs_prefix(tr: Seq<Psbt>, tr2: Seq<Psbt>, k: int, allow_mall: bool)
    requires 0 <= k <= tr.len(), tr.len() <= tr2.len(), forall|j: int| 0 <= j < tr.len() ==> tr2[j] == tr[j]
    ensures errs_of(tr2, k, allow_mall) == errs_of(tr, k, allow_mall)
    decreases k
{
    if k > 0 { lemma_errs_prefix(tr, tr2, k - 1, allow_mall); }
}
"""


def dep_repo(repo):
    """The `bitcoin` dependency source pinned by /repo/Cargo.lock (cargo registry, offline).  A scratch worktree used
    for mutation testing has no Cargo.lock (git-ignored): then the registry copy satisfying Cargo.toml is taken."""
    ver = None
    try:
        lock = open(os.path.join(repo.root, "Cargo.lock")).read()
        m = re.search(r'name = "bitcoin"\nversion = "([^"]+)"', lock)
        ver = m.group(1) if m else None
    except OSError:
        pass
    pat = "~/.cargo/registry/src/*/bitcoin-%s" % (ver or "0.32.*")
    c = sorted(glob.glob(os.path.expanduser(pat)))
    if not c:
        raise AnchorLost("bitcoin source (%s) not in the cargo registry" % pat)
    return Repo(c[-1]), os.path.basename(c[-1])[len("bitcoin-"):]


# R7 on stub signatures only: trait-object-ish bounds / unsized borrows of the bitcoin crate that the stand-in types do not model
STUB_SIG = [sub("R7", r",\s*T:\s*Borrow<TxOut>", ", T", required=False), sub("R7", r"&Script\b", "&ScriptBuf", required=False),
            sub("R7", r"&PsbtInputSatisfier\b", "&PsbtInputSatisfier", required=False)]
STRIP_ATTRS = sub("R1-attrs", r"(?m)^\s*#\[(?:derive|cfg_attr)\(.*\)\]\n", "", required=False)

FIN_INPUT_CONTRACT = Contract(
    requires=["(index as int) < old(psbt).inputs@.len()"],
    ensures=[
        # (a) never alters an already-final input; a second call is the identity (idempotence)
        Clause("final_input_untouched", ("C14",), "is_final(old(psbt).inputs@[index as int]) ==> r is Ok && unchanged(*old(psbt), *final(psbt))"),
        # (b) atomicity: failure leaves the PSBT untouched, and the error is the helper's
        Clause("err_iff_helper_err", ("C14",), "r is Err <==> step_err(*old(psbt), index as int, allow_mall)"),
        Clause("err_is_helpers", ("C14",), "r is Err ==> r->Err_0 == helper_spec(*old(psbt), index, allow_mall)->Err_0"),
        Clause("atomic_on_failure", ("C14",), "r is Err ==> unchanged(*old(psbt), *final(psbt))"),
        # (c) success: frame + BIP174 finalizer role on input `index`
        Clause("frame_other_inputs", ("C14",), "frame_except(*old(psbt), *final(psbt), index as int)"),
        Clause("final_witness", ("C14",), "r is Ok && !is_final(old(psbt).inputs@[index as int]) ==> final(psbt).inputs@[index as int].final_script_witness == (if helper_spec(*old(psbt), index, allow_mall)->Ok_0.0.spec_is_empty() { None::<Witness> } else { Some(helper_spec(*old(psbt), index, allow_mall)->Ok_0.0) })"),
        Clause("final_script_sig", ("C14",), "r is Ok && !is_final(old(psbt).inputs@[index as int]) ==> final(psbt).inputs@[index as int].final_script_sig == (if helper_spec(*old(psbt), index, allow_mall)->Ok_0.1.spec_is_empty() { None::<ScriptBuf> } else { Some(helper_spec(*old(psbt), index, allow_mall)->Ok_0.1) })"),
        Clause("becomes_final", ("C14",), "r is Ok && !is_final(old(psbt).inputs@[index as int]) && !(helper_spec(*old(psbt), index, allow_mall)->Ok_0.0.spec_is_empty() && helper_spec(*old(psbt), index, allow_mall)->Ok_0.1.spec_is_empty()) ==> is_final(final(psbt).inputs@[index as int])"),
        Clause("utxo_kept", ("C14",), "final(psbt).inputs@[index as int].non_witness_utxo == old(psbt).inputs@[index as int].non_witness_utxo && final(psbt).inputs@[index as int].witness_utxo == old(psbt).inputs@[index as int].witness_utxo"),
    ] + [
        Clause("cleared_%s" % f, ("C14",), "r is Ok && !is_final(old(psbt).inputs@[index as int]) ==> final(psbt).inputs@[index as int].%s.spec_is_empty()" % f)
        for f in MAP_FIELDS
    ] + [
        Clause("cleared_%s" % f, ("C14",), "r is Ok && !is_final(old(psbt).inputs@[index as int]) ==> final(psbt).inputs@[index as int].%s is None" % f)
        for f in OPT_FIELDS
    ] + [
        Clause("step", ("C14",), "fin_step(*old(psbt), *final(psbt), index as int, allow_mall)"),
    ] + [
        # BIP174 says SHOULD keep unknown fields.  INFO clause (no property id): see the module doc / report.
        Clause("bip174_should_keep_%s__INFO" % f, (), "final(psbt).inputs@[index as int].%s == old(psbt).inputs@[index as int].%s" % (f, f))
        for f in KEPT_UNKNOWN
    ])


def loop_contract(mall, ret_psbt=None):
    """(d) finalize_mut / finalize_mall_mut (and the by-value wrappers, ret_psbt = where the PSBT comes back)."""
    m = "true" if mall else "false"
    pre = "(*old(self))" if ret_psbt is None else "self"
    post = "(*final(self))" if ret_psbt is None else ret_psbt
    errs = "r->Err_0@" if ret_psbt is None else "r->Err_0.1@"
    return Contract(ensures=[
        Clause("visits_every_index_once", ("C14",), "fin_all(%s, %s, %s, r is Ok, if r is Err { %s } else { Seq::<Error>::empty() })" % (pre, post, m, errs)),
        Clause("err_list_nonempty", ("C14",), "r is Err ==> %s.len() > 0" % errs),
        Clause("globals_kept", ("C14",), "same_globals(%s, %s)" % (pre, post)),
        Clause("final_inputs_untouched", ("C14",), "final_kept(%s, %s)" % (pre, post)),
        Clause("utxos_kept", ("C14",), "utxos_kept(%s, %s)" % (pre, post)),
    ])


def loop_rewrites(mall, fn):
    """R10 (ghost insertions only): the trace of intermediate PSBTs, the loop invariant, the existential witness."""
    m = "true" if mall else "false"
    inv = """
            invariant
                same_globals(*old(self), *self), n == old(self).inputs@.len(),
                tr.len() == index + 1, tr[0] == *old(self), tr[index as int] == *self,
                forall|j: int| 0 <= j < index ==> #[trigger] fin_step(tr[j], tr[j + 1], j, %(m)s),
                errors@ == errs_of(tr, index as int, %(m)s),
                final_kept(*old(self), *self), utxos_kept(*old(self), *self),
        """ % dict(m=m)
    return [
        lit("R10", "let mut errors = vec![];", "let mut errors = vec![];\n        let ghost n = self.inputs@.len() as int;\n        let ghost mut tr: Seq<Psbt> = seq![*self];"),
        sub("R10", r"for index in ([^{]+?)\s*\{", lambda mm: "for index in " + mm.group(1) + inv + "{\n            let ghost before = *self;", count=1),
        sub("R10", r"(errors\.push\(e\);\s*\}\s*\})(\s*\})", r"\1\n            proof { let tr0 = tr; tr = tr.push(*self); lemma_errs_prefix(tr0, tr, index as int, %s); assert(tr[index as int] == before); }\2" % m),
        lit("R10", "if errors.is_empty() {", "proof { lemma_errs_empty(tr, n, %s); assert(is_trace(tr, n, %s)); }\n        if errors.is_empty() {" % (m, m)),
    ]


def inp_contract(mall, ret_psbt=None):
    """finalize_inp_mut / finalize_inp_mall_mut (+ by-value wrappers)."""
    m = "true" if mall else "false"
    pre = "(*old(self))" if ret_psbt is None else "self"
    post = "(*final(self))" if ret_psbt is None else ret_psbt
    err = "r->Err_0" if ret_psbt is None else "r->Err_0.1"
    return Contract(ensures=[
        Clause("out_of_bounds_rejected", ("C14", "C11"), "index >= %s.inputs@.len() ==> r is Err && %s == (Error::InputIdxOutofBounds { psbt_inp: %s.inputs@.len() as usize, index }) && unchanged(%s, %s)" % (pre, err, pre, pre, post)),
        Clause("atomic_on_failure", ("C14",), "r is Err ==> unchanged(%s, %s)" % (pre, post)),
        Clause("frame_other_inputs", ("C14",), "frame_except(%s, %s, index as int)" % (pre, post)),
        Clause("final_input_untouched", ("C14",), "index < %s.inputs@.len() && is_final(%s.inputs@[index as int]) ==> r is Ok && unchanged(%s, %s)" % (pre, pre, pre, post)),
        # the documented difference between X and X_mall is the allow_mall flag handed to the satisfier
        Clause("step_with_%s" % ("malleable_allowed" if mall else "non_malleable"), ("C14",),
               "index < %s.inputs@.len() ==> fin_step(%s, %s, index as int, %s) && (r is Err <==> step_err(%s, index as int, %s)) && (r is Err ==> %s == helper_spec(%s, index, %s)->Err_0)" % (pre, pre, post, m, pre, m, err, pre, m)),
    ])


@rule("R12-mut-self")
def mut_self(text):
    """`fn f(mut self, ..) { BODY }` -> `fn f(self, ..) { let mut this = self; BODY[self := this] }` (what rustc's own
    desugaring of a `mut` binding in parameter position does; Verus does not support `mut self`)."""
    m = re.search(r"\(\s*mut self,", text)
    if not m:
        return None
    i = text.index("{", text.index("->"))
    while text[i - 1] == "(":          # not a brace of the return type
        i = text.index("{", i + 1)
    head, body = text[:i], text[i + 1:]
    return head.replace("mut self,", "self,", 1) + "{\n        let mut this = self;" + re.sub(r"\bself\b", "this", body)


def build(repo):
    vf = VerusFile(NAME, repo)
    dep, ver = dep_repo(repo)
    vf.raw(PRELUDE, keep_vis=True)
    vf.trust("prelude stubs BTreeMap / Transaction / TxOut / ScriptBuf / Witness / keys / hashes / Secp256k1 (opaque values)",
             "the finalizer's state machine only moves these values; `is_empty` of ScriptBuf / Witness is an uninterpreted predicate")
    # the REAL struct definitions, from the dependency source pinned by Cargo.lock
    texts = []
    for rel, anchor in (("src/psbt/map/input.rs", "struct:Input"), ("src/psbt/mod.rs", "struct:Psbt")):
        reg = dep.at(rel, anchor)
        text = STRIP_ATTRS(strip_docs(reg.text)).strip("\n")      # `pub` kept (see DEFAULT)
        vf._emit(text, dict(origin="repo", file="bitcoin-%s/%s" % (ver, rel), lines=reg.lines(), anchor=anchor))
        texts.append(text)
    fields = re.findall(r"(?m)^\s*pub\s+(\w+)\s*:", texts[0])
    if sorted(fields) != sorted(ALL_FIELDS):
        from vlib.verus import Undecided
        raise Undecided("psbt::Input of bitcoin-%s has fields %s; the unit's BIP174 classification knows %s" % (
            ver, sorted(set(fields) ^ set(ALL_FIELDS)), "a different set"))
    vf.item(PMOD, "enum:Error", rewrites=[STRIP_ATTRS])
    default_body = "\n".join(["    &&& i.%s.spec_is_empty()" % f for f in MAP_FIELDS + KEPT_UNKNOWN] + ["    &&& i.%s is None" % f for f in OPT_FIELDS])
    cleared_body = "\n".join(["    &&& after.%s.spec_is_empty()" % f for f in MAP_FIELDS] + ["    &&& after.%s is None" % f for f in OPT_FIELDS])
    vf.raw(MEM_TAKE, keep_vis=True)
    vf.raw(DEFAULT % dict(default_body=default_body), keep_vis=True)
    vf.raw(SPEC % dict(cleared_body=cleared_body))
    vf.trust("assume_specification core::mem::take", "std: returns the old value and leaves `T::default()` behind")
    vf.trust("impl Default for Input (external_body)", "bitcoin's `#[derive(Default)]` on psbt::Input: every Option field None, every map empty (checked on the real type by the Kani unit k14_finalize)")
    vf.trust("finalize_input_helper / sanity_check (external_body, `r == helper_spec(..)` / `sanity_spec(..)`)",
             "both take `&Psbt` and cannot mutate it; assumed deterministic in (psbt, index, allow_mall); nothing else is assumed about their result")

    R7 = [lit("R7", "super::Error", "Error")]
    vf.fn(FIN, "fn:finalize_input_helper", assumed=True, rewrites=R7, contract=Contract(
        requires=["(index as int) < psbt.inputs@.len()"],
        ensures=[Clause("spec", (), "r == helper_spec(*psbt, index, allow_mall)")]))
    vf.fn(PMOD, "fn:sanity_check", assumed=True, contract=Contract(ensures=[Clause("spec", (), "r == sanity_spec(*psbt)")]))

    # every other function of finalizer.rs: signature-only stub with an ARBITRARY result (no contract).  They all take
    # `&Psbt` (or no PSBT at all), so they cannot mutate; if code moves between them and the verified functions the
    # woven file still type-checks and the contracts decide (an `Err` after the input was rewritten breaks atomicity)
    verified = ("finalize_input", "finalize_input_helper", "finalize_helper", "finalize", "finalize_mall")
    others = [it["name"] for it in repo.file(FIN).items() if it.get("kind") == "fn" and it["name"] not in verified]
    for name in others:
        vf.fn(FIN, "fn:%s" % name, assumed=True, rewrites=[lit("R7", "super::Error", "Error", required=False)] + STUB_SIG)
    vf.trust("arbitrary-result stubs of the remaining finalizer.rs functions (%s)" % ", ".join(others),
             "external_body without any ensures: nothing is assumed about their result; `&Psbt` parameters cannot be mutated")

    vf.fn(FIN, "fn:finalize_input", props=PROPS, rewrites=R7, contract=FIN_INPUT_CONTRACT)
    # reachability canary for the only precondition (the framework cannot generate one for `&mut` parameters); must FAIL
    start = vf._emit("proof fn canary_finalize_input(psbt: Psbt, index: usize)\n    requires (index as int) < psbt.inputs@.len(),\n    ensures false,\n{}\n",
                     dict(origin="verif", fn="canary_finalize_input", canary_for="finalize_input"))
    vf.canaries.append(("canary_finalize_input", "finalize_input", start, vf._lines))

    # idempotence, as a law of the step relation every finalize_* function is proved to implement
    vf.spec_obligation("idempotent", """
proof fn idempotent(a: Psbt, b: Psbt, c: Psbt, index: int, m1: bool, m2: bool)
    requires 0 <= index < a.inputs@.len(), fin_step(a, b, index, m1), fin_step(b, c, index, m2),
        // the first call succeeded with a non-empty scriptSig or witness (a spend always has one of them)
        is_final(a.inputs@[index]) || (helper_spec(a, index as usize, m1) matches Ok(ws) && !(ws.0.spec_is_empty() && ws.1.spec_is_empty())),
    ensures unchanged(b, c), is_final(b.inputs@[index]),
{}
""", ("C14",))

    # the deprecated whole-PSBT entry point (free fns finalize / finalize_mall forward to it)
    vf.fn(FIN, "fn:finalize_helper", props=PROPS, rewrites=R7 + [
        sub("R10", r"for index in ([^{]+?)\s*\{", lambda mm: """let ghost n = psbt.inputs@.len() as int;
    let ghost mut tr: Seq<Psbt> = seq![*psbt];
    for index in %s
        invariant same_globals(*old(psbt), *psbt), n == old(psbt).inputs@.len(), sanity_spec(*old(psbt)) is Ok,
            tr.len() == index + 1, tr[0] == *old(psbt), tr[index as int] == *psbt,
            forall|j: int| 0 <= j < index ==> #[trigger] fin_step(tr[j], tr[j + 1], j, allow_mall),
            no_err_before(tr, index as int, allow_mall),
            final_kept(*old(psbt), *psbt), utxos_kept(*old(psbt), *psbt),
    {
        let ghost before = *psbt;
        proof { assert(is_trace(tr, index as int, allow_mall)); }""" % mm.group(1), count=1),
        lit("R10", "finalize_input(psbt, index, secp, allow_mall)?;", "finalize_input(psbt, index, secp, allow_mall)?;\n        proof { tr = tr.push(*psbt); assert(tr[index as int] == before); }"),
        lit("R10", "    Ok(())\n}", "    proof { assert(is_trace(tr, n, allow_mall)); }\n    Ok(())\n}"),
    ], contract=Contract(ensures=[
        Clause("stops_at_first_error", ("C14",), "fin_until_first_error(*old(psbt), *final(psbt), allow_mall, r)"),
        Clause("globals_kept", ("C14",), "same_globals(*old(psbt), *final(psbt))"),
        Clause("final_inputs_untouched", ("C14",), "final_kept(*old(psbt), *final(psbt))"),
        Clause("utxos_kept", ("C14",), "utxos_kept(*old(psbt), *final(psbt))"),
    ]))
    for fn, mall in (("finalize", False), ("finalize_mall", True)):
        vf.fn(FIN, "fn:%s" % fn, props=PROPS, rewrites=R7 + [sub("R1-attrs", r"#\[deprecated\(.*?\)\]\s*", "", required=False)], contract=Contract(ensures=[
            Clause("stops_at_first_error", ("C14",), "fin_until_first_error(*old(psbt), *final(psbt), %s, r)" % ("true" if mall else "false"))]))

    # `impl PsbtExt for Psbt`, emitted as inherent methods
    IMPL = "impl:PsbtExt for Psbt"
    FLAT = [sub("R7", r"\bfinalizer::finalize_input\b", "finalize_input", required=False)]
    with vf.block("impl Psbt"):
        for fn, mall in (("finalize_mut", False), ("finalize_mall_mut", True)):
            vf.fn(PMOD, "%s/fn:%s" % (IMPL, fn), qual="Psbt", props=PROPS, rewrites=FLAT + loop_rewrites(mall, fn), contract=loop_contract(mall))
        for fn, mall in (("finalize_inp_mut", False), ("finalize_inp_mall_mut", True)):
            vf.fn(PMOD, "%s/fn:%s" % (IMPL, fn), qual="Psbt", props=PROPS, rewrites=FLAT, contract=inp_contract(mall))
        for fn, mall in (("finalize", False), ("finalize_mall", True)):
            vf.fn(PMOD, "%s/fn:%s" % (IMPL, fn), qual="Psbt", props=PROPS, rewrites=[mut_self],
                  contract=loop_contract(mall, ret_psbt="(if r is Ok { r->Ok_0 } else { r->Err_0.0 })"))
        for fn, mall in (("finalize_inp", False), ("finalize_inp_mall", True)):
            vf.fn(PMOD, "%s/fn:%s" % (IMPL, fn), qual="Psbt", props=PROPS, rewrites=[mut_self],
                  contract=inp_contract(mall, ret_psbt="(if r is Ok { r->Ok_0 } else { r->Err_0.0 })"))
    return vf
