"""C16: the per-descriptor-type script wrappers are the BIP16 / BIP141 / BIP143 commuting diagram (Verus).

Verified text (verbatim from /repo): `Wsh`, `Wpkh`, `Sh` (all three `ShInner` arms), `Bare`, `Pkh` ::
{script_pubkey, address, inner_script, ecdsa_sighash_script_code}, `Sh::{address_fallible, unsigned_script_sig}`
and the `Descriptor` enum dispatch {script_pubkey, address, unsigned_script_sig, explicit_script, script_code}.
The dependency encoders (`to_p2sh`, `to_p2wsh`, `Address::p2*`, `Miniscript::encode`, `Builder::push_slice` ...)
are uninterpreted: the unit proves WHICH encoder is applied to WHICH script, not the hash encodings themselves.

Oracle (written from the BIPs, in terms of the uninterpreted encoders P2SH / P2WSH / P2WPKH / P2PKH / enc / push):
  BIP16   spk(sh(X))            = P2SH(redeem(X));   scriptSig of a P2SH spend ends with the push of redeem(X)
  BIP141  redeem(sh(wsh(ms)))   = spk(wsh(ms)) = P2WSH(enc ms);  redeem(sh(wpkh(pk))) = spk(wpkh(pk)) = P2WPKH(pk);
          witnessScript(wsh(ms)) = enc ms;  native and nested segwit: scriptSig is empty resp. exactly the push of redeem
  BIP143  scriptCode(P2WPKH pk) = P2PKH(pk);  scriptCode(P2WSH) = witnessScript;  legacy: scriptCode = redeemScript / spk
Not decided here: the hash encodings themselves, BIP32 derivation, networks' address strings, multipath (secp/base58).
"""
import re

from vlib.verus import VerusFile, Contract, Clause, sub, lit

NAME = "c16_wrappers"
ENGINE = "verus"
PROPS = ("C16", "C11", "C14")
FPROPS = ("C16", "C11")          # what the descriptor wrappers carry; C14 is carried by the updater step only
SEG = "src/descriptor/segwitv0.rs"
SH = "src/descriptor/sh.rs"
BARE = "src/descriptor/bare.rs"
DMOD = "src/descriptor/mod.rs"
PMOD = "src/psbt/mod.rs"
DROPPED = [
    "c16_wrappers: `<&PushBytes>::try_from(x)` is replaced by the stub `push_bytes_try_from(x)` and `bitcoin::key::CompressedPublicKey::try_from(pk)` by an inherent stub of the same path (R7: trait-qualified calls into the bitcoin crate)",
    "c16_wrappers: type invariants are preconditions, not proved here: wpkh keys are compressed (Wpkh::new -> Segwitv0::check_pk, plus the key-trait law is_uncompressed() <=> !to_public_key().compressed); a sh(ms) redeem script has at most 520 bytes (Sh::new -> Legacy::check_global_consensus_validity, which compares ext.pk_cost -- see finding F7 for uncompressed keys)",
    "c16_wrappers: update_item_with_descriptor_helper: only the non-taproot script-recording `match &derived` is verified (per-node step); key derivation, bip32_derivation / tap_* maps (secp) are not; `derived` is generic in Pk instead of bitcoin::PublicKey; trait PsbtFields is reduced to the two script accessors",
    "c16_wrappers: Tr (taproot) payload methods are stubs with an uninterpreted result (C15 covers the taproot commitment)",
]

PRELUDE = r"""
use core::marker::PhantomData;

// ---- stubs of the bitcoin crate / out-of-unit types (trusted, listed) ---------------------------------
#[derive(Debug)]
pub struct PublicKey { pub compressed: bool, pub point: u64 }
pub struct ScriptBuf { pub opaque: u64 }
pub struct PushBytes { pub opaque: u64 }
#[derive(Debug)]
pub struct PushBytesError { pub opaque: u8 }
pub enum Network { Bitcoin, Testnet, Signet, Regtest }
#[derive(Debug)]
pub enum Error { BareDescriptorAddr, TrNoScriptCode, MissingSig(PublicKey), AddressError(u8), Other(u8) }
pub struct Address { pub opaque: u64 }

// the uninterpreted encoders the oracle is written in
pub uninterp spec fn P2SH(redeem: ScriptBuf) -> ScriptBuf;          // BIP16: OP_HASH160 <hash160(redeem)> OP_EQUAL
pub uninterp spec fn P2WSH(witness_script: ScriptBuf) -> ScriptBuf; // BIP141: 0 <sha256(witness_script)>
pub uninterp spec fn P2WPKH(pk: PublicKey) -> ScriptBuf;            // BIP141: 0 <hash160(pk)>
pub uninterp spec fn P2PKH(pk: PublicKey) -> ScriptBuf;             // DUP HASH160 <hash160(pk)> EQUALVERIFY CHECKSIG
pub uninterp spec fn script_of_pushes(pushes: Seq<Seq<u8>>) -> ScriptBuf;
pub open spec fn empty_script() -> ScriptBuf { script_of_pushes(Seq::<Seq<u8>>::empty()) }
pub open spec fn single_push(data: Seq<u8>) -> ScriptBuf { script_of_pushes(seq![data]) }
pub const MAX_SCRIPT_ELEMENT_SIZE: usize = 520;
// BIP141: a P2WSH program is 34 bytes (OP_0, push-32), a P2WPKH program 22 bytes (OP_0, push-20)
#[verifier::external_body]
pub proof fn axiom_bip141_lengths()
    ensures forall|s: ScriptBuf| (#[trigger] P2WSH(s)).bytes().len() == 34, forall|pk: PublicKey| (#[trigger] P2WPKH(pk)).bytes().len() == 22,
{}

impl ScriptBuf {
    pub uninterp spec fn bytes(&self) -> Seq<u8>;
    #[verifier::external_body]
    pub fn new() -> (r: ScriptBuf) ensures r == empty_script() { unimplemented!() }
    #[verifier::external_body]
    pub fn to_p2sh(&self) -> (r: ScriptBuf) ensures r == P2SH(*self), r.bytes().len() == 23 { unimplemented!() }
    #[verifier::external_body]
    pub fn to_p2wsh(&self) -> (r: ScriptBuf) ensures r == P2WSH(*self), r.bytes().len() == 34 { unimplemented!() }
    #[verifier::external_body]
    pub fn as_bytes(&self) -> (r: &[u8]) ensures r@ == self.bytes() { unimplemented!() }
}
impl PushBytes { pub uninterp spec fn bytes(&self) -> Seq<u8>; }
impl ScriptBuf {
    #[verifier::external_body]
    pub fn into_bytes(self) -> (r: Vec<u8>) ensures r@ == self.bytes() { unimplemented!() }
}
impl PublicKey {
    pub uninterp spec fn ser(&self) -> Seq<u8>;          // 33- or 65-byte serialisation
    #[verifier::external_body]
    pub fn to_bytes(self) -> (r: Vec<u8>) ensures r@ == self.ser() { unimplemented!() }
}
// a witness stack / satisfaction as a sequence of byte strings
pub open spec fn vv(v: Vec<Vec<u8>>) -> Seq<Seq<u8>> { Seq::new(v@.len(), |i: int| v@[i]@) }
// scriptSig made of the pushes of a legacy satisfaction (util::witness_to_scriptsig; its panic-freedom: unit k14_finalize)
pub uninterp spec fn scriptsig_of(elems: Seq<Seq<u8>>) -> ScriptBuf;
#[verifier::external_body]
pub fn witness_to_scriptsig(witness: &Vec<Vec<u8>>) -> (r: ScriptBuf) ensures r == scriptsig_of(vv(*witness)) { unimplemented!() }
#[verifier::external_body]
pub fn push_bytes_try_from<'a>(b: &'a [u8]) -> (r: Result<&'a PushBytes, PushBytesError>)
    ensures r is Ok <==> b@.len() <= 0xFFFF_FFFF, r is Ok ==> r->Ok_0.bytes() == b@,
{ unimplemented!() }
pub mod script {
    use vstd::prelude::*;
    use crate::*;
    verus!{
    pub struct Builder { pub opaque: u64 }
    impl Builder {
        pub uninterp spec fn pushes(&self) -> Seq<Seq<u8>>;
        #[verifier::external_body]
        pub fn new() -> (r: Builder) ensures r.pushes() == Seq::<Seq<u8>>::empty() { unimplemented!() }
        #[verifier::external_body]
        pub fn push_slice(self, data: &PushBytes) -> (r: Builder) ensures r.pushes() == self.pushes().push(data.bytes()) { unimplemented!() }
        #[verifier::external_body]
        pub fn push_key(self, key: &PublicKey) -> (r: Builder) ensures r.pushes() == self.pushes().push(key.ser()) { unimplemented!() }
        #[verifier::external_body]
        pub fn into_script(self) -> (r: ScriptBuf) ensures r == script_of_pushes(self.pushes()) { unimplemented!() }
    }
    }
}
pub mod bitcoin {
    pub mod ecdsa {
        use vstd::prelude::*;
        use crate::*;
        verus!{
        pub struct Signature { pub opaque: u64 }
        pub struct SerializedSignature { pub opaque: u64 }
        impl Signature {
            pub uninterp spec fn ser(&self) -> Seq<u8>;      // DER encoding + sighash byte, as pushed
            #[verifier::external_body]
            pub fn to_vec(&self) -> (r: Vec<u8>) ensures r@ == self.ser() { unimplemented!() }
            #[verifier::external_body]
            pub fn serialize(&self) -> (r: SerializedSignature) ensures r.bytes() == self.ser() { unimplemented!() }
        }
        impl SerializedSignature {
            pub uninterp spec fn bytes(&self) -> Seq<u8>;
            #[verifier::external_body]
            pub fn as_ref(&self) -> (r: &PushBytes) ensures r.bytes() == self.bytes() { unimplemented!() }
        }
        }
    }
    pub mod key {
        use vstd::prelude::*;
        use crate::*;
        verus!{
        pub struct CompressedPublicKey { pub opaque: u64 }
        #[derive(Debug)]
        pub struct UncompressedPublicKeyError { pub opaque: u8 }
        impl CompressedPublicKey {
            pub uninterp spec fn as_pk(&self) -> PublicKey;
            #[verifier::external_body]
            pub fn try_from(pk: PublicKey) -> (r: Result<CompressedPublicKey, UncompressedPublicKeyError>)
                ensures r is Ok <==> pk.compressed, r is Ok ==> r->Ok_0.as_pk() == pk,
            { unimplemented!() }
        }
        }
    }
}
impl Address {
    pub uninterp spec fn spk(&self) -> ScriptBuf;
    pub uninterp spec fn net(&self) -> Network;
    #[verifier::external_body]
    pub fn p2pkh(pk: PublicKey, network: Network) -> (r: Address) ensures r.spk() == P2PKH(pk), r.net() == network { unimplemented!() }
    #[verifier::external_body]
    pub fn p2wpkh(pk: &bitcoin::key::CompressedPublicKey, network: Network) -> (r: Address) ensures r.spk() == P2WPKH(pk.as_pk()), r.spk().bytes().len() == 22, r.net() == network { unimplemented!() }
    #[verifier::external_body]
    pub fn p2wsh(script: &ScriptBuf, network: Network) -> (r: Address) ensures r.spk() == P2WSH(*script), r.net() == network { unimplemented!() }
    #[verifier::external_body]
    pub fn p2sh(script: &ScriptBuf, network: Network) -> (r: Result<Address, Error>)
        ensures r is Ok <==> script.bytes().len() <= MAX_SCRIPT_ELEMENT_SIZE, r is Ok ==> r->Ok_0.spk() == P2SH(*script) && r->Ok_0.net() == network,
    { unimplemented!() }
    #[verifier::external_body]
    pub fn script_pubkey(&self) -> (r: ScriptBuf) ensures r == self.spk() { unimplemented!() }
}

pub trait MiniscriptKey: Sized {}
pub trait ToPublicKey: MiniscriptKey {
    spec fn spec_pk(&self) -> PublicKey;
    fn to_public_key(&self) -> (r: PublicKey) ensures r == self.spec_pk();
}
pub trait ScriptContext: Sized {}
pub struct Segwitv0 { pub never: u8 }
pub struct Legacy { pub never: u8 }
pub struct BareCtx { pub never: u8 }
impl ScriptContext for Segwitv0 {}
impl ScriptContext for Legacy {}
impl ScriptContext for BareCtx {}
pub struct Miniscript<Pk: MiniscriptKey, Ctx: ScriptContext> { pub node: u64, pub phantom: PhantomData<(Pk, Ctx)> }
impl<Pk: MiniscriptKey, Ctx: ScriptContext> Miniscript<Pk, Ctx> {
    pub uninterp spec fn enc(&self) -> ScriptBuf;        // the script of the miniscript (C04 decides its bytes)
    #[verifier::external_body]
    pub fn encode(&self) -> (r: ScriptBuf) where Pk: ToPublicKey ensures r == self.enc() { unimplemented!() }
}
pub trait Satisfier<Pk: MiniscriptKey + ToPublicKey>: Sized {
    spec fn spec_ecdsa_sig(&self, pk: &Pk) -> Option<bitcoin::ecdsa::Signature>;
    fn lookup_ecdsa_sig(&self, pk: &Pk) -> (r: Option<bitcoin::ecdsa::Signature>) ensures r == self.spec_ecdsa_sig(pk);
}
impl<Pk: MiniscriptKey + ToPublicKey, Ctx: ScriptContext> Miniscript<Pk, Ctx> {
    // the satisfier's output for this miniscript (C01-C03 decide what it is): an arbitrary function here
    pub uninterp spec fn sat<S>(&self, satisfier: S, malleable: bool) -> Result<Seq<Seq<u8>>, Error>;
    #[verifier::external_body]
    pub fn satisfy<S: Satisfier<Pk>>(&self, satisfier: S) -> (r: Result<Vec<Vec<u8>>, Error>)
        ensures r is Ok <==> self.sat(satisfier, false) is Ok, r is Ok ==> vv(r->Ok_0) == self.sat(satisfier, false)->Ok_0, r is Err ==> r->Err_0 == self.sat(satisfier, false)->Err_0,
    { unimplemented!() }
    #[verifier::external_body]
    pub fn satisfy_malleable<S: Satisfier<Pk>>(&self, satisfier: S) -> (r: Result<Vec<Vec<u8>>, Error>)
        ensures r is Ok <==> self.sat(satisfier, true) is Ok, r is Ok ==> vv(r->Ok_0) == self.sat(satisfier, true)->Ok_0, r is Err ==> r->Err_0 == self.sat(satisfier, true)->Err_0,
    { unimplemented!() }
}
pub struct Tr<Pk: MiniscriptKey> { pub opaque: u64, pub phantom: PhantomData<Pk> }
impl<Pk: MiniscriptKey + ToPublicKey> Tr<Pk> {
    pub uninterp spec fn spk(&self) -> ScriptBuf;
    #[verifier::external_body]
    pub fn script_pubkey(&self) -> (r: ScriptBuf) ensures r == self.spk() { unimplemented!() }
    #[verifier::external_body]
    pub fn address(&self, network: Network) -> (r: Address) ensures r.spk() == self.spk(), r.net() == network { unimplemented!() }
}
"""

ORACLE = r"""
// ---- oracle: BIP16 / BIP141 / BIP143, per output type --------------------------------------------------
spec fn wsh_witness_script<Pk: MiniscriptKey>(w: Wsh<Pk>) -> ScriptBuf { w.ms.enc() }
spec fn wsh_spk<Pk: MiniscriptKey>(w: Wsh<Pk>) -> ScriptBuf { P2WSH(wsh_witness_script(w)) }                       // BIP141
spec fn wpkh_spk<Pk: MiniscriptKey + ToPublicKey>(w: Wpkh<Pk>) -> ScriptBuf { P2WPKH(w.pk.spec_pk()) }             // BIP141
spec fn wpkh_script_code<Pk: MiniscriptKey + ToPublicKey>(w: Wpkh<Pk>) -> ScriptBuf { P2PKH(w.pk.spec_pk()) }      // BIP143
spec fn pkh_spk<Pk: MiniscriptKey + ToPublicKey>(p: Pkh<Pk>) -> ScriptBuf { P2PKH(p.pk.spec_pk()) }
spec fn bare_spk<Pk: MiniscriptKey>(b: Bare<Pk>) -> ScriptBuf { b.ms.enc() }
// BIP16 redeemScript of a sh(..) output; BIP141: for nested segwit it is the witness program (= the inner spk)
spec fn sh_redeem<Pk: MiniscriptKey + ToPublicKey>(s: Sh<Pk>) -> ScriptBuf {
    match s.inner { ShInner::Wsh(w) => wsh_spk(w), ShInner::Wpkh(w) => wpkh_spk(w), ShInner::Ms(ms) => ms.enc() }
}
spec fn sh_spk<Pk: MiniscriptKey + ToPublicKey>(s: Sh<Pk>) -> ScriptBuf { P2SH(sh_redeem(s)) }                     // BIP16
// "explicit script": the script before any hashing (witnessScript if there is one, else redeemScript)
spec fn sh_explicit<Pk: MiniscriptKey + ToPublicKey>(s: Sh<Pk>) -> ScriptBuf {
    match s.inner { ShInner::Wsh(w) => wsh_witness_script(w), ShInner::Wpkh(w) => wpkh_spk(w), ShInner::Ms(ms) => ms.enc() }
}
// BIP143 scriptCode (segwit v0) / legacy scriptCode (the redeemScript)
spec fn sh_script_code<Pk: MiniscriptKey + ToPublicKey>(s: Sh<Pk>) -> ScriptBuf {
    match s.inner { ShInner::Wsh(w) => wsh_witness_script(w), ShInner::Wpkh(w) => wpkh_script_code(w), ShInner::Ms(ms) => ms.enc() }
}
// scriptSig of the not-yet-signed input: BIP141 P2SH-P2WPKH / P2SH-P2WSH "scriptSig: <redeem>" exactly; legacy: empty
spec fn sh_unsigned_script_sig<Pk: MiniscriptKey + ToPublicKey>(s: Sh<Pk>) -> ScriptBuf {
    match s.inner { ShInner::Ms(_) => empty_script(), _ => single_push(sh_redeem(s).bytes()) }
}
spec fn desc_spk<Pk: MiniscriptKey + ToPublicKey>(d: Descriptor<Pk>) -> ScriptBuf {
    match d { Descriptor::Bare(b) => bare_spk(b), Descriptor::Pkh(p) => pkh_spk(p), Descriptor::Wpkh(w) => wpkh_spk(w),
              Descriptor::Sh(s) => sh_spk(s), Descriptor::Wsh(w) => wsh_spk(w), Descriptor::Tr(t) => t.spk() }
}
spec fn desc_explicit<Pk: MiniscriptKey + ToPublicKey>(d: Descriptor<Pk>) -> ScriptBuf {
    match d { Descriptor::Bare(b) => bare_spk(b), Descriptor::Pkh(p) => pkh_spk(p), Descriptor::Wpkh(w) => wpkh_spk(w),
              Descriptor::Sh(s) => sh_explicit(s), Descriptor::Wsh(w) => wsh_witness_script(w), Descriptor::Tr(t) => empty_script() }
}
spec fn desc_script_code<Pk: MiniscriptKey + ToPublicKey>(d: Descriptor<Pk>) -> ScriptBuf {
    match d { Descriptor::Bare(b) => bare_spk(b), Descriptor::Pkh(p) => pkh_spk(p), Descriptor::Wpkh(w) => wpkh_script_code(w),
              Descriptor::Sh(s) => sh_script_code(s), Descriptor::Wsh(w) => wsh_witness_script(w), Descriptor::Tr(t) => empty_script() }
}
spec fn desc_unsigned_script_sig<Pk: MiniscriptKey + ToPublicKey>(d: Descriptor<Pk>) -> ScriptBuf {
    match d { Descriptor::Sh(s) => sh_unsigned_script_sig(s), _ => empty_script() }
}
// type invariants (established by the constructors, see DROPPED)
spec fn wpkh_wf<Pk: MiniscriptKey + ToPublicKey>(w: Wpkh<Pk>) -> bool { w.pk.spec_pk().compressed }
spec fn sh_keys_wf<Pk: MiniscriptKey + ToPublicKey>(s: Sh<Pk>) -> bool { s.inner matches ShInner::Wpkh(w) ==> wpkh_wf(w) }
spec fn sh_size_wf<Pk: MiniscriptKey + ToPublicKey>(s: Sh<Pk>) -> bool { s.inner matches ShInner::Ms(ms) ==> ms.enc().bytes().len() <= MAX_SCRIPT_ELEMENT_SIZE }
spec fn desc_keys_wf<Pk: MiniscriptKey + ToPublicKey>(d: Descriptor<Pk>) -> bool {
    match d { Descriptor::Wpkh(w) => wpkh_wf(w), Descriptor::Sh(s) => sh_keys_wf(s), _ => true }
}
spec fn desc_size_wf<Pk: MiniscriptKey + ToPublicKey>(d: Descriptor<Pk>) -> bool { d matches Descriptor::Sh(s) ==> sh_size_wf(s) }

"""

DIAGRAM = r"""
// the commuting diagram itself, as laws of the oracle (each one is a BIP sentence)
proof fn diagram<Pk: MiniscriptKey + ToPublicKey>(s: Sh<Pk>)
    ensures
        sh_spk(s) == P2SH(sh_redeem(s)),                                                     // BIP16
        s.inner matches ShInner::Wsh(w) ==> sh_redeem(s) == wsh_spk(w) && wsh_spk(w) == P2WSH(w.ms.enc()) && sh_explicit(s) == w.ms.enc() && sh_script_code(s) == w.ms.enc(),
        s.inner matches ShInner::Wpkh(w) ==> sh_redeem(s) == P2WPKH(w.pk.spec_pk()) && sh_script_code(s) == P2PKH(w.pk.spec_pk()),
        s.inner matches ShInner::Ms(ms) ==> sh_redeem(s) == ms.enc() && sh_script_code(s) == ms.enc() && sh_unsigned_script_sig(s) == empty_script(),
        !(s.inner is Ms) ==> sh_unsigned_script_sig(s) == single_push(sh_redeem(s).bytes()),
{}
"""

UPDATER = r"""
// ---- C14 (updater half that is pure dispatch): which scripts `update_*_with_descriptor` records ----------
trait PsbtFields: Sized {
    spec fn rs(&self) -> Option<ScriptBuf>;
    spec fn ws(&self) -> Option<ScriptBuf>;
    fn redeem_script(&mut self) -> (r: &mut Option<ScriptBuf>)
        ensures *r == old(self).rs(), final(self).rs() == *final(r), final(self).ws() == old(self).ws();
    fn witness_script(&mut self) -> (r: &mut Option<ScriptBuf>)
        ensures *r == old(self).ws(), final(self).ws() == *final(r), final(self).rs() == old(self).rs();
}
// the two script slots of psbt::Input / psbt::Output
struct ScriptSlots { redeem_script: Option<ScriptBuf>, witness_script: Option<ScriptBuf> }
// BIP174 (updater) + BIP16 / BIP141: the redeemScript is recorded iff the output is P2SH, the witnessScript iff it is
// (nested) P2WSH, and they hash to what is above them
spec fn desc_redeem<Pk: MiniscriptKey + ToPublicKey>(d: Descriptor<Pk>) -> Option<ScriptBuf> {
    match d { Descriptor::Sh(s) => Some(sh_redeem(s)), _ => None }
}
spec fn desc_witness_script<Pk: MiniscriptKey + ToPublicKey>(d: Descriptor<Pk>) -> Option<ScriptBuf> {
    match d { Descriptor::Wsh(w) => Some(w.ms.enc()), Descriptor::Sh(s) => (match s.inner { ShInner::Wsh(w) => Some(w.ms.enc()), _ => None }), _ => None }
}
"""

SPEND = r"""
// ---- C14 (dispatch half of "a scriptSig and witness that spend the referenced output"): where the satisfaction,
// the witnessScript and the redeemScript go, per output type (BIP16, BIP141) -----------------------------------
// BIP141 P2WSH: witness = <satisfaction> <witnessScript>, scriptSig empty (native) / exactly the redeemScript push (nested)
spec fn wsh_spend_ok<Pk: MiniscriptKey + ToPublicKey, S>(w: Wsh<Pk>, s: S, mall: bool, r: Result<(Vec<Vec<u8>>, ScriptBuf), Error>, script_sig: ScriptBuf) -> bool {
    match w.ms.sat(s, mall) {
        Ok(sat) => r is Ok && vv(r->Ok_0.0) =~= sat.push(w.ms.enc().bytes()) && r->Ok_0.1 == script_sig,
        Err(e) => r == Err::<(Vec<Vec<u8>>, ScriptBuf), Error>(e),
    }
}
// BIP141 P2WPKH: witness = <signature> <pubkey>
spec fn wpkh_spend_ok<Pk: MiniscriptKey + ToPublicKey, S: Satisfier<Pk>>(w: Wpkh<Pk>, s: S, r: Result<(Vec<Vec<u8>>, ScriptBuf), Error>, script_sig: ScriptBuf) -> bool {
    match s.spec_ecdsa_sig(&w.pk) {
        Some(sig) => r is Ok && vv(r->Ok_0.0) =~= seq![sig.ser(), w.pk.spec_pk().ser()] && r->Ok_0.1 == script_sig,
        None => r == Err::<(Vec<Vec<u8>>, ScriptBuf), Error>(Error::MissingSig(w.pk.spec_pk())),
    }
}
// legacy (BIP16 P2SH / bare): no witness; scriptSig = pushes of <satisfaction> [<redeemScript>]
spec fn legacy_spend_ok<Pk: MiniscriptKey + ToPublicKey, Ctx: ScriptContext, S>(ms: Miniscript<Pk, Ctx>, s: S, mall: bool, with_redeem: bool, r: Result<(Vec<Vec<u8>>, ScriptBuf), Error>) -> bool {
    match ms.sat(s, mall) {
        Ok(sat) => r is Ok && vv(r->Ok_0.0) =~= Seq::<Seq<u8>>::empty()
            && (exists|w: Seq<Seq<u8>>| #[trigger] scriptsig_of(w) == r->Ok_0.1 && w =~= (if with_redeem { sat.push(ms.enc().bytes()) } else { sat })),
        Err(e) => r == Err::<(Vec<Vec<u8>>, ScriptBuf), Error>(e),
    }
}
"""

STRIP_DERIVE = sub("R1-attrs", r"#\[derive\([^)]*\)\]\s*", "", required=False)
PB = [sub("R7", r"<&PushBytes>::try_from\(", "push_bytes_try_from(")]
TOPK = "impl<Pk: MiniscriptKey + ToPublicKey> %s<Pk>"


def C(tag, text, props=("C16",)):
    return Clause(tag, props, text)


def build(repo):
    vf = VerusFile(NAME, repo)
    vf.raw(PRELUDE, keep_vis=True)
    vf.trust("prelude stubs ScriptBuf / Address / Builder / PushBytes / CompressedPublicKey / PublicKey / Network / Error / Miniscript / Tr",
             "bitcoin-crate and out-of-unit types as opaque values; each encoder is an uninterpreted function (P2SH, P2WSH, P2WPKH, P2PKH, enc, script_of_pushes) "
             "with only the BIP-fixed lengths assumed (P2SH 23, P2WSH 34, P2WPKH 22 bytes; Address::p2sh fails iff the redeem script exceeds 520 bytes; "
             "CompressedPublicKey::try_from succeeds iff the key is compressed; PushBytes::try_from succeeds iff len < 2^32)")
    for rel, a in ((SEG, "struct:Wsh"), (SEG, "struct:Wpkh"), (SH, "struct:Sh"), (SH, "enum:ShInner"), (BARE, "struct:Bare"),
                   (BARE, "struct:Pkh"), (DMOD, "enum:Descriptor")):
        vf.item(rel, a, rewrites=[STRIP_DERIVE])
    vf.raw(ORACLE)
    vf.spec_obligation("oracle_commuting_diagram", DIAGRAM, FPROPS)

    with vf.block(TOPK % "Wsh"):
        I = "impl:Wsh<Pk>#1/fn:"
        vf.fn(SEG, I + "inner_script", qual="Wsh", props=FPROPS, contract=Contract(ensures=[C("is_witness_script", "r == self.ms.enc()")]))
        vf.fn(SEG, I + "script_pubkey", qual="Wsh", props=FPROPS, contract=Contract(ensures=[C("is_p2wsh_of_witness_script", "r == wsh_spk(*self)")]))
        vf.fn(SEG, I + "address", qual="Wsh", props=FPROPS, contract=Contract(ensures=[C("address_agrees_with_spk", "r.spk() == wsh_spk(*self) && r.net() == network")]))
        vf.fn(SEG, I + "ecdsa_sighash_script_code", qual="Wsh", props=FPROPS, contract=Contract(ensures=[C("bip143_script_code_is_witness_script", "r == self.ms.enc()")]))
    with vf.block(TOPK % "Wpkh"):
        I = "impl:Wpkh<Pk>#1/fn:"
        pre = ["wpkh_wf(*self)"]
        vf.fn(SEG, I + "script_pubkey", qual="Wpkh", props=FPROPS, contract=Contract(requires=pre, ensures=[C("is_p2wpkh", "r == wpkh_spk(*self)"), C("len22", "r.bytes().len() == 22", ("C11",))]))
        vf.fn(SEG, I + "address", qual="Wpkh", props=FPROPS, contract=Contract(requires=pre, ensures=[C("address_agrees_with_spk", "r.spk() == wpkh_spk(*self) && r.net() == network")]))
        vf.fn(SEG, I + "inner_script", qual="Wpkh", props=FPROPS, contract=Contract(requires=pre, ensures=[C("is_spk", "r == wpkh_spk(*self)")]))
        vf.fn(SEG, I + "ecdsa_sighash_script_code", qual="Wpkh", props=FPROPS, contract=Contract(ensures=[C("bip143_script_code_is_p2pkh", "r == P2PKH(self.pk.spec_pk())")]))
    with vf.block(TOPK % "Bare"):
        I = "impl:Bare<Pk>#1/fn:"
        for f, tag in (("script_pubkey", "is_the_script"), ("inner_script", "is_the_script"), ("ecdsa_sighash_script_code", "legacy_script_code_is_spk")):
            vf.fn(BARE, I + f, qual="Bare", props=FPROPS, contract=Contract(ensures=[C(tag, "r == self.ms.enc()")]))
    with vf.block(TOPK % "Pkh"):
        I = "impl:Pkh<Pk>#1/fn:"
        vf.fn(BARE, I + "address", qual="Pkh", props=FPROPS, contract=Contract(ensures=[C("address_agrees_with_spk", "r.spk() == pkh_spk(*self) && r.net() == network")]))
        for f, tag in (("script_pubkey", "is_p2pkh"), ("inner_script", "is_spk"), ("ecdsa_sighash_script_code", "legacy_script_code_is_spk")):
            vf.fn(BARE, I + f, qual="Pkh", props=FPROPS, contract=Contract(ensures=[C(tag, "r == P2PKH(self.pk.spec_pk())")]))
    with vf.block(TOPK % "Sh"):
        I = "impl:Sh<Pk>#1/fn:"
        kw = ["sh_keys_wf(*self)"]

        def arms(fn, wsh, wpkh, ms):
            return [C("wsh_arm." + fn, "self.inner matches ShInner::Wsh(w) ==> r == %s" % wsh),
                    C("wpkh_arm." + fn, "self.inner matches ShInner::Wpkh(w) ==> r == %s" % wpkh),
                    C("ms_arm." + fn, "self.inner matches ShInner::Ms(ms) ==> r == %s" % ms)]
        vf.fn(SH, I + "script_pubkey", qual="Sh", props=FPROPS, contract=Contract(requires=kw, ensures=[
            C("bip16_p2sh_of_redeem", "r == P2SH(sh_redeem(*self))")] + arms("spk", "P2SH(P2WSH(w.ms.enc()))", "P2SH(P2WPKH(w.pk.spec_pk()))", "P2SH(ms.enc())")))
        vf.fn(SH, I + "address_fallible", qual="Sh", props=FPROPS, contract=Contract(requires=kw, ensures=[
            C("ok_iff_redeem_fits", "r is Ok <==> sh_redeem(*self).bytes().len() <= MAX_SCRIPT_ELEMENT_SIZE"),
            C("address_agrees_with_spk", "r is Ok ==> r->Ok_0.spk() == sh_spk(*self) && r->Ok_0.net() == network")]))
        vf.fn(SH, I + "address", qual="Sh", props=FPROPS, rewrites=[lit("R10", "let addr = self.address_fallible(network);", "proof { axiom_bip141_lengths(); }\n        let addr = self.address_fallible(network);")], contract=Contract(requires=kw + ["sh_size_wf(*self)"], ensures=[
            C("address_agrees_with_spk", "r.spk() == sh_spk(*self) && r.net() == network")]))
        vf.fn(SH, I + "inner_script", qual="Sh", props=FPROPS, contract=Contract(requires=kw, ensures=[
            C("explicit_script", "r == sh_explicit(*self)")] + arms("inner", "w.ms.enc()", "P2WPKH(w.pk.spec_pk())", "ms.enc()")))
        vf.fn(SH, I + "ecdsa_sighash_script_code", qual="Sh", props=FPROPS, contract=Contract(ensures=[
            C("bip143_script_code", "r == sh_script_code(*self)")] + arms("script_code", "w.ms.enc()", "P2PKH(w.pk.spec_pk())", "ms.enc()")))
        vf.fn(SH, I + "unsigned_script_sig", qual="Sh", props=FPROPS, rewrites=PB, contract=Contract(requires=kw, ensures=[
            C("bip141_nested_script_sig", "r == sh_unsigned_script_sig(*self)")] + arms(
                "script_sig", "single_push(P2WSH(w.ms.enc()).bytes())", "single_push(P2WPKH(w.pk.spec_pk()).bytes())", "empty_script()")))
    with vf.block(TOPK % "Descriptor"):
        I = "impl:Descriptor<Pk>#1/fn:"
        kw = ["desc_keys_wf(*self)"]
        vf.fn(DMOD, I + "script_pubkey", qual="Descriptor", props=FPROPS, contract=Contract(requires=kw, ensures=[C("spk_of_variant", "r == desc_spk(*self)")]))
        vf.fn(DMOD, I + "address", qual="Descriptor", props=FPROPS, contract=Contract(requires=kw + ["desc_size_wf(*self)"], ensures=[
            C("bare_has_no_address", "r is Err <==> *self is Bare"),
            C("address_agrees_with_spk", "r is Ok ==> r->Ok_0.spk() == desc_spk(*self) && r->Ok_0.net() == network")]))
        vf.fn(DMOD, I + "unsigned_script_sig", qual="Descriptor", props=FPROPS, contract=Contract(requires=kw, ensures=[
            C("empty_unless_nested_segwit", "r == desc_unsigned_script_sig(*self)")]))
        vf.fn(DMOD, I + "explicit_script", qual="Descriptor", props=FPROPS, contract=Contract(requires=kw, ensures=[
            C("err_iff_taproot", "r is Err <==> *self is Tr"), C("explicit_of_variant", "r is Ok ==> r->Ok_0 == desc_explicit(*self)")]))
        vf.fn(DMOD, I + "script_code", qual="Descriptor", props=FPROPS, contract=Contract(ensures=[
            C("err_iff_taproot", "r is Err <==> *self is Tr"), C("script_code_of_variant", "r is Ok ==> r->Ok_0 == desc_script_code(*self)")]))

    # ---- C14: where satisfaction / witnessScript / redeemScript go in (witness, scriptSig), per output type ----
    vf.raw(SPEND)
    vf.trust("Miniscript::satisfy / satisfy_malleable, Satisfier::lookup_ecdsa_sig, witness_to_scriptsig, Signature::to_vec / serialize, PublicKey::to_bytes (external_body)",
             "the satisfier's result is an arbitrary function of (miniscript, satisfier, malleable?) -- C01-C03 decide it; signatures and keys are opaque byte strings")
    SP = ("C14", "C11")
    with vf.block(TOPK % "Wsh"):
        for f, mall in (("get_satisfaction", "false"), ("get_satisfaction_mall", "true")):
            vf.fn(SEG, "impl:Wsh<Pk>#1/fn:" + f, qual="Wsh", props=SP, contract=Contract(ensures=[
                Clause("bip141_witness_is_sat_then_witness_script", ("C14",), "wsh_spend_ok(*self, satisfier, %s, r, empty_script())" % mall)]))
    with vf.block(TOPK % "Wpkh"):
        for f in ("get_satisfaction", "get_satisfaction_mall"):
            vf.fn(SEG, "impl:Wpkh<Pk>#1/fn:" + f, qual="Wpkh", props=SP, contract=Contract(ensures=[
                Clause("bip141_witness_is_sig_then_key", ("C14",), "wpkh_spend_ok(*self, satisfier, r, empty_script())")]))
    with vf.block(TOPK % "Bare"):
        for f, mall in (("get_satisfaction", "false"), ("get_satisfaction_mall", "true")):
            vf.fn(BARE, "impl:Bare<Pk>#1/fn:" + f, qual="Bare", props=SP, contract=Contract(ensures=[
                Clause("legacy_script_sig_is_sat", ("C14",), "legacy_spend_ok(self.ms, satisfier, %s, false, r)" % mall)]))
    with vf.block(TOPK % "Pkh"):
        for f in ("get_satisfaction", "get_satisfaction_mall"):
            vf.fn(BARE, "impl:Pkh<Pk>#1/fn:" + f, qual="Pkh", props=SP, rewrites=[lit("R7", ".push_slice::<&PushBytes>(", ".push_slice(", required=(f == "get_satisfaction"))],
                  contract=Contract(ensures=[Clause("p2pkh_script_sig_is_sig_then_key", ("C14",),
                    "match satisfier.spec_ecdsa_sig(&self.pk) { Some(sig) => r is Ok && vv(r->Ok_0.0) =~= Seq::<Seq<u8>>::empty() && (exists|w: Seq<Seq<u8>>| #[trigger] script_of_pushes(w) == r->Ok_0.1 && w =~= seq![sig.ser(), self.pk.spec_pk().ser()]), "
                    "None => r == Err::<(Vec<Vec<u8>>, ScriptBuf), Error>(Error::MissingSig(self.pk.spec_pk())) }")]))
    with vf.block(TOPK % "Sh"):
        for f, mall in (("get_satisfaction", "false"), ("get_satisfaction_mall", "true")):
            vf.fn(SH, "impl:Sh<Pk>#1/fn:" + f, qual="Sh", props=SP, contract=Contract(requires=["sh_keys_wf(*self)"], ensures=[
                Clause("wsh_arm.nested_p2wsh_spend", ("C14",), "self.inner matches ShInner::Wsh(w) ==> wsh_spend_ok(w, satisfier, %s, r, single_push(P2WSH(w.ms.enc()).bytes()))" % mall),
                Clause("wpkh_arm.nested_p2wpkh_spend", ("C14",), "self.inner matches ShInner::Wpkh(w) ==> wpkh_spend_ok(w, satisfier, r, single_push(P2WPKH(w.pk.spec_pk()).bytes()))"),
                Clause("ms_arm.bip16_script_sig_is_sat_then_redeem", ("C14",), "self.inner matches ShInner::Ms(ms) ==> legacy_spend_ok(ms, satisfier, %s, true, r)" % mall)]))

    # ---- C14: the script-recording dispatch of update_item_with_descriptor_helper (per-node step) ----
    vf.raw(UPDATER)
    vf.trust("trait PsbtFields reduced to redeem_script / witness_script with an accessor contract", "the real one-line accessors of `impl PsbtFields for psbt::Input` are verified against it on the stand-in ScriptSlots")
    with vf.block("impl PsbtFields for ScriptSlots"):
        vf.raw("    spec fn rs(&self) -> Option<ScriptBuf> { self.redeem_script }\n    spec fn ws(&self) -> Option<ScriptBuf> { self.witness_script }")
        for f in ("redeem_script", "witness_script"):
            vf.fn(PMOD, "impl:PsbtFields for psbt::Input/fn:%s" % f, qual="ScriptSlots", props=("C14", "C11"))
    with vf.block("impl<Pk: MiniscriptKey> Sh<Pk>"):
        vf.fn(SH, "impl:Sh<Pk>#0/fn:as_inner", qual="Sh", props=("C11",), contract=Contract(ensures=[C("inner", "*r == self.inner", ())]))
    vf.step(PMOD, "fn:update_item_with_descriptor_helper/match:&derived", "update_scripts_step",
            "fn update_scripts_step<F: PsbtFields, Pk: MiniscriptKey + ToPublicKey>(item: &mut F, derived: Descriptor<Pk>)",
            scrutinee="&derived", props=("C14", "C11"), rewrites=[sub("R7", r"\bdescriptor::ShInner\b", "ShInner")],
            contract=Contract(requires=["!(derived is Tr)", "desc_keys_wf(derived)"], ensures=[
                Clause("redeem_script_recorded_iff_p2sh", ("C14",), "final(item).rs() == (if derived is Sh { desc_redeem(derived) } else { old(item).rs() })"),
                Clause("witness_script_recorded_iff_p2wsh", ("C14",), "final(item).ws() == (if desc_witness_script(derived) is Some { desc_witness_script(derived) } else { old(item).ws() })"),
                Clause("redeem_hashes_to_spk", ("C14", "C16"), "derived is Sh ==> P2SH(final(item).rs()->Some_0) == desc_spk(derived)"),
                Clause("witness_script_hashes_to_program", ("C14", "C16"), "desc_witness_script(derived) is Some ==> P2WSH(final(item).ws()->Some_0) == (if derived is Sh { final(item).rs()->Some_0 } else { desc_spk(derived) })"),
            ]))
    return vf
