"""C11 -- dedicated no-panic / documented-rule contracts (Kani) on the planner's key lookup and the small
string-level helpers: is_key_direct_child_of / Assets::has_* (src/plan.rs), witness_to_scriptsig (src/util.rs),
parse_num / Tree::parse_pre_check / Tree::from_str_inner (src/expression/mod.rs).

Expected RED on the unchanged tree:
  direct_child_no_panic     F4: `definite_path_len - 1` underflows for a key with an empty derivation path
(the `< 73` assertion defect of witness_to_scriptsig, fixed by /repo 98f5202e, is under contract in units/c01_wrappers.py (Verus).)
"""
NAME = "k11_planner"
ENGINE = "kani"
PROPS = ("C11",)
INJECT = [("src/plan.rs", "contracts/kani/k11_planner.rs"),
          ("src/util.rs", "contracts/kani/k11_util.rs"),
          ("src/expression/mod.rs", "contracts/kani/k11_expr.rs")]
TRUSTED = [
    "Kani/CBMC; bitcoin::bip32::{DerivationPath, ChildNumber, Fingerprint}, script::Builder executed as compiled",
    "x-only key material is a dummy value wrapped with secp256k1-sys from_array_unchecked (no FFI call); the lookups never touch it",
    "k11_expr: core::str::slice_error_fail (cold panic path, recursive) stubbed by a plain panic",
    "kani::assume only restricts symbolic inputs to the stated bounds",
]
DROPPED = [
    "Assets::has_ecdsa_key / has_taproot_internal_key (harness assets_lookup_rule written, NOT registered): BTreeSet insert + "
    "iteration does not finish symbolic execution in 280 s; they are `any` / `find_map` over is_key_direct_child_of",
    "witness_to_scriptsig data pushes (harnesses witness_to_scriptsig_{sig73,sig72,key33} written, NOT registered): CBMC > 8 GB "
    "(438 k steps of straight-line script::Builder / Vec growth code); the `<= 73` assertion is decided by the Verus unit "
    "c01_wrappers (contract on util::witness_to_scriptsig: non-final elements <= 73 bytes, final <= 520)",
    "Tree::parse_pre_check / Tree::from_str_inner (capacity assert_eq!s): harnesses written (contracts/kani/k11_expr.rs) but NOT "
    "registered -- CBMC exceeds 8 GB already for strings of <= 4 characters (2 KB Vec::with_capacity(128) stack with symbolic "
    "pushes), also with verify_checksum stubbed; the capacity assertions are therefore not decided here",
    "Assets::has_taproot_script_key (TapLeafHash membership): same shape as has_taproot_internal_key",
    "DescriptorPublicKey::XPub / MultiXPub key shapes (need bip32::Xpub values; full_derivation_paths = origin ++ path)",
    "termination / stack depth / allocation bounds of the parsers on arbitrary-length input: not decided",
]
KANI_ARGS = ["--no-assertion-reach-checks"]

HARNESSES = [
    dict(name="direct_child_rule", fn="is_key_direct_child_of", props=("C11",), kind="bounded",
         bound="key path length 1..=3, asset path length 0..=3, child numbers symbolic",
         tags=["C11:is_key_direct_child_of.prefix_rule"]),
    dict(name="direct_child_no_panic", fn="is_key_direct_child_of", props=("C11",), kind="bounded",
         bound="key path length 0..=3, asset path length 0..=3, child numbers symbolic",
         tags=["C11:is_key_direct_child_of.no_panic"]),
    dict(name="witness_to_scriptsig_small_ints", fn="witness_to_scriptsig", props=("C11",), kind="bounded",
         bound="[empty, one symbolic byte]", tags=["C11:witness_to_scriptsig.empty_is_op_0"]),
    dict(name="parse_num_no_panic", fn="parse_num", props=("C11",), kind="bounded", bound="ASCII strings of <= 3 chars",
         tags=["C11:parse_num.grammar", "C11:parse_num.value"]),
]
