"""C04 unit: SOUNDNESS of the script parser `decode` (src/miniscript/decode.rs), per step of its stack machine, plus the
trailing-token check of `Miniscript::decode_with_validation_params` (src/miniscript/mod.rs).

    decode_with_validation_params(script) == Ok(ms)   ==>   lex(script), in script order, == toks(ms)

ORACLE (outside the code): `toks(ms)` = the token sequence of the Miniscript specification's script template of `ms`,
children inlined.  It is RENDERED from the template table of unit c04_encode (`TEMPLATES`, the specification's "Bitcoin
Script" column; n-ary fragments written out next to it) with every item mapped to the token unit c04_lex proves the lexer
assigns to it: a non-push opcode -> its token, OP_0 / OP_1..OP_16 and number pushes -> Num(n), a key push ->
Bytes33/Bytes65/Bytes32 carrying the key's serialisation, a hash push -> Hash20/Bytes32, and -- the canonical-form point --
a fused X-VERIFY opcode (EQUALVERIFY in pk_h / the hash fragments, and `v:X` whose X ends in EQUAL / NUMEQUAL / CHECKSIG /
CHECKMULTISIG) -> the TWO tokens `X, Verify`, exactly like a separate VERIFY after a non-fusable X.  Tokens are compared
through the abstraction `abs_tok` (consensus opcode byte | number | pushed bytes), which is injective.

What "canonical" means at token level: the token sequence `.., Equal, Verify` has two byte pre-images (EQUALVERIFY, or EQUAL
followed by VERIFY); unit c04_lex proves the lexer rejects the second one (NonMinimalVerify) and rust-bitcoin's
`instructions_minimal` rejects non-minimal pushes, so on lexer OUTPUT the map tokens -> bytes is injective.  Together with
c04_encode (`encode(ms)` is the template of `ms`, VERIFY fused wherever possible) this unit's theorem gives: a script that
decodes to `ms` has the tokens of `encode(ms)`, hence the bytes of `encode(ms)`.

PROOF SHAPE.  State = (rem: tokens not yet consumed -- a prefix of the input, the parser pops from the end; NT: non-terminal
stack; T: terminal stack).  Invariant  INV:  abs_seq(rem) + unp(NT, T) == input  and  wf(NT, T)  where `unp` reconstructs the
tokens consumed so far from the pending non-terminals (each NonTerm variant has a frame `parts`: the template tokens already
consumed on its behalf, between its `need` children) and the completed terms, and `wf` says that T holds enough terms for
every pending NonTerm (this discharges the `.unwrap()`s of reduce1 / reduce2 / Tern / ThreshE and the two `assert_eq!`s at
the end of `decode`: C11).  Every arm of `match non_term.pop()` is cut verbatim into a step function and proved to keep INV,
to consume tokens from the end only, and never to push a term without consuming a token.  `decode_compose` (authored,
machine-checked) re-assembles the loop from the step functions: INV holds initially (NT = [MaybeAndV, Expression], T = []) and
gives `input == abs_seq(rem) + toks(ms)` at the end; the real text of `decode_with_validation_params` is then verified to
return Ok only when `rem` is empty.
"""
import re

from vlib.verus import VerusFile, Contract, Clause, sub, lit, rule, Undecided
from vlib.extract import match_close, lex
from units import _tree
from units import c04_lex as L
from units import c04_encode as E

NAME = "c04_decode"
ENGINE = "verus"
PROPS = ("C04", "C11")
RLIMIT = 80
LEX = L.LEX
DECODE = L.DECODE
THRESH = _tree.THRESH
OPS = L.OPS

DROPPED = [
    "decode: the `loop { match non_term.pop() { ARMS } }` frame, the two `Vec::with_capacity` and the two final `assert_eq!` are not extracted; the arms are cut verbatim into one "
    "step function each (`None => break` becomes the loop exit of the authored `decode_compose`, which re-assembles the loop from the step functions and is machine-checked; "
    "its two `assert`s stand for the `assert_eq!`s).  Termination of the loop is not claimed (exec_allows_no_decreases_clause)",
    "`match_token!` is expanded MECHANICALLY in the unit (function `match_token_expander`, the macro's two rules; the macro text in decode.rs must equal EXPECTED_MACRO, else "
    "UNDECIDED): code inside a macro invocation is invisible to Verus' syntax layer, so loop invariants / ghost code could not be placed in it.  `other.to_string()` (error payload) "
    "-> stub token_to_string",
    "R10 ghost code is appended to the leaves of the expanded match_token! trees (generated from the PATH of patterns leading to the leaf) and after the arms; no executable token is "
    "added.  Facts that depend on what the code did are TESTED (`if fact {..}`), not asserted, so that a code change fails the named postcondition",
    "case split (Expression and EndIf arms): the arm is verified once per leading-token sequence (up to 4 tokens, following the nesting of the match_token! invocations); in each copy the "
    "match arms that cannot be taken under the case's precondition are replaced by `{ proof { assert(false); } return Err(..) }` -- their unreachability is PROVED, their text is verified in "
    "the case where they are live; the cases are proved exhaustive (decode_step_<arm>__cases_exhaustive)",
    "R6 `term.reduce1(Terminal::X)` / `reduce2(Terminal::X)`: the tuple-variant constructor passed as a function is eta-expanded to a closure `|x| Terminal::X(x)` carrying "
    "`ensures t == Terminal::X(x)` (Verus has no fn items for constructors); reduce1 / reduce2 themselves are the real text, verified generically in the closure",
    "R7 `.map_err(..)` is dropped: the stubs (`from_slice`, `Threshold::new`, `validate_k_n`, `from_consensus`, `validate`) return the crate `Error` directly; only error payloads differ",
    "R12 `Miniscript::TRUE` / `FALSE` (associated consts) -> stub functions `TRUE()` / `FALSE()`",
    "R8/R10 loops: `for _ in 0..n` (multi keys, ThreshE children) get a named loop variable and an invariant; `while tokens.peek() == Some(&Tk::CheckSigAdd)` gets invariant + decreases; "
    "`let mut keys` / `let mut subs` get a type ascription (the type rustc infers); loop bodies verbatim",
    "`impl Iterator for TokenIter { fn next }` is verified as an inherent method (trait indirection dropped); peek / un_next / new / next are the real bodies",
    "Miniscript constructors (pk_k, expr_raw_pkh, after, older, sha256 .., multi, multi_a, TRUE, FALSE) and from_ast are stubs that say which Terminal the result wraps (from_ast may fail): "
    "their type/ext computation is the business of C05/C09; `Ctx::Key::from_slice` is specified by `spec_ser(key) == the slice` (parse / serialise round trip of rust-bitcoin keys, assumed; "
    "checked by hand that hybrid 06/07 prefixes are rejected by the real crate)",
    "hash fragments: for the key types a script decodes into (`ScriptContext::Key`) the hash associated types ARE sha256::Hash etc. (trait bound copied from context.rs), so the "
    "`ToPublicKey::to_sha256` converters of c04_encode's templates are the identity here",
    "decode never produces PkH / SortedMulti / SortedMultiA; their templates are in `toks` for completeness (key hash and BIP67 order uninterpreted)",
]


@rule("R7-map_err")
def strip_map_err(text):
    """`.map_err(F)` dropped: the stubs return the crate `Error` directly (only the error payload differs)."""
    out, pos, n = [], 0, 0
    while True:
        m = re.search(r"\s*\.map_err\(", text[pos:])
        if not m:
            out.append(text[pos:])
            break
        s = pos + m.start()
        o = pos + m.end() - 1
        c = match_close(text, o)
        out.append(text[pos:s])
        pos = c + 1
        n += 1
    return "".join(out) if n else None


# ------------------------------------------------------------------------------------------------
# `match_token!` (decode.rs) is expanded MECHANICALLY here, by the macro's own two rules, because code inside a
# macro invocation is invisible to Verus' syntax layer (no loop invariants / closure contracts could be placed
# in it).  The macro's text in /repo must be exactly EXPECTED_MACRO, otherwise the unit is UNDECIDED.
#   base:       match_token!(T => SUB,)                         =>  SUB
#   recursive:  match_token!(T, P1, R.. => SUB1, P2.. => ..)    =>  match T.next() { Some(P1) => match_token!(T, R.. => SUB1,), ..,
#                                                                      Some(other) => return Err(Error::Unexpected(other.to_string())),
#                                                                      None => return Err(Error::UnexpectedStart) }
# (`other.to_string()` -> stub token_to_string(other): error payload only.)
# ------------------------------------------------------------------------------------------------
EXPECTED_MACRO = """macro_rules! match_token {
    // Base case
    ($tokens:expr => $sub:expr,) => { $sub };
    // Recursive case
    ($tokens:expr, $($first:pat $(,$rest:pat)* => $sub:expr,)*) => {
        match $tokens.next() {
            $(
                Some($first) => match_token!($tokens $(,$rest)* => $sub,),
            )*
            Some(other) => return Err(Error::Unexpected(other.to_string())),
            None => return Err(Error::UnexpectedStart),
        }
    };
}"""
_FALLBACK = (" Some(other) => return Err(Error::Unexpected(token_to_string(other))),\n"
             " None => return Err(Error::UnexpectedStart),\n}")


def _split_top(s):
    """macro arguments -> top-level pieces ('text', ..) separated by (',', ..) and ('=>', ..); comments dropped"""
    pieces, depth, cur = [], 0, []
    toks = list(lex(s))
    i = 0
    while i < len(toks):
        k, a, b = toks[i]
        t = s[a:b]
        if k in ("comment", "doc"):
            i += 1
            continue
        if k == "punct":
            if t in "([{":
                depth += 1
            elif t in ")]}":
                depth -= 1
            elif depth == 0 and t == ",":
                pieces.append(("text", "".join(cur)))
                pieces.append((",", ","))
                cur = []
                i += 1
                continue
            elif depth == 0 and t == "=" and i + 1 < len(toks) and s[toks[i + 1][1]:toks[i + 1][2]] == ">":
                pieces.append(("text", "".join(cur)))
                pieces.append(("=>", "=>"))
                cur = []
                i += 2
                continue
        cur.append(t)
        i += 1
    pieces.append(("text", "".join(cur)))
    return pieces


def _parse_invocation(args):
    pieces = _split_top(args)
    tok = pieces[0][1].strip()
    if pieces[1][0] != ",":
        raise Undecided("match_token!: unexpected invocation shape")
    arms, pats, i = [], [], 2
    while i < len(pieces):
        kind, t = pieces[i]
        nxt = pieces[i + 1][0] if i + 1 < len(pieces) else None
        if kind == "text" and nxt == ",":
            pats.append(t.strip())
            i += 2
        elif kind == "text" and nxt == "=>":
            pats.append(t.strip())
            arms.append((pats, pieces[i + 2][1].strip()))
            pats = []
            i += 3
            if i < len(pieces) and pieces[i][0] == ",":
                i += 1
        elif kind == "text" and t.strip() == "":
            i += 1
        else:
            raise Undecided("match_token!: unparsable arm near %r" % t[:60])
    return tok, arms


PRUNED = "{ proof { assert(false); } return Err(Error::Other); }"


def _expand_invocation(args, path, hook, dead=None):
    """one invocation, by the macro's two rules.  `path` = the patterns matched so far on the way to this invocation
    (only used for the ghost code `hook(path, sub)` appended (R10) to the leaves; hook=None: pure expansion)."""
    tok, arms = _parse_invocation(args)

    def leaf(sub, pth):
        m = re.match(r"match_token!\s*\(", sub)
        if m and match_close(sub, m.end() - 1) == len(sub) - 1:      # $sub is itself one invocation: keep the path
            return _expand_invocation(sub[m.end():-1], pth, hook, dead)
        ghost = hook(pth, sub) if hook else None
        if not ghost:
            return sub
        return "{ %s; proof {\n%s\n} }" % (sub, ghost)

    def arm(pats, sub, pth):
        if dead and dead(pth):
            # case split: under the case's precondition this arm cannot be taken -- proved (`assert(false)`), so its text,
            # which is verified in the case where it is live, is not repeated here
            return PRUNED
        if not pats:
            return leaf(sub, pth)
        return "match %s.next() {\n Some(%s) => %s,\n%s" % (tok, pats[0], arm(pats[1:], sub, pth + [pats[0]]), _FALLBACK)

    out = "match %s.next() {\n" % tok
    for ps, sub in arms:
        out += " Some(%s) => %s,\n" % (ps[0], arm(ps[1:], sub, path + [ps[0]]))
    return out + _FALLBACK


def match_token_expander(hook=None, dead=None):
    @rule("match_token-expansion")
    def rw(text):
        n = 0
        while True:
            m = re.search(r"match_token!\s*\(", text)
            if not m:
                return text if n else None
            n += 1
            o = m.end() - 1
            c = match_close(text, o)
            # `dead` (case pruning) is about the tokens at the START of the arm: only the first = outermost invocation
            text = text[:m.start()] + _expand_invocation(text[o + 1:c], [], hook, dead if n == 1 else None) + text[c + 1:]
    return rw


expand_match_token = match_token_expander()


SCRIPT_CONTEXT = r"""
trait ParseableKey: MiniscriptKey<Sha256 = sha256::Hash, Hash256 = hash256::Hash, Ripemd160 = ripemd160::Hash, Hash160 = hash160::Hash> {
    // the bytes `encode` pushes for this key: 33/65-byte ECDSA serialisation, 32-byte x-only serialisation
    spec fn spec_ser(&self) -> Seq<u8>;
    fn from_slice(sl: &[u8]) -> (r: Result<Self, Error>)
        ensures r is Ok ==> r->Ok_0.spec_ser() == sl@;
}
trait ScriptContext: Sized {
    type Key: ParseableKey;
    fn check_global_validity(ms: &Miniscript<Self::Key, Self>) -> Result<(), Error>;
}
"""

PRELUDE = r"""
use Token as Tk;
mod sha256 { use vstd::prelude::*; verus!{ #[derive(Clone, Copy, PartialEq, Eq)] pub struct Hash(pub [u8; 32]); impl Hash { pub fn from_byte_array(b: [u8; 32]) -> (r: Hash) ensures r.0 == b { Hash(b) } } } }
mod hash256 { use vstd::prelude::*; verus!{ #[derive(Clone, Copy, PartialEq, Eq)] pub struct Hash(pub [u8; 32]); impl Hash { pub fn from_byte_array(b: [u8; 32]) -> (r: Hash) ensures r.0 == b { Hash(b) } } } }
mod ripemd160 { use vstd::prelude::*; verus!{ #[derive(Clone, Copy, PartialEq, Eq)] pub struct Hash(pub [u8; 20]); impl Hash { pub fn from_byte_array(b: [u8; 20]) -> (r: Hash) ensures r.0 == b { Hash(b) } } } }
impl hash160::Hash { fn from_byte_array(b: [u8; 20]) -> (r: hash160::Hash) ensures r.0 == b { hash160::Hash(b) } }

enum Error { Unexpected(Token), Trailing(Token), UnexpectedStart, PubKeyCtxError, Threshold, RelativeLockTime, AbsoluteLockTime, Other }
#[verifier::external_body]
fn token_to_string(t: Token) -> (r: Token) ensures r == t { t }

impl AbsLockTime {
    #[verifier::external_body]
    fn from_consensus(n: u32) -> (r: Result<AbsLockTime, Error>) ensures r is Ok ==> r->Ok_0.consensus() == n { unimplemented!() }
}
impl RelLockTime {
    #[verifier::external_body]
    fn from_consensus(n: u32) -> (r: Result<RelLockTime, Error>) ensures r is Ok ==> r->Ok_0.consensus() == n { unimplemented!() }
}
mod threshold {
    use vstd::prelude::*;
    verus!{
    #[verifier::external_body]
    pub fn validate_k_n<const MAX: usize>(k: usize, n: usize) -> (r: Result<(), super::Error>)
        ensures r is Ok <==> !(k == 0 || k > n || (MAX > 0 && n > MAX)),
    { unimplemented!() }
    }
}
impl<T, const MAX: usize> Threshold<T, MAX> {
    #[verifier::external_body]
    fn new(k: usize, inner: Vec<T>) -> (r: Result<Self, Error>)
        ensures r is Ok ==> r->Ok_0.k == k && r->Ok_0.inner == inner && r->Ok_0.wf(),
    { unimplemented!() }
}
pub assume_specification<T>[ <[T]>::reverse ](s: &mut [T])
    ensures final(s)@ == old(s)@.reverse();
"""

CONSTRUCTORS = r"""
impl<Pk: MiniscriptKey, Ctx: ScriptContext> Miniscript<Pk, Ctx> {
    #[verifier::external_body] fn TRUE() -> (r: Self) ensures r.node == Terminal::<Pk, Ctx>::True { unimplemented!() }
    #[verifier::external_body] fn FALSE() -> (r: Self) ensures r.node == Terminal::<Pk, Ctx>::False { unimplemented!() }
    #[verifier::external_body] fn pk_k(pk: Pk) -> (r: Self) ensures r.node == Terminal::<Pk, Ctx>::PkK(pk) { unimplemented!() }
    #[verifier::external_body] fn expr_raw_pkh(hash: hash160::Hash) -> (r: Self) ensures r.node == Terminal::<Pk, Ctx>::RawPkH(hash) { unimplemented!() }
    #[verifier::external_body] fn after(time: AbsLockTime) -> (r: Self) ensures r.node == Terminal::<Pk, Ctx>::After(time) { unimplemented!() }
    #[verifier::external_body] fn older(time: RelLockTime) -> (r: Self) ensures r.node == Terminal::<Pk, Ctx>::Older(time) { unimplemented!() }
    #[verifier::external_body] fn sha256(hash: Pk::Sha256) -> (r: Self) ensures r.node == Terminal::<Pk, Ctx>::Sha256(hash) { unimplemented!() }
    #[verifier::external_body] fn hash256(hash: Pk::Hash256) -> (r: Self) ensures r.node == Terminal::<Pk, Ctx>::Hash256(hash) { unimplemented!() }
    #[verifier::external_body] fn ripemd160(hash: Pk::Ripemd160) -> (r: Self) ensures r.node == Terminal::<Pk, Ctx>::Ripemd160(hash) { unimplemented!() }
    #[verifier::external_body] fn hash160(hash: Pk::Hash160) -> (r: Self) ensures r.node == Terminal::<Pk, Ctx>::Hash160(hash) { unimplemented!() }
    #[verifier::external_body] fn multi(thresh: Threshold<Pk, MAX_PUBKEYS_PER_MULTISIG>) -> (r: Self) ensures r.node == Terminal::<Pk, Ctx>::Multi(thresh) { unimplemented!() }
    #[verifier::external_body] fn multi_a(thresh: Threshold<Pk, MAX_PUBKEYS_IN_CHECKSIGADD>) -> (r: Self) ensures r.node == Terminal::<Pk, Ctx>::MultiA(thresh) { unimplemented!() }
    #[verifier::external_body] fn from_ast(t: Terminal<Pk, Ctx>) -> (r: Result<Self, Error>) ensures r is Ok ==> r->Ok_0.node == t { unimplemented!() }
}
"""


# ================================================================================================
# ORACLE (from the specification, via the tables of c04_lex / c04_encode)
# ================================================================================================
SMALL_NUM = dict([("OP_0", 0)] + [("OP_%d" % i, i) for i in range(1, 17)])
FUSED = dict(L.FUSED)                                   # OP_EQUALVERIFY -> "Equal", ...
TOKEN_OF_OP = dict((o, t) for o, t in L.SINGLE + L.DEAD_TOKENS)
TOKEN_OF_OP["OP_VERIFY"] = "Verify"
OP_OF_TOKEN = dict((t, o) for o, t in TOKEN_OF_OP.items())


def at_of_op(name):
    """abstract token(s) of a script.h opcode = what c04_lex proves the lexer makes of it"""
    if name in SMALL_NUM:                               # lex clause small_num: OP_0 / OP_1..16 are numbers
        return ["AT::Num(%dint)" % SMALL_NUM[name]]
    if name in FUSED:                                   # lex clauses fused_*: X-VERIFY is the two tokens X, VERIFY
        return ["AT::Op(0x%02xu8)" % OPS[OP_OF_TOKEN[FUSED[name]]], "AT::Op(0x69u8)"]
    if name not in TOKEN_OF_OP:
        raise Undecided("template opcode %s has no token in c04_lex's alphabet" % name)
    return ["AT::Op(0x%02xu8)" % OPS[name]]


def AT(name):
    r = at_of_op(name)
    assert len(r) == 1
    return r[0]


def abs_tok_spec():
    arms = ["Token::%s => AT::Op(0x%02xu8)," % (t, OPS[o]) for o, t in sorted(TOKEN_OF_OP.items())]
    arms += ["Token::Num(n) => AT::Num(n as int),", "Token::Hash20(b) => AT::Push(b@),", "Token::Bytes32(b) => AT::Push(b@),",
             "Token::Bytes33(b) => AT::Push(b@),", "Token::Bytes65(b) => AT::Push(b@),"]
    return r"""
// ---- abstract tokens: the specification's vocabulary (consensus opcode byte | number | data push) ----
// OP_0 / OP_1..OP_16 are numbers (as for the lexer); a fused X-VERIFY opcode is the two tokens X, VERIFY.
ghost enum AT { Op(u8), Num(int), Push(Seq<u8>) }
spec fn abs_tok(t: Token) -> AT {
    match t {
        %s
    }
}
spec fn abs_seq(s: Seq<Token>) -> Seq<AT> decreases s.len() {
    if s.len() == 0 { Seq::empty() } else { abs_seq(s.drop_last()).push(abs_tok(s.last())) }
}
""" % "\n        ".join(arms)


def _conv_expr(e):
    # c04_encode writes hash arguments through ToPublicKey::to_sha256 etc.; for the key types a script is decoded into
    # (`ScriptContext::Key`: Sha256 = sha256::Hash, ...) these converters are the identity
    e2 = re.sub(r"Pk::spec_to_\w+\(&h\)\.0@", "h.0@", e)
    return e2


def template_toks(v):
    """the specification's script template of fragment `v` (table c04_encode.TEMPLATES) as abstract tokens, children inlined"""
    segs, lits = [], []

    def flush():
        if lits:
            segs.append("seq![%s]" % ", ".join(lits))
            del lits[:]
    for it in E.TEMPLATES[v][1]:
        if isinstance(it, str):
            if it == "verify":
                lits.append("AT::Op(0x69u8)")            # VERIFY: fused or not, the lexer yields `.., X, Verify`
            else:
                flush()
                segs.append("toks(*%s)" % it)
            continue
        kind, arg = it
        if kind == "op":
            lits.extend(at_of_op(arg))
        elif kind == "int":
            lits.append("AT::Num(%s as int)" % _conv_expr(arg))
        elif kind == "key":
            lits.append("AT::Push(%s.spec_ser())" % arg)
        elif kind == "keyhash":
            lits.append("AT::Push(spec_keyhash(%s))" % arg)
        elif kind in ("h32", "h20"):
            lits.append("AT::Push(%s)" % _conv_expr(arg))
        else:
            raise ValueError(it)
    flush()
    return " + ".join(segs)


def toks_spec():
    arms = ["%s => %s," % (E.TEMPLATES[v][0], template_toks(v)) for v in E.TEMPLATES]
    return r"""
// ---- ORACLE: toks(ms) = the token sequence of the specification's script template of ms, children inlined ----
uninterp spec fn spec_keyhash<Pk>(k: Pk) -> Seq<u8>;            // HASH160 of the key push (pk_h; never produced by decode)
uninterp spec fn bip67_sorted<Pk>(ks: Seq<Pk>) -> Seq<Pk>;      // sortedmulti / sortedmulti_a (never produced by decode)
spec fn toks<Pk: ParseableKey, Ctx: ScriptContext>(ms: Miniscript<Pk, Ctx>) -> Seq<AT> decreases ms { ttoks(ms.node) }
spec fn ttoks<Pk: ParseableKey, Ctx: ScriptContext>(t: Terminal<Pk, Ctx>) -> Seq<AT> decreases t {
    match t {
        %s
        // thresh(k, X1..Xn) = [X1] [X2] ADD ... [Xn] ADD <k> EQUAL
        Terminal::Thresh(t) => thresh_list(t.inner@) + seq![AT::Num(t.k as int), %s],
        // multi(k, K1..Kn) = <k> <K1> ... <Kn> <n> CHECKMULTISIG
        Terminal::Multi(t) => seq![AT::Num(t.k as int)] + key_list(t.inner@) + seq![AT::Num(t.inner@.len() as int), %s],
        Terminal::SortedMulti(t) => seq![AT::Num(t.k as int)] + key_list(bip67_sorted(t.inner@)) + seq![AT::Num(t.inner@.len() as int), %s],
        // multi_a(k, K1..Kn) = <K1> CHECKSIG <K2> CHECKSIGADD ... <Kn> CHECKSIGADD <k> NUMEQUAL
        Terminal::MultiA(t) => key_a_list(t.inner@) + seq![AT::Num(t.k as int), %s],
        Terminal::SortedMultiA(t) => key_a_list(bip67_sorted(t.inner@)) + seq![AT::Num(t.k as int), %s],
    }
}
// [X1] [X2] ADD ... [Xn] ADD
spec fn thresh_list<Pk: ParseableKey, Ctx: ScriptContext>(xs: Seq<Arc<Miniscript<Pk, Ctx>>>) -> Seq<AT> decreases xs {
    if xs.len() == 0 { Seq::empty() }
    else if xs.len() == 1 { toks(*xs.last()) }
    else { thresh_list(xs.drop_last()) + toks(*xs.last()) + seq![%s] }
}
// <K1> ... <Kn>
spec fn key_list<Pk: ParseableKey>(ks: Seq<Pk>) -> Seq<AT> decreases ks.len() {
    if ks.len() == 0 { Seq::empty() } else { key_list(ks.drop_last()).push(AT::Push(ks.last().spec_ser())) }
}
// <K1> CHECKSIG <K2> CHECKSIGADD ... <Kn> CHECKSIGADD
spec fn key_a_list<Pk: ParseableKey>(ks: Seq<Pk>) -> Seq<AT> decreases ks.len() {
    if ks.len() == 0 { Seq::empty() }
    else if ks.len() == 1 { seq![AT::Push(ks.last().spec_ser()), %s] }
    else { key_a_list(ks.drop_last()) + seq![AT::Push(ks.last().spec_ser()), %s] }
}
""" % ("\n        ".join(arms), AT("OP_EQUAL"), AT("OP_CHECKMULTISIG"), AT("OP_CHECKMULTISIG"), AT("OP_NUMEQUAL"), AT("OP_NUMEQUAL"),
       AT("OP_ADD"), AT("OP_CHECKSIG"), AT("OP_CHECKSIGADD"))


# ================================================================================================
# THE INVARIANT of the stack machine (proof-internal; derived from the code and the grammar)
#   state = (rem: tokens not yet consumed, NT: non-terminal stack (top = last), T: terminal stack (top = last))
#   need(nt)  = number of completed terms nt combines into one term
#   parts(nt) = the need+1 blocks of template tokens ALREADY consumed on behalf of nt:
#               f0 [child 1] f1 [child 2] f2 ... [child need] f_need     (children left to right = pop order)
#   unp(NT, T, q): the tokens consumed so far.  NT is walked from the top; q = number of terms the entries above
#   will still deliver (they are to the LEFT of everything consumed, hence the blocks f0..f(q-1) must be empty);
#   the other need-q children are the top terms of T.
#   INV:  abs_seq(rem) + unp(NT, T, 0) == input   and   wf(NT, T, 0)   (wf = "T has enough terms for every NonTerm")
# ================================================================================================
def inv_spec():
    o = lambda n: "seq![%s]" % ", ".join(AT(x) for x in n.split()) if n else "Seq::<AT>::empty()"
    e = "Seq::<AT>::empty()"
    P = {
        "Expression": [""], "WExpression": [""], "MaybeAndV": ["", ""], "Swap": ["", ""],
        "Alt": ["", "OP_FROMALTSTACK"], "Check": ["", "OP_CHECKSIG"], "Verify": ["", "OP_VERIFY"], "ZeroNotEqual": ["", "OP_0NOTEQUAL"],
        "DupIf": ["OP_DUP OP_IF", "OP_ENDIF"], "NonZero": ["OP_SIZE OP_0NOTEQUAL OP_IF", "OP_ENDIF"],
        "EndIf": ["", "OP_ENDIF"], "EndIfNotIf": ["OP_NOTIF", "OP_ENDIF"],
        "AndV": ["", "", ""], "AndB": ["", "", "OP_BOOLAND"], "OrB": ["", "", "OP_BOOLOR"],
        "OrC": ["", "OP_NOTIF", "OP_ENDIF"], "OrD": ["", "OP_IFDUP OP_NOTIF", "OP_ENDIF"], "EndIfElse": ["", "OP_ELSE", "OP_ENDIF"],
        "Tern": ["", "OP_NOTIF", "OP_ELSE", "OP_ENDIF"],
    }
    need = "\n        ".join("NonTerm::%s => %d," % (k, len(v) - 1) for k, v in P.items())
    parts = "\n        ".join("NonTerm::%s => seq![%s]," % (k, ", ".join(o(x) for x in v)) for k, v in P.items())
    return r"""
spec fn need(nt: NonTerm) -> nat {
    match nt {
        %(need)s
        NonTerm::ThreshW { k, n } => n as nat,
        NonTerm::ThreshE { k, n } => n as nat,
    }
}
spec fn parts(nt: NonTerm) -> Seq<Seq<AT>> {
    match nt {
        %(parts)s
        // [W1] ADD [W2] ADD ... [Wn] ADD <k> EQUAL      (n = 0: <k> EQUAL)
        NonTerm::ThreshW { k, n } => Seq::new((n + 1) as nat, |i: int|
            if i == n { (if n > 0 { seq![%(ADD)s] } else { Seq::<AT>::empty() }) + seq![AT::Num(k as int), %(EQUAL)s] } else if i == 0 { Seq::<AT>::empty() } else { seq![%(ADD)s] }),
        // [E] [W2] ADD ... [Wn] ADD <k> EQUAL
        NonTerm::ThreshE { k, n } => Seq::new((n + 1) as nat, |i: int|
            if i == n { (if n > 1 { seq![%(ADD)s] } else { Seq::<AT>::empty() }) + seq![AT::Num(k as int), %(EQUAL)s] } else if i <= 1 { Seq::<AT>::empty() } else { seq![%(ADD)s] }),
    }
}
spec fn nt_ok(nt: NonTerm) -> bool { nt matches NonTerm::ThreshE { k, n } ==> n >= 1 }
spec fn lead_empty(fs: Seq<Seq<AT>>, q: int) -> bool { forall|i: int| 0 <= i < q && i < fs.len() ==> (#[trigger] fs[i]).len() == 0 }
// fs[q+i] [T top-i] fs[q+i+1] ... [T top-(c-1)] fs[q+c]
spec fn weave<Pk: ParseableKey, Ctx: ScriptContext>(fs: Seq<Seq<AT>>, q: int, ts: Seq<Miniscript<Pk, Ctx>>, c: int, i: int) -> Seq<AT>
    decreases c - i
{
    if i >= c { fs[q + i] } else { fs[q + i] + toks(ts[ts.len() - 1 - i]) + weave(fs, q, ts, c, i + 1) }
}
#[verifier::opaque]
spec fn wf<Pk: ParseableKey, Ctx: ScriptContext>(nts: Seq<NonTerm>, ts: Seq<Miniscript<Pk, Ctx>>, q: int) -> bool
    decreases nts.len()
{
    if nts.len() == 0 { (q == 1 && ts.len() == 0) || (q == 0 && ts.len() == 1) }
    else {
        let nt = nts.last();
        let k = need(nt) as int;
        &&& q >= 0 && nt_ok(nt) && lead_empty(parts(nt), q)
        &&& if k == 0 { wf(nts.drop_last(), ts, q + 1) }
            else { q <= k && k - q <= ts.len() && wf(nts.drop_last(), ts.take(ts.len() - (k - q)), 1) }
    }
}
#[verifier::opaque]
spec fn unp<Pk: ParseableKey, Ctx: ScriptContext>(nts: Seq<NonTerm>, ts: Seq<Miniscript<Pk, Ctx>>, q: int) -> Seq<AT>
    decreases nts.len()
{
    if nts.len() == 0 { if q == 0 && ts.len() == 1 { toks(ts[0]) } else { Seq::empty() } }
    else {
        let nt = nts.last();
        let k = need(nt) as int;
        if k == 0 { parts(nt)[0] + unp(nts.drop_last(), ts, q + 1) }
        else { weave(parts(nt), q, ts, k - q, 0) + unp(nts.drop_last(), ts.take(ts.len() - (k - q)), 1) }
    }
}
spec fn inv<Pk: ParseableKey, Ctx: ScriptContext>(input: Seq<AT>, rem: Seq<Token>, nts: Seq<NonTerm>, ts: Seq<Miniscript<Pk, Ctx>>) -> bool {
    wf(nts, ts, 0) && abs_seq(rem) + unp(nts, ts, 0) == input
}
spec fn is_prefix<A>(a: Seq<A>, b: Seq<A>) -> bool { a.len() <= b.len() && b.take(a.len() as int) =~= a }

// ---- lemmas --------------------------------------------------------------------------------------------
proof fn lemma_push<Pk: ParseableKey, Ctx: ScriptContext>(nts: Seq<NonTerm>, nt: NonTerm, ts: Seq<Miniscript<Pk, Ctx>>, q: int)
    ensures
        nts.push(nt).last() == nt, nts.push(nt).drop_last() == nts,
        need(nt) == 0 ==> unp(nts.push(nt), ts, q) == parts(nt)[0] + unp(nts, ts, q + 1),
        need(nt) == 0 ==> wf(nts.push(nt), ts, q) == (q >= 0 && nt_ok(nt) && lead_empty(parts(nt), q) && wf(nts, ts, q + 1)),
        need(nt) > 0 ==> unp(nts.push(nt), ts, q) == weave(parts(nt), q, ts, need(nt) - q, 0) + unp(nts, ts.take(ts.len() - (need(nt) - q)), 1),
        need(nt) > 0 ==> wf(nts.push(nt), ts, q) == (q >= 0 && nt_ok(nt) && lead_empty(parts(nt), q) && q <= need(nt) && need(nt) - q <= ts.len()
                                                       && wf(nts, ts.take(ts.len() - (need(nt) - q)), 1)),
{
    reveal(wf); reveal(unp);
    assert(nts.push(nt).drop_last() =~= nts);
}
proof fn lemma_weave_shift<Pk: ParseableKey, Ctx: ScriptContext>(fs: Seq<Seq<AT>>, q: int, ts: Seq<Miniscript<Pk, Ctx>>, ms: Miniscript<Pk, Ctx>, c: int, i: int)
    requires 0 <= i <= c <= ts.len(),
    ensures weave(fs, q - 1, ts.push(ms), c + 1, i + 1) == weave(fs, q, ts, c, i),
    decreases c - i,
{
    if i < c { lemma_weave_shift(fs, q, ts, ms, c, i + 1); }
}
// a completed term fills the (rightmost) hole
proof fn lemma_fill<Pk: ParseableKey, Ctx: ScriptContext>(nts: Seq<NonTerm>, ts: Seq<Miniscript<Pk, Ctx>>, q: int, ms: Miniscript<Pk, Ctx>)
    requires q >= 1, wf(nts, ts, q),
    ensures wf(nts, ts.push(ms), q - 1), unp(nts, ts.push(ms), q - 1) == toks(ms) + unp(nts, ts, q),
    decreases nts.len(),
{
    reveal(wf); reveal(unp);
    if nts.len() == 0 {
        assert(unp(nts, ts.push(ms), q - 1) =~= toks(ms) + unp(nts, ts, q));
    } else {
        let nt = nts.last();
        let k = need(nt) as int;
        assert(parts(nt)[0].len() == 0 || parts(nt).len() == 0);
        if k == 0 {
            lemma_fill(nts.drop_last(), ts, q + 1, ms);
            assert(parts(nt).len() > 0);
            assert(parts(nt)[0] =~= Seq::<AT>::empty());
            assert(unp(nts, ts.push(ms), q - 1) =~= toks(ms) + unp(nts, ts, q));
        } else {
            let c = k - q;
            lemma_weave_shift(parts(nt), q, ts, ms, c, 0);
            assert(ts.push(ms).take(ts.push(ms).len() - (c + 1)) =~= ts.take(ts.len() - c));
            assert(parts(nt).len() == k + 1);
            assert(parts(nt)[q - 1] =~= Seq::<AT>::empty());
            assert(weave(parts(nt), q - 1, ts.push(ms), c + 1, 0) =~= toks(ms) + weave(parts(nt), q, ts, c, 0));
            assert(unp(nts, ts.push(ms), q - 1) =~= toks(ms) + unp(nts, ts, q));
            assert forall|i: int| 0 <= i < q - 1 && i < parts(nt).len() implies (#[trigger] parts(nt)[i]).len() == 0 by {}
        }
    }
}
proof fn lemma_abs_push(s: Seq<Token>, t: Token)
    ensures abs_seq(s.push(t)) == abs_seq(s).push(abs_tok(t)),
{
    assert(s.push(t).drop_last() =~= s);
}
""" % dict(need=need, parts=parts, ADD=AT("OP_ADD"), EQUAL=AT("OP_EQUAL"))


# ================================================================================================
# build
# ================================================================================================
MS = "Miniscript<Ctx::Key, Ctx>"
ETA = (r"|x: Arc<%s>| -> (t: Terminal<Ctx::Key, Ctx>) ensures t == Terminal::<Ctx::Key, Ctx>::\1(x) { Terminal::\1(x) }" % MS)
ETA2 = (r"|x: Arc<%s>, y: Arc<%s>| -> (t: Terminal<Ctx::Key, Ctx>) ensures t == Terminal::<Ctx::Key, Ctx>::\1(x, y) { Terminal::\1(x, y) }" % (MS, MS))
ARM_REWRITES = [
    ("match_token", expand_match_token),
    ("map_err", strip_map_err),
    ("eta1", sub("R6-eta", r"term\.reduce1\(Terminal::(\w+)\)", "term.reduce1(%s)" % ETA)),
    ("eta2", sub("R6-eta", r"term\.reduce2\(Terminal::(\w+)\)", "term.reduce2(%s)" % ETA2)),
    ("const", sub("R12", r"Miniscript::(TRUE|FALSE)\b", r"Miniscript::\1()")),
]

SIG = ("fn %s<Ctx: ScriptContext>(top: NonTerm, Ghost(input): Ghost<Seq<AT>>, tokens: &mut TokenIter, non_term: &mut Vec<NonTerm>, "
       "term: &mut TerminalStack<Ctx::Key, Ctx>) -> Result<(), Error>")
GHOST_HEAD = """    let ghost R = old(non_term)@;
    let ghost T0 = old(term).0@;
    let ghost rem0 = old(tokens).0@;
    proof { lemma_push::<Ctx::Key, Ctx>(R, top, T0, 0); }
"""


def step_contract(variant, extra_requires=()):
    return Contract(
        requires=["top is %s" % variant,
                  "inv::<Ctx::Key, Ctx>(input, old(tokens).0@, old(non_term)@.push(top), old(term).0@)"] + list(extra_requires),
        ensures=[
            Clause("invariant", ("C04",), "r is Ok ==> inv::<Ctx::Key, Ctx>(input, final(tokens).0@, final(non_term)@, final(term).0@)"),
            Clause("consumes_from_the_end_only", ("C04",), "r is Ok ==> is_prefix(final(tokens).0@, old(tokens).0@)"),
            Clause("no_term_without_token", ("C04", "C11"), "r is Ok ==> final(term).0@.len() + final(tokens).0@.len() <= old(term).0@.len() + old(tokens).0@.len()"),
        ])


def variant_of(pat):
    m = re.match(r"Some\(NonTerm::(\w+)", pat)
    return m.group(1) if m else None


def exclude_sub(prefix, why):
    """R9: the `match_token!` sub-expression (a block) that follows `prefix` is replaced by an early error return:
    nothing is claimed for that path"""
    @rule("R9")
    def rw(text):
        i = text.find(prefix)
        if i < 0:
            return None
        o = text.index("{", i + len(prefix) - 1)
        c = match_close(text, o)
        return text[:o] + "{ return Err(Error::Other); /* R9: %s */ }" % why + text[c + 1:]
    return rw


def expression_cases(args, pos, conj, name, maxdepth=4):
    """[(case name, condition on old(tokens).0@)]: one case per leading-token sequence (up to `maxdepth` tokens), following the
    nesting of the match_token! invocations; every level gets an `other` case, so the cases are exhaustive (checked by a lemma)"""
    S = "old(tokens).0@"
    at = lambda i, v: "%s[%s.len() - %d] is %s" % (S, S, i + 1, v)
    _, arms = _parse_invocation(args)
    groups = []
    for ps, sub in arms:
        mm = re.match(r"Tk::(\w+)", ps[0])
        if not mm:
            continue                                    # catch-all arm: part of `other`
        v = mm.group(1)
        for g in groups:
            if g[0] == v:
                g[1].append((ps, sub))
                break
        else:
            groups.append((v, [(ps, sub)]))
    out = []
    have = "%s.len() > %d" % (S, pos)
    for v, arms_v in groups:
        c = conj + [have, at(pos, v)]
        nm = (name + "_" if name else "") + v
        ps, sub = arms_v[0]
        m = re.match(r"match_token!\s*\(", sub)
        if len(arms_v) == 1 and len(ps) == 1 and m and match_close(sub, m.end() - 1) == len(sub) - 1 and pos + 1 < maxdepth:
            out += expression_cases(sub[m.end():-1], pos + 1, c, nm, maxdepth)
        else:
            out.append((nm, " && ".join(c)))
    other = conj + ["(%s.len() <= %d || !(%s))" % (S, pos, " || ".join(at(pos, v) for v, _ in groups))]
    out.append(((name + "_" if name else "") + "other", " && ".join(other)))
    return out


def case_compatible(cname, path):
    """can the leaf reached through the patterns `path` be live in case `cname` (= leading token variants, maybe ending in `other`)?"""
    want = cname.split("_")
    for i, w in enumerate(want):
        if i >= len(path):
            return True
        m = re.match(r"Tk::(\w+)", path[i])
        if w == "other":
            return m is None              # only a catch-all arm can take a token outside the listed ones
        if m is not None and m.group(1) != w:
            return False
    return True


def emit_arm(vf, reg, arm, variant, tail, extra_rewrites=(), fname=None, contract=None, hook=None, pre_rewrites=(), dead=None):
    body = vf._apply(arm["body"], pre_rewrites, "decode arm %s" % variant)
    for key, rw in ([("match_token", match_token_expander(hook, dead))] if hook else []) + ARM_REWRITES:
        new = rw(body)
        if new is not None and new != body:
            vf.rewrites_used.append("%s @ decode arm %s" % (getattr(rw, "rule", key), variant))
            body = new
    body = vf._apply(body, extra_rewrites, "decode arm %s" % variant)
    fname = fname or "decode_step_%s" % variant
    text = "%s {\n%s    match Some(top) {\n        %s => %s,\n        _ => { return Err(Error::Other); }\n    }\n    proof {\n%s\n    }\n    Ok(())\n}\n" % (
        SIG % fname, GHOST_HEAD, arm["pat"], body, tail)
    from vlib.extract import strip_docs
    text = strip_docs(text)
    # every step function gets its own solver instance: the queries are independent and the long token paths are sensitive to solver context
    vf.fn_text(fname, text, contract or step_contract(variant), PROPS, file=DECODE, lines=reg.lines(), anchor="fn:decode/match:non_term.pop() arm " + variant,
               attrs="#[verifier::spinoff_prover]")
    # reachability canary (the framework cannot generate one for `&mut` parameters): the precondition, over plain values, must not be contradictory
    c = contract or step_contract(variant)
    pre = " && ".join("(%s)" % x.text.replace("old(tokens).0@", "rem").replace("old(non_term)@", "nts").replace("old(term).0@", "ts") for x in c.requires)
    cname = "canary_" + fname
    start = vf._emit("proof fn %s<Ctx: ScriptContext>(top: NonTerm, input: Seq<AT>, rem: Seq<Token>, nts: Seq<NonTerm>, ts: Seq<%s>)\n    requires %s,\n    ensures false,\n{}\n" % (
        cname, MS, pre), dict(origin="verif", fn=cname, canary_for=fname))
    vf.canaries.append((cname, fname, start, vf._lines))


# ------------------------------------------------------------------------------------------------
# proof tails (R10 ghost code placed after the arm): which lemma instances show that the arm keeps INV
# ------------------------------------------------------------------------------------------------
G = "::<Ctx::Key, Ctx>"
NEED = {"Expression": 0, "WExpression": 0, "MaybeAndV": 1, "Swap": 1, "Alt": 1, "Check": 1, "Verify": 1, "ZeroNotEqual": 1, "DupIf": 1, "NonZero": 1,
        "EndIf": 1, "EndIfNotIf": 1, "AndV": 2, "AndB": 2, "OrB": 2, "OrC": 2, "OrD": 2, "EndIfElse": 2, "Tern": 3}


def ats(ops):
    return "seq![%s]" % ", ".join(AT(o) for o in ops.split()) if ops else "Seq::<AT>::empty()"


def t_after(ts, k, q):
    return ts if k == 0 else "%s.take(%s.len() - %d)" % (ts, ts, k - q)


def consumed(ops):
    """tokens popped by the arm (script order): abs_seq(rem0) == abs_seq(tokens now) + these"""
    n = len(ops.split())
    if n == 0:
        return ["CHECK(tokens.0@ =~= rem0);"]
    return ["reveal_with_fuel(abs_seq, %d);" % (n + 1), "CHECK(abs_seq(rem0) =~= abs_seq(tokens.0@) + %s);" % ats(ops)]


def old_top(variant):
    k = NEED[variant]
    return [], t_after("T0", k, 0)


def pushes(variant, pushed, ops, ts_new="T0"):
    """the arm pushed the non-terminals `pushed` (bottom to top) and popped the tokens `ops`; terms untouched"""
    lines, told = old_top(variant)
    full = "R" + "".join(".push(NonTerm::%s)" % v for v in pushed)
    lines.append("CHECK(non_term@ =~= %s);" % full)
    lines.append("CHECK(term.0@ =~= T0);")
    q, ts = 0, ts_new
    for idx in reversed(range(len(pushed))):
        v = pushed[idx]
        pre = "R" + "".join(".push(NonTerm::%s)" % w for w in pushed[:idx])
        lines.append("lemma_push%s(%s, NonTerm::%s, %s, %d);" % (G, pre, v, ts, q))
        if NEED[v] == 0:
            q += 1
        else:
            ts, q = t_after(ts, NEED[v], q), 1
    assert q == 1
    lines.append("assert(%s =~= %s);" % (ts, told))
    lines += consumed(ops)
    lines.append("reveal_with_fuel(weave, 5);")
    lines.append("if abs_seq(tokens.0@) + unp%s(non_term@, term.0@, 0) =~= input { }" % G)
    return lines


def reduces(variant, ops):
    """the arm popped need(variant) terms, built one term from them and pushed it; tokens `ops` popped"""
    k = NEED[variant]
    lines, told = old_top(variant)
    lines += ["let Tb = %s;" % told, "let ms = term.0@.last();", "CHECK(non_term@ =~= R);",
              "assert(T0%s =~= T0.take(T0.len() - %d));" % (".drop_last()" * k, k), "CHECK(term.0@ =~= Tb.push(ms));",
              "lemma_fill%s(R, Tb, 1, ms);" % G, "reveal_with_fuel(weave, 5);"]
    lines += consumed(ops)
    lines.append("CHECK(toks(ms) =~= %s + weave%s(parts(top), 0, T0, %d, 0));" % (ats(ops), G, k) if ops else
                 "CHECK(toks(ms) =~= weave%s(parts(top), 0, T0, %d, 0));" % (G, k))
    lines.append("if abs_seq(tokens.0@) + unp%s(non_term@, term.0@, 0) =~= input { }" % G)
    return lines


def passes(variant):
    """need-1 entry without tokens of its own is dropped (MaybeAndV that is no and_v): its term goes to the entry below"""
    lines, told = old_top(variant)
    lines += ["let Tb = %s;" % told, "let ms = T0.last();", "CHECK(non_term@ =~= R);", "CHECK(term.0@ =~= Tb.push(ms));",
              "lemma_fill%s(R, Tb, 1, ms);" % G, "reveal_with_fuel(weave, 5);", "CHECK(tokens.0@ =~= rem0);",
              "if abs_seq(tokens.0@) + unp%s(non_term@, term.0@, 0) =~= input { }" % G]
    return lines


def branch(cond, lines):
    return ["if %s {" % cond] + ["    " + l for l in nest([x for x in lines if x])] + ["}"]


def J(lines):
    return "\n".join("        " + l for l in nest([x for x in lines if x]))



# ---- Expression arm: ghost code per leaf of the match_token! tree, generated from the PATH of patterns that leads to it ----
PUSH_TOKENS = {"Hash20": "Push", "Bytes32": "Push", "Bytes33": "Push", "Bytes65": "Push"}


def pat_at(pat):
    """abstract token matched by a match_token! pattern; None for a catch-all binding (`x`, `tok`)"""
    m = re.match(r"^Tk::(\w+)(?:\((\w+)\))?$", pat)
    if not m:
        if re.match(r"^\w+$", pat):
            return None
        raise Undecided("match_token!: pattern %r not understood" % pat)
    v, arg = m.group(1), m.group(2)
    if v in PUSH_TOKENS:
        return "AT::Push(%s@)" % arg
    if v == "Num":
        return "AT::Num(%sint)" % arg if arg.isdigit() else "AT::Num(%s as int)" % arg
    if v not in OP_OF_TOKEN:
        raise Undecided("token %s is not in c04_lex's table" % v)
    return "AT::Op(0x%02xu8)" % OPS[OP_OF_TOKEN[v]]


def nest(lines):
    """`CHECK(c);` lines become `if c {` around everything that follows: a fact that depends on what the code did is
    tested, not asserted, so that a code change surfaces as the named postcondition and not as a failed proof step"""
    out, depth = [], 0
    for l in lines:
        if l.startswith("CHECK("):
            out.append("    " * depth + "if " + l[6:-2] + " {")
            depth += 1
        else:
            out.append("    " * depth + l)
    while depth:
        depth -= 1
        out.append("    " * depth + "}")
    return out


def nt_need(e):
    m = re.match(r"NonTerm::(\w+)", e)
    v = m.group(1)
    if v == "ThreshW":
        if not re.search(r"n:\s*0\b", e):
            raise Undecided("unexpected ThreshW push %r" % e)
        return 0
    return NEED[v]


def expression_leaf(path, sub, variant="Expression"):
    if "match_token!" in sub:
        return None
    if sub.strip().startswith("keys.push("):
        return keys_push_leaf(path)
    if sub.strip() == "k":
        return None
    ats_ = [pat_at(p) for p in path]
    un = ats_[-1] is None
    if (None in ats_[:-1]) or (un != ("tokens.un_next(" in sub)):
        raise Undecided("match_token!: catch-all pattern / un_next mismatch on path %r" % path)
    cons = [a for a in ats_ if a is not None]
    C = "seq![%s]" % ", ".join(reversed(cons))
    nts = [re.sub(r"\s+", " ", x) for x in re.findall(r"non_term\.push\((NonTerm::\w+(?:\s*\{[^}]*\})?)\)", sub)]
    has_term = re.search(r"(?<![\w])term\.(?:0\.)?push\(|(?<![\w])term\.reduce0\(", sub) is not None
    L = ["reveal_with_fuel(abs_seq, %d);" % (len(path) + 1),
         "CHECK(tokens.0@ =~= rem0%s);" % (".drop_last()" * len(cons)),
         "CHECK(abs_seq(rem0) =~= abs_seq(tokens.0@) + %s);" % C]
    if has_term:
        L += ["let ms = term.0@.last();", "CHECK(term.0@ =~= T0.push(ms));"]
    else:
        L += ["CHECK(term.0@ =~= T0);"]
    full = "R" + "".join(".push(%s)" % e for e in nts)
    L.append("CHECK(non_term@ =~= %s);" % full)
    if not nts:
        if not has_term:
            raise Undecided("Expression leaf does nothing: %r" % sub[:40])
        L += ["lemma_fill%s(R, T0, 1, ms);" % G, "CHECK(toks(ms) =~= %s);" % C]
    else:
        q, ts = 0, "term.0@"
        for idx in reversed(range(len(nts))):
            pre = "R" + "".join(".push(%s)" % e for e in nts[:idx])
            L.append("lemma_push%s(%s, %s, %s, %d);" % (G, pre, nts[idx], ts, q))
            k = nt_need(nts[idx])
            if k == 0:
                q += 1
            else:
                ts, q = t_after(ts, k, q), 1
        if q != 1:
            raise Undecided("Expression leaf pushes only need-0 entries")
        L += ["assert(%s =~= %s);" % (ts, t_after("T0", NEED[variant], 0)), "reveal_with_fuel(weave, 4);"]
    L.append("if abs_seq(tokens.0@) + unp%s(non_term@, term.0@, 0) =~= input { }" % G)
    return "\n".join("            " + l for l in nest(L))


THRESH_LEMMAS = r"""
// ---- thresh: the counters of ThreshW / ThreshE ---------------------------------------------------------
// after an ADD: ThreshW{k,n+1} with its first child still to come has consumed [ADD] + what ThreshW{k,n} had
proof fn lemma_thw_add<Pk: ParseableKey, Ctx: ScriptContext>(k: usize, n: usize, ts: Seq<Miniscript<Pk, Ctx>>, i: int)
    requires 1 <= i <= n < usize::MAX,
    ensures weave(parts(NonTerm::ThreshW { k, n: (n + 1) as usize }), 1, ts, n as int, i) == weave(parts(NonTerm::ThreshW { k, n }), 0, ts, n as int, i),
    decreases n - i,
{
    if i < n { lemma_thw_add(k, n, ts, i + 1); }
}
// no ADD: ThreshE{k,n+1} with its first child (the E expression) still to come has consumed what ThreshW{k,n} had
proof fn lemma_thw_to_e<Pk: ParseableKey, Ctx: ScriptContext>(k: usize, n: usize, ts: Seq<Miniscript<Pk, Ctx>>, i: int)
    requires 0 <= i <= n < usize::MAX,
    ensures weave(parts(NonTerm::ThreshE { k, n: (n + 1) as usize }), 1, ts, n as int, i) == weave(parts(NonTerm::ThreshW { k, n }), 0, ts, n as int, i),
    decreases n - i,
{
    if i < n { lemma_thw_to_e(k, n, ts, i + 1); }
}
// [X(i+1)] ADD ... [Xn] ADD  over the top n terms of ts (top = X1); X1 carries no ADD
spec fn tl_from<Pk: ParseableKey, Ctx: ScriptContext>(ts: Seq<Miniscript<Pk, Ctx>>, n: int, i: int) -> Seq<AT> decreases n - i {
    if i >= n { Seq::empty() } else { toks(ts[ts.len() - 1 - i]) + (if i >= 1 { seq![%(ADD)s] } else { Seq::<AT>::empty() }) + tl_from(ts, n, i + 1) }
}
proof fn lemma_thresh_list<Pk: ParseableKey, Ctx: ScriptContext>(xs: Seq<Arc<Miniscript<Pk, Ctx>>>, ts: Seq<Miniscript<Pk, Ctx>>, m: int)
    requires 0 <= m <= xs.len() <= ts.len(), forall|j: int| 0 <= j < xs.len() ==> *(#[trigger] xs[j]) == ts[ts.len() - 1 - j],
    ensures thresh_list(xs.take(m)) + tl_from(ts, xs.len() as int, m) == thresh_list(xs),
    decreases xs.len() - m,
{
    let n = xs.len() as int;
    if m == n {
        assert(xs.take(m) =~= xs);
        assert(thresh_list(xs.take(m)) + tl_from(ts, n, m) =~= thresh_list(xs));
    } else {
        lemma_thresh_list(xs, ts, m + 1);
        let a = xs.take(m + 1);
        assert(a.drop_last() =~= xs.take(m));
        assert(a.last() == xs[m]);
        if m == 0 {
            assert(thresh_list(xs.take(0)) =~= Seq::<AT>::empty());
            assert(thresh_list(a) == toks(*xs[0]));
        } else {
            assert(thresh_list(a) == thresh_list(xs.take(m)) + toks(*xs[m]) + seq![%(ADD)s]);
        }
        assert(thresh_list(xs.take(m)) + tl_from(ts, n, m) =~= thresh_list(a) + tl_from(ts, n, m + 1));
    }
}
proof fn lemma_the_weave<Pk: ParseableKey, Ctx: ScriptContext>(k: usize, n: usize, ts: Seq<Miniscript<Pk, Ctx>>, i: int)
    requires 1 <= i <= n,
    ensures weave(parts(NonTerm::ThreshE { k, n }), 0, ts, n as int, i)
        == (if i >= 2 { seq![%(ADD)s] } else { Seq::<AT>::empty() }) + tl_from(ts, n as int, i) + seq![AT::Num(k as int), %(EQUAL)s],
    decreases n - i,
{
    let w = weave(parts(NonTerm::ThreshE { k, n }), 0, ts, n as int, i);
    let rhs = (if i >= 2 { seq![%(ADD)s] } else { Seq::<AT>::empty() }) + tl_from(ts, n as int, i) + seq![AT::Num(k as int), %(EQUAL)s];
    if i < n {
        lemma_the_weave(k, n, ts, i + 1);
        assert(w =~= rhs);
    } else {
        assert(tl_from(ts, n as int, i) =~= Seq::<AT>::empty());
        assert(w =~= rhs);
    }
}
// the whole ThreshE{k,n} frame over the top n terms is the thresh template of those terms
proof fn lemma_the_template<Pk: ParseableKey, Ctx: ScriptContext>(k: usize, n: usize, xs: Seq<Arc<Miniscript<Pk, Ctx>>>, ts: Seq<Miniscript<Pk, Ctx>>)
    requires 1 <= n == xs.len() <= ts.len(), forall|j: int| 0 <= j < xs.len() ==> *(#[trigger] xs[j]) == ts[ts.len() - 1 - j],
    ensures weave(parts(NonTerm::ThreshE { k, n }), 0, ts, n as int, 0) == thresh_list(xs) + seq![AT::Num(k as int), %(EQUAL)s],
{
    lemma_the_weave(k, n, ts, 1);
    lemma_thresh_list(xs, ts, 0);
    assert(thresh_list(xs.take(0)) =~= Seq::<AT>::empty());
    assert(weave(parts(NonTerm::ThreshE { k, n }), 0, ts, n as int, 0) =~= thresh_list(xs) + seq![AT::Num(k as int), %(EQUAL)s]);
}
""" % dict(ADD=AT("OP_ADD"), EQUAL=AT("OP_EQUAL"))

THRESHW_TAIL = J(
    ["let n = top->ThreshW_n;", "let k = top->ThreshW_k;", "let tw = NonTerm::ThreshW { n: (n + 1) as usize, k };", "let te = NonTerm::ThreshE { n: (n + 1) as usize, k };",
     "reveal_with_fuel(weave, 3);", "reveal_with_fuel(abs_seq, 2);", "CHECK(term.0@ =~= T0);", "assert(T0.take(T0.len() - 0) =~= T0);"]
    + branch("non_term@ =~= R.push(tw).push(NonTerm::WExpression)", [
        "CHECK(abs_seq(rem0) =~= abs_seq(tokens.0@) + %s);" % ats("OP_ADD"),
        "lemma_push%s(R.push(tw), NonTerm::WExpression, T0, 0);" % G, "lemma_push%s(R, tw, T0, 1);" % G,
        "if n > 0 { lemma_thw_add%s(k, n, T0, 1); }" % G,
        "if abs_seq(tokens.0@) + unp%s(non_term@, term.0@, 0) =~= input { }" % G])
    + branch("non_term@ =~= R.push(te).push(NonTerm::Expression)", [
        "CHECK(tokens.0@ =~= rem0);",
        "lemma_push%s(R.push(te), NonTerm::Expression, T0, 0);" % G, "lemma_push%s(R, te, T0, 1);" % G,
        "lemma_thw_to_e%s(k, n, T0, 0);" % G,
        "if abs_seq(tokens.0@) + unp%s(non_term@, term.0@, 0) =~= input { }" % G]))

THRESHE_TAIL = J([
    "let n = top->ThreshE_n;", "let k = top->ThreshE_k;", "let Tb = T0.take(T0.len() - n);", "let ms = term.0@.last();",
    "CHECK(non_term@ =~= R);", "CHECK(tokens.0@ =~= rem0);", "CHECK(term.0@ =~= Tb.push(ms));",
    "let xs = ms.node->Thresh_0.inner@;",
    "CHECK(ms.node is Thresh && ms.node->Thresh_0.k == k && xs.len() == n && n <= T0.len());",
    "CHECK(forall|j: int| 0 <= j < xs.len() ==> *(#[trigger] xs[j]) == T0[T0.len() - 1 - j]);",
    "lemma_fill%s(R, Tb, 1, ms);" % G,
    "lemma_the_template%s(k, n, xs, T0);" % G,
    "if abs_seq(tokens.0@) + unp%s(non_term@, term.0@, 0) =~= input { }" % G])
THRESHE_LOOP = sub("R8", r"for _ in 0\.\.n \{", """for si in 0..n
                    invariant
                        subs@.len() == si, n <= T0.len(), term.0@ =~= T0.take(T0.len() - si),
                        forall|j: int| 0 <= j < si ==> *(#[trigger] subs@[j]) == T0[T0.len() - 1 - j],
                {""")

MULTI_LEMMAS = r"""
// ---- multi / multi_a: keys are collected right to left, then reversed -------------------------------------
spec fn rev_key_list<Pk: ParseableKey>(s: Seq<Pk>) -> Seq<AT> decreases s.len() {
    if s.len() == 0 { Seq::empty() } else { seq![AT::Push(s.last().spec_ser())] + rev_key_list(s.drop_last()) }
}
proof fn lemma_key_list_prepend<Pk: ParseableKey>(x: Pk, r: Seq<Pk>)
    ensures key_list(seq![x] + r) == seq![AT::Push(x.spec_ser())] + key_list(r),
    decreases r.len(),
{
    let a = seq![x] + r;
    if r.len() == 0 {
        assert(a.drop_last() =~= Seq::<Pk>::empty());
        assert(a.last() == x);
        assert(key_list(a.drop_last()) =~= Seq::<AT>::empty());
        assert(key_list(r) =~= Seq::<AT>::empty());
        assert(key_list(a) =~= seq![AT::Push(x.spec_ser())] + key_list(r));
    } else {
        lemma_key_list_prepend(x, r.drop_last());
        assert(a.drop_last() =~= seq![x] + r.drop_last());
        assert(a.last() == r.last());
        assert(key_list(a) =~= seq![AT::Push(x.spec_ser())] + key_list(r));
    }
}
proof fn lemma_rev_key_list<Pk: ParseableKey>(s: Seq<Pk>)
    ensures rev_key_list(s) == key_list(s.reverse()),
    decreases s.len(),
{
    if s.len() == 0 {
        assert(s.reverse() =~= Seq::<Pk>::empty());
    } else {
        lemma_rev_key_list(s.drop_last());
        lemma_key_list_prepend(s.last(), s.drop_last().reverse());
        assert(s.reverse() =~= seq![s.last()] + s.drop_last().reverse());
    }
}
spec fn rev_a_list<Pk: ParseableKey>(s: Seq<Pk>) -> Seq<AT> decreases s.len() {
    if s.len() == 0 { Seq::empty() } else { seq![AT::Push(s.last().spec_ser()), %(CSA)s] + rev_a_list(s.drop_last()) }
}
// <K1> CHECKSIGADD ... <Kn> CHECKSIGADD
spec fn csa_list<Pk: ParseableKey>(ks: Seq<Pk>) -> Seq<AT> decreases ks.len() {
    if ks.len() == 0 { Seq::empty() } else { csa_list(ks.drop_last()) + seq![AT::Push(ks.last().spec_ser()), %(CSA)s] }
}
proof fn lemma_csa_prepend<Pk: ParseableKey>(x: Pk, r: Seq<Pk>)
    ensures csa_list(seq![x] + r) == seq![AT::Push(x.spec_ser()), %(CSA)s] + csa_list(r),
    decreases r.len(),
{
    let a = seq![x] + r;
    if r.len() == 0 {
        assert(a.drop_last() =~= Seq::<Pk>::empty());
        assert(a.last() == x);
        assert(csa_list(a.drop_last()) =~= Seq::<AT>::empty());
        assert(csa_list(r) =~= Seq::<AT>::empty());
        assert(csa_list(a) =~= seq![AT::Push(x.spec_ser()), %(CSA)s] + csa_list(r));
    } else {
        lemma_csa_prepend(x, r.drop_last());
        assert(a.drop_last() =~= seq![x] + r.drop_last());
        assert(a.last() == r.last());
        assert(csa_list(a) =~= seq![AT::Push(x.spec_ser()), %(CSA)s] + csa_list(r));
    }
}
proof fn lemma_rev_a_list<Pk: ParseableKey>(s: Seq<Pk>)
    ensures rev_a_list(s) == csa_list(s.reverse()),
    decreases s.len(),
{
    if s.len() == 0 {
        assert(s.reverse() =~= Seq::<Pk>::empty());
    } else {
        lemma_rev_a_list(s.drop_last());
        lemma_csa_prepend(s.last(), s.drop_last().reverse());
        assert(s.reverse() =~= seq![s.last()] + s.drop_last().reverse());
    }
}
proof fn lemma_key_a_prepend<Pk: ParseableKey>(x: Pk, r: Seq<Pk>)
    ensures key_a_list(seq![x] + r) == seq![AT::Push(x.spec_ser()), %(CS)s] + csa_list(r),
    decreases r.len(),
{
    let a = seq![x] + r;
    if r.len() == 0 {
        assert(a.last() == x);
        assert(key_a_list(a) =~= seq![AT::Push(x.spec_ser()), %(CS)s] + csa_list(r));
    } else {
        lemma_key_a_prepend(x, r.drop_last());
        assert(a.drop_last() =~= seq![x] + r.drop_last());
        assert(a.last() == r.last());
        assert(key_a_list(a) =~= seq![AT::Push(x.spec_ser()), %(CS)s] + csa_list(r));
    }
}
// the keys of a multi_a, collected right to left (s, then the CHECKSIG key x last) and reversed, give the template's key list
proof fn lemma_multi_a_keys<Pk: ParseableKey>(s: Seq<Pk>, x: Pk)
    ensures key_a_list(s.push(x).reverse()) == seq![AT::Push(x.spec_ser()), %(CS)s] + rev_a_list(s),
{
    lemma_rev_a_list(s);
    lemma_key_a_prepend(x, s.reverse());
    assert(s.push(x).reverse() =~= seq![x] + s.reverse());
}
""" % dict(CSA=AT("OP_CHECKSIGADD"), CS=AT("OP_CHECKSIG"))

KEYS_TY = lit("R10-type-ascription", "let mut keys = Vec::with_capacity(", "let mut keys: Vec<Ctx::Key> = Vec::with_capacity(")
MULTI_FOR = sub("R8", r"for _ in (\w+)\.\.(\w+) \{", r"""let ghost rem1 = tokens.0@;
                        for ki in \1..\2
                            invariant keys@.len() == ki - \1, is_prefix(tokens.0@, rem1), abs_seq(rem1) =~= abs_seq(tokens.0@) + rev_key_list(keys@),
                        {
                            let ghost tb = tokens.0@;
                            let ghost kb = keys@;""")
MULTI_K = sub("R10", r"let k = match_token!\(", "let ghost rem2 = tokens.0@;\n                        let ghost kpre = keys@;\n                        let k = match_token!(")
MULTI_END = lit("R10", "term.push(Miniscript::multi(thresh));", "term.push(Miniscript::multi(thresh));\n                        proof {\n%s\n                        }" % "\n".join(
    "                            " + l for l in nest([
        "let ms = term.0@.last();", "lemma_rev_key_list(kpre);", "reveal_with_fuel(abs_seq, 3);",
        "CHECK(rem1 =~= rem0.drop_last().drop_last() && tokens.0@ =~= rem2.drop_last());",
        "CHECK(term.0@ =~= T0.push(ms) && non_term@ =~= R);",
        "lemma_fill%s(R, T0, 1, ms);" % G,
        "CHECK(ms.node is Multi && ms.node->Multi_0.inner@ =~= kpre.reverse());",
        "CHECK(toks(ms) =~= seq![AT::Num(k as int)] + key_list(kpre.reverse()) + seq![AT::Num(n as int), %s]);" % AT("OP_CHECKMULTISIG"),
        "CHECK(abs_seq(rem0) =~= abs_seq(tokens.0@) + toks(ms));",
        "assert(rem0.take(tokens.0@.len() as int) =~= rem1.take(tokens.0@.len() as int));",
        "if abs_seq(tokens.0@) + unp%s(non_term@, term.0@, 0) =~= input { }" % G])))
MULTIA_WHILE = lit("R8", "while tokens.peek() == Some(&Tk::CheckSigAdd) {", """let ghost rem1 = tokens.0@;
                        while tokens.peek() == Some(&Tk::CheckSigAdd)
                            invariant is_prefix(tokens.0@, rem1), abs_seq(rem1) =~= abs_seq(tokens.0@) + rev_a_list(keys@),
                            decreases tokens.0@.len(),
                        {
                            let ghost tb = tokens.0@;
                            let ghost kb = keys@;""")
@rule("R10-after-while")
def MULTIA_LAST(text):
    """ghost snapshots right after the key loop of multi_a (anchored on the loop, not on what follows it)"""
    i = text.find("while tokens.peek()")
    if i < 0:
        return None
    c = match_close(text, text.index("{", text.index("decreases", i)))
    return text[:c + 1] + ("\n                        let ghost rem2 = tokens.0@;\n                        let ghost kloop = keys@;"
                           "\n                        let ghost tb = tokens.0@;\n                        let ghost kb = keys@;") + text[c + 1:]
MULTIA_END = lit("R10", "term.push(Miniscript::multi_a(thresh));", "term.push(Miniscript::multi_a(thresh));\n                        proof {\n%s\n                        }" % "\n".join(
    "                            " + l for l in nest([
        "let ms = term.0@.last();", "reveal_with_fuel(abs_seq, 3);",
        "CHECK(rem1 =~= rem0.drop_last().drop_last() && tokens.0@ =~= rem2.drop_last().drop_last());",
        "let kfin = ms.node->MultiA_0.inner@;",
        "CHECK(ms.node is MultiA && kfin.len() == kloop.len() + 1 && kfin =~= kloop.push(kfin[0]).reverse());",
        "lemma_multi_a_keys(kloop, kfin[0]);",
        "CHECK(term.0@ =~= T0.push(ms) && non_term@ =~= R);",
        "lemma_fill%s(R, T0, 1, ms);" % G,
        "CHECK(toks(ms) =~= key_a_list(kfin) + seq![AT::Num(k as int), %s]);" % AT("OP_NUMEQUAL"),
        "CHECK(abs_seq(rem2) =~= abs_seq(tokens.0@) + seq![AT::Push(kfin[0].spec_ser()), %s]);" % AT("OP_CHECKSIG"),
        "CHECK(abs_seq(rem0) =~= abs_seq(tokens.0@) + toks(ms));",
        "assert(rem1.take(tokens.0@.len() as int) =~= rem2.take(tokens.0@.len() as int));",
        "assert(rem0.take(tokens.0@.len() as int) =~= rem1.take(tokens.0@.len() as int));",
        "if abs_seq(tokens.0@) + unp%s(non_term@, term.0@, 0) =~= input { }" % G])))
MULTI_REWRITES = [KEYS_TY, MULTI_FOR, MULTI_K, MULTI_END, MULTIA_WHILE, MULTIA_LAST, MULTIA_END]


def keys_push_leaf(path):
    """ghost code after `keys.push(..)` inside the key loops of multi / multi_a (loop invariant step)"""
    names = [re.match(r"Tk::(\w+)", p).group(1) for p in path]
    if names in (["Bytes33"], ["Bytes65"]):
        L = ["reveal_with_fuel(abs_seq, 2);", "assert(keys@.drop_last() =~= kb);", "assert(tokens.0@ =~= tb.drop_last());",
             "assert(rev_key_list(keys@) =~= seq![AT::Push(pk@)] + rev_key_list(kb));",
             "assert(abs_seq(rem1) =~= abs_seq(tokens.0@) + rev_key_list(keys@));",
             "assert(rem1.take(tokens.0@.len() as int) =~= tb.take(tokens.0@.len() as int));"]
    elif names == ["CheckSigAdd", "Bytes32"]:
        L = ["reveal_with_fuel(abs_seq, 3);", "assert(keys@.drop_last() =~= kb);", "assert(tokens.0@ =~= tb.drop_last().drop_last());",
             "assert(rev_a_list(keys@) =~= seq![AT::Push(pk@), %s] + rev_a_list(kb));" % AT("OP_CHECKSIGADD"),
             "assert(abs_seq(rem1) =~= abs_seq(tokens.0@) + rev_a_list(keys@));",
             "assert(rem1.take(tokens.0@.len() as int) =~= tb.take(tokens.0@.len() as int));"]
    else:
        return None
    return "\n".join("            " + l for l in L)

COMPOSE = r"""
// ---- composition (authored, machine-checked): the loop of `decode` re-assembled from the step functions -------------
proof fn lemma_initial<Pk: ParseableKey, Ctx: ScriptContext>(rem: Seq<Token>, nts: Seq<NonTerm>, ts: Seq<Miniscript<Pk, Ctx>>)
    requires nts =~= seq![NonTerm::MaybeAndV, NonTerm::Expression], ts.len() == 0,
    ensures inv::<Pk, Ctx>(abs_seq(rem), rem, nts, ts),
{
    let e = Seq::<NonTerm>::empty();
    assert(nts =~= e.push(NonTerm::MaybeAndV).push(NonTerm::Expression));
    lemma_push::<Pk, Ctx>(e.push(NonTerm::MaybeAndV), NonTerm::Expression, ts, 0);
    lemma_push::<Pk, Ctx>(e, NonTerm::MaybeAndV, ts, 1);
    reveal(wf); reveal(unp);
    reveal_with_fuel(weave, 2);
    assert(ts.take(ts.len() - 0) =~= ts);
    assert(abs_seq(rem) + unp::<Pk, Ctx>(nts, ts, 0) =~= abs_seq(rem));
}
proof fn lemma_final<Pk: ParseableKey, Ctx: ScriptContext>(input: Seq<AT>, rem: Seq<Token>, nts: Seq<NonTerm>, ts: Seq<Miniscript<Pk, Ctx>>)
    requires inv::<Pk, Ctx>(input, rem, nts, ts), nts.len() == 0,
    ensures ts.len() == 1, input == abs_seq(rem) + toks(ts[0]),
{
    reveal(wf); reveal(unp);
}
fn decode_dispatch<Ctx: ScriptContext>(top: NonTerm, Ghost(input): Ghost<Seq<AT>>, tokens: &mut TokenIter, non_term: &mut Vec<NonTerm>, term: &mut TerminalStack<Ctx::Key, Ctx>) -> (r: Result<(), Error>)
    requires
        inv::<Ctx::Key, Ctx>(input, old(tokens).0@, old(non_term)@.push(top), old(term).0@),
        old(term).0@.len() < usize::MAX,
    ensures
        r is Ok ==> inv::<Ctx::Key, Ctx>(input, final(tokens).0@, final(non_term)@, final(term).0@),
        r is Ok ==> is_prefix(final(tokens).0@, old(tokens).0@),
        r is Ok ==> final(term).0@.len() + final(tokens).0@.len() <= old(term).0@.len() + old(tokens).0@.len(),
{
    match top {
%(dispatch)s
    }
    Ok(())
}
#[verifier::exec_allows_no_decreases_clause]
fn decode_compose<Ctx: ScriptContext>(tokens: &mut TokenIter) -> (r: Result<Miniscript<Ctx::Key, Ctx>, Error>)
    requires old(tokens).0@.len() < usize::MAX,
    ensures
        r is Ok ==> abs_seq(old(tokens).0@) == abs_seq(final(tokens).0@) + toks(r->Ok_0), //@ c04_decode.decode_compose.sound [C04]
        r is Ok ==> is_prefix(final(tokens).0@, old(tokens).0@), //@ c04_decode.decode_compose.consumes_from_the_end_only [C04]
{
    let ghost input = abs_seq(tokens.0@);
    let ghost rem_in = tokens.0@;
    let mut non_term: Vec<NonTerm> = Vec::new();
    let mut term: TerminalStack<Ctx::Key, Ctx> = TerminalStack(Vec::new());
    non_term.push(NonTerm::MaybeAndV);
    non_term.push(NonTerm::Expression);
    proof { lemma_initial::<Ctx::Key, Ctx>(tokens.0@, non_term@, term.0@); }
    loop
        invariant
            inv::<Ctx::Key, Ctx>(input, tokens.0@, non_term@, term.0@), is_prefix(tokens.0@, rem_in),
            term.0@.len() + tokens.0@.len() <= rem_in.len() < usize::MAX,
        ensures non_term@.len() == 0,
    {
        let ghost nt0 = non_term@;
        match non_term.pop() {
            None => { break; }
            Some(top) => {
                proof { assert(nt0 =~= non_term@.push(top)); }
                let ghost t_before = tokens.0@;
                decode_dispatch::<Ctx>(top, Ghost(input), tokens, &mut non_term, &mut term)?;
                proof { assert(is_prefix(tokens.0@, rem_in)) by { assert(rem_in.take(tokens.0@.len() as int) =~= t_before.take(tokens.0@.len() as int)); } }
            }
        }
    }
    proof { lemma_final::<Ctx::Key, Ctx>(input, tokens.0@, non_term@, term.0@); }
    assert(non_term.len() == 0);        // decode.rs: assert_eq!(non_term.len(), 0);
    assert(term.0.len() == 1);          // decode.rs: assert_eq!(term.0.len(), 1);
    Ok(term.pop().unwrap())
}
"""

WRAPPER_STUBS = r"""
// ---- stubs for Miniscript::decode_with_validation_params (everything but the parser and the trailing-token check) ----
mod script { pub struct Script { pub bytes: Vec<u8> } }
struct ValidationParams { opaque: u8 }
uninterp spec fn spec_lex(script: script::Script) -> Seq<Token>;
#[verifier::external_body]
fn lex(script: &script::Script) -> (r: Result<Vec<Token>, Error>)
    ensures r is Ok ==> r->Ok_0@ == spec_lex(*script) && r->Ok_0@.len() < usize::MAX,
{ unimplemented!() }
mod types { pub(crate) use super::Type; }
impl Type {
    #[verifier::external_body]
    fn type_check<Pk: MiniscriptKey, Ctx: ScriptContext>(fragment: &Terminal<Pk, Ctx>) -> Result<Type, Error> { unimplemented!() }
}
impl<Pk: MiniscriptKey, Ctx: ScriptContext> Miniscript<Pk, Ctx> {
    #[verifier::external_body]
    fn validate(&self, params: &ValidationParams) -> Result<(), Error> { unimplemented!() }
}
mod decode { pub(crate) use super::decode_compose as decode; }
"""

grew = lambda n: "non_term@.len() == R.len() + %d" % n
TAILS = {
    "MaybeAndV": J(branch(grew(2), pushes("MaybeAndV", ["AndV", "Expression"], "")) + branch(grew(0), passes("MaybeAndV"))),
    "Swap": J(reduces("Swap", "OP_SWAP")),
    "Alt": J(reduces("Alt", "OP_TOALTSTACK")),
    "Check": J(reduces("Check", "")), "DupIf": J(reduces("DupIf", "")), "Verify": J(reduces("Verify", "")),
    "NonZero": J(reduces("NonZero", "")), "ZeroNotEqual": J(reduces("ZeroNotEqual", "")),
    "AndV": J(branch(grew(2), pushes("AndV", ["AndV", "MaybeAndV"], "")) + branch(grew(0), reduces("AndV", ""))),
    "AndB": J(reduces("AndB", "")), "OrB": J(reduces("OrB", "")), "OrC": J(reduces("OrC", "")), "OrD": J(reduces("OrD", "")),
    "Tern": J(reduces("Tern", "")),
    "EndIf": J(branch(grew(3), pushes("EndIf", ["EndIfElse", "MaybeAndV", "Expression"], "OP_ELSE"))
               + branch(grew(1) + " && non_term@.last() is DupIf", pushes("EndIf", ["DupIf"], "OP_DUP OP_IF"))
               + branch(grew(1) + " && non_term@.last() is NonZero", pushes("EndIf", ["NonZero"], "OP_SIZE OP_0NOTEQUAL OP_IF"))
               + branch(grew(1) + " && non_term@.last() is EndIfNotIf", pushes("EndIf", ["EndIfNotIf"], "OP_NOTIF"))),
    "EndIfNotIf": J(branch("non_term@[R.len() as int] is OrD", pushes("EndIfNotIf", ["OrD", "Expression"], "OP_IFDUP"))
                    + branch("non_term@[R.len() as int] is OrC", pushes("EndIfNotIf", ["OrC", "Expression"], ""))),
    "EndIfElse": J(branch(grew(0), reduces("EndIfElse", "OP_IF")) + branch(grew(2), pushes("EndIfElse", ["Tern", "Expression"], "OP_NOTIF"))),
    "WExpression": J(branch("non_term@[R.len() as int] is Alt", pushes("WExpression", ["Alt", "MaybeAndV", "Expression"], "OP_FROMALTSTACK"))
                     + branch("non_term@[R.len() as int] is Swap", pushes("WExpression", ["Swap", "MaybeAndV", "Expression"], ""))),
}


def build(repo):
    from vlib.extract import split_arms
    vf = VerusFile(NAME, repo)
    vf.item(LEX, "enum:Token")
    vf.raw("""
impl vstd::std_specs::cmp::PartialEqSpecImpl for Token {
    open spec fn obeys_eq_spec() -> bool { true }
    open spec fn eq_spec(&self, other: &Token) -> bool { *self == *other }
}
""")
    vf.trust("PartialEqSpecImpl for Token", "derived PartialEq on the token enum is structural equality")
    vf.trust("ParseableKey::from_slice contract (trait stub)", "rust-bitcoin key parsing: Ok(key) only if `key` serialises (as `encode` pushes it) to exactly the parsed bytes")
    vf.trust("token_to_string, AbsLockTime::from_consensus, RelLockTime::from_consensus, threshold::validate_k_n, Threshold::new (external_body)",
             "error-payload helper; lock-time constructors return a value with the given consensus number or fail; validate_k_n / Threshold::new as in src/primitives/threshold.rs "
             "(Ok iff 1 <= k <= n <= MAX; the threshold keeps k and the vector) -- validate_k_n is verified in the C12 units")
    vf.trust("assume_specification <[T]>::reverse", "std: reverses the slice in place")
    vf.trust("Miniscript::{TRUE, FALSE, pk_k, expr_raw_pkh, after, older, sha256, hash256, ripemd160, hash160, multi, multi_a, from_ast} (external_body)",
             "constructors: the result's `node` is the obvious Terminal (from_ast: the given one, or Err); see src/miniscript/mod.rs")
    vf.trust("sha256 / hash256 / ripemd160 / hash160 ::Hash::from_byte_array", "bitcoin_hashes: the hash value with exactly these bytes (plain data stubs, not external_body)")
    _tree.emit(vf, ext="opaque", types="defs", script_context=SCRIPT_CONTEXT)
    vf.raw(PRELUDE, keep_vis=True)
    vf.raw(CONSTRUCTORS)
    # ---- TokenIter: the real struct and the real accessor bodies ---------------------------------
    vf.item(LEX, "struct:TokenIter", rewrites=[sub("derive-off", r"#\[derive\([^)]*\)\]\s*", "")])
    with vf.block("impl TokenIter"):
        vf.fn(LEX, "impl:TokenIter/fn:peek", qual="TokenIter", props=("C04", "C11"), contract=Contract(ensures=[
            Clause("peek", ("C04",), "r == (if self.0@.len() > 0 { Some(&self.0@.last()) } else { None::<&Token> })")]))
        vf.fn(LEX, "impl:TokenIter/fn:un_next", qual="TokenIter", props=("C04", "C11"), contract=Contract(ensures=[
            Clause("un_next", ("C04",), "final(self).0@ == old(self).0@.push(tok)")]))
        vf.fn(LEX, "impl:Iterator for TokenIter/fn:next", qual="TokenIter", props=("C04", "C11"), contract=Contract(ensures=[
            Clause("next", ("C04",), "old(self).0@.len() > 0 ==> r == Some(old(self).0@.last()) && final(self).0@ == old(self).0@.drop_last()"),
            Clause("next_none", ("C04",), "old(self).0@.len() == 0 ==> r is None && final(self).0@ == old(self).0@")]))
    # ---- NonTerm, TerminalStack -------------------------------------------------------------------
    vf.item(DECODE, "enum:NonTerm", rewrites=[sub("derive", r"#\[derive\([^)]*\)\]", "#[derive(Copy, Clone)]")])
    vf.item(DECODE, "struct:TerminalStack", rewrites=[sub("derive-off", r"#\[derive\([^)]*\)\]\s*", "")])
    src = repo.file(DECODE).text
    m = re.search(r"macro_rules! match_token \{.*?\n\}\n", src, flags=re.S)
    if not m or m.group(0).strip() != EXPECTED_MACRO.strip():
        raise Undecided("macro_rules! match_token in decode.rs is not the text the mechanical expansion implements (anchor lost)")
    vf.raw(abs_tok_spec())
    vf.raw(toks_spec())
    vf.spec_obligation("invariant_lemmas", inv_spec(), PROPS)
    vf.spec_obligation("lemmas_thresh", THRESH_LEMMAS, PROPS)
    vf.spec_obligation("lemmas_multi", MULTI_LEMMAS, PROPS)
    A = "Arc<Miniscript<Pk, Ctx>>"
    with vf.block("impl<Pk: MiniscriptKey, Ctx: ScriptContext> TerminalStack<Pk, Ctx>"):
        vf.fn(DECODE, "impl:TerminalStack<Pk, Ctx>/fn:pop", qual="TerminalStack", props=("C04", "C11"), contract=Contract(ensures=[
            Clause("pop", ("C04",), "old(self).0@.len() > 0 ==> r == Some(old(self).0@.last()) && final(self).0@ == old(self).0@.drop_last()"),
            Clause("pop_none", ("C04",), "old(self).0@.len() == 0 ==> r is None && final(self).0@ == old(self).0@")]))
        vf.fn(DECODE, "impl:TerminalStack<Pk, Ctx>/fn:push", qual="TerminalStack", props=("C04", "C11"), contract=Contract(ensures=[
            Clause("push", ("C04",), "final(self).0@ == old(self).0@.push(ms)")]))
        vf.fn(DECODE, "impl:TerminalStack<Pk, Ctx>/fn:reduce0", qual="TerminalStack", props=("C04", "C11"), contract=Contract(ensures=[
            Clause("reduce0", ("C04",), "r is Ok ==> final(self).0@ == old(self).0@.push(final(self).0@.last()) && final(self).0@.len() == old(self).0@.len() + 1 && final(self).0@.drop_last() == old(self).0@ && final(self).0@.last().node == ms")]))
        vf.fn(DECODE, "impl:TerminalStack<Pk, Ctx>/fn:reduce1", qual="TerminalStack", props=("C04", "C11"),
              contract=Contract(requires=["old(self).0@.len() >= 1", "forall|a: %s| wrap.requires((a,))" % A], ensures=[
                  Clause("reduce1", ("C04",), "r is Ok ==> final(self).0@ == old(self).0@.drop_last().push(final(self).0@.last()) && final(self).0@.len() == old(self).0@.len() && final(self).0@.drop_last() == old(self).0@.drop_last() "
                         "&& exists|a: %s| *a == old(self).0@.last() && wrap.ensures((a,), final(self).0@.last().node)" % A)]))
        vf.fn(DECODE, "impl:TerminalStack<Pk, Ctx>/fn:reduce2", qual="TerminalStack", props=("C04", "C11"),
              contract=Contract(requires=["old(self).0@.len() >= 2", "forall|a: %s, b: %s| wrap.requires((a, b))" % (A, A)], ensures=[
                  Clause("reduce2", ("C04",), "r is Ok ==> final(self).0@ == old(self).0@.drop_last().drop_last().push(final(self).0@.last()) && final(self).0@.len() == old(self).0@.len() - 1 && final(self).0@.drop_last() == old(self).0@.drop_last().drop_last() "
                         "&& exists|a: %s, b: %s| *a == old(self).0@.last() && *b == old(self).0@.drop_last().last() && wrap.ensures((a, b), final(self).0@.last().node)" % (A, A))]))
    vf.fn(DECODE, "fn:is_and_v", props=("C04", "C11"), rewrites=[sub("R3", r"Some\(&Tk::", "Some(Tk::")],
          contract=Contract(ensures=[Clause("pure", ("C04",), "final(tokens).0@ == old(tokens).0@")]))
    # ---- the arms of `match non_term.pop()` as step functions ---------------------------------------
    reg = repo.at(DECODE, "fn:decode/match:non_term.pop()")
    arms = split_arms(reg.src, reg.start, reg.end)
    seen = []
    cased = []
    import os
    # development knobs (never set by ./check): restrict the run to some arms / some cases of the split arms
    only = os.environ.get("C04_DECODE_ONLY")
    for a in arms:
        pat = re.sub(r"\s+", " ", a["pat"])
        if pat == "None":
            continue
        v = variant_of(pat)
        if v is None:
            raise Undecided("decode: unexpected arm pattern %r" % pat)
        seen.append(v)
        if only and v not in only.split(","):
            continue
        if v == "ThreshW":
            emit_arm(vf, reg, a, v, THRESHW_TAIL, contract=step_contract(v, ["top->ThreshW_n < usize::MAX"]))
            continue
        if v == "ThreshE":
            emit_arm(vf, reg, a, v, THRESHE_TAIL, extra_rewrites=[
                THRESHE_LOOP, lit("R10-type-ascription", "let mut subs = Vec::with_capacity(n);", "let mut subs: Vec<Arc<%s>> = Vec::with_capacity(n);" % MS)])
            continue
        if v in ("Expression", "EndIf"):
            # case split by the leading tokens (the first patterns of the arms of the nested match_token! invocations)
            m0 = re.search(r"match_token!\s*\(", a["body"])
            conds = expression_cases(a["body"][m0.end():match_close(a["body"], m0.end() - 1)], 0, [], "")
            pre = MULTI_REWRITES if v == "Expression" else []
            for cname, cond in conds:
                if os.environ.get("C04_DECODE_CASE") and cname not in os.environ["C04_DECODE_CASE"].split(","):
                    continue
                emit_arm(vf, reg, a, v, "", hook=(lambda pth, sub, v=v: expression_leaf(pth, sub, v)), dead=(lambda pth, cname=cname: not case_compatible(cname, pth)),
                         fname="decode_step_%s__%s" % (v, cname), contract=step_contract(v, [cond]), pre_rewrites=pre)
            vf.spec_obligation("decode_step_%s__cases_exhaustive" % v,
                               "proof fn decode_step_%s__cases_exhaustive(s: Seq<Token>)\n    ensures %s,\n{}\n" % (v, " || ".join(
                                   "(%s)" % c.replace("old(tokens).0@", "s") for _, c in conds)), PROPS)
            cased.append(v)
            continue
        emit_arm(vf, reg, a, v, TAILS.get(v, ""))
    if only:
        return vf
    # the un-split Expression step = the conjunction of its cases (same text, exhaustive preconditions)
    for v in cased:
        c = step_contract(v)
        c.canary = False
        vf.fn_text("decode_step_%s" % v, (SIG % ("decode_step_%s" % v)) + " { unimplemented!() }", c, (),
                   file=DECODE, lines=reg.lines(), anchor="fn:decode/match:non_term.pop() arm %s" % v, attrs="#[verifier::external_body]", origin="assumed")
        del vf.functions["decode_step_%s" % v]
        vf.trust("decode_step_%s (external_body)" % v, "case split: the conjunction of the contracts of decode_step_%s__<leading tokens>, which are proved from the same arm text "
                 "under preconditions proved exhaustive (decode_step_%s__cases_exhaustive); arms pruned in a case are proved unreachable there" % (v, v))
    dispatch = "\n".join("        NonTerm::%s => { %sdecode_step_%s::<Ctx>(top, Ghost(input), tokens, non_term, term)?; }" % (
        v + (" { .. }" if v in ("ThreshW", "ThreshE") else ""),
        "proof { lemma_push::<Ctx::Key, Ctx>(non_term@, top, term.0@, 0); } " if v == "ThreshW" else "", v) for v in seen)
    start = vf._emit(COMPOSE % dict(dispatch=dispatch), dict(origin="verif", fn="decode_compose"))
    vf.functions["decode_compose"] = dict(props=PROPS, file=None, lines=None, clauses={}, start=start, end=vf._lines, origin="verif")
    vf.raw(WRAPPER_STUBS, keep_vis=True)
    vf.trust("lex / Type::type_check / Miniscript::validate / ScriptContext::check_global_validity stubs", "the wrapper's other stages: only their error/ok outcome matters here "
             "(they can only reject); lex is specified as an uninterpreted function of the script (its token-level rules are unit c04_lex)")
    with vf.block("impl TokenIter"):
        vf.fn(LEX, "impl:TokenIter/fn:new", qual="TokenIter", props=("C04", "C11"), contract=Contract(ensures=[Clause("new", ("C04",), "r.0@ == v@")]))
    with vf.block("impl<Ctx: ScriptContext> Miniscript<Ctx::Key, Ctx>"):
        vf.fn(_tree.MSMOD, "impl:Miniscript#2/fn:decode_with_validation_params", qual="Miniscript", props=PROPS, rewrites=[
            strip_map_err, lit("R7", "leading.to_string()", "token_to_string(leading)", required=False)],
            contract=Contract(ensures=[
                Clause("accepted_script_is_exactly_the_template_of_the_result", ("C04",), "r is Ok ==> abs_seq(spec_lex(*script)) == toks(r->Ok_0)")]))
    vf.trust("decode_compose requires tokens.len() < usize::MAX", "a Vec<Token> (66-byte elements) cannot hold usize::MAX elements; used only to show that the "
             "ThreshW counter `n + 1` cannot overflow (n <= terms on the stack <= tokens consumed)")
    return vf
