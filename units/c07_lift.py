"""C07 unit: the per-node step of `impl Liftable for Miniscript` (src/policy/mod.rs) against the Miniscript
specification's SEMANTICS column, plus `lift_check` and the descriptor-level `lift` wrappers that fit Verus.

Shape of the proof (DESIGN 3.2): `lift` is

    for item in self.rtl_post_order_iter() { let new_term = match item.node.node { ARMS }; stack.push(new_term) }

ARMS are cut verbatim into `lift_step(item, stack)`.  The rtl post-order traversal yields the children of a node
right-to-left before the node, so when the node is visited the top of `stack` holds the lifted children with
child 0 (the LEFTMOST, X) on top: `child(S, i) = S[len-1-i]`.  The boolean meaning of a lifted policy is the spec
function `sem(policy, assignment)`; the oracle `spec_*` is the specification's semantics column.  One clause per
`Terminal` variant:   forall a. sem(lift_step(node), a) == spec_<fragment>(sem(child 0, a), sem(child 1, a), ..).
"""
import re

from vlib.verus import VerusFile, Contract, Clause, sub, lit, rule, split_fn
from vlib.extract import lex, match_close
from units import _tree
from units import c20_translate as C20

NAME = "c07_lift"
ENGINE = "verus"
PROPS = ("C07", "C11")

POLICY = "src/policy/mod.rs"
SEMANTIC = "src/policy/semantic.rs"
ANALYZ = "src/miniscript/analyzable.rs"
EXT = "src/miniscript/types/extra_props.rs"
ITER = "src/iter/tree.rs"
TR = "src/descriptor/tr/mod.rs"
SH = "src/descriptor/sh.rs"
SEGWIT = "src/descriptor/segwitv0.rs"
BARE = "src/descriptor/bare.rs"
DESC = "src/descriptor/mod.rs"

DROPPED = [
    "Liftable for Miniscript::lift: the `for item in self.rtl_post_order_iter()` loop, `stack.push(new_term)` and the epilogue "
    "`Arc::try_unwrap(stack.pop().unwrap()).unwrap().normalized()` are dropped (per-node step extraction); the traversal order "
    "(children right-to-left before the node) is the contract of iter/tree.rs, `normalized()` preserving `sem` is C18's",
    "lift_step Thresh arm: the closure `|_| stack.pop().unwrap()` captures `&mut stack` (outside Verus' subset); the call "
    "`thresh.map_ref(|_| stack.pop().unwrap())` is replaced (R9) by the stub `map_ref_pop(thresh, stack)` that carries the contract of "
    "Threshold::map_ref (proved in c20_translate) instantiated with the popping closure; the Thresh clause is relative to that stub",
    "lift_step Multi/MultiA arms: the closure header `|key|` gets a type ascription and a ghost `ensures` (R10); the closure body and "
    "the call chain `.map_ref(..).forget_maximum()` are verbatim; Threshold::map_ref is consumed through its contract",
    "TapTree::lift (`.leaves().map(..).collect::<Result<Vec<_>,_>>()`, `.normalized()`): iterator adapters, excluded; Tr::lift consumes it "
    "through an uninterpreted result",
    "Tr::lift: the tail expression of the body (`match &self.tree {..}`, or an `if let .. else ..` / any other expression) is bound to a name "
    "so that a ghost block can follow it (R10 `bind_tail`, same shape as vf.step's `step_result`); Wpkh/Pkh/Sh::lift get "
    "`broadcast use clone_is_identity` (ghost) in front of the body",
    "Threshold::{and, or}: helper precondition `MAX == 0 || MAX > 1` (the `debug_assert!` of the body; every call site uses MAX = 0)",
    "Liftable for Concrete (policy -> policy, recursion through closures + iterator adapters): excluded, not part of the script side of C07",
]

# ------------------------------------------------------------------------------------------------------------
SCRIPT_CONTEXT = r"""
struct ScriptContextError { opaque: u8 }
trait ScriptContext: Sized {
    spec fn spec_local_valid<Pk: MiniscriptKey>(ms: Miniscript<Pk, Self>) -> bool;
    fn check_local_validity<Pk: MiniscriptKey>(ms: &Miniscript<Pk, Self>) -> (r: Result<(), ScriptContextError>)
        ensures r is Ok <==> Self::spec_local_valid(*ms);
}
"""
CTX_IMPL = """
uninterp spec fn %(l)s_local_valid<Pk: MiniscriptKey>(ms: Miniscript<Pk, %(c)s>) -> bool;
impl ScriptContext for %(c)s {
    spec fn spec_local_valid<Pk: MiniscriptKey>(ms: Miniscript<Pk, Self>) -> bool { %(l)s_local_valid(ms) }
    #[verifier::external_body] fn check_local_validity<Pk: MiniscriptKey>(ms: &Miniscript<Pk, Self>) -> Result<(), ScriptContextError> { unimplemented!() }
}
"""

WRAP_STUBS = r"""
// ---- callee summaries for the descriptor-level lifts ---------------------------------------------------------
uninterp spec fn spec_ms_lift<Pk: MiniscriptKey, Ctx: ScriptContext>(ms: Miniscript<Pk, Ctx>) -> Result<Semantic<Pk>, Error>;
uninterp spec fn spec_taptree_lift<Pk: MiniscriptKey>(t: TapTree<Pk>) -> Result<Semantic<Pk>, Error>;
impl<Pk: MiniscriptKey, Ctx: ScriptContext> Miniscript<Pk, Ctx> {
    #[verifier::external_body]
    fn lift(&self) -> (r: Result<Semantic<Pk>, Error>) ensures r == spec_ms_lift(*self) { unimplemented!() }
}
impl<Pk: MiniscriptKey> TapTree<Pk> {
    #[verifier::external_body]
    fn lift(&self) -> (r: Result<Semantic<Pk>, Error>) ensures r == spec_taptree_lift(*self) { unimplemented!() }
}
"""

PRELUDE = r"""
// ---- the library's name for the abstract policy (src/policy/mod.rs: `pub use semantic::Policy as Semantic`) ----
type Semantic<Pk> = Policy<Pk>;
enum Error { LiftError(LiftError), Other(u8) }

// ---- abstract assignment: which keys signed, which preimages are known, lock time, sequence -----------------
// Completely uninterpreted: atoms are related to the assignment BY IDENTITY only, so a lift that swaps two atom
// kinds, or two keys, cannot satisfy the clauses.
struct Asg { opaque: int }
uninterp spec fn asg_key<Pk: MiniscriptKey>(a: Asg, pk: Pk) -> bool;                  // a signature for pk is available
uninterp spec fn asg_sha256<Pk: MiniscriptKey>(a: Asg, h: Pk::Sha256) -> bool;        // preimage known
uninterp spec fn asg_hash256<Pk: MiniscriptKey>(a: Asg, h: Pk::Hash256) -> bool;
uninterp spec fn asg_ripemd160<Pk: MiniscriptKey>(a: Asg, h: Pk::Ripemd160) -> bool;
uninterp spec fn asg_hash160<Pk: MiniscriptKey>(a: Asg, h: Pk::Hash160) -> bool;
uninterp spec fn asg_after(a: Asg, t: AbsLockTime) -> bool;                           // nLockTime satisfies after(t)
uninterp spec fn asg_older(a: Asg, t: RelLockTime) -> bool;                           // nSequence satisfies older(t)

// ---- meaning of an abstract policy ------------------------------------------------------------------------
pub open spec fn sem<Pk: MiniscriptKey>(p: Semantic<Pk>, a: Asg) -> bool
    decreases p
{
    match p {
        Policy::Unsatisfiable => false,
        Policy::Trivial => true,
        Policy::Key(pk) => asg_key(a, pk),
        Policy::After(t) => asg_after(a, t),
        Policy::Older(t) => asg_older(a, t),
        Policy::Sha256(h) => asg_sha256::<Pk>(a, h),
        Policy::Hash256(h) => asg_hash256::<Pk>(a, h),
        Policy::Ripemd160(h) => asg_ripemd160::<Pk>(a, h),
        Policy::Hash160(h) => asg_hash160::<Pk>(a, h),
        Policy::Thresh(t) => count_sat(t.inner@, a) >= t.k,          // at least k of the subs
    }
}
pub open spec fn count_sat<Pk: MiniscriptKey>(s: Seq<Arc<Semantic<Pk>>>, a: Asg) -> nat
    decreases s
{
    if s.len() == 0 { 0 } else { count_sat(s.drop_last(), a) + if sem(*s.last(), a) { 1nat } else { 0nat } }
}
pub open spec fn count_keys<Pk: MiniscriptKey>(s: Seq<Pk>, a: Asg) -> nat
    decreases s.len()
{
    if s.len() == 0 { 0 } else { count_keys(s.drop_last(), a) + if asg_key(a, s.last()) { 1nat } else { 0nat } }
}

// ---- ORACLE: the Miniscript specification's semantics column ---------------------------------------------
//   0 = false, 1 = true, pk_k/pk_h(key) = key, older/after/hashes = themselves,
//   andor(X,Y,Z) = (X and Y) or Z, and_v(X,Y) = and_b(X,Y) = X and Y, or_b/or_c/or_d/or_i(X,Z) = X or Z,
//   thresh(k,X1..Xn) = at least k of Xi, multi/multi_a(k,key1..keyn) = at least k of the keys signed,
//   a: s: c: d: v: j: n: = X
pub open spec fn spec_and(x: bool, y: bool) -> bool { x && y }
pub open spec fn spec_or(x: bool, z: bool) -> bool { x || z }
pub open spec fn spec_andor(x: bool, y: bool, z: bool) -> bool { (x && y) || z }
pub open spec fn spec_wrap(x: bool) -> bool { x }
pub open spec fn spec_at_least(k: nat, satisfied: nat) -> bool { satisfied >= k }

// ---- the rtl post-order stack discipline -------------------------------------------------------------------
// children are yielded right-to-left, so the LAST pushed (top) entry is the result for child 0 (leftmost)
pub open spec fn child<T>(s: Seq<T>, i: int) -> T { s[s.len() - 1 - i] }
pub open spec fn children_seq<T>(s: Seq<T>, n: nat) -> Seq<T> { Seq::new(n, |i: int| child(s, i)) }
pub open spec fn arity<Pk: MiniscriptKey, Ctx: ScriptContext>(t: Terminal<Pk, Ctx>) -> nat {
    match t {
        Terminal::Alt(..) | Terminal::Swap(..) | Terminal::Check(..) | Terminal::DupIf(..) | Terminal::Verify(..)
        | Terminal::NonZero(..) | Terminal::ZeroNotEqual(..) => 1,
        Terminal::AndV(..) | Terminal::AndB(..) | Terminal::OrB(..) | Terminal::OrD(..) | Terminal::OrC(..) | Terminal::OrI(..) => 2,
        Terminal::AndOr(..) => 3,
        Terminal::Thresh(th) => th.inner@.len(),
        _ => 0,
    }
}

// ---- assumptions about std / derived impls (trusted, listed) ---------------------------------------------
broadcast proof fn axiom_key_clone<Pk: MiniscriptKey>(a: Pk, b: Pk)
    requires #[trigger] call_ensures(Pk::clone, (&a,), b) ensures a == b { admit(); }
broadcast proof fn axiom_sha256_clone<Pk: MiniscriptKey>(a: Pk::Sha256, b: Pk::Sha256)
    requires #[trigger] call_ensures(<Pk::Sha256 as Clone>::clone, (&a,), b) ensures a == b { admit(); }
broadcast proof fn axiom_hash256_clone<Pk: MiniscriptKey>(a: Pk::Hash256, b: Pk::Hash256)
    requires #[trigger] call_ensures(<Pk::Hash256 as Clone>::clone, (&a,), b) ensures a == b { admit(); }
broadcast proof fn axiom_ripemd160_clone<Pk: MiniscriptKey>(a: Pk::Ripemd160, b: Pk::Ripemd160)
    requires #[trigger] call_ensures(<Pk::Ripemd160 as Clone>::clone, (&a,), b) ensures a == b { admit(); }
broadcast proof fn axiom_hash160_clone<Pk: MiniscriptKey>(a: Pk::Hash160, b: Pk::Hash160)
    requires #[trigger] call_ensures(<Pk::Hash160 as Clone>::clone, (&a,), b) ensures a == b { admit(); }
broadcast group clone_is_identity { axiom_key_clone, axiom_sha256_clone, axiom_hash256_clone, axiom_ripemd160_clone, axiom_hash160_clone }

// R9 stub for `thresh.map_ref(|_| stack.pop().unwrap())`: Threshold::map_ref's contract (k kept, element i = result of
// the i-th closure call, calls in index order) instantiated with the closure that pops the stack.
#[verifier::external_body]
fn map_ref_pop<T, U, const MAX: usize>(thresh: &Threshold<T, MAX>, stack: &mut Vec<U>) -> (r: Threshold<U, MAX>)
    requires old(stack)@.len() >= thresh.inner@.len(),
    ensures r.k == thresh.k,
            r.inner@ == children_seq(old(stack)@, thresh.inner@.len()),
            final(stack)@ == old(stack)@.take(old(stack)@.len() - thresh.inner@.len()),
{ unimplemented!() }

// ---- lemmas ----------------------------------------------------------------------------------------------
proof fn lemma_count2<Pk: MiniscriptKey>(x: Arc<Semantic<Pk>>, y: Arc<Semantic<Pk>>, a: Asg)
    ensures count_sat(seq![x, y], a) == (if sem(*x, a) { 1nat } else { 0nat }) + (if sem(*y, a) { 1nat } else { 0nat }),
{
    let s = seq![x, y];
    assert(s.drop_last() =~= seq![x]);
    assert(s.drop_last().drop_last() =~= Seq::<Arc<Semantic<Pk>>>::empty());
    reveal_with_fuel(count_sat, 3);
}
// a 2-of-2 threshold is the conjunction, a 1-of-2 threshold the disjunction (used by every binary arm)
proof fn lemma_thresh2<Pk: MiniscriptKey>(p: Semantic<Pk>, a: Asg)
    requires p is Thresh, p->Thresh_0.inner@.len() == 2,
    ensures p->Thresh_0.k == 2 ==> sem(p, a) == (sem(*p->Thresh_0.inner@[0], a) && sem(*p->Thresh_0.inner@[1], a)),
            p->Thresh_0.k == 1 ==> sem(p, a) == (sem(*p->Thresh_0.inner@[0], a) || sem(*p->Thresh_0.inner@[1], a)),
{
    let s = p->Thresh_0.inner@;
    assert(s =~= seq![s[0], s[1]]);
    lemma_count2(s[0], s[1], a);
}
// a threshold over `Key(key_i)` leaves counts the signed keys
proof fn lemma_count_keys<Pk: MiniscriptKey>(m: Seq<Arc<Semantic<Pk>>>, s: Seq<Pk>, a: Asg)
    requires m.len() == s.len(), forall|i: int| 0 <= i < s.len() ==> *#[trigger] m[i] == Policy::Key(s[i]),
    ensures count_sat(m, a) == count_keys(s, a),
    decreases s.len()
{
    if s.len() > 0 {
        lemma_count_keys(m.drop_last(), s.drop_last(), a);
        assert(*m[m.len() - 1] == Policy::Key(s[s.len() - 1]));
        assert(sem(*m.last(), a) == asg_key(a, s.last()));
    }
}
"""


# ------------------------------------------------------------------------------------------------------------
def S(i):
    return "sem(*child(old(stack)@, %d), a)" % i


UNARY = ["Alt", "Swap", "Check", "DupIf", "Verify", "NonZero", "ZeroNotEqual"]
ANDS = ["AndV", "AndB"]
ORS = ["OrB", "OrD", "OrC", "OrI"]
T = "item.node.node"


def step_clauses():
    cl = []
    ok = "r is Ok"
    # leaves: atoms by identity
    cl.append(Clause("False", ("C07",), "%s is False ==> %s && forall|a: Asg| sem(*r->Ok_0, a) == false" % (T, ok)))
    cl.append(Clause("True", ("C07",), "%s is True ==> %s && forall|a: Asg| sem(*r->Ok_0, a) == true" % (T, ok)))
    cl.append(Clause("PkK", ("C07",), "%s matches Terminal::PkK(pk) ==> %s && forall|a: Asg| sem(*r->Ok_0, a) == asg_key(a, pk)" % (T, ok)))
    cl.append(Clause("PkH", ("C07",), "%s matches Terminal::PkH(pk) ==> %s && forall|a: Asg| sem(*r->Ok_0, a) == asg_key(a, pk)" % (T, ok)))
    cl.append(Clause("RawPkH", ("C07",), "%s is RawPkH ==> r is Err && r->Err_0 == Error::LiftError(LiftError::RawDescriptorLift)" % T))
    cl.append(Clause("After", ("C07",), "%s matches Terminal::After(t) ==> %s && forall|a: Asg| sem(*r->Ok_0, a) == asg_after(a, t)" % (T, ok)))
    cl.append(Clause("Older", ("C07",), "%s matches Terminal::Older(t) ==> %s && forall|a: Asg| sem(*r->Ok_0, a) == asg_older(a, t)" % (T, ok)))
    for v, f in (("Sha256", "asg_sha256"), ("Hash256", "asg_hash256"), ("Ripemd160", "asg_ripemd160"), ("Hash160", "asg_hash160")):
        cl.append(Clause(v, ("C07",), "%s matches Terminal::%s(h) ==> %s && forall|a: Asg| sem(*r->Ok_0, a) == %s::<Pk>(a, h)" % (T, v, ok, f)))
    # wrappers: identity
    for v in UNARY:
        cl.append(Clause(v, ("C07",), "%s is %s ==> %s && forall|a: Asg| sem(*r->Ok_0, a) == spec_wrap(%s)" % (T, v, ok, S(0))))
    for v in ANDS:
        cl.append(Clause(v, ("C07",), "%s is %s ==> %s && forall|a: Asg| sem(*r->Ok_0, a) == spec_and(%s, %s)" % (T, v, ok, S(0), S(1))))
    for v in ORS:
        cl.append(Clause(v, ("C07",), "%s is %s ==> %s && forall|a: Asg| sem(*r->Ok_0, a) == spec_or(%s, %s)" % (T, v, ok, S(0), S(1))))
    cl.append(Clause("AndOr", ("C07",), "%s is AndOr ==> %s && forall|a: Asg| sem(*r->Ok_0, a) == spec_andor(%s, %s, %s)" % (T, ok, S(0), S(1), S(2))))
    cl.append(Clause("Thresh", ("C07",),
                     "%s matches Terminal::Thresh(th) ==> %s && forall|a: Asg| sem(*r->Ok_0, a) == "
                     "spec_at_least(th.k as nat, count_sat(children_seq(old(stack)@, th.inner@.len()), a))" % (T, ok)))
    for v in ("Multi", "SortedMulti", "MultiA", "SortedMultiA"):
        cl.append(Clause(v, ("C07",), "%s matches Terminal::%s(th) ==> %s && forall|a: Asg| sem(*r->Ok_0, a) == "
                         "spec_at_least(th.k as nat, count_keys(th.inner@, a))" % (T, v, ok)))
    # stack frame: exactly the node's children are consumed
    cl.append(Clause("pops_children", ("C07",), "r is Ok ==> final(stack)@ == old(stack)@.take(old(stack)@.len() - arity(%s))" % T))
    return cl


POST_MATCH = r"""
    proof {
        // ghost only (R10): unfold the meaning of the freshly built 2-element thresholds
        let ghost node = *step_result;
        assert forall|a: Asg| true implies #[trigger] sem(node, a) == sem(node, a) by {}
        if node is Thresh && node->Thresh_0.inner@.len() == 2 {
            assert forall|a: Asg| (node->Thresh_0.k == 2 ==> #[trigger] sem(node, a) == (sem(*node->Thresh_0.inner@[0], a) && sem(*node->Thresh_0.inner@[1], a)))
                && (node->Thresh_0.k == 1 ==> sem(node, a) == (sem(*node->Thresh_0.inner@[0], a) || sem(*node->Thresh_0.inner@[1], a))) by {
                lemma_thresh2(node, a);
            }
            let inner0 = *node->Thresh_0.inner@[0];
            if inner0 is Thresh && inner0->Thresh_0.inner@.len() == 2 {
                assert forall|a: Asg| (inner0->Thresh_0.k == 2 ==> #[trigger] sem(inner0, a) == (sem(*inner0->Thresh_0.inner@[0], a) && sem(*inner0->Thresh_0.inner@[1], a))) by {
                    lemma_thresh2(inner0, a);
                }
            }
        }
@@MULTI_HINTS@@    }
    let step_result = Ok(step_result);
"""

MULTI_HINT = """        if item.node.node is %(v)s {
            let ghost th = item.node.node->%(v)s_0;
            assert forall|a: Asg| count_sat(node->Thresh_0.inner@, a) == #[trigger] count_keys(th.inner@, a) by {
                lemma_count_keys(node->Thresh_0.inner@, th.inner@, a);
            }
        }
"""
POST_MATCH = POST_MATCH.replace("@@MULTI_HINTS@@", "".join(MULTI_HINT % dict(v=v) for v in ("Multi", "SortedMulti", "MultiA", "SortedMultiA")))

CLOSURE_OLD = "|key| Arc::new(Semantic::Key(key.clone()))"
CLOSURE_NEW = ("|key: &Pk| -> (kr: Arc<Semantic<Pk>>) ensures *kr == Semantic::<Pk>::Key(*key) "
               "{ Arc::new(Semantic::Key(key.clone())) }")


# ------------------------------------------------------------------------------------------------------------
# R10 helper (structural, shared with c07_taptree): bind the TAIL EXPRESSION of a function body to a name so that a ghost
# block can follow it.  Independent of the spelling of the tail (`match e {..}`, `if let .. {..} else {..}`, `Ok(..)`, ...)
# and of the statements in front of it.
_BLOCK_LIKE = ("if", "match", "loop", "while", "for", "unsafe", "{")


def tail_expr_span(text, lo, hi):
    """(start, end) of the tail expression of the block whose contents are text[lo:hi] (braces excluded), or None when the
    block ends in `;` (no tail).  Statements are told apart with the Rust-aware lexer + bracket matcher: a statement ends at
    a top-level `;`, or at the closing brace of a block-like expression statement (`if`/`match`/`loop`/`while`/`for`/block)
    that is not continued by `else`, `.` or `?`."""
    toks = [t for t in lex(text, lo, hi) if t[0] not in ("ws", "comment", "doc")]
    n = len(toks)
    stmts = []          # (first token index, last token index, ended by `;`)
    cur = None
    i = 0
    while i < n:
        k, s, e = toks[i]
        t = text[s:e]
        if cur is None:
            cur = i
        if k == "punct" and t in ("(", "[", "{"):
            close = match_close(text, s)
            j = i
            while j < n and toks[j][1] <= close:
                j += 1
            if t == "{" and text[toks[cur][1]:toks[cur][2]] in _BLOCK_LIKE:
                nxt = text[toks[j][1]:toks[j][2]] if j < n else None
                if nxt is not None and nxt not in ("else", ".", "?", ";"):
                    stmts.append((cur, j - 1, False))
                    cur = None
            i = j
            continue
        if k == "punct" and t == ";":
            stmts.append((cur, i, True))
            cur = None
        i += 1
    if cur is not None:
        stmts.append((cur, n - 1, False))
    if not stmts or stmts[-1][2]:
        return None
    a, b, _ = stmts[-1]
    return toks[a][1], toks[b][2]


def bind_tail(name, at_entry, after, rule_name="R10"):
    """R10 (insertion only): ghost text `at_entry` right after the opening brace of the function body; the body's tail
    expression TAIL becomes `let <name> = TAIL; <after> <name>`.  No executable token is added, removed or reordered apart
    from naming the function's result (as vf.step does with `step_result`); an early `return` / `?` inside TAIL still leaves
    the function directly.  None (=> UNDECIDED) when the body has no tail expression."""
    @rule(rule_name)
    def rw(text):
        body = split_fn(text)[3]
        off = len(text) - len(body)
        if text[off] != "{":
            return None
        close = match_close(text, off)
        span = tail_expr_span(text, off + 1, close)
        if span is None:
            return None
        a, b = span
        return (text[:off + 1] + "\n        " + at_entry + text[off + 1:a] + "let %s = %s;\n        %s\n        %s\n    "
                % (name, text[a:b], after, name) + text[close:])
    return rw


def build(repo):
    vf = VerusFile(NAME, repo)
    _tree.emit(vf, ext="real", types="defs", script_context=SCRIPT_CONTEXT)
    vf.trust("ScriptContext::check_local_validity (trait stub with spec fn spec_local_valid)",
             "the context's resource-limit check is C12's; lift_check only consumes its verdict")
    strip_derive = sub("derive-off", r"#\[derive\([^)]*\)\]\s*", "", required=False)
    vf.item(SEMANTIC, "enum:Policy", rewrites=[strip_derive])
    vf.item(POLICY, "enum:LiftError", rewrites=[strip_derive])
    vf.item(ITER, "struct:PostOrderIterItem")
    vf.raw(PRELUDE)
    vf.trust("enum Error { LiftError(LiftError), Other }", "crate::Error reduced to the variant the lift uses")
    vf.trust("axiom_*_clone (clone_is_identity)", "Clone on keys / hashes returns an equal value (DESIGN 3.4)")
    vf.trust("map_ref_pop (external_body)", "R9: Threshold::map_ref's contract instantiated with the closure `|_| stack.pop().unwrap()`; "
             "map_ref itself is proved in c20_translate")
    vf.trust("Threshold::map_ref contract (external_body here)", "proved in unit c20_translate from the identical clause text")

    # Threshold constructors used by the arms: real text, verified here
    with vf.block("impl<T, const MAX: usize> Threshold<T, MAX>"):
        for name, k in (("or", 1), ("and", 2)):
            vf.fn(_tree.THRESH, "impl:Threshold<T, MAX>/fn:%s" % name, qual="Threshold", props=PROPS,
                  contract=Contract(requires=["MAX == 0 || MAX > 1"],
                                    ensures=[Clause("k", ("C07",), "r.k == %d" % k),
                                             Clause("elems", ("C07",), "r.inner@ == seq![left, right]")]))
        vf.fn(_tree.THRESH, "impl:Threshold<T, MAX>/fn:forget_maximum", qual="Threshold", props=PROPS,
              contract=Contract(ensures=[Clause("same", ("C07",), "r.k == self.k && r.inner@ == self.inner@")]))
        vf.fn(_tree.THRESH, "impl:Threshold<T, MAX>/fn:map_ref", qual="Threshold", assumed=True, contract=C20.map_ref_contract())

    sig = ("fn lift_step<Pk: MiniscriptKey, Ctx: ScriptContext>(item: &PostOrderIterItem<&Miniscript<Pk, Ctx>>, "
           "stack: &mut Vec<Arc<Semantic<Pk>>>) -> Result<Arc<Semantic<Pk>>, Error>")
    pats = vf.step(POLICY, "impl:Liftable<Pk> for Miniscript<Pk, Ctx>/fn:lift/match:item.node.node", "lift_step", sig,
                   props=PROPS,
                   contract=Contract(requires=["old(stack)@.len() >= arity(%s)" % T], ensures=step_clauses()),
                   pre_match="    broadcast use clone_is_identity;",
                   post_match=POST_MATCH,
                   arm_rewrites={
                       "Terminal::Thresh(ref thresh)": [lit("R9", "thresh.map_ref(|_| stack.pop().unwrap())", "map_ref_pop(thresh, stack)")],
                       "Terminal::Multi(ref thresh)": [lit("R10", CLOSURE_OLD, CLOSURE_NEW)],
                       "Terminal::MultiA(ref thresh)": [lit("R10", CLOSURE_OLD, CLOSURE_NEW)],
                   })
    vf.excluded_arms.append("lift_step: arm `Terminal::Thresh(ref thresh)`: closure call replaced by map_ref_pop (R9, contract-carrying stub)")

    # ---- lift_check: refuses when resource limits are exceeded / time locks mix ----------------------------------
    with vf.block("impl TimelockInfo"):
        vf.fn(EXT, "impl:TimelockInfo/fn:contains_unspendable_path", qual="TimelockInfo", props=PROPS,
              contract=Contract(ensures=[Clause("flag", ("C07",), "r == self.contains_combination")]))
    with vf.block("impl<Pk: MiniscriptKey, Ctx: ScriptContext> Miniscript<Pk, Ctx>"):
        vf.fn(ANALYZ, "impl:Miniscript<Pk, Ctx>/fn:within_resource_limits", qual="Miniscript", props=PROPS,
              contract=Contract(ensures=[Clause("ctx_verdict", ("C07",), "r == Ctx::spec_local_valid(*self)")]))
        vf.fn(ANALYZ, "impl:Miniscript<Pk, Ctx>/fn:has_mixed_timelocks", qual="Miniscript", props=PROPS,
              contract=Contract(ensures=[Clause("flag", ("C07",), "r == self.ext.timelock_info.contains_combination")]))
        vf.fn(POLICY, "impl:Miniscript<Pk, Ctx>/fn:lift_check", qual="Miniscript", props=PROPS, contract=Contract(ensures=[
            Clause("refuses_over_limits", ("C07",), "!Ctx::spec_local_valid(*self) ==> r == Err::<(), LiftError>(LiftError::BranchExceedResourceLimits)"),
            Clause("refuses_mixed_timelocks", ("C07",), "Ctx::spec_local_valid(*self) && self.ext.timelock_info.contains_combination ==> r == Err::<(), LiftError>(LiftError::HeightTimelockCombination)"),
            Clause("accepts_otherwise", ("C07",), "r is Ok <==> Ctx::spec_local_valid(*self) && !self.ext.timelock_info.contains_combination")]))

    # ---- descriptor-level lifts -------------------------------------------------------------------------------------
    C20.emit_descriptors(vf, CTX_IMPL)
    vf.raw(WRAP_STUBS)
    vf.trust("Miniscript::lift, TapTree::lift (external_body, uninterpreted results)", "whole-tree lift summarised (its per-node step is lift_step above); "
             "TapTree::lift (iterator adapters + normalized) is excluded")
    R7 = [lit("R7", "semantic::Policy", "Policy", required=False)]
    KEY = "r is Ok && forall|a: Asg| sem(r->Ok_0, a) == asg_key(a, %s)"
    for rel, ty in ((SEGWIT, "Wpkh"), (BARE, "Pkh")):
        with vf.block("impl<Pk: MiniscriptKey> %s<Pk>" % ty):
            vf.fn(rel, "impl:Liftable<Pk> for %s<Pk>/fn:lift" % ty, qual=ty, props=PROPS, rewrites=R7 + [lit("R10", "Ok(", "broadcast use clone_is_identity;\n        Ok(")],
                  contract=Contract(ensures=[Clause("the_key", ("C07",), KEY % "self.pk")]))
    for rel, ty in ((SEGWIT, "Wsh"), (BARE, "Bare")):
        with vf.block("impl<Pk: MiniscriptKey> %s<Pk>" % ty):
            vf.fn(rel, "impl:Liftable<Pk> for %s<Pk>/fn:lift" % ty, qual=ty, props=PROPS, rewrites=R7,
                  contract=Contract(ensures=[Clause("the_script", ("C07",), "r == spec_ms_lift(self.ms)")]))
    with vf.block("impl<Pk: MiniscriptKey> Sh<Pk>"):
        vf.fn(SH, "impl:Liftable<Pk> for Sh<Pk>/fn:lift", qual="Sh", props=PROPS, rewrites=R7 + [lit("R10", "match self.inner {", "broadcast use clone_is_identity;\n        match self.inner {")],
              contract=Contract(ensures=[
                  Clause("Wsh", ("C07",), "self.inner matches ShInner::Wsh(w) ==> r == spec_ms_lift(w.ms)"),
                  Clause("Ms", ("C07",), "self.inner matches ShInner::Ms(m) ==> r == spec_ms_lift(m)"),
                  Clause("Wpkh", ("C07",), "self.inner matches ShInner::Wpkh(w) ==> " + KEY % "w.pk")]))
    TRKEY = "forall|a: Asg| sem(r->Ok_0, a) == %s"
    with vf.block("impl<Pk: MiniscriptKey> Tr<Pk>"):
        vf.fn(TR, "impl:Liftable<Pk> for Tr<Pk>/fn:lift", qual="Tr", props=PROPS,
              rewrites=[bind_tail("tr_result", "broadcast use clone_is_identity;",
                                  "proof { if tr_result is Ok && tr_result->Ok_0 is Thresh && tr_result->Ok_0->Thresh_0.inner@.len() == 2 { let ghost p = tr_result->Ok_0; "
                                  "assert forall|a: Asg| (p->Thresh_0.k == 2 ==> #[trigger] sem(p, a) == (sem(*p->Thresh_0.inner@[0], a) && sem(*p->Thresh_0.inner@[1], a))) "
                                  "&& (p->Thresh_0.k == 1 ==> sem(p, a) == (sem(*p->Thresh_0.inner@[0], a) || sem(*p->Thresh_0.inner@[1], a))) by { lemma_thresh2(p, a); } } }")],
              contract=Contract(ensures=[
                  Clause("key_spend_only", ("C07",), "self.tree is None ==> r is Ok && " + TRKEY % "asg_key(a, self.internal_key)"),
                  Clause("key_or_any_leaf", ("C07",), "self.tree matches Some(tt) ==> spec_taptree_lift(tt) matches Ok(p) ==> r is Ok && " + TRKEY % "spec_or(asg_key(a, self.internal_key), sem(p, a))"),
                  Clause("tree_error_propagates", ("C07",), "self.tree matches Some(tt) ==> spec_taptree_lift(tt) is Err ==> r is Err")]))
    with vf.block("impl<Pk: MiniscriptKey> Descriptor<Pk>"):
        vf.fn(POLICY, "impl:Liftable<Pk> for Descriptor<Pk>/fn:lift", qual="Descriptor", props=PROPS, contract=Contract(ensures=[
            Clause("Bare", ("C07",), "*self matches Descriptor::Bare(d) ==> r == spec_ms_lift(d.ms)"),
            Clause("Pkh", ("C07",), "*self matches Descriptor::Pkh(d) ==> " + KEY % "d.pk"),
            Clause("Wpkh", ("C07",), "*self matches Descriptor::Wpkh(d) ==> " + KEY % "d.pk"),
            Clause("Wsh", ("C07",), "*self matches Descriptor::Wsh(d) ==> r == spec_ms_lift(d.ms)"),
            Clause("Sh.Ms", ("C07",), "*self matches Descriptor::Sh(d) ==> d.inner matches ShInner::Ms(m) ==> r == spec_ms_lift(m)"),
            Clause("Sh.Wsh", ("C07",), "*self matches Descriptor::Sh(d) ==> d.inner matches ShInner::Wsh(w) ==> r == spec_ms_lift(w.ms)"),
            Clause("Sh.Wpkh", ("C07",), "*self matches Descriptor::Sh(d) ==> d.inner matches ShInner::Wpkh(w) ==> " + KEY % "w.pk"),
            Clause("Tr.key_spend_only", ("C07",), "*self matches Descriptor::Tr(d) ==> d.tree is None ==> r is Ok && " + TRKEY % "asg_key(a, d.internal_key)"),
            Clause("Tr.key_or_any_leaf", ("C07",), "*self matches Descriptor::Tr(d) ==> d.tree matches Some(tt) ==> spec_taptree_lift(tt) matches Ok(p) ==> r is Ok && " + TRKEY % "spec_or(asg_key(a, d.internal_key), sem(p, a))"),
        ]))
    return vf
