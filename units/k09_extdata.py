"""C09: every `ExtData` row (static script size / op count / witness-size, -count, scriptSig-size and executed-op
figures, time-lock summary, tree height) against the Miniscript specification's script templates and
satisfaction table (Kani).

Complete harnesses: loop-free row functions over fully symbolic children (`ExtData` built field by field from
`kani::any()`, every `usize` field < 2^40 -- the stated precondition that excludes arithmetic overflow).
Bounded harnesses: `multi`/`sortedmulti` (iterator over a `Vec` of keys) and `threshold` (n <= 2).

The tag list of every harness is derived from the harness text itself (macro invocations `statics!/bound!/only_if!`
with a literal row name, and literal "C09:<tag>" messages), so a tag cannot be listed without being asserted.
"""
import os
import re

NAME = "k09_extdata"
ENGINE = "kani"
PROPS = ("C09", "C11")
_RS = "contracts/kani/k09_extdata.rs"
INJECT = [("src/miniscript/types/extra_props.rs", _RS)]
TRUSTED = [
    "kani::assume(field < 2^40) on every symbolic usize figure (no script is that large; excludes overflow only)",
    "kani::assume on k/n ranges = the invariant of `Threshold` (1 <= k <= n) and of AbsLockTime/RelLockTime (1 <= n < 2^31)",
    "thresh harness: kani::assume(every child has dissat_data) = the type rule `thresh` children are `d`",
    "one-bit key type K{unc} implementing MiniscriptKey (parametricity in Pk: the rows only call is_uncompressed())",
    "induction hypothesis: a child's figures bound the measures of the child's witnesses (that is the clause proved for the child's own row)",
    "ECDSA signature element = 73 bytes (low-S DER <= 71 + sighash byte + length byte), the crate's documented unit",
]
DROPPED = [
    "max_exec_stack_count is only checked as a monotone bound (>= the figure of each executed child); exact depth needs a Script interpreter",
    "non-canonical table rows that the library's satisfier does not implement (and_b/andor non-canonical dsat, or_b double sat) are not claimed",
    "cast_true (t:X = and_v(X,1)): its non-canonical dissatisfaction does not exist (`1` has none), nothing dropped there",
]

_MACRO_TAGS = {
    "statics": lambda row, side: ["%s.%s" % (row, a) for a in ("pk_cost", "static_ops", "free_verify", "height", "timelock")],
    "bound": lambda row, side: ["%s.%s_%s" % (row, side, a) for a in ("exists", "count", "size", "ssig", "ops", "exec")],
    "only_if": lambda row, side: ["%s.%s_only_if" % (row, side)],
}


def _parse():
    root = os.path.dirname(os.path.dirname(os.path.abspath(__file__)))
    src = open(os.path.join(root, _RS)).read()
    # strip line comments so commented-out clauses are not counted
    src = re.sub(r"//[^\n]*", "", src)
    # split into top-level fns
    fns = {}
    for m in re.finditer(r"((?:#\[[^\]]*\]\s*)*)fn (\w+)\s*(?:<[^>]*>)?\s*\(", src):
        fns[m.group(2)] = [m.start(), None, "kani::proof" in m.group(1)]
    order = sorted(fns.items(), key=lambda kv: kv[1][0])
    for i, (nm, rec) in enumerate(order):
        rec[1] = order[i + 1][1][0] if i + 1 < len(order) else len(src)
    body = {nm: src[a:b] for nm, (a, b, _) in fns.items()}

    def tags_of(nm, seen):
        if nm in seen:
            return []
        seen.add(nm)
        out = []
        t = body[nm]
        for m in re.finditer(r"\b(statics|bound|only_if)!\(\s*\"([\w]+)\"\s*,\s*(?:\"(\w+)\")?", t):
            out += _MACRO_TAGS[m.group(1)](m.group(2), m.group(3))
        out += re.findall(r"\"C09:([\w.\-]+)\"", t)
        for callee in re.findall(r"\b(\w+)\s*(?:::<[^>]*>)?\s*\(", t):
            if callee in body and callee != nm:
                out += tags_of(callee, seen)
        res = []
        for x in out:
            if x not in res:
                res.append(x)
        return res

    return {nm: tags_of(nm, set()) for nm, (_, _, proof) in fns.items() if proof}


_TAGS = _parse()

_BOUNDED = {
    "c09_multi_n3": ("ExtData::multi", "n <= 3 keys (each symbolically compressed/uncompressed), symbolic k"),
    "c09_multi_n20": ("ExtData::multi", "n in {16,17,20} compressed keys, symbolic k"),
    "c09_thresh_n1": ("ExtData::threshold", "n = 1, fully symbolic child"),
    "c09_thresh_n2_k1": ("ExtData::threshold", "n = 2, k = 1, fully symbolic children"),
    "c09_thresh_n2_k2": ("ExtData::threshold", "n = 2, k = 2, fully symbolic children"),
    "c09_thresh_n3_k1": ("ExtData::threshold", "n = 3, k = 1, fully symbolic children"),
    "c09_thresh_n3_k2": ("ExtData::threshold", "n = 3, k = 2, fully symbolic children"),
    "c09_thresh_n3_k3": ("ExtData::threshold", "n = 3, k = 3, fully symbolic children"),
}
_FN = {
    "c09_consts": "ExtData::{TRUE,FALSE}", "c09_pk_k": "ExtData::pk_k", "c09_pk_h": "ExtData::pk_h", "c09_raw_pkh": "ExtData::pk_h",
    "c09_multi_a": "ExtData::multi_a", "c09_hashes": "ExtData::{sha256,hash256,ripemd160,hash160}", "c09_after": "ExtData::after",
    "c09_older": "ExtData::older", "c09_fieldwise_max": "SatData::fieldwise_max", "c09_sat_op_count": "ExtData::sat_op_count",
    "c09_and_or": "ExtData::and_or",
}

# > 60 s each (sort_by_key + five dyn-closure folds under CBMC): n = 2 takes ~100 s, n = 3 ~200 s / 4.6 GB.
# c09_thresh_n2_k1 stays in the quick tier although it is over the budget: it is the harness that exposes the
# `i <= k` finding.
_THOROUGH = {"c09_thresh_n2_k2"}
# n = 3 (200 s / 4.6 GB each when they were written) no longer finish within the memory cap of the harness runner on this
# machine (CBMC gives no verdict): not registered, the harness text stays in the .rs file.  The unbounded statement about
# thresholds is not available from Kani at all; n <= 2 is the stated bound.
_DISABLED = {"c09_thresh_n3_k1", "c09_thresh_n3_k2", "c09_thresh_n3_k3"}

HARNESSES = []
for _nm in sorted(_TAGS):
    if _nm in _DISABLED:
        continue
    _h = dict(name=_nm, props=("C09", "C11"), tier="thorough" if _nm in _THOROUGH else "quick", tags=["C09:" + t for t in _TAGS[_nm]])
    if _nm in _BOUNDED:
        _h.update(fn=_BOUNDED[_nm][0], kind="bounded", bound=_BOUNDED[_nm][1])
    else:
        _h.update(fn=_FN.get(_nm, "ExtData::" + _nm[len("c09_"):]), kind="complete")
    HARNESSES.append(_h)

if __name__ == "__main__":
    for h in HARNESSES:
        print(h["name"], h["kind"], len(h["tags"]))
        for t in h["tags"]:
            print("    ", t)
    print(sum(len(h["tags"]) for h in HARNESSES), "tags")
