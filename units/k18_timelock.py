"""C18 (Kani): the mixed height/time lock check.

* `TimelockInfo::{combine_and, combine_or}`: COMPLETE over two fully symbolic TimelockInfo (10 bools),
  fold proved equal to the property's pairwise statement.
* `TimelockInfo::combine_threshold`: the un-rewritten closure fold, BOUNDED n <= 4 children, symbolic k
  (the unbounded proof is the Verus unit c18_timelock, which needs the fold -> index-loop rewrite).
* leaves: `ExtData::after/older` (complete, full u32 domain).
* NOT here: `Concrete::timelock_info` / `check_timelocks` on real concrete policy trees.  Kani harnesses for them
  (single symbolic leaf; and/or of two leaves; thresh of three) were written and DROPPED: none finished within
  10 minutes / 10 GB (the recursive `PostOrderIter::next`, per-node `Vec` of child indices and the drop glue of
  `Arc<Policy>` dominate).  The per-node match of `timelock_info` is verified by Verus instead (c18_timelock).
"""
NAME = "k18_timelock"
ENGINE = "kani"
PROPS = ("C18", "C12", "C11")
INJECT = [("src/miniscript/types/extra_props.rs", "contracts/kani/k18_timelock.rs")]
TRUSTED = ["bitcoin::absolute::LockTime / bitcoin::Sequence are executed as compiled (not stubbed)"]
DROPPED = ["Kani harnesses over real Concrete policy trees (timelock_info / check_timelocks): exceeded the 300 s budget even for a single leaf; dropped, see c18_timelock (Verus step)"]
HARNESSES = [
    dict(name="tl_combine_and", fn="TimelockInfo::combine_and", props=("C18", "C12", "C11"), kind="complete", tier="quick",
         tags=["C18,C12:combine_and.flags_are_union", "C18,C12:combine_and.combination_iff_pairwise_conflict", "C18,C12:combine_and.combination_direct"]),
    dict(name="tl_combine_or", fn="TimelockInfo::combine_or", props=("C18", "C12", "C11"), kind="complete", tier="quick",
         tags=["C18,C12:combine_or.flags_are_union", "C18,C12:combine_or.combination_only_inherited", "C18,C12:combine_or.combination_direct"]),
    dict(name="tl_combine_threshold_n4", fn="TimelockInfo::combine_threshold", props=("C18", "C12", "C11"), kind="bounded",
         bound="n <= 4 children, any k: usize", tier="quick",
         tags=["C18,C12:combine_threshold.flags_are_union", "C18,C12:combine_threshold.combination_iff_pairwise_conflict"]),
    dict(name="tl_leaf_after", fn="ExtData::after", props=("C18", "C12", "C11"), kind="complete", tier="quick",
         tags=["C18,C12:leaf_after.height_iff_below_500M", "C18,C12:leaf_after.time_iff_at_least_500M", "C18,C12:leaf_after.nothing_else"]),
    dict(name="tl_leaf_older", fn="ExtData::older", props=("C18", "C12", "C11"), kind="complete", tier="quick",
         tags=["C18,C12:leaf_older.domain", "C18,C12:leaf_older.time_iff_type_flag", "C18,C12:leaf_older.height_iff_no_type_flag", "C18,C12:leaf_older.nothing_else"]),
]
