"""C16 / C11: descriptor keys (src/descriptor/key.rs) -- which public key a descriptor key stands for (Verus).

Verified text (verbatim from /repo): `DefiniteDescriptorKey::{derive_public_key, new, master_fingerprint,
full_derivation_path(s), as_descriptor_public_key, into_descriptor_public_key}`, `DescriptorPublicKey::{has_wildcard,
has_hardened_step, is_multipath, master_fingerprint, full_derivation_path(s), derivation_path(s), wildcard,
xkey_network, at_derivation_index, into_single_keys}`, `DerivPaths::{new, paths, into_paths}`, the `MiniscriptKey` impls of
`SinglePub`, `DescriptorXKey`, `DescriptorMultiXKey`, `DescriptorPublicKey`, `DefiniteDescriptorKey`
({is_uncompressed, is_x_only_key, num_der_paths}), `ToPublicKey for DefiniteDescriptorKey::to_public_key`, and
`MiniscriptKey for bitcoin::PublicKey::is_uncompressed` (src/lib.rs).  The type definitions (`DescriptorPublicKey`,
`SinglePub`, `SinglePubKey`, `DescriptorXKey`, `DescriptorMultiXKey`, `DerivPaths`, `DefiniteDescriptorKey`, `Wildcard`,
`NonDefiniteKeyError`, trait `InnerXKey`) are the real ones.

secp256k1 / bip32 are opaque: `bitcoin::PublicKey { compressed, inner }` is a real two-field struct (so the compressed
flag is visible), `PublicKey::new(inner) = { compressed: true, inner }`, a curve point / x-only key / xpub chain code
are opaque values, `Xpub::derive_pub` is an uninterpreted function of (xpub, path) with exactly the failure conditions
of the bitcoin crate's code (hardened step; depth byte overflow).

Oracle (not the code): BIP32 (CKDpub is defined for non-hardened steps only; hardened index = 2^31 + i; the depth is ONE
byte; key identifier / fingerprint), BIP380 (key origin `[fingerprint/path]`, `/*` = all unhardened children, `/*h` =
hardened children, raw hex keys are used as written: 33-byte compressed or 65-byte uncompressed), BIP389 (`<a;b;..>`: one
descriptor per alternative, "otherwise identical"), BIP340 (an x-only key denotes the point with even Y), and the
property text of C16 / C11.
"""
import re

from vlib.verus import VerusFile, Contract, Clause, sub, lit, rule, Undecided
from vlib.extract import match_close

NAME = "c16_keys"
ENGINE = "verus"
PROPS = ("C16", "C11")
KEY = "src/descriptor/key.rs"
LIB = "src/lib.rs"
DROPPED = [
    "c16_keys: trait impls (`impl MiniscriptKey for ..`, `impl ToPublicKey for DefiniteDescriptorKey`) are emitted as inherent impl blocks (Verus allows no `requires` on trait-impl methods and the stubs need no trait machinery); the associated hash types / to_sha256.. conversions are dropped",
    "c16_keys: DescriptorPublicKey::master_fingerprint: the HASH160 engine block of the origin-less single-key arm (XKeyIdentifier::engine / write_into / from_engine / [..4].try_into()) is replaced by a call to the stub `single_key_fingerprint` (R9): its result is an uninterpreted function of the key, the clause for that arm only says which key is hashed",
    "c16_keys: full_derivation_paths: the closure `|p| origin_path.extend(p)` gets a parameter type and an `ensures` (R10); derivation_paths: `paths().clone()` -> stub `clone_paths` with `ensures r@ == v@` (R13)",
    "c16_keys: into_single_keys: `origin.clone()` -> stub `clone_origin(&origin)` with `ensures r == origin` (R13, derived Clone of Option<(Fingerprint, DerivationPath)>); the closure given to `map` gets a parameter type and an `ensures` (R10; Verus checks the closure body against it and vstd's specs of into_iter / map / collect carry it to the result)",
    "c16_keys: has_hardened_step: the two `for` loops get a ghost iterator name and invariants (R10: `for p in it: paths invariant ..`), a ghost witness before `return true`, and `#[verifier::loop_isolation(false)]`",
    "c16_keys: `&xpk.derivation_path.as_ref()` is passed to a `derive_pub` stub taking `&&[ChildNumber]` (the real one is generic in `P: AsRef<[ChildNumber]>`, instantiated at `&[ChildNumber]` by this very call)",
    "c16_keys: NOT verified (text parsing / formatting / secret keys): FromStr / Display impls, parse_key_origin, parse_xkey_deriv, fmt_derivation_path(s), maybe_fmt_master_id, DescriptorSecretKey, SinglePriv, *::to_public (secp, iterator adapters), serde impls; DescriptorXKey::matches (iterator chains over a generic key) is a signature-only stub with an arbitrary result (so that code motion into it is judged, not a weave error)",
    "c16_keys: the derivation itself (CKDpub: HMAC-SHA512 + point addition), key serialisation and HASH160 are uninterpreted; the clauses say WHICH key / path / flag is used",
]

PRELUDE = r"""
use core::marker::PhantomData;
use vstd::std_specs::iter::IteratorSpec;

// ---- stubs of the secp256k1 / bitcoin crates (trusted, listed) ------------------------------------------
pub mod secp256k1 {
    use vstd::prelude::*;
    verus!{
    pub trait Verification {}
    pub trait Signing {}
    pub struct VerifyOnly { pub never: u8 }
    pub struct All { pub never: u8 }
    impl Verification for VerifyOnly {}
    impl Verification for All {}
    impl Signing for All {}
    pub struct Secp256k1<C> { pub ctx: C }
    impl Secp256k1<VerifyOnly> {
        #[verifier::external_body]
        pub fn verification_only() -> Secp256k1<VerifyOnly> { unimplemented!() }
    }
    // a curve point
    #[derive(Clone, Copy)]
    pub struct PublicKey { pub point: u64 }
    #[derive(Clone, Copy)]
    pub enum Parity { Even, Odd }
    // a 32-byte x coordinate (BIP340)
    #[derive(Clone, Copy)]
    pub struct XOnlyPublicKey { pub x: u64 }
    // BIP340 lift_x: the point with the given x and the given parity of y (two different points)
    pub uninterp spec fn lift_x(x: XOnlyPublicKey, parity: Parity) -> PublicKey;
    impl XOnlyPublicKey {
        #[verifier::external_body]
        pub fn public_key(&self, parity: Parity) -> (r: PublicKey) ensures r == lift_x(*self, parity) { unimplemented!() }
    }
    }
}
use secp256k1::{Secp256k1, Signing, Verification, XOnlyPublicKey};

// bitcoin::PublicKey (bitcoin::key::PublicKey): the REAL two fields; `new` / `new_uncompressed` as in the bitcoin crate
#[derive(Clone, Copy)]
pub struct PublicKey { pub compressed: bool, pub inner: secp256k1::PublicKey }
impl PublicKey {
    pub fn new(key: secp256k1::PublicKey) -> (r: PublicKey) ensures r == (PublicKey { compressed: true, inner: key }) { PublicKey { compressed: true, inner: key } }
    pub fn new_uncompressed(key: secp256k1::PublicKey) -> (r: PublicKey) ensures r == (PublicKey { compressed: false, inner: key }) { PublicKey { compressed: false, inner: key } }
}
// miniscript's `impl ToPublicKey for XOnlyPublicKey` (src/lib.rs): 0x02 || x parsed as a 33-byte key, i.e. the
// compressed encoding of the even-Y point (BIP340: an x-only key denotes lift_x(x), the point with even Y)
impl secp256k1::XOnlyPublicKey {
    #[verifier::external_body]
    pub fn to_public_key(&self) -> (r: PublicKey)
        ensures r == (PublicKey { compressed: true, inner: secp256k1::lift_x(*self, secp256k1::Parity::Even) }),
    { unimplemented!() }
}
#[derive(Clone, Copy)]
pub enum NetworkKind { Main, Test }

pub mod bip32 {
    use vstd::prelude::*;
    use vstd::std_specs::iter::IteratorSpec;
    use crate::*;
    verus!{
    #[derive(Clone, Copy)]
    pub struct Fingerprint { pub bytes: u32 }
    #[derive(Clone, Copy)]
    pub struct ChainCode { pub opaque: u64 }
    // the real enum of bitcoin::bip32
    #[derive(Clone, Copy)]
    pub enum ChildNumber { Normal { index: u32 }, Hardened { index: u32 } }
    // the real variants of bitcoin::bip32::Error that matter here; payloads opaque
    pub enum Error { CannotDeriveFromHardenedKey, MaximumDepthExceeded, Secp256k1(u8), InvalidChildNumber(u32), Other(u8) }
    impl core::fmt::Display for Error {
        #[verifier::external_body]
        fn fmt(&self, f: &mut core::fmt::Formatter<'_>) -> core::fmt::Result { unimplemented!() }
    }
    impl ChildNumber {
        // BIP32: "child keys with i >= 2^31 are hardened": an index must be < 2^31, the variant carries the flag
        #[verifier::external_body]
        pub fn from_normal_idx(index: u32) -> (r: Result<ChildNumber, Error>)
            ensures r is Ok <==> index < 0x8000_0000u32, r is Ok ==> r->Ok_0 == (ChildNumber::Normal { index }),
        { unimplemented!() }
        #[verifier::external_body]
        pub fn from_hardened_idx(index: u32) -> (r: Result<ChildNumber, Error>)
            ensures r is Ok <==> index < 0x8000_0000u32, r is Ok ==> r->Ok_0 == (ChildNumber::Hardened { index }),
        { unimplemented!() }
        // bodies as in the bitcoin crate
        pub fn is_hardened(&self) -> (r: bool) ensures r == (*self is Hardened) {
            match self { ChildNumber::Hardened { .. } => true, ChildNumber::Normal { .. } => false }
        }
        pub fn is_normal(&self) -> (r: bool) ensures r == (*self is Normal) { !self.is_hardened() }
    }
    pub open spec fn yields<'a, T>(rem: Seq<&'a T>, xs: Seq<T>, from: int) -> bool {
        rem.len() == xs.len() - from && forall |j: int| 0 <= j < rem.len() ==> *(#[trigger] rem[j]) == xs[j + from]
    }
    // a list of child numbers
    pub struct DerivationPath { pub opaque: u64 }
    pub type KeySource = (Fingerprint, DerivationPath);
    impl DerivationPath {
        pub uninterp spec fn steps(&self) -> Seq<ChildNumber>;
        #[verifier::external_body]
        pub fn as_ref(&self) -> (r: &[ChildNumber]) ensures r@ == self.steps() { unimplemented!() }
        #[verifier::external_body]
        pub fn from(v: Vec<ChildNumber>) -> (r: DerivationPath) ensures r.steps() == v@ { unimplemented!() }
        #[verifier::external_body]
        pub fn extend(&self, path: &DerivationPath) -> (r: DerivationPath) ensures r.steps() == self.steps() + path.steps() { unimplemented!() }
        #[verifier::external_body]
        pub fn into_child(self, cn: ChildNumber) -> (r: DerivationPath) ensures r.steps() == self.steps().push(cn) { unimplemented!() }
        #[verifier::external_body]
        pub fn child(&self, cn: ChildNumber) -> (r: DerivationPath) ensures r.steps() == self.steps().push(cn) { unimplemented!() }
        #[verifier::external_body]
        pub fn len(&self) -> (r: usize) ensures r == self.steps().len(), r <= usize::MAX / 8 { unimplemented!() }   // a Vec of 8-byte child numbers
        #[verifier::external_body]
        pub fn is_empty(&self) -> (r: bool) ensures r == (self.steps().len() == 0) { unimplemented!() }
    }
    impl Clone for DerivationPath {
        #[verifier::external_body]
        fn clone(&self) -> (r: DerivationPath) ensures r == *self { unimplemented!() }
    }
    impl<'a> IntoIterator for &'a DerivationPath {
        type Item = &'a ChildNumber;
        type IntoIter = core::slice::Iter<'a, ChildNumber>;
        #[verifier::external_body]
        fn into_iter(self) -> (r: core::slice::Iter<'a, ChildNumber>) ensures yields(r.remaining(), self.steps(), 0) && r.decrease() is Some { unimplemented!() }
    }
    // the real fields of bitcoin::bip32::Xpub
    #[derive(Clone, Copy)]
    pub struct Xpub {
        pub network: NetworkKind,
        pub depth: u8,
        pub parent_fingerprint: Fingerprint,
        pub child_number: ChildNumber,
        pub public_key: secp256k1::PublicKey,
        pub chain_code: ChainCode,
    }
    pub open spec fn has_hardened(p: Seq<ChildNumber>) -> bool { exists|i: int| 0 <= i < p.len() && #[trigger] p[i] is Hardened }
    // BIP32 CKDpub iterated along a path of non-hardened steps (HMAC-SHA512, point addition): uninterpreted
    pub uninterp spec fn ckd_pub_path(k: Xpub, p: Seq<ChildNumber>) -> Xpub;
    impl Xpub {
        // BIP32 key identifier of the extended key, first 32 bits
        pub uninterp spec fn spec_fingerprint(&self) -> Fingerprint;
        #[verifier::external_body]
        pub fn fingerprint(&self) -> (r: Fingerprint) ensures r == self.spec_fingerprint() { unimplemented!() }
        // bitcoin::bip32::Xpub::derive_pub = ckd_pub step by step.  Each step fails with CannotDeriveFromHardenedKey on a
        // hardened child number, with MaximumDepthExceeded when the ONE-BYTE depth would exceed 255, and (probability
        // 2^-127, "cryptographically unreachable": assumed away) with Secp256k1 on an invalid tweak.
        #[verifier::external_body]
        pub fn derive_pub<C: Verification>(&self, secp: &Secp256k1<C>, path: &&[ChildNumber]) -> (r: Result<Xpub, Error>)
            ensures
                !has_hardened((**path)@) && self.depth as int + (**path)@.len() <= 255 ==> r is Ok && r->Ok_0 == ckd_pub_path(*self, (**path)@),
                has_hardened((**path)@) || self.depth as int + (**path)@.len() > 255 ==> r is Err,
                r is Err ==> r->Err_0 is CannotDeriveFromHardenedKey || r->Err_0 is MaximumDepthExceeded,
                r is Err && r->Err_0 is CannotDeriveFromHardenedKey ==> has_hardened((**path)@),
                r is Err && r->Err_0 is MaximumDepthExceeded ==> self.depth as int + (**path)@.len() > 255,
        { unimplemented!() }
    }
    }
}
pub mod bitcoin { pub use crate::{bip32, secp256k1, NetworkKind, PublicKey}; }

pub assume_specification<T> [core::slice::from_ref] (x: &T) -> (r: &[T])
    ensures r@ == seq![*x];
"""

GLUE = r"""
// derived PartialEq of the field-less enum Wildcard is structural equality (assumption, DESIGN 3.4)
impl vstd::std_specs::cmp::PartialEqSpecImpl for Wildcard {
    open spec fn obeys_eq_spec() -> bool { true }
    open spec fn eq_spec(&self, o: &Wildcard) -> bool { *self == *o }
}
// R13: derived Clone of the origin pair
#[verifier::external_body]
fn clone_origin(o: &Option<(bip32::Fingerprint, bip32::DerivationPath)>) -> (r: Option<(bip32::Fingerprint, bip32::DerivationPath)>)
    ensures r == *o,
{ unimplemented!() }
// R13: std Clone of Vec<DerivationPath>
#[verifier::external_body]
fn clone_paths(v: &Vec<bip32::DerivationPath>) -> (r: Vec<bip32::DerivationPath>)
    ensures r@ == v@,
{ unimplemented!() }
// R9: the key-identifier engine of master_fingerprint (HASH160 of the serialized key, first four bytes)
uninterp spec fn key_identifier_fp(k: SinglePubKey) -> bip32::Fingerprint;
#[verifier::external_body]
fn single_key_fingerprint(k: &SinglePubKey) -> (r: bip32::Fingerprint)
    ensures r == key_identifier_fp(*k),
{ unimplemented!() }
"""

ORACLE = r"""
// ---- oracle: BIP32 / BIP380 / BIP389 vocabulary -------------------------------------------------------------
type Origin = Option<(bip32::Fingerprint, bip32::DerivationPath)>;
spec fn origin_steps(o: Origin) -> Seq<bip32::ChildNumber> {
    match o { Some(t) => t.1.steps(), None => Seq::<bip32::ChildNumber>::empty() }
}
spec fn key_origin(k: DescriptorPublicKey) -> Origin {
    match k { DescriptorPublicKey::Single(s) => s.origin, DescriptorPublicKey::XPub(x) => x.origin, DescriptorPublicKey::MultiXPub(m) => m.origin }
}
// BIP380: the key expression ends in `/*` or `/*h`
spec fn key_has_wildcard(k: DescriptorPublicKey) -> bool {
    match k { DescriptorPublicKey::Single(_) => false, DescriptorPublicKey::XPub(x) => !(x.wildcard is None), DescriptorPublicKey::MultiXPub(m) => !(m.wildcard is None) }
}
// BIP389: the alternatives of a multipath key expression (`<a;b;..>` expanded), in order
spec fn multi_paths(m: DescriptorMultiXKey<bip32::Xpub>) -> Seq<bip32::DerivationPath> { m.derivation_paths.0@ }
spec fn any_hardened(ps: Seq<bip32::DerivationPath>) -> bool { exists|a: int| 0 <= a < ps.len() && bip32::has_hardened(#[trigger] ps[a].steps()) }
// some derivation step after the xpub is hardened (CKDpub is undefined for it)
spec fn key_has_hardened_step(k: DescriptorPublicKey) -> bool {
    match k {
        DescriptorPublicKey::Single(_) => false,
        DescriptorPublicKey::XPub(x) => bip32::has_hardened(x.derivation_path.steps()),
        DescriptorPublicKey::MultiXPub(m) => any_hardened(multi_paths(m)),
    }
}
// "definite": stands for exactly one public key that can be computed from public data -- no wildcard, no hardened
// step after the xpub, not a multipath key (the documented meaning of DefiniteDescriptorKey)
spec fn definite(k: DescriptorPublicKey) -> bool { !key_has_wildcard(k) && !key_has_hardened_step(k) && !(k is MultiXPub) }
// BIP32: the depth of an extended key is ONE byte; a key at depth d can be derived along at most 255 - d further steps
spec fn depth_fits(k: DescriptorPublicKey) -> bool {
    k matches DescriptorPublicKey::XPub(x) ==> x.xkey.depth as int + x.derivation_path.steps().len() <= 255
}
// what derive_public_key needs in order not to panic
spec fn derivable(k: DescriptorPublicKey) -> bool { definite(k) && depth_fits(k) }
// BIP380: a raw hex key is used as written; only a 65-byte (04..) key is uncompressed; x-only keys, and everything
// BIP32 derives, are compressed
spec fn key_uncompressed(k: DescriptorPublicKey) -> bool {
    k matches DescriptorPublicKey::Single(s) && single_uncompressed(s)
}
spec fn single_uncompressed(s: SinglePub) -> bool { s.key matches SinglePubKey::FullKey(pk) && !pk.compressed }
// the public key a definite key stands for
spec fn the_public_key(k: DescriptorPublicKey) -> PublicKey {
    match k {
        DescriptorPublicKey::Single(s) => match s.key {
            SinglePubKey::FullKey(pk) => pk,                                                                 // as written
            SinglePubKey::XOnly(x) => PublicKey { compressed: true, inner: secp256k1::lift_x(x, secp256k1::Parity::Even) },   // BIP340
        },
        DescriptorPublicKey::XPub(x) => PublicKey { compressed: true, inner: bip32::ckd_pub_path(x.xkey, x.derivation_path.steps()).public_key },
        DescriptorPublicKey::MultiXPub(m) => arbitrary(),
    }
}
// BIP380 `/*` (resp. `/*h`): the wildcard is replaced by the child number `cn`, everything else is kept
spec fn wildcard_replaced(x: DescriptorXKey<bip32::Xpub>, cn: bip32::ChildNumber, k: DescriptorPublicKey) -> bool {
    k matches DescriptorPublicKey::XPub(y) && y.origin == x.origin && y.xkey == x.xkey && y.wildcard is None
        && y.derivation_path.steps() == x.derivation_path.steps().push(cn)
}
// ---- lemmas about the oracle's vocabulary ----
proof fn lemma_has_hardened_push(s: Seq<bip32::ChildNumber>, cn: bip32::ChildNumber)
    ensures bip32::has_hardened(s.push(cn)) <==> (bip32::has_hardened(s) || cn is Hardened),
{
    let t = s.push(cn);
    if bip32::has_hardened(s) {
        let i = choose|i: int| 0 <= i < s.len() && #[trigger] s[i] is Hardened;
        assert(t[i] is Hardened);
    }
    if cn is Hardened {
        assert(t[s.len() as int] is Hardened);
    }
    if bip32::has_hardened(t) {
        let i = choose|i: int| 0 <= i < t.len() && #[trigger] t[i] is Hardened;
        if i < s.len() { assert(s[i] is Hardened); }
    }
}
proof fn lemma_has_hardened_push_all()
    ensures forall|s: Seq<bip32::ChildNumber>, cn: bip32::ChildNumber| #[trigger] bip32::has_hardened(s.push(cn)) <==> (bip32::has_hardened(s) || cn is Hardened),
{
    assert forall|s: Seq<bip32::ChildNumber>, cn: bip32::ChildNumber| #[trigger] bip32::has_hardened(s.push(cn)) <==> (bip32::has_hardened(s) || cn is Hardened) by {
        lemma_has_hardened_push(s, cn);
    }
}
// no path of the iterated slice has a hardened step, and the slice is the key's path list => the key has none
proof fn lemma_no_hardened(k: DescriptorPublicKey, ps: Seq<bip32::DerivationPath>)
    requires
        forall|a: int| 0 <= a < ps.len() ==> !bip32::has_hardened(#[trigger] ps[a].steps()),
        match k {
            DescriptorPublicKey::Single(_) => true,
            DescriptorPublicKey::XPub(x) => ps =~= seq![x.derivation_path],
            DescriptorPublicKey::MultiXPub(m) => ps =~= multi_paths(m),
        },
    ensures !key_has_hardened_step(k),
{
    if let DescriptorPublicKey::XPub(x) = k { assert(ps[0] == x.derivation_path); }
}
// BIP389: the j-th single-path key of a multipath key takes the j-th alternative and is otherwise identical
spec fn jth_single(m: DescriptorMultiXKey<bip32::Xpub>, j: int) -> DescriptorPublicKey {
    DescriptorPublicKey::XPub(DescriptorXKey { origin: m.origin, xkey: m.xkey, derivation_path: multi_paths(m)[j], wildcard: m.wildcard })
}
"""

STRIP_DERIVE = sub("R1-attrs", r"#\[derive\([^)]*\)\]\s*", "", required=False)
STRIP_ATTRS = sub("R1-attrs", r"(?m)^\s*#\[(?:derive|non_exhaustive|allow)\b[^\]]*\]\n", "", required=False)
KEEP_COPY_EQ = sub("R1-derive", r"#\[derive\([^)]*\)\]", "#[derive(Clone, Copy, PartialEq, Eq)]")


def C(tag, text, props=("C16",)):
    return Clause(tag, props, text)


@rule("R9-hash-engine")
def r9_hash_engine(text):
    """The block `{ let mut engine = XKeyIdentifier::engine(); ... }` -> `{ single_key_fingerprint(&single.key) }`."""
    i = text.find("let mut engine = XKeyIdentifier::engine();")
    if i < 0:
        return None
    o = text.rfind("{", 0, i)
    if o < 0 or text[o + 1:i].strip():
        return None
    c = match_close(text, o)
    return text[:o + 1] + " single_key_fingerprint(&single.key) " + text[c:]


def stub_fn(vf, rel, anchor, rewrites=()):
    """Signature-only stub with an arbitrary result; a function that no longer exists is simply not stubbed."""
    try:
        vf.fn(rel, anchor, assumed=True, rewrites=list(rewrites))
        return True
    except Exception as e:          # AnchorLost
        if e.__class__.__name__ != "AnchorLost":
            raise
        return False


def build(repo):
    vf = VerusFile(NAME, repo)
    vf.raw(PRELUDE, keep_vis=True)
    vf.trust("prelude stubs of secp256k1 (PublicKey, XOnlyPublicKey, Parity, Secp256k1, lift_x) and bitcoin (PublicKey {compressed, inner} with new / new_uncompressed, NetworkKind)",
             "curve points / x-only keys are opaque values; lift_x(x, parity) is uninterpreted; bitcoin::PublicKey::new sets compressed = true (bitcoin crate source)")
    vf.trust("XOnlyPublicKey::to_public_key (external_body)", "miniscript's impl ToPublicKey for XOnlyPublicKey (src/lib.rs) parses 0x02 || x: the compressed encoding of the even-Y point (BIP340)")
    vf.trust("bip32 stubs: Fingerprint, ChainCode, ChildNumber (real enum; from_normal_idx / from_hardened_idx Ok iff index < 2^31), DerivationPath (view `steps()`; from / extend / into_child / child / as_ref / len / clone / into_iter), Xpub (real fields), Error",
             "bitcoin::bip32 as compiled; a derivation path is its list of child numbers")
    vf.trust("Xpub::derive_pub (external_body, uninterpreted ckd_pub_path)",
             "bitcoin::bip32::Xpub::derive_pub: Err(CannotDeriveFromHardenedKey) on a hardened step, Err(MaximumDepthExceeded) when depth + steps > 255, "
             "otherwise Ok of the iterated CKDpub; the Secp256k1 error (invalid tweak, probability 2^-127) is assumed away as 'cryptographically unreachable'")
    vf.trust("vstd's specifications of Vec::into_iter / slice::iter / Iterator::map / Iterator::collect / Vec indexing by `..` / Result::ok / Option::ok_or and of `for` over slice iterators",
             "Verus standard library; into_single_keys, full_derivation_paths and has_hardened_step are verified through them WITHOUT loop rewrites")
    vf.trust("assume_specification core::slice::from_ref", "std: a one-element slice of the referenced value")

    # ---- the real type definitions ------------------------------------------------------------------
    vf.item(KEY, "trait:InnerXKey", rewrites=[sub("R7", r"trait InnerXKey\s*:\s*fmt::Display\s*\+\s*FromStr", "trait InnerXKey: Sized")])
    with vf.block("impl InnerXKey for bip32::Xpub"):
        vf.fn(KEY, "impl:InnerXKey for bip32::Xpub/fn:xkey_fingerprint", qual="Xpub as InnerXKey", props=("C11",))
        vf.fn(KEY, "impl:InnerXKey for bip32::Xpub/fn:can_derive_hardened", qual="Xpub as InnerXKey", props=("C11",))
    vf.item(KEY, "enum:Wildcard", rewrites=[KEEP_COPY_EQ])
    for a in ("enum:DescriptorPublicKey", "struct:SinglePub", "struct:DescriptorXKey", "struct:DerivPaths", "struct:DescriptorMultiXKey",
              "enum:SinglePubKey", "struct:DefiniteDescriptorKey"):
        vf.item(KEY, a, rewrites=[STRIP_DERIVE])
    vf.item(KEY, "enum:NonDefiniteKeyError", rewrites=[STRIP_ATTRS])
    vf.raw(GLUE)
    vf.trust("impl PartialEqSpecImpl for Wildcard", "derived PartialEq of a field-less enum is structural equality")
    vf.trust("clone_origin (external_body, r == *o)", "R13: derived / std Clone of Option<(Fingerprint, DerivationPath)> returns an equal value")
    vf.trust("clone_paths (external_body, r@ == v@)", "R13: Vec<DerivationPath>::clone returns an element-wise equal vector")
    vf.trust("single_key_fingerprint (external_body, uninterpreted)", "R9: stands for the HASH160 key-identifier engine block of master_fingerprint; only 'a function of the key' is assumed")
    vf.raw(ORACLE)

    # ---- bitcoin::PublicKey as a MiniscriptKey (src/lib.rs) -------------------------------------------
    with vf.block("impl PublicKey"):
        vf.fn(LIB, "impl:MiniscriptKey for bitcoin::PublicKey/fn:is_uncompressed", qual="PublicKey", props=PROPS,
              contract=Contract(ensures=[C("is_the_negated_flag", "r == !self.compressed")]))

    # ---- DerivPaths -------------------------------------------------------------------------------------
    with vf.block("impl DerivPaths"):
        vf.fn(KEY, "impl:DerivPaths/fn:new", qual="DerivPaths", props=PROPS, contract=Contract(ensures=[
            C("never_empty", "r is Some <==> paths@.len() > 0"), C("keeps_the_paths", "r is Some ==> r->Some_0.0 == paths")]))
        vf.fn(KEY, "impl:DerivPaths/fn:paths", qual="DerivPaths", props=PROPS, contract=Contract(ensures=[C("the_paths", "*r == self.0")]))
        vf.fn(KEY, "impl:DerivPaths/fn:into_paths", qual="DerivPaths", props=PROPS, contract=Contract(ensures=[C("the_paths", "r == self.0")]))

    # ---- MiniscriptKey impls of the parts -----------------------------------------------------------------
    with vf.block("impl SinglePub"):
        I = "impl:MiniscriptKey for SinglePub/fn:"
        vf.fn(KEY, I + "is_x_only_key", qual="SinglePub", props=PROPS, contract=Contract(ensures=[C("xonly_iff_32_byte_key", "r == (self.key is XOnly)")]))
        vf.fn(KEY, I + "num_der_paths", qual="SinglePub", props=PROPS, contract=Contract(ensures=[C("not_multipath", "r <= 1")]))
        vf.fn(KEY, I + "is_uncompressed", qual="SinglePub", props=PROPS, contract=Contract(ensures=[C("uncompressed_iff_65_byte_key", "r == single_uncompressed(*self)")]))
    with vf.block("impl<K: InnerXKey> DescriptorXKey<K>"):
        I = "impl:MiniscriptKey for DescriptorXKey<K>/fn:"
        vf.fn(KEY, I + "is_x_only_key", qual="DescriptorXKey", props=PROPS, contract=Contract(ensures=[C("never", "!r")]))
        vf.fn(KEY, I + "num_der_paths", qual="DescriptorXKey", props=PROPS, contract=Contract(ensures=[C("one_path", "r == 1")]))
    with vf.block("impl<K: InnerXKey> DescriptorMultiXKey<K>"):
        I = "impl:MiniscriptKey for DescriptorMultiXKey<K>/fn:"
        vf.fn(KEY, I + "is_x_only_key", qual="DescriptorMultiXKey", props=PROPS, contract=Contract(ensures=[C("never", "!r")]))
        vf.fn(KEY, I + "num_der_paths", qual="DescriptorMultiXKey", props=PROPS, contract=Contract(ensures=[C("number_of_alternatives", "r == self.derivation_paths.0@.len()")]))

    # ---- DescriptorPublicKey ---------------------------------------------------------------------------------
    DP = "impl:DescriptorPublicKey/fn:"
    MK = "impl:MiniscriptKey for DescriptorPublicKey/fn:"
    hardened_rw = [
        sub("R10", r"for p in paths \{", "for p in it: paths\n            invariant bip32::yields(it.seq(), paths@, 0), forall|a: int| 0 <= a < it.index() ==> !bip32::has_hardened(#[trigger] paths@[a].steps()),\n        {"),
        sub("R10", r"for step in p\.into_iter\(\) \{", "for step in it2: p.into_iter()\n                invariant bip32::yields(it2.seq(), p.steps(), 0), forall|b: int| 0 <= b < it2.index() ==> !(#[trigger] p.steps()[b] is Hardened),\n            {"),
        sub("R10", r"\n(\s*)false\n(\s*)\}\s*$", r"\n\1proof { lemma_no_hardened(*self, paths@); }\n\1false\n\2}"),
        sub("R10", r"return true;", "proof { assert(p.steps()[it2.index()] is Hardened); assert(bip32::has_hardened(paths@[it.index()].steps())); }\n                    return true;"),
    ]
    with vf.block("impl DescriptorPublicKey"):
        vf.fn(KEY, DP + "has_wildcard", qual="DescriptorPublicKey", props=PROPS, contract=Contract(ensures=[C("bip380_wildcard", "r == key_has_wildcard(*self)")]))
        vf.fn(KEY, DP + "wildcard", qual="DescriptorPublicKey", props=PROPS, contract=Contract(ensures=[
            C("agrees_with_has_wildcard", "key_has_wildcard(*self) <==> (r is Some && !(r->Some_0 is None))"), C("raw_keys_have_none", "*self is Single <==> r is None")]))
        vf.fn(KEY, DP + "is_multipath", qual="DescriptorPublicKey", props=PROPS, contract=Contract(ensures=[C("bip389_multipath", "r == (*self is MultiXPub)")]))
        vf.fn(KEY, DP + "has_hardened_step", qual="DescriptorPublicKey", props=PROPS, rewrites=hardened_rw, attrs="#[verifier::loop_isolation(false)]",
              contract=Contract(ensures=[C("some_step_after_the_xpub_is_hardened", "r == key_has_hardened_step(*self)")]))
        vf.fn(KEY, DP + "master_fingerprint", qual="DescriptorPublicKey", props=PROPS, rewrites=[r9_hash_engine], contract=Contract(ensures=[
            C("origin_fingerprint_wins", "key_origin(*self) matches Some(o) ==> r == o.0"),
            C("xpub_without_origin_is_its_own_master", "key_origin(*self) is None ==> (*self matches DescriptorPublicKey::XPub(x) ==> r == x.xkey.spec_fingerprint())"),
            C("multi_xpub_without_origin_is_its_own_master", "key_origin(*self) is None ==> (*self matches DescriptorPublicKey::MultiXPub(m) ==> r == m.xkey.spec_fingerprint())"),
            C("raw_key_without_origin_is_its_own_identifier", "key_origin(*self) is None ==> (*self matches DescriptorPublicKey::Single(s) ==> r == key_identifier_fp(s.key))"),
        ]))
        vf.fn(KEY, DP + "full_derivation_path", qual="DescriptorPublicKey", props=PROPS, contract=Contract(ensures=[
            C("none_iff_multipath", "r is None <==> *self is MultiXPub"),
            C("xpub_origin_path_then_key_path", "*self matches DescriptorPublicKey::XPub(x) ==> r is Some && r->Some_0.steps() == origin_steps(x.origin) + x.derivation_path.steps()"),
            C("raw_key_origin_path", "*self matches DescriptorPublicKey::Single(s) ==> r is Some && r->Some_0.steps() == origin_steps(s.origin)"),
        ]))
        vf.fn(KEY, DP + "derivation_path", qual="DescriptorPublicKey", props=PROPS, contract=Contract(ensures=[
            C("none_iff_multipath", "r is None <==> *self is MultiXPub"),
            C("xpub_key_path", "*self matches DescriptorPublicKey::XPub(x) ==> r is Some && r->Some_0.steps() == x.derivation_path.steps()"),
            C("raw_key_empty_path", "*self is Single ==> r is Some && r->Some_0.steps().len() == 0"),
        ]))
        vf.fn(KEY, DP + "xkey_network", qual="DescriptorPublicKey", props=PROPS, contract=Contract(ensures=[
            C("none_iff_raw_key", "r is None <==> *self is Single"),
            C("xpub_network", "*self matches DescriptorPublicKey::XPub(x) ==> r == Some(x.xkey.network)"),
            C("multi_xpub_network", "*self matches DescriptorPublicKey::MultiXPub(m) ==> r == Some(m.xkey.network)")]))
        vf.fn(KEY, DP + "at_derivation_index", qual="DescriptorPublicKey", props=PROPS, rewrites=[
            lit("R10", "DefiniteDescriptorKey::new(definite)", "proof { lemma_has_hardened_push_all(); }\n        DefiniteDescriptorKey::new(definite)")], contract=Contract(ensures=[
            C("raw_key_unchanged", "self is Single ==> r is Ok && r->Ok_0.0 == self"),
            C("xpub_without_wildcard_unchanged", "self matches DescriptorPublicKey::XPub(x) ==> (x.wildcard is None ==> (r is Ok ==> r->Ok_0.0 == self) && (derivable(self) ==> r is Ok))"),
            C("wildcard_replaced_by_exactly_the_index", "self matches DescriptorPublicKey::XPub(x) ==> (x.wildcard is Unhardened && r is Ok ==> wildcard_replaced(x, bip32::ChildNumber::Normal { index }, r->Ok_0.0))"),
            C("unhardened_wildcard_ok_only_if", "self matches DescriptorPublicKey::XPub(x) ==> (x.wildcard is Unhardened && r is Ok ==> index < 0x8000_0000u32 && !bip32::has_hardened(x.derivation_path.steps()))"),
            C("unhardened_wildcard_ok_if", "self matches DescriptorPublicKey::XPub(x) ==> (x.wildcard is Unhardened && index < 0x8000_0000u32 && !bip32::has_hardened(x.derivation_path.steps()) && x.xkey.depth as int + x.derivation_path.steps().len() + 1 <= 255 ==> r is Ok)"),
            C("hardened_index_is_an_error", "key_has_wildcard(self) && !(self is MultiXPub) && index >= 0x8000_0000u32 ==> r == Err::<DefiniteDescriptorKey, NonDefiniteKeyError>(NonDefiniteKeyError::HardenedStep)"),
            C("hardened_step_is_an_error", "key_has_hardened_step(self) && !(self is MultiXPub) ==> r == Err::<DefiniteDescriptorKey, NonDefiniteKeyError>(NonDefiniteKeyError::HardenedStep)"),
            C("hardened_wildcard_is_an_error", "self matches DescriptorPublicKey::XPub(x) ==> (x.wildcard is Hardened ==> r == Err::<DefiniteDescriptorKey, NonDefiniteKeyError>(NonDefiniteKeyError::HardenedStep))"),
            C("multipath_is_an_error", "self is MultiXPub ==> r == Err::<DefiniteDescriptorKey, NonDefiniteKeyError>(NonDefiniteKeyError::Multipath)"),
            C("result_is_definite", "r is Ok ==> definite(r->Ok_0.0)"),
        ]))
        closure_rw = [
            lit("R13", "origin.clone()", "clone_origin(&origin)"),
            sub("R10", r"\.map\(\|derivation_path\|\s*\{",
                ".map(|derivation_path: bip32::DerivationPath| -> (k: DescriptorPublicKey)\n                        ensures k == (DescriptorPublicKey::XPub(DescriptorXKey { origin, xkey, derivation_path, wildcard }))\n                    {"),
        ]
        vf.fn(KEY, DP + "into_single_keys", qual="DescriptorPublicKey", props=PROPS, rewrites=closure_rw, contract=Contract(ensures=[
            C("single_path_key_is_itself", "!(self is MultiXPub) ==> r@ =~= seq![self]"),
            C("one_key_per_alternative", "self matches DescriptorPublicKey::MultiXPub(m) ==> r@.len() == multi_paths(m).len()"),
            C("jth_key_takes_jth_alternative_otherwise_identical", "self matches DescriptorPublicKey::MultiXPub(m) ==> (forall|j: int| 0 <= j < r@.len() ==> #[trigger] r@[j] == jth_single(m, j))"),
        ]))
        # MiniscriptKey for DescriptorPublicKey
        vf.fn(KEY, MK + "is_uncompressed", qual="DescriptorPublicKey", props=PROPS, contract=Contract(ensures=[C("uncompressed_iff_raw_65_byte_key", "r == key_uncompressed(*self)")]))
        vf.fn(KEY, MK + "is_x_only_key", qual="DescriptorPublicKey", props=PROPS, contract=Contract(ensures=[
            C("xonly_iff_raw_32_byte_key", "r <==> (*self matches DescriptorPublicKey::Single(s) && s.key is XOnly)")]))
        vf.fn(KEY, MK + "num_der_paths", qual="DescriptorPublicKey", props=PROPS, contract=Contract(ensures=[
            C("multipath_number_of_alternatives", "*self matches DescriptorPublicKey::MultiXPub(m) ==> r == multi_paths(m).len()"),
            C("more_than_one_only_for_multipath", "!(*self is MultiXPub) ==> r <= 1"),
            C("xpub_has_one_path", "*self is XPub ==> r == 1"),
        ]))
        paths_rw = [sub("R10", r"(?s)\.map\(\|p\|\s*(.*?)\)(\s*)\.collect\(\)",
                        r".map(|p: &bip32::DerivationPath| -> (q: bip32::DerivationPath) ensures q.steps() == origin_path.steps() + p.steps() { \1 })\2.collect()")]
        vf.fn(KEY, DP + "full_derivation_paths", qual="DescriptorPublicKey", props=PROPS, rewrites=paths_rw, contract=Contract(ensures=[
            C("one_path_per_alternative", "*self matches DescriptorPublicKey::MultiXPub(m) ==> r@.len() == multi_paths(m).len()"),
            C("jth_is_origin_path_then_jth_alternative", "*self matches DescriptorPublicKey::MultiXPub(m) ==> (forall|j: int| 0 <= j < r@.len() ==> (#[trigger] r@[j]).steps() == origin_steps(m.origin) + multi_paths(m)[j].steps())"),
            C("single_path_key_has_one_full_path", "!(*self is MultiXPub) ==> r@.len() == 1"),
            C("xpub_origin_path_then_key_path", "*self matches DescriptorPublicKey::XPub(x) ==> r@.len() == 1 && r@[0].steps() == origin_steps(x.origin) + x.derivation_path.steps()"),
        ]))
        vf.fn(KEY, DP + "derivation_paths", qual="DescriptorPublicKey", props=PROPS, rewrites=[
            lit("R13", "xpub.derivation_paths.paths().clone()", "clone_paths(xpub.derivation_paths.paths())")], contract=Contract(ensures=[
            C("multipath_alternatives", "*self matches DescriptorPublicKey::MultiXPub(m) ==> r@ == multi_paths(m)"),
            C("xpub_key_path", "*self matches DescriptorPublicKey::XPub(x) ==> r@.len() == 1 && r@[0].steps() == x.derivation_path.steps()"),
            C("raw_key_empty_path", "*self is Single ==> r@.len() == 1 && r@[0].steps().len() == 0"),
        ]))
        stubbed = []
    with vf.block("impl<K: InnerXKey> DescriptorXKey<K>"):
        # `impl DescriptorXKey<bip32::Xpriv>` and `impl<K: InnerXKey> DescriptorXKey<K>` both match the generics-insensitive anchor
        if any(stub_fn(vf, KEY, "impl:DescriptorXKey<K>#%d/fn:matches" % n) for n in range(4)):
            stubbed.append("DescriptorXKey::matches")

    # ---- DefiniteDescriptorKey ---------------------------------------------------------------------------------
    DD = "impl:DefiniteDescriptorKey/fn:"
    MD = "impl:MiniscriptKey for DefiniteDescriptorKey/fn:"
    ERR = "Err::<DefiniteDescriptorKey, NonDefiniteKeyError>(NonDefiniteKeyError::%s)"
    with vf.block("impl DefiniteDescriptorKey"):
        vf.fn(KEY, DD + "new", qual="DefiniteDescriptorKey", props=PROPS, contract=Contract(ensures=[
            # (the two directions are stated separately so that a repair of `new` that also rejects undeliverable depths keeps them)
            C("ok_only_if_definite", "r is Ok ==> definite(key)", ("C16", "C11")),
            C("derivable_key_is_accepted", "derivable(key) ==> r is Ok", ("C16",)),
            C("wraps_the_key", "r is Ok ==> r->Ok_0.0 == key"),
            C("error_names_a_true_cause", "(r == %s ==> key_has_wildcard(key)) && (r == %s ==> key_has_hardened_step(key)) && (r == %s ==> key is MultiXPub)" % (ERR % "Wildcard", ERR % "HardenedStep", ERR % "Multipath")),
            C("wildcard_is_reported", "key_has_wildcard(key) ==> r == %s" % (ERR % "Wildcard")),
            C("hardened_step_is_reported", "!key_has_wildcard(key) && key_has_hardened_step(key) ==> r == %s" % (ERR % "HardenedStep")),
            C("multipath_is_reported", "!key_has_wildcard(key) && !key_has_hardened_step(key) && key is MultiXPub ==> r == %s" % (ERR % "Multipath")),
            # the invariant `new` establishes must be enough for derive_public_key's `unreachable!` arms (C11)
            C("invariant_suffices_for_derive_public_key", "r is Ok ==> derivable(r->Ok_0.0)", ("C11",)),
        ]))
        vf.fn(KEY, DD + "derive_public_key", qual="DefiniteDescriptorKey", props=PROPS, contract=Contract(
            requires=["derivable(self.0)"],
            ensures=[
                C("raw_full_key_is_used_exactly_as_written", "self.0 matches DescriptorPublicKey::Single(s) ==> (s.key matches SinglePubKey::FullKey(k) ==> r == k)"),
                C("raw_full_key_keeps_compressed_flag", "self.0 matches DescriptorPublicKey::Single(s) ==> (s.key matches SinglePubKey::FullKey(k) ==> r.compressed == k.compressed && r.inner == k.inner)"),
                C("xonly_key_is_the_even_parity_compressed_key", "self.0 matches DescriptorPublicKey::Single(s) ==> (s.key matches SinglePubKey::XOnly(x) ==> r == (PublicKey { compressed: true, inner: secp256k1::lift_x(x, secp256k1::Parity::Even) }))"),
                C("xpub_is_bip32_derived_along_the_path_compressed", "self.0 matches DescriptorPublicKey::XPub(x) ==> r == (PublicKey { compressed: true, inner: bip32::ckd_pub_path(x.xkey, x.derivation_path.steps()).public_key })"),
                C("is_the_public_key_of_the_descriptor_key", "r == the_public_key(self.0)"),
                C("compressed_flag_agrees_with_is_uncompressed", "r.compressed == !key_uncompressed(self.0)"),
            ]))
        vf.fn(KEY, DD + "master_fingerprint", qual="DefiniteDescriptorKey", props=PROPS, contract=Contract(ensures=[
            C("origin_fingerprint_wins", "key_origin(self.0) matches Some(o) ==> r == o.0")]))
        vf.fn(KEY, DD + "full_derivation_path", qual="DefiniteDescriptorKey", props=PROPS, contract=Contract(ensures=[
            C("xpub_origin_path_then_key_path", "self.0 matches DescriptorPublicKey::XPub(x) ==> r is Some && r->Some_0.steps() == origin_steps(x.origin) + x.derivation_path.steps()")]))
        vf.fn(KEY, DD + "as_descriptor_public_key", qual="DefiniteDescriptorKey", props=PROPS, contract=Contract(ensures=[C("the_key", "*r == self.0")]))
        vf.fn(KEY, DD + "into_descriptor_public_key", qual="DefiniteDescriptorKey", props=PROPS, contract=Contract(ensures=[C("the_key", "r == self.0")]))
        vf.fn(KEY, DD + "full_derivation_paths", qual="DefiniteDescriptorKey", props=PROPS, contract=Contract(ensures=[
            C("xpub_origin_path_then_key_path", "self.0 matches DescriptorPublicKey::XPub(x) ==> r@.len() == 1 && r@[0].steps() == origin_steps(x.origin) + x.derivation_path.steps()")]))
        # MiniscriptKey / ToPublicKey for DefiniteDescriptorKey
        vf.fn(KEY, MD + "is_uncompressed", qual="DefiniteDescriptorKey", props=PROPS, contract=Contract(ensures=[C("uncompressed_iff_raw_65_byte_key", "r == key_uncompressed(self.0)")]))
        vf.fn(KEY, MD + "is_x_only_key", qual="DefiniteDescriptorKey", props=PROPS, contract=Contract(ensures=[
            C("xonly_iff_raw_32_byte_key", "r <==> (self.0 matches DescriptorPublicKey::Single(s) && s.key is XOnly)")]))
        vf.fn(KEY, MD + "num_der_paths", qual="DefiniteDescriptorKey", props=PROPS, contract=Contract(
            requires=["definite(self.0)"], ensures=[C("definite_key_is_single_path", "r <= 1")]))
        vf.fn(KEY, "impl:ToPublicKey for DefiniteDescriptorKey/fn:to_public_key", qual="DefiniteDescriptorKey", props=PROPS, contract=Contract(
            requires=["derivable(self.0)"],
            ensures=[
                C("is_the_public_key_of_the_descriptor_key", "r == the_public_key(self.0)"),
                # the two views of the key trait agree (what Wpkh / Sh wrappers and the size accounting rely on)
                C("is_uncompressed_iff_derived_key_is_uncompressed", "key_uncompressed(self.0) <==> !r.compressed"),
            ]))
    vf.trust("arbitrary-result stubs (%s)" % ", ".join(stubbed), "external_body without any ensures: nothing is assumed about their result")

    # the two key-trait views agree, as a law of the oracle (BIP380: only a raw 65-byte key is uncompressed)
    vf.spec_obligation("oracle_uncompressed_views_agree", """
proof fn oracle_uncompressed_views_agree(k: DescriptorPublicKey)
    requires definite(k),
    ensures key_uncompressed(k) <==> !the_public_key(k).compressed,
{}
""", ("C16",))
    return vf
