"""C16, sorted-multisig half: `Threshold::into_sorted` / `is_sorted` (Kani, BOUNDED n <= 4).

Result is a permutation of the input, ordered by the serialisation key, k and n preserved; hence for pairwise
distinct keys the result does not depend on the order in which the keys were listed (BIP67 / `sortedmulti`).
The real `Vec::sort_by_key` of std is executed.  `into_sorted_bip67[_xonly]` only supply the secp key
serialisation as the `fn` pointer (FFI; not executable by Kani) -- listed as not decided."""
NAME = "k16_sorted"
ENGINE = "kani"
PROPS = ("C16", "C11")
INJECT = [("src/primitives/threshold.rs", "contracts/kani/k16_sorted.rs")]
TRUSTED = ["k16_sorted: T = u8 with a symbolic 4-entry key table stands for (public key, serialisation); parametricity of Threshold<T, MAX> in T and of into_sorted in the fn pointer",
           "k16_sorted: into_sorted_bip67 / into_sorted_bip67_xonly (closures calling secp256k1 serialisation) are not executed"]
DROPPED = ["k16_sorted: bounded stand-in (n <= 4 items); never counted as proved"]
_P = ["C16:into_sorted.k_preserved", "C16:into_sorted.n_preserved", "C16:into_sorted.ordered_by_key", "C16:into_sorted.permutation",
      "C16:is_sorted.accepts_sorted", "C16:is_sorted.definition"]
_O = ["C16:into_sorted.order_independent_k_n", "C16:into_sorted.order_independent"]
HARNESSES = [
    dict(name="into_sorted_sorted_permutation_n%d" % n, fn="Threshold::into_sorted", props=("C16", "C11"), kind="bounded",
         bound="n = %d, T = u8, symbolic key table" % n, tier="quick", tags=_P) for n in (2, 3, 4)
] + [
    dict(name="into_sorted_order_independent_n%d" % n, fn="Threshold::into_sorted", props=("C16", "C11"), kind="bounded",
         bound="n = %d, T = u8, symbolic key table, pairwise distinct keys" % n, tier="quick", tags=_O) for n in (2, 3, 4)
]
