"""C11: the ASCII guard of `parse_key_origin` makes its byte-offset `&str` slice panic-free -- for strings of ANY length (Verus).

`parse_key_origin` (src/descriptor/key.rs) slices its input at byte offset 1 (`s[1..]`); a `&str` slice panics unless the
offset is a UTF-8 character boundary.  Verified text (verbatim): the head of the function -- the byte-level guard loop,
the empty-string check and the slice expression `s[1..]` itself.  vstd models `&str` as its UTF-8 byte sequence
(`spec_bytes()`, `vstd::utf8::is_char_boundary`, and the precondition of `str` range indexing), so the obligation is the
real one: after the guard every byte is < 128, hence no byte is a continuation byte, hence every index is a character
boundary, hence `s[1..]` cannot panic.  The TAIL of the function (`split(']')`, fingerprint / path parsing: iterator
adapters, closures, `to_owned`) is cut off (R9) and replaced by a call with an arbitrary result.

Oracle: the property text of C11 (no input can crash the library) + the definition of UTF-8 (RFC 3629: bytes < 0x80 are
single-byte characters) -- not the code's own constant (`< 20`, decimal, is examined in the report).
The Kani unit k11_keyparse checks the un-cut real function on every valid UTF-8 string of <= 3 bytes.
"""
import re

from vlib.verus import VerusFile, Contract, Clause, Undecided, sub, lit, rule
from vlib.extract import match_close

NAME = "c11_keyparse"
ENGINE = "verus"
PROPS = ("C11",)
KEY = "src/descriptor/key.rs"
DROPPED = [
    "c11_keyparse: parse_key_origin is cut after the slice expression: `let mut parts = s[1..].split(']');` becomes `let parts_src: &str = &s[1..];` and the rest of the body (split / fingerprint / derivation path parsing) is replaced by `key_origin_tail(s, parts_src)` with an arbitrary result (R9); nothing is claimed about the tail",
    "c11_keyparse: the guard loop `for ch in s.as_bytes()` gets a ghost iterator name and an invariant (R10)",
    "c11_keyparse: a guard written `s.as_bytes().iter().any(|&b| BODY)` instead of the `for` loop -> the loop that Iterator::any is over a slice iterator (R14: elements in order, stops at the first hit; BODY verbatim), carrying the same invariant; trusted std semantics of slice::Iter / Iterator::any, declared only when the rewrite fires",
    "c11_keyparse: DescriptorPublicKey::from_str's `key_part[0..2]` is NOT covered here (the key part is produced by the cut-off tail); it is covered, bounded, by k11_keyparse's clause accepted_key_part_is_ascii",
]

PRELUDE = r"""
use vstd::string::StringSliceAdditionalSpecFns;
use vstd::std_specs::iter::IteratorSpec;

// ---- opaque payload types of the error enums (trusted: only moved around) ----
pub mod bip32 {
    use vstd::prelude::*;
    verus!{
    pub struct Fingerprint { pub bytes: u32 }
    pub struct DerivationPath { pub opaque: u64 }
    pub type KeySource = (Fingerprint, DerivationPath);
    pub struct Error { pub opaque: u64 }
    }
}
pub mod bitcoin {
    pub use crate::bip32;
    pub mod hex { use vstd::prelude::*; verus!{ pub struct HexToArrayError { pub opaque: u64 } } }
    pub mod key { use vstd::prelude::*; verus!{ pub struct ParsePublicKeyError { pub opaque: u64 } pub struct FromWifError { pub opaque: u64 } } }
    pub mod secp256k1 { use vstd::prelude::*; verus!{ pub struct Error { pub opaque: u64 } } }
}
pub struct WalletPolicyError { pub opaque: u64 }

// std: char::is_control <=> Unicode general category Cc = U+0000..U+001F, U+007F..U+009F (only so that a guard written
// with it can be JUDGED instead of being unsupported)
pub assume_specification [char::is_control] (c: char) -> (r: bool)
    ensures r == ((c as u32) <= 0x1f || (0x7f <= (c as u32) && (c as u32) <= 0x9f));
"""

SPEC = r"""
// what a slice iterator over `xs` will yield, starting at element `from`
spec fn yields<'a, T>(rem: Seq<&'a T>, xs: Seq<T>, from: int) -> bool {
    rem.len() == xs.len() - from && forall |j: int| 0 <= j < rem.len() ==> *(#[trigger] rem[j]) == xs[j + from]
}
// RFC 3629: a byte < 0x80 is a complete one-byte character
spec fn all_ascii(b: Seq<u8>) -> bool { forall|i: int| 0 <= i < b.len() ==> #[trigger] b[i] < 128 }

// the guard argument: ASCII text => every byte offset is a character boundary
proof fn lemma_ascii_every_offset_is_a_boundary(s: &str, i: int)
    requires all_ascii(s.spec_bytes()), 0 <= i <= s.spec_bytes().len(),
    ensures vstd::utf8::is_char_boundary(s.spec_bytes(), i),
{
    vstd::utf8::encode_utf8_valid_utf8(s@);
    if i < s.spec_bytes().len() {
        assert(s.spec_bytes()[i] < 128);
        vstd::utf8::is_char_boundary_iff_not_is_continuation_byte(s.spec_bytes(), i);
    } else {
        vstd::utf8::is_char_boundary_start_end_of_seq(s.spec_bytes());
    }
}

// R9: the cut-off tail of parse_key_origin -- arbitrary result
#[verifier::external_body]
fn key_origin_tail<'a>(s: &'a str, parts_src: &'a str) -> Result<(&'a str, Option<bip32::KeySource>), DescriptorKeyParseError> { unimplemented!() }
"""

STRIP_ATTRS = sub("R1-attrs", r"(?m)^\s*#\[(?:derive|non_exhaustive|allow)\b[^\]]*\]\n", "", required=False)


@rule("R9-tail")
def cut_tail(text):
    """`let mut parts = s[1..].split(']'); <rest of body>` -> `let parts_src: &str = &s[1..]; key_origin_tail(s, parts_src)`.
    The slice expression `s[1..]` is kept verbatim (it is the obligation)."""
    m = re.search(r"let mut parts = (s\[1\.\.\])\.split\('\]'\);", text)
    if not m:
        return None
    end = text.rstrip().rfind("}")
    ghost = ("proof {\n        if all_ascii(s.spec_bytes()) && s.spec_bytes().len() >= 1 {\n            lemma_ascii_every_offset_is_a_boundary(s, 1);                               // the slice starts on a boundary\n            lemma_ascii_every_offset_is_a_boundary(s, s.spec_bytes().len() as int);   // and ends on one\n        }\n    }\n    ")
    return text[:m.start()] + ghost + "let parts_src: &str = &" + m.group(1) + ";\n    key_origin_tail(s, parts_src)\n" + text[end:]


def _postfix_receiver_start(text, end):
    """start of the postfix expression (`a.b(c)[d]::e` chain) that ends right before `end`"""
    pairs = {")": "(", "]": "["}
    j = end
    while True:
        while j > 0 and text[j - 1].isspace():
            j -= 1
        if j > 0 and text[j - 1] in pairs:
            depth, opener, closer = 0, pairs[text[j - 1]], text[j - 1]
            while j > 0:
                j -= 1
                if text[j] == closer:
                    depth += 1
                elif text[j] == opener:
                    depth -= 1
                    if depth == 0:
                        break
            if depth != 0:
                return None
            continue                                  # the callee / indexed expression is in front of the group
        k = j
        while k > 0 and (text[k - 1].isalnum() or text[k - 1] == "_"):
            k -= 1
        if k == j:
            return None
        j = k
        back = text[:j].rstrip()
        if back.endswith("."):
            j = len(back) - 1
        elif back.endswith("::"):
            j = len(back) - 2
        else:
            return j


# the loop that std's Iterator::any is over a slice iterator: elements in order, stop at the first one the closure accepts.  /verif text with the
# unit's invariant (every byte the closure let through is < 128); the closure body is kept verbatim
ANY_LOOP = """{
        let any_xs_ = %(recv)s;
        let mut any_result_: bool = false;
        let mut any_i_: usize = 0;
        while any_i_ < any_xs_.len()
            invariant_except_break
                !any_result_,
            invariant
                any_i_ <= any_xs_.len(), any_xs_@ == s.spec_bytes(),
                forall|j: int| 0 <= j < any_i_ ==> #[trigger] s.spec_bytes()[j] < 128,
            ensures
                any_result_ || all_ascii(s.spec_bytes()),
            decreases any_xs_.len() - any_i_,
        {
            let %(bind)s;
            let any_hit_: bool = %(body)s;
            if any_hit_ {
                any_result_ = true;
                break;
            }
            any_i_ += 1;
        }
        any_result_
    }"""


@rule("R14-slice-iter-any")
def guard_any_to_loop(text):
    """`RECV.iter().any(|x| BODY)` / `|&x| BODY` over the byte slice -> the loop that Iterator::any is (ANY_LOOP), BODY verbatim.  Optional: absent when the
    guard is written as a `for` loop."""
    m = re.search(r"\.iter\(\)\s*\.any\(\s*\|\s*(&?)\s*(\w+)\s*\|\s*", text)
    if not m:
        return text
    open_ = text.index("(", text.index("any", m.start()))
    close = match_close(text, open_)
    body = text[m.end():close].strip()
    start = _postfix_receiver_start(text, m.start())
    if start is None:
        raise Undecided("parse_key_origin: receiver of `.iter().any(..)` not recognised (shape not modelled)")
    if re.search(r"\breturn\b|\?", re.sub(r"//[^\n]*", "", body)):
        raise Undecided("parse_key_origin: the closure of `.any(..)` leaves through return / `?` (cannot be inlined)")
    # `|&x|` binds the element itself (u8 is Copy), `|x|` a reference to it
    bind = "%s = any_xs_[any_i_]" % m.group(2) if m.group(1) else "%s = &any_xs_[any_i_]" % m.group(2)
    return text[:start] + ANY_LOOP % dict(recv=text[start:m.start()].strip(), bind=bind, body=body) + text[close + 1:]


def build(repo):
    vf = VerusFile(NAME, repo)
    vf.raw(PRELUDE, keep_vis=True)
    vf.trust("prelude stubs bip32::{Fingerprint, DerivationPath, KeySource, Error}, bitcoin::{hex, key, secp256k1} error types, WalletPolicyError", "opaque payloads of the error enums; never inspected")
    for a in ("enum:MalformedKeyDataKind", "enum:NonDefiniteKeyError", "enum:XKeyParseError", "enum:DescriptorKeyParseError"):
        vf.item(KEY, a, rewrites=[STRIP_ATTRS])
    vf.trust("assume_specification char::is_control", "std documentation: general category Cc (U+0000..U+001F, U+007F..U+009F); not used by the unchanged code")
    vf.raw(SPEC)
    vf.trust("key_origin_tail (external_body, no ensures)", "R9: the rest of parse_key_origin after the slice; arbitrary result")
    vf.trust("vstd's model of &str (spec_bytes = encode_utf8 of the characters; range-index precondition = in bounds and on character boundaries; utf8 lemmas)", "Verus standard library")
    guard_inv = (r"for \1 in it: s.as_bytes()\2" "\n        invariant yields(it.seq(), s.spec_bytes(), 0), "
                 "forall|j: int| 0 <= j < it.index() ==> #[trigger] s.spec_bytes()[j] < 128,\n    {")
    vf.fn(KEY, "fn:parse_key_origin", props=PROPS, rewrites=[
        sub("R10", r"for\s+(\w+)\s+in\s+s\s*\.as_bytes\(\)(\s*\.iter\(\))?\s*\{", guard_inv, required=False),
        guard_any_to_loop,
        cut_tail,
    ], contract=Contract(ensures=[
        # the guard's job, stated from the property: text that gets past it has only one-byte characters, so every
        # byte offset used later (here `1`; `0..2` in DescriptorPublicKey::from_str) is a character boundary
        Clause("text_past_the_guard_is_ascii", ("C11",), "r is Ok ==> all_ascii(s.spec_bytes())"),
        # INFO (no property id; RED on the unchanged tree): the rejection is called EncounteredUnprintableCharacter, but the
        # bound is decimal 20, not 0x20, and 127 is let through: the control characters 0x14..0x1f and DEL pass the guard.
        # Harmless for C11 (they are ASCII, the slices stay safe, every later parser rejects them) -- see the report.
        Clause("guard_rejects_every_unprintable_character__INFO", (), "r is Ok ==> forall|i: int| 0 <= i < s.spec_bytes().len() ==> 0x20 <= #[trigger] s.spec_bytes()[i] <= 0x7e"),
    ]))
    if any(r.startswith("R14-slice-iter-any") for r in vf.rewrites_used):
        vf.trust("loop rewrite R14: `xs.iter().any(|x| BODY)` over a slice is `for x in xs { if BODY { return true } } false`", "std: slice::Iter yields the elements in order; Iterator::any stops at the first element the closure accepts")
    return vf
