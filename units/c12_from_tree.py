"""C12 unit (Verus): where the TEXT parsers establish the per-context validity of what they return.

Part 1  src/miniscript/mod.rs  `impl FromTree for Miniscript { fn from_tree }`, the TAIL: from the end of the fragment loop
        (`assert_eq!(stack.len(), 1); let ret = stack.pop().unwrap();`) to the end, i.e. the loop
        `for node in ret.pre_order_iter() { Ctx::check_global_validity(node)?; }`.  The leaf constructors the head calls
        (Miniscript::pk_k, pk_h, multi, ...) do NOT run the context check (open finding K10, c05_ctors), so for parsed text this
        loop is the only thing that makes the LEAVES obey the context.
            oracle (property text): accepted ==> EVERY node of the returned tree -- every fragment kind, leaves included --
            passes the context's global rules.
        The loop body is cut verbatim into the per-node step `from_tree_check_step` (one named clause per fragment kind); the
        loop itself becomes a verified index loop over `pre_order_nodes(&ret)` (trusted: c00_tree / c00_treelike prove that
        PreOrderIter drains to the textbook pre-order of the sub-expressions).
Part 2  Miniscript::from_str_with_validation_params / from_str_insane / FromStr::from_str: accepted ==> `validate` was applied
        with the stated parameters (contract text of `validate` taken from unit c12_validation) and every node is context-valid.
Part 3  descriptor parsers: Wsh / Sh / Bare / Tr `from_tree`, Bare::new, Tr::new, Descriptor::from_tree / from_str: accepted ==>
        the inner miniscript went through Miniscript::from_tree (contract of part 1, assumed=True from the same Python function)
        AND `Ctx::top_level_checks` (Tr leaves: `validate(&Tap::CONSENSUS)`, Descriptor::from_str: `validate(&Tap::SANE)`).

RED on the unchanged tree (genuine, reproduced against the crate; kept): Wsh::from_tree / Sh::from_tree never run `validate`, so
`accepted_by_miniscript_parser_with_consensus_params` fails -- Descriptor::from_str("wsh(thresh(1,pk(K1),s:pk(K2),..,s:pk(K71)))") is Ok while
Miniscript::<_, Segwitv0>::from_str_insane of the same script is Err(MaxOpCountExceeded{212, 201}); sh(and_v(v:older(1), .. 105 times .. pk(K))) is
Ok although the script needs 211 > 201 opcodes on its ONLY path (unspendable output).  Tr::from_tree does validate (its FIXME for issue 734).

`Ctx::check_global_validity` / `top_level_checks` / `check_pk` are uninterpreted verdicts here: WHAT the four contexts permit is
decided in c12_validation / k12_context; this unit decides WHETHER the parsers consult them, on WHICH nodes, with WHICH parameters.
`Miniscript::from_ast` (called by the head for every combinator) carries its own contract in c05_ctors (accepts_iff).
"""
import re

from vlib.verus import VerusFile, Contract, Clause, Undecided, sub, lit, rule, drop_vis
from vlib.extract import match_close, strip_docs
from units import _tree
from units import c00_treelike as TL
from units import c12_validation as V

NAME = "c12_from_tree"
ENGINE = "verus"
PROPS = ("C12", "C11")
P = ("C12",)

MSMOD = _tree.MSMOD
LIB = "src/lib.rs"
VAL = "src/validation.rs"
CTXRS = "src/miniscript/context.rs"
SEGWIT, SH, BARE = "src/descriptor/segwitv0.rs", "src/descriptor/sh.rs", "src/descriptor/bare.rs"
TR, TAPTREE, DESC = "src/descriptor/tr/mod.rs", "src/descriptor/tr/taptree.rs", "src/descriptor/mod.rs"

DROPPED = [
    "Miniscript::from_tree: the HEAD (curly-brace check, the `for (n, node) in root.pre_order_iter().enumerate().rev()` fragment loop with the "
    "name -> Terminal arm table and the wrapper loop) is cut off (R9-head); the tail is verified as `from_tree_tail(stack)` under the precondition "
    "that the head leaves exactly one tree on the stack (the `assert_eq!` / `pop().unwrap()` of the tail). Every `Ok` the function returns is produced "
    "by the tail (the unit is UNDECIDED if the head contains a `return` other than `return Err(..)`; its `?` only propagate errors). The combinators the head builds go through from_ast (c05_ctors)",
    "Miniscript::from_tree tail: `for node in ret.pre_order_iter() { BODY }` -> `let it_nodes_ = pre_order_nodes(&ret); while it_idx_ < it_nodes_.len() { let node = "
    "it_nodes_[it_idx_]; from_tree_check_step(node)?; it_idx_ += 1; }` (R8 + lambda lifting R16: BODY verbatim in from_tree_check_step, which ends with `Ok(())`; "
    "sound because the only non-local exits of BODY are `?` / `return Err`; `continue;` becomes `return Ok(());` of the step; a `break` / `return Ok(x)` in BODY -> UNDECIDED). Adapters "
    "`.skip(n)` / `.take(n)` on the iterator are modelled (std semantics), `.filter(..)` keeps an UNKNOWN subsequence (its closure is dropped: the clause then fails), "
    "any other iteration expression -> UNDECIDED",
    "`assert_eq!(a, b)` -> `assert!(a == b)` (Verus has no model of core::panicking::assert_failed); `Arc::try_unwrap(x).unwrap()` -> `arc_unwrap_unique(x)` "
    "(trusted to return the pointee; that the reference count is 1 -- so that the unwrap cannot panic -- is NOT claimed)",
    "`E.map_err(From::from).map_err(Error::Parse)?` on the expression-tree verifiers and `E.map_err(Error::Validation)` -> stub calls / `map_err_validation_(E)` (verified 3-line definition of map_err) "
    "(R14; Verus has no constructors as function values); expression::Tree / TreeIterItem / PreOrderIter / DirectChildIterator are opaque stubs with arbitrary results",
    "trait associated consts `Ctx::CONSENSUS` / `Ctx::SANE` -> nullary trait functions with uninterpreted values (R12)",
    "`expression::FromTree::from_tree(x)` with the annotated result type `Self` -> `Self::from_tree(x)` (R7: the trait impl is emitted as an inherent function)",
    "validate: contract text of c12_validation (same Python objects), its precondition ext_small(self.ext) (no figure near usize::MAX) turned into a premise of every clause "
    "that mentions validate_ok: nothing is claimed for scripts with figures >= 2^30",
    "Tr::from_tree: the leaf branch of the `while let` loop (the block containing `push_leaf`) is lambda-lifted verbatim into tr_from_tree_leaf_step(node, &mut tree_builder, "
    "&mut tap_tree_iter) (R16) so that a dropped check fails a NAMED clause of the step instead of the loop invariant; the loop gets the invariant `every pushed leaf is checked` (R10). "
    "Descriptor::from_str: `for item in inner.leaves() { BODY }` -> index loop over the leaf items + BODY verbatim in descriptor_from_str_leaf_step (R8 + R16)",
    "Tr::from_tree: TapTreeBuilder is a stub that records the pushed leaves (`push_leaf` specialised to the `Miniscript` argument the call site passes; the bit-stack is "
    "k15_taptree's); `finalize` yields a tree with exactly the pushed leaves; its non-emptiness assert and termination of the `while let` are not claimed; "
    "the field `spend_info: Mutex<..>` of Tr is dropped",
    "Pkh::from_tree / Wpkh::from_tree (single-key descriptors, no miniscript inside) are unconstrained stubs",
    "NOT covered: the arm table of the head (which fragment name builds which Terminal variant), Tree::from_str, the checksum",
]

# ---------------------------------------------------------------------------------------------------------------------
# prelude
# ---------------------------------------------------------------------------------------------------------------------
ERRORS = r"""
// ---- error types (opaque payloads; crate::Error reduced to the variants the extracted functions construct) ---------
struct ScriptContextError { opaque: u8 }
struct ValidationError { opaque: u8 }
struct ParseError { opaque: u8 }
struct TapTreeDepthError { opaque: u8 }
enum Error { Parse(ParseError), Validation(ValidationError), ContextError(ScriptContextError), TapTreeDepthError(TapTreeDepthError), Other }
impl From<ScriptContextError> for Error { fn from(e: ScriptContextError) -> Self { Error::ContextError(e) } }
impl From<TapTreeDepthError> for Error { fn from(e: TapTreeDepthError) -> Self { Error::TapTreeDepthError(e) } }
// glue: vstd's contract of From::from (the two impls above are checked against it)
impl vstd::std_specs::convert::FromSpecImpl<ScriptContextError> for Error {
    open spec fn obeys_from_spec() -> bool { true }
    closed spec fn from_spec(e: ScriptContextError) -> Self { Error::ContextError(e) }
}
impl vstd::std_specs::convert::FromSpecImpl<TapTreeDepthError> for Error {
    open spec fn obeys_from_spec() -> bool { true }
    closed spec fn from_spec(e: TapTreeDepthError) -> Self { Error::TapTreeDepthError(e) }
}
"""

SCRIPT_CONTEXT = r"""
// ---- ScriptContext reduced to the verdicts the parsers consult (all uninterpreted: c12_validation / k12_context decide them) ----
trait ScriptContext: Sized {
    // Ctx::check_global_validity(ms) is Ok
    spec fn spec_global_valid<Pk: MiniscriptKey>(ms: Miniscript<Pk, Self>) -> bool;
    fn check_global_validity<Pk: MiniscriptKey>(ms: &Miniscript<Pk, Self>) -> (r: Result<(), ScriptContextError>)
        ensures r is Ok <==> Self::spec_global_valid(*ms);
    // Ctx::top_level_checks(ms) is Ok  (base type B + the context's own top-level rules)
    spec fn spec_top_level_ok<Pk: MiniscriptKey>(ms: Miniscript<Pk, Self>) -> bool;
    fn top_level_checks<Pk: MiniscriptKey>(ms: &Miniscript<Pk, Self>) -> (r: Result<(), Error>)
        ensures r is Ok <==> Self::spec_top_level_ok(*ms);
    spec fn spec_pk_ok<Pk: MiniscriptKey>(pk: Pk) -> bool;
    fn check_pk<Pk: MiniscriptKey>(pk: &Pk) -> (r: Result<(), ScriptContextError>)
        ensures r is Ok <==> Self::spec_pk_ok(*pk);
    // R12: `const CONSENSUS: ValidationParams;` / `const SANE: ValidationParams;`
    spec fn spec_CONSENSUS() -> ValidationParams;
    fn CONSENSUS() -> (r: ValidationParams) ensures r == Self::spec_CONSENSUS();
    spec fn spec_SANE() -> ValidationParams;
    fn SANE() -> (r: ValidationParams) ensures r == Self::spec_SANE();
}
"""

CTX_MARKER = r"""
struct %(c)s { marker: u8 }
uninterp spec fn %(l)s_global_valid<Pk: MiniscriptKey>(ms: Miniscript<Pk, %(c)s>) -> bool;
uninterp spec fn %(l)s_top_level_ok<Pk: MiniscriptKey>(ms: Miniscript<Pk, %(c)s>) -> bool;
uninterp spec fn %(l)s_pk_ok<Pk: MiniscriptKey>(pk: Pk) -> bool;
uninterp spec fn %(l)s_consensus() -> ValidationParams;
uninterp spec fn %(l)s_sane() -> ValidationParams;
impl ScriptContext for %(c)s {
    spec fn spec_global_valid<Pk: MiniscriptKey>(ms: Miniscript<Pk, Self>) -> bool { %(l)s_global_valid(ms) }
    #[verifier::external_body] fn check_global_validity<Pk: MiniscriptKey>(ms: &Miniscript<Pk, Self>) -> (r: Result<(), ScriptContextError>) { unimplemented!() }
    spec fn spec_top_level_ok<Pk: MiniscriptKey>(ms: Miniscript<Pk, Self>) -> bool { %(l)s_top_level_ok(ms) }
    #[verifier::external_body] fn top_level_checks<Pk: MiniscriptKey>(ms: &Miniscript<Pk, Self>) -> (r: Result<(), Error>) { unimplemented!() }
    spec fn spec_pk_ok<Pk: MiniscriptKey>(pk: Pk) -> bool { %(l)s_pk_ok(pk) }
    #[verifier::external_body] fn check_pk<Pk: MiniscriptKey>(pk: &Pk) -> (r: Result<(), ScriptContextError>) { unimplemented!() }
    spec fn spec_CONSENSUS() -> ValidationParams { %(l)s_consensus() }
    #[verifier::external_body] fn CONSENSUS() -> (r: ValidationParams) { unimplemented!() }
    spec fn spec_SANE() -> ValidationParams { %(l)s_sane() }
    #[verifier::external_body] fn SANE() -> (r: ValidationParams) { unimplemented!() }
}
"""
CTX_TYPES = ["Segwitv0", "Legacy", "BareCtx", "Tap"]

EXPRESSION = r"""
// ---- expression tree (src/expression/mod.rs): opaque handles, every verifier returns an arbitrary result -----------------
#[derive(Clone, Copy)]
struct TreeIterItem { index: usize }
struct Tree { opaque: u8 }
#[derive(PartialEq, Eq, Clone, Copy)]
enum Parens { None, Round, Curly }
impl vstd::std_specs::cmp::PartialEqSpecImpl for Parens {
    open spec fn obeys_eq_spec() -> bool { true }
    open spec fn eq_spec(&self, o: &Parens) -> bool { *self == *o }
}
struct DirectChildIterator { left: usize }
struct ExprPreOrderIter { opaque: u8 }
impl Tree {
    #[verifier::external_body] fn from_str(s: &str) -> Result<Tree, Error> { unimplemented!() }
    #[verifier::external_body] fn root(&self) -> TreeIterItem { unimplemented!() }
}
impl TreeIterItem {
    #[verifier::external_body] fn name(self) -> &'static str { unimplemented!() }
    uninterp spec fn spec_n_children(self) -> nat;
    #[verifier::external_body] fn n_children(self) -> (r: usize) ensures r == self.spec_n_children() { unimplemented!() }
    #[verifier::external_body] fn parens(self) -> Parens { unimplemented!() }
    // the direct children: exactly n_children of them
    #[verifier::external_body] fn children(self) -> (r: DirectChildIterator) ensures r.left == self.spec_n_children() { unimplemented!() }
    #[verifier::external_body] fn pre_order_iter(&self) -> ExprPreOrderIter { unimplemented!() }
    #[verifier::external_body] fn verify_terminal<T>(&self, description: &'static str) -> Result<T, ParseError> { unimplemented!() }
}
impl DirectChildIterator {
    #[verifier::external_body] fn next(&mut self) -> (r: Option<TreeIterItem>)
        ensures r is Some <==> old(self).left > 0, final(self).left == (if old(self).left > 0 { (old(self).left - 1) as usize } else { 0 })
    { unimplemented!() }
}
impl ExprPreOrderIter {
    #[verifier::external_body] fn next(&mut self) -> Option<TreeIterItem> { unimplemented!() }
    #[verifier::external_body] fn skip_descendants(&mut self) { unimplemented!() }
}
// R14 targets: `X.verify_toplevel(NAME, A..=B).map_err(From::from).map_err(Error::Parse)` and the same for verify_n_children
// (their one modelled effect: Ok ==> the number of children is in the range -- discharges `children().next().unwrap()` in Tr::from_tree)
#[verifier::external_body] fn verify_toplevel_(x: TreeIterItem, name: &'static str, lo: usize, hi: usize) -> (r: Result<TreeIterItem, Error>)
    ensures r is Ok ==> lo <= x.spec_n_children() <= hi { unimplemented!() }
#[verifier::external_body] fn verify_n_children_(x: TreeIterItem, name: &'static str, lo: usize, hi: usize) -> (r: Result<(), Error>)
    ensures r is Ok ==> lo <= x.spec_n_children() <= hi { unimplemented!() }
#[verifier::external_body] fn incorrect_name_error(x: TreeIterItem) -> Error { unimplemented!() }
"""

PREORDER = r"""
// ================================================================================================================
// ORACLE: the nodes of a miniscript = textbook pre-order over its sub-expressions (`sub_exprs`: units/c00_treelike.py)
// (same shape as `preorder` / `pre_from` of units/c00_tree.py; the guards only make the definition terminate)
// ================================================================================================================
spec fn ms_preorder<Pk: MiniscriptKey, Ctx: ScriptContext>(m: Miniscript<Pk, Ctx>) -> Seq<Miniscript<Pk, Ctx>>
    decreases ms_height(m), sub_exprs(m.node).len() + 1,
{
    seq![m] + ms_pre_from(m, 0)
}
spec fn ms_pre_from<Pk: MiniscriptKey, Ctx: ScriptContext>(m: Miniscript<Pk, Ctx>, j: int) -> Seq<Miniscript<Pk, Ctx>>
    decreases ms_height(m), sub_exprs(m.node).len() - j,
{
    if 0 <= j < sub_exprs(m.node).len() {
        (if ms_height(sub_exprs(m.node)[j]) < ms_height(m) { ms_preorder(sub_exprs(m.node)[j]) } else { Seq::empty() }) + ms_pre_from(m, j + 1)
    } else {
        Seq::empty()
    }
}
spec fn all_valid_seq<Pk: MiniscriptKey, Ctx: ScriptContext>(s: Seq<Miniscript<Pk, Ctx>>) -> bool {
    forall|i: int| 0 <= i < s.len() ==> Ctx::spec_global_valid(#[trigger] s[i])
}
// THE property: every node of the tree passes the context's global rules
spec fn all_nodes_global_valid<Pk: MiniscriptKey, Ctx: ScriptContext>(m: Miniscript<Pk, Ctx>) -> bool {
    all_valid_seq(ms_preorder(m))
}
spec fn arc_val<Pk: MiniscriptKey, Ctx: ScriptContext>(a: &Arc<Miniscript<Pk, Ctx>>) -> Miniscript<Pk, Ctx> { **a }
// the handles `s` stand for the nodes `p`, one by one
spec fn handles_are<Pk: MiniscriptKey, Ctx: ScriptContext>(s: Seq<&Arc<Miniscript<Pk, Ctx>>>, p: Seq<Miniscript<Pk, Ctx>>) -> bool {
    s.len() == p.len() && forall|i: int| 0 <= i < s.len() ==> arc_val(#[trigger] s[i]) == p[i]
}
proof fn lemma_handles_valid<Pk: MiniscriptKey, Ctx: ScriptContext>(s: Seq<&Arc<Miniscript<Pk, Ctx>>>, p: Seq<Miniscript<Pk, Ctx>>)
    requires handles_are(s, p), forall|j: int| 0 <= j < s.len() ==> Ctx::spec_global_valid(arc_val(#[trigger] s[j])),
    ensures all_valid_seq(p),
{
    assert forall|i: int| 0 <= i < p.len() implies Ctx::spec_global_valid(#[trigger] p[i]) by { assert(arc_val(s[i]) == p[i]); }
}

proof fn lemma_all_valid_concat<Pk: MiniscriptKey, Ctx: ScriptContext>(a: Seq<Miniscript<Pk, Ctx>>, b: Seq<Miniscript<Pk, Ctx>>)
    ensures all_valid_seq(a + b) <==> all_valid_seq(a) && all_valid_seq(b),
{
    if all_valid_seq(a + b) {
        assert forall|i: int| 0 <= i < a.len() implies Ctx::spec_global_valid(#[trigger] a[i]) by { assert((a + b)[i] == a[i]); }
        assert forall|i: int| 0 <= i < b.len() implies Ctx::spec_global_valid(#[trigger] b[i]) by { assert((a + b)[a.len() + i] == b[i]); }
    }
    if all_valid_seq(a) && all_valid_seq(b) {
        assert forall|i: int| 0 <= i < (a + b).len() implies Ctx::spec_global_valid(#[trigger] (a + b)[i]) by {
            if i < a.len() { assert((a + b)[i] == a[i]); } else { assert((a + b)[i] == b[i - a.len()]); }
        }
    }
}
proof fn lemma_pre_from_valid<Pk: MiniscriptKey, Ctx: ScriptContext>(m: Miniscript<Pk, Ctx>, j: int)
    requires 0 <= j <= sub_exprs(m.node).len(),
    ensures all_valid_seq(ms_pre_from(m, j)) <==> (forall|k: int| j <= k < sub_exprs(m.node).len() ==> all_nodes_global_valid(#[trigger] sub_exprs(m.node)[k])),
    decreases sub_exprs(m.node).len() - j,
{
    if j < sub_exprs(m.node).len() {
        lemma_sub_exprs_smaller(&m, j);
        lemma_pre_from_valid(m, j + 1);
        lemma_all_valid_concat(ms_preorder(sub_exprs(m.node)[j]), ms_pre_from(m, j + 1));
        if all_valid_seq(ms_pre_from(m, j)) {
            assert forall|k: int| j <= k < sub_exprs(m.node).len() implies all_nodes_global_valid(#[trigger] sub_exprs(m.node)[k]) by {}
        }
    }
}
// the recursive reading of the property: a tree is accepted node by node -- the root AND every sub-expression's tree.
// In particular a leaf (pk_k, pk_h, expr_raw_pkh, multi, sortedmulti, multi_a, sortedmulti_a, hashes, after / older, 0, 1)
// is a tree of its own, so every leaf below an accepted root has passed the context check.
proof fn lemma_all_nodes_valid_is_recursive<Pk: MiniscriptKey, Ctx: ScriptContext>(m: Miniscript<Pk, Ctx>)
    ensures all_nodes_global_valid(m) <==> (Ctx::spec_global_valid(m)
                && forall|k: int| 0 <= k < sub_exprs(m.node).len() ==> all_nodes_global_valid(#[trigger] sub_exprs(m.node)[k])),
            ms_preorder(m).len() >= 1 && ms_preorder(m)[0] == m,
{
    lemma_pre_from_valid(m, 0);
    lemma_all_valid_concat(seq![m], ms_pre_from(m, 0));
    assert(seq![m][0] == m);
    if all_valid_seq(seq![m]) { assert(Ctx::spec_global_valid(seq![m][0])); }
}
proof fn lemma_leaf_is_its_own_tree<Pk: MiniscriptKey, Ctx: ScriptContext>(m: Miniscript<Pk, Ctx>)
    requires sub_exprs(m.node).len() == 0,
    ensures all_nodes_global_valid(m) <==> Ctx::spec_global_valid(m),
{
    lemma_all_nodes_valid_is_recursive(m);
}
// example (finding K10's shape): an accepted `c:pk_k(KEY)` / `c:pk_h(KEY)` has a context-checked KEY leaf
proof fn lemma_example_check_of_key_leaf<Pk: MiniscriptKey, Ctx: ScriptContext>(m: Miniscript<Pk, Ctx>)
    requires all_nodes_global_valid(m), m.node is Check,
    ensures Ctx::spec_global_valid(*m.node->Check_0),
{
    lemma_all_nodes_valid_is_recursive(m);
    assert(sub_exprs(m.node)[0] == *m.node->Check_0);
    lemma_all_nodes_valid_is_recursive(sub_exprs(m.node)[0]);
}

// ---- std / traversal stubs of the rewritten loop -----------------------------------------------------------------------------
// `root.pre_order_iter()` run to exhaustion (TreeLike for &Arc<Miniscript>): the handles of the nodes in pre-order
#[verifier::external_body]
fn pre_order_nodes<'a, Pk: MiniscriptKey, Ctx: ScriptContext>(root: &'a Arc<Miniscript<Pk, Ctx>>) -> (r: Vec<&'a Arc<Miniscript<Pk, Ctx>>>)
    ensures handles_are(r@, ms_preorder(**root)),
{ unimplemented!() }
// Iterator::skip(n) / take(n) / filter(p) on the drained sequence
#[verifier::external_body]
fn iter_skip_<T>(v: Vec<T>, n: usize) -> (r: Vec<T>)
    ensures r@ == (if n <= v@.len() { v@.skip(n as int) } else { Seq::empty() }),
{ unimplemented!() }
#[verifier::external_body]
fn iter_take_<T>(v: Vec<T>, n: usize) -> (r: Vec<T>)
    ensures r@ == (if n <= v@.len() { v@.take(n as int) } else { v@ }),
{ unimplemented!() }
#[verifier::external_body]
fn iter_filter_unknown_<T>(v: Vec<T>) -> (r: Vec<T>)
    ensures r@.len() <= v@.len(), forall|i: int| 0 <= i < r@.len() ==> v@.contains(#[trigger] r@[i]),
{ unimplemented!() }
// Arc::try_unwrap(a).unwrap(): the pointee (that the count is 1 is not modelled)
#[verifier::external_body]
fn arc_unwrap_unique<T>(a: Arc<T>) -> (r: T)
    ensures r == *a,
{ unimplemented!() }
"""
LEMMAS = ["lemma_handles_valid", "lemma_all_valid_concat", "lemma_pre_from_valid", "lemma_all_nodes_valid_is_recursive", "lemma_leaf_is_its_own_tree",
          "lemma_example_check_of_key_leaf"]

TAPTREE_STUBS = r"""
// ---- TapTree / TapTreeBuilder: the leaves, in the order they were pushed ---------------------------------------------------------
spec fn tt_leaves<Pk: MiniscriptKey>(t: TapTree<Pk>) -> Seq<Miniscript<Pk, Tap>> {
    Seq::new(t.depths_leaves@.len(), |i: int| *t.depths_leaves@[i].1)
}
#[verifier::external_body]
#[verifier::reject_recursive_types(Pk)]
struct TapTreeBuilder<Pk: MiniscriptKey> { p: core::marker::PhantomData<Pk> }
impl<Pk: MiniscriptKey> TapTreeBuilder<Pk> {
    uninterp spec fn pushed(&self) -> Seq<Miniscript<Pk, Tap>>;
    #[verifier::external_body] fn new() -> (r: Self) ensures r.pushed() == Seq::<Miniscript<Pk, Tap>>::empty() { unimplemented!() }
    #[verifier::external_body] fn push_inner_node(&mut self) -> (r: Result<(), TapTreeDepthError>) ensures final(self).pushed() == old(self).pushed() { unimplemented!() }
    #[verifier::external_body] fn push_leaf(&mut self, ms: Miniscript<Pk, Tap>) ensures final(self).pushed() == old(self).pushed().push(ms) { unimplemented!() }
    #[verifier::external_body] fn finalize(self) -> (r: TapTree<Pk>) ensures tt_leaves(r) == self.pushed() { unimplemented!() }
}
// what a leaf of an accepted tr() descriptor has been through
spec fn tr_leaf_ok<Pk: MiniscriptKey>(m: Miniscript<Pk, Tap>) -> bool {
    all_nodes_global_valid(m) && (ext_small(m.ext) ==> validate_ok(m, Tap::spec_CONSENSUS()))
}
spec fn tr_leaves_ok<Pk: MiniscriptKey>(s: Seq<Miniscript<Pk, Tap>>) -> bool {
    forall|i: int| 0 <= i < s.len() ==> tr_leaf_ok(#[trigger] s[i])
}
spec fn tr_leaves_sane<Pk: MiniscriptKey>(s: Seq<Miniscript<Pk, Tap>>) -> bool {
    forall|i: int| 0 <= i < s.len() ==> leaf_sane(#[trigger] s[i])
}
spec fn tr_ok<Pk: MiniscriptKey>(t: Tr<Pk>) -> bool {
    Tap::spec_pk_ok(t.internal_key) && (t.tree matches Some(tree) ==> tr_leaves_ok(tt_leaves(tree)))
}
// what one run of the leaf branch of Tr::from_tree may do to the builder: keep what was pushed, push only checked leaves
spec fn leaf_step_ok<Pk: MiniscriptKey>(before: Seq<Miniscript<Pk, Tap>>, after: Seq<Miniscript<Pk, Tap>>) -> bool {
    before.len() <= after.len() && after.take(before.len() as int) == before
    && forall|i: int| before.len() <= i < after.len() ==> tr_leaf_ok(#[trigger] after[i])
}
proof fn lemma_tr_leaf_step<Pk: MiniscriptKey>(before: Seq<Miniscript<Pk, Tap>>, after: Seq<Miniscript<Pk, Tap>>)
    requires leaf_step_ok(before, after), tr_leaves_ok(before),
    ensures tr_leaves_ok(after),
{
    assert forall|i: int| 0 <= i < after.len() implies tr_leaf_ok(#[trigger] after[i]) by {
        if i < before.len() { assert(after.take(before.len() as int)[i] == after[i]); assert(tr_leaf_ok(before[i])); }
    }
}
// the leaves of a Tr in iteration order (Tr::leaves / TapTreeIter: the depths_leaves vector front to back)
spec fn leaf_of<'a, Pk: MiniscriptKey>(it: TapTreeIterItem<'a, Pk>) -> Miniscript<Pk, Tap> { **it.node }
#[verifier::external_body]
fn tr_leaf_handles<'a, Pk: MiniscriptKey>(t: &'a Tr<Pk>) -> (r: Vec<TapTreeIterItem<'a, Pk>>)
    ensures r@.len() == (match t.tree { Some(tree) => tt_leaves(tree).len(), None => 0 }),
            forall|i: int| 0 <= i < r@.len() ==> leaf_of(#[trigger] r@[i]) == tt_leaves(t.tree->Some_0)[i],
{ unimplemented!() }
spec fn leaf_sane<Pk: MiniscriptKey>(m: Miniscript<Pk, Tap>) -> bool { ext_small(m.ext) ==> validate_ok(m, Tap::spec_SANE()) }
"""

WRAPPER_SPECS = r"""
// ---- what each descriptor wrapper promises about the miniscript inside (the property, wrapper by wrapper) ------------------------
spec fn wsh_ok<Pk: MiniscriptKey>(w: Wsh<Pk>) -> bool { all_nodes_global_valid(w.ms) && Segwitv0::spec_top_level_ok(w.ms) }
spec fn bare_ok<Pk: MiniscriptKey>(b: Bare<Pk>) -> bool { all_nodes_global_valid(b.ms) && BareCtx::spec_top_level_ok(b.ms) }
spec fn sh_ok<Pk: MiniscriptKey>(s: Sh<Pk>) -> bool {
    match s.inner {
        ShInner::Wsh(w) => wsh_ok(w),
        ShInner::Wpkh(_) => true,
        ShInner::Ms(ms) => all_nodes_global_valid(ms) && Legacy::spec_top_level_ok(ms),
    }
}
"""


# ---------------------------------------------------------------------------------------------------------------------
# rewrites
# ---------------------------------------------------------------------------------------------------------------------
R7_EXPR = sub("R7", r"\b(?:(?:crate::)?expression|taptree)::", "", required=False)
R7_USE = sub("R7-use", r"\buse (?:crate::)?expression::\{[^}]*\};\s*", "", required=False)
R12_CONSTS = sub("R12", r"\b(\w+)::(CONSENSUS|SANE)\b(?!\s*\()", r"\1::\2()", required=False)
# R14: `.map_err(From::from).map_err(Error::Parse)` on the two tree verifiers that take a RangeInclusive
R14_VERIFY = sub("R14-verify", r"(\w+)\s*\.(verify_toplevel|verify_n_children)\(\s*(\"[^\"]*\")\s*,\s*(\d+)\s*\.\.=\s*(\d+)\s*\)\s*\.map_err\(From::from\)\s*\.map_err\(Error::Parse\)",
                 r"\2_(\1, \3, \4, \5)", required=False)
R14_TERMINAL = sub("R14-map_err", r"(\.verify_terminal\([^()]*\))\s*\.map_err\(Error::Parse\)\?",
                   r"\1.map_err_parse_()?", required=False)
# R14: `X.validate(ARGS).map_err(Error::Validation)?`  (X may be a call chain such as `item.miniscript()`)
R14_VALIDATE = sub("R14-map_err", r"([\w.]+(?:\(\))?)\s*\.validate\(([^()]*(?:\(\))?)\)\s*\.map_err\(Error::Validation\)",
                   r"map_err_validation_(\1.validate(\2))", required=False)
ASSERT_EQ = sub("R13-assert_eq", r"\bassert_eq!\(([^,;]+),\s*([^,;]+)\);", r"assert!(\1 == \2);", required=False)
ARC_UNWRAP = sub("R7-std", r"Arc::try_unwrap\((\w+)\)\s*\.unwrap\(\)", r"arc_unwrap_unique(\1)", required=False)
STRIP_DERIVE = sub("derive-off", r"#\[derive\([^)]*\)\]\s*", "", required=False)

HEAD_LOOP = "for (n, node) in root.pre_order_iter().enumerate().rev() {"
MS_VEC = "Vec<Arc<Miniscript<Pk, Ctx>>>"


def split_from_tree(text):
    """(signature up to the body's `{`, head, tail) of Miniscript::from_tree.  The tail starts after the fragment loop."""
    if HEAD_LOOP not in text:
        raise Undecided("Miniscript::from_tree: fragment loop `%s` not found (anchor lost)" % HEAD_LOOP)
    i = text.index(HEAD_LOOP)
    close = match_close(text, i + len(HEAD_LOOP) - 1)
    body_open = text.index("{", text.index(")"))
    m = re.match(r"fn\s+from_tree\s*\(\s*root\s*:\s*(?:expression::)?TreeIterItem\s*\)\s*->\s*Result<Self,\s*Error>\s*$", text[:body_open].strip())
    if not m:
        raise Undecided("Miniscript::from_tree: unexpected signature `%s`" % text[:body_open].strip())
    end = text.rstrip().rfind("}")
    return text[:body_open], text[body_open + 1:close + 1], text[close + 1:end]


@rule("R9-head")
def cut_head(text):
    sig, head, tail = split_from_tree(text)
    # every Ok the function returns must come from the tail (transport of the tail's contract to the whole function)
    if re.search(r"\breturn\b(?!\s+Err\()", head):
        raise Undecided("Miniscript::from_tree: the head has a `return` that is not `return Err(..)`; the tail contract does not transport to the whole function")
    return ("fn from_tree(stack_in_: %s) -> Result<Self, Error> {\n        let mut stack = stack_in_;%s}" % (MS_VEC, tail))


class PreOrderLoop:
    """R8 + R16 on the tail's `for VAR in X.pre_order_iter()[.skip(n)|.take(n)|.filter(..)]* { BODY }`: BODY is cut out verbatim
    (kept in self.body / self.var; emitted by the caller as from_tree_check_step), the loop becomes an index loop over the drained
    iterator.  No `for` loop in the tail: nothing to do (the tail is then verified as it stands)."""
    rule = "R8/R16-preorder-loop"

    def __init__(self):
        self.body = None
        self.var = None
        self.shape = None

    def __call__(self, text):
        m = re.search(r"\bfor\s+(\w+)\s+in\s+", text)
        if not m:
            if "pre_order_iter" in text:
                raise Undecided("Miniscript::from_tree tail: pre_order_iter() used outside a `for VAR in ..` loop (shape not modelled)")
            return text
        # iteration expression: up to the `{` at bracket depth 0
        j, depth = m.end(), 0
        while j < len(text):
            ch = text[j]
            if ch in "([":
                j = match_close(text, j)
            elif ch == "{" and depth == 0:
                break
            j += 1
        if j >= len(text):
            return None
        expr = text[m.end():j].strip()
        close = match_close(text, j)
        body = text[j + 1:close]
        mm = re.match(r"(\w+)\s*\.pre_order_iter\(\)", expr)
        if not mm:
            raise Undecided("Miniscript::from_tree tail: loop over `%s` (not a pre_order_iter of a local): shape not modelled" % expr)
        new = "pre_order_nodes(&%s)" % mm.group(1)
        rest = expr[mm.end():]
        shape = ["pre_order_iter"]
        while rest.strip():
            rest = rest.strip()
            a = re.match(r"\.(skip|take)\(\s*(\d+)\s*\)", rest)
            if a:
                new = "iter_%s_(%s, %s)" % (a.group(1), new, a.group(2))
                shape.append("%s(%s)" % (a.group(1), a.group(2)))
                rest = rest[a.end():]
                continue
            a = re.match(r"\.filter\(", rest)
            if a:
                end = match_close(rest, a.end() - 1)
                new = "iter_filter_unknown_(%s)" % new
                shape.append("filter(?)")
                rest = rest[end + 1:]
                continue
            raise Undecided("Miniscript::from_tree tail: iterator adapter `%s` not modelled" % rest[:40])
        if re.search(r"\bbreak\b", body) or (re.search(r"\bcontinue\b", body) and re.search(r"\b(for|while|loop)\b", body)):
            raise Undecided("Miniscript::from_tree tail: loop body with `break` (or `continue` next to a nested loop) cannot be lambda-lifted")
        # `continue;` of the lifted loop = leave this iteration = `return Ok(());` of the step function
        body = re.sub(r"\bcontinue\s*;", "return Ok(());", body)
        self.body, self.var, self.shape = body, m.group(1), ".".join(shape)
        loop = ("let it_nodes_ = %s;\n        let mut it_idx_: usize = 0;\n        while it_idx_ < it_nodes_.len()\n"
                "            invariant it_idx_ <= it_nodes_@.len(),\n"
                "                forall|j_: int| 0 <= j_ < it_idx_ ==> Ctx::spec_global_valid(arc_val(#[trigger] it_nodes_@[j_])),\n"
                "            decreases it_nodes_@.len() - it_idx_,\n        {\n"
                "            let %s = it_nodes_[it_idx_];\n            from_tree_check_step::<Pk, Ctx>(%s)?;\n            it_idx_ += 1;\n        }\n"
                "        proof {\n"
                "            // (an `if`, not an `assert`: when the loop does not run over exactly the nodes of the tree the NAMED clauses fail)\n"
                "            if it_idx_ == it_nodes_@.len() && handles_are(it_nodes_@, ms_preorder(arc_val(&%s))) {\n"
                "                lemma_handles_valid(it_nodes_@, ms_preorder(arc_val(&%s)));\n            }\n"
                "            lemma_all_nodes_valid_is_recursive(arc_val(&%s));\n        }"
                % (new, m.group(1), m.group(1), mm.group(1), mm.group(1), mm.group(1)))
        return text[:m.start()] + loop + text[close + 1:]


FROM_TREE_TRAIT_CALL = sub("R7-trait-path", r"(let\s+\w+\s*:\s*Self\s*=\s*)(?:expression::)?FromTree::from_tree\(", r"\1Self::from_tree(", required=False)

VARIANTS = TL.VARIANTS


def from_tree_result_clauses(r="r->Ok_0"):
    """what an accepted Miniscript::from_tree result satisfies -- proved on the tail, assumed (same text) by every caller"""
    return [
        Clause("every_node_checked", P, "r is Ok ==> all_nodes_global_valid(%s)" % r),
        Clause("root_checked", P, "r is Ok ==> Ctx::spec_global_valid(%s)" % r),
        Clause("every_leaf_checked", P, "r is Ok ==> forall|i: int| 0 <= i < ms_preorder(%s).len() && sub_exprs((#[trigger] ms_preorder(%s)[i]).node).len() == 0 "
                                        "==> Ctx::spec_global_valid(ms_preorder(%s)[i])" % (r, r, r)),
    ]


def impl_index(repo, rel, impl, fn, limit=12):
    """anchor of `fn` inside the n-th `impl <impl>` block that has it (several inherent impl blocks share one header)"""
    for n in range(limit):
        a = "impl:%s#%d/fn:%s" % (impl, n, fn)
        try:
            repo.at(rel, a)
            return a
        except Exception:
            continue
    raise Undecided("%s: fn %s not found in any `impl %s` block (anchor lost)" % (rel, fn, impl))


_OTHER = {}


def validation_unit(repo):
    """units/c12_validation.py built on the same tree (extraction only, ~1 s): source of the Clause objects reused here"""
    if repo.root not in _OTHER:
        _OTHER[repo.root] = V.build(repo)
    return _OTHER[repo.root]


def validate_contract(repo):
    """the contract c12_validation PROVES for Miniscript::validate (same Clause objects), minus the clauses about the error payload
    (ValidationError is opaque here); its precondition becomes a premise (nothing is assumed outside it)"""
    f = validation_unit(repo).functions.get("Miniscript::validate")
    if f is None:
        raise Undecided("c12_validation no longer contracts Miniscript::validate")
    pre = [c.text for _, (k, c) in sorted(f["clauses"].items()) if k == "requires"]
    ens = [c for _, (k, c) in sorted(f["clauses"].items()) if k == "ensures" and "ValidationError::" not in c.text]
    if not any(c.tag == "rejects_exactly" for c in ens):
        raise Undecided("c12_validation: clause Miniscript::validate.rejects_exactly not found")
    guard = " && ".join("(%s)" % p for p in pre) or "true"
    return [Clause(c.tag, c.props, "%s ==> (%s)" % (guard, c.text)) for c in ens]


def lattice_contract(repo, fn):
    """the contract c12_validation PROVES for ValidationParams::{eq, intersect, entails} (same Clause objects; no preconditions)"""
    f = validation_unit(repo).functions.get("ValidationParams::%s" % fn)
    if f is None:
        raise Undecided("c12_validation no longer contracts ValidationParams::%s" % fn)
    if any(k == "requires" for k, _ in f["clauses"].values()):
        raise Undecided("c12_validation: ValidationParams::%s got a precondition; the stub here would assume more than is proved" % fn)
    return [c for _, (k, c) in sorted(f["clauses"].items()) if k == "ensures"]


def validated(r, params):
    return "ext_small(%s.ext) ==> validate_ok(%s, %s)" % (r, r, params)


# ---------------------------------------------------------------------------------------------------------------------
def emit_prelude(vf, repo):
    vf.raw(V.STUBS, keep_vis=True)
    vf.raw(ERRORS)
    vf.item(VAL, "struct:ValidationParams", rewrites=[sub("R1-attrs", r"#\[non_exhaustive\]\s*", "", required=False),
                                                        sub("derive-off", r"#\[derive\([^)]*\)\]\s*", "#[derive(Copy, Clone, PartialEq, Eq)]\n", required=True)])
    # the product lattice of the parameters (vp_leq / vp_is_meet / vp_same, generated by c12_validation from the struct's field list) and the three
    # lattice operations as c12_validation proves them: a parser that decides from `a.entails(b)` / `a.eq(b)` whether to validate is JUDGED
    _, _, lattice = V.lattice_spec(V.fields_of(repo))
    vf.raw(lattice)
    V._register_raw_fns(vf, ["vp_same_is_equality"], P)
    vf.trust("PartialEqSpecImpl for ValidationParams (text of units/c12_validation.py lattice_spec)", "derived PartialEq on a struct of bool/usize fields is structural equality")
    with vf.block("impl ValidationParams"):
        for c in ("MAX", "SANE", "CONSENSUS"):
            vf.item(VAL, "impl:ValidationParams/const:%s" % c)
        for f in ("eq", "intersect", "entails"):
            vf.fn(VAL, "impl:ValidationParams/fn:%s" % f, qual="ValidationParams", assumed=True, contract=Contract(ensures=lattice_contract(repo, f)))
    vf.trust("ValidationParams::{eq, intersect, entails} (external_body): the contracts units/c12_validation.py proves for them (Clause objects taken from that unit's build)",
             "proved on the real text in c12_validation (structural / is_meet / iff_pointwise)")
    vf.raw(SCRIPT_CONTEXT)
    vf.trust("prelude stubs MiniscriptKey / hash160::Hash / AbsLockTime / RelLockTime (text of units/c12_validation.py STUBS)",
             "external or out-of-unit types reduced to opaque values")
    vf.trust("trait ScriptContext reduced to check_global_validity / top_level_checks / check_pk with uninterpreted verdicts, CONSENSUS / SANE as uninterpreted values",
             "what the contexts accept is decided in c12_validation / k12_context; here only WHETHER the parsers consult them, on which nodes, with which parameters")
    vf.trust("struct ScriptContextError / ValidationError / ParseError / TapTreeDepthError (opaque), enum Error (5 variants), From<ScriptContextError / TapTreeDepthError> for Error",
             "error payloads are only moved around")
    for c in ("MAX_PUBKEYS_PER_MULTISIG", "MAX_PUBKEYS_IN_CHECKSIGADD"):
        vf.item(_tree.LIMITS, "const:%s" % c)
    vf.item(LIB, "const:MAX_RECURSION_DEPTH")
    for f, a in ((_tree.CORR, "enum:Base"), (_tree.CORR, "enum:Input"), (_tree.CORR, "struct:Correctness"), (_tree.MALL, "enum:Dissat"),
                 (_tree.MALL, "struct:Malleability"), (_tree.TYPES, "struct:Type"), (_tree.EXT, "struct:TimelockInfo"), (_tree.EXT, "struct:SatData"),
                 (_tree.EXT, "struct:ExtData")):
        vf.item(f, a)
    vf.item(_tree.THRESH, "struct:Threshold", rewrites=[STRIP_DERIVE])
    vf.raw("""
impl<T, const MAX: usize> Threshold<T, MAX> {
    spec fn spec_k(&self) -> usize { self.k }
    spec fn spec_n(&self) -> nat { self.inner@.len() }
    spec fn elems(&self) -> Seq<T> { self.inner@ }
}
""")
    vf.item(_tree.DECODE, "enum:Terminal")
    vf.item(MSMOD, "mod:private/struct:Miniscript",
            rewrites=[lit("R7", "types::extra_props::ExtData", "ExtData"), lit("R7", "types::Type", "Type")])
    vf.raw(TL.ORACLE)
    vf.trust("arc_as_ref (external_body, part of units/c00_treelike.py ORACLE; not called here)", "std: Arc::as_ref")
    vf.raw(PREORDER)
    V._register_raw_fns(vf, LEMMAS, P)
    vf.trust("pre_order_nodes (external_body): `x.pre_order_iter()` over &Arc<Miniscript> yields the handles of ms_preorder(x), in order",
             "units/c00_tree.py PROVES that PreOrderIter drains to the textbook pre-order over `children` (drain_pre_order), units/c00_treelike.py PROVES that "
             "`children` of the three Miniscript TreeLike impls are `sub_exprs` in source order; ms_preorder is that definition instantiated (same text shape)")
    vf.trust("iter_skip_ / iter_take_ / iter_filter_unknown_ (external_body)", "std Iterator::skip / take drop / keep a prefix; filter keeps a subsequence "
             "(which one is NOT assumed); only used when the loop of the tail has been edited to carry such an adapter")
    vf.trust("arc_unwrap_unique (external_body) for `Arc::try_unwrap(x).unwrap()`", "returns the pointee; the uniqueness of the Arc (no panic) is not claimed")
    # validation vocabulary of c12_validation (validate_ok, vnt_ok, ext_small, ...)
    vf.raw(V.PART2_SPEC)
    vf.trust("spec vocabulary validate_ok / vnt_ok / nodes_ok / limits_ok / ext_small (text of units/c12_validation.py PART2_SPEC, incl. uninterpreted spec_nodes / "
             "spec_has_repeated_keys / spec_script_size)", "the meaning of `validate(params) is Ok`, proved against the real validate in c12_validation")
    for c in CTX_TYPES:
        repo.at(CTXRS, "enum:%s" % c)               # the marker type must exist (`enum X {}` itself is not accepted by Verus)
        vf.raw(CTX_MARKER % dict(c=c, l=c.lower()))
    vf.trust("struct Segwitv0 / Legacy / BareCtx / Tap + impl ScriptContext (uninterpreted verdicts and parameter values)", "context rules: c12_validation / k12_context")
    vf.raw(EXPRESSION)
    vf.trust("expression::{Tree, TreeIterItem, Parens, DirectChildIterator, PreOrderIter} + verify_toplevel_ / verify_n_children_ / incorrect_name_error (external_body, arbitrary results "
             "except: verify_toplevel / verify_n_children accept only a child count in the stated range, and `children()` yields exactly n_children items)",
             "text-level parsing; the one modelled fact (doc comments of verify_n_children / DirectChildIterator) discharges `root.children().next().unwrap()` of Tr::from_tree")


def build(repo):
    vf = VerusFile(NAME, repo)
    emit_prelude(vf, repo)
    MS_IMPL = "impl<Pk: MiniscriptKey, Ctx: ScriptContext> Miniscript<Pk, Ctx>"

    # ---- Part 1: the tail of Miniscript::from_tree ------------------------------------------------------------------------------
    FT = "impl:FromTree for Miniscript<Pk, Ctx>/fn:from_tree"
    loop = PreOrderLoop()
    reg = repo.at(MSMOD, FT)
    probe = loop(ARC_UNWRAP(ASSERT_EQ(cut_head(drop_vis(strip_docs(reg.text)).strip("\n")))))      # fills loop.body / loop.var
    if probe is None:
        raise Undecided("Miniscript::from_tree tail: `for` loop without a body")
    vf.raw("// R14: `.map_err(Error::Parse)` on a ParseError result\n"
           "trait MapErrParse<T> { fn map_err_parse_(self) -> Result<T, Error>; }\n"
           "impl<T> MapErrParse<T> for Result<T, ParseError> {\n"
           "    fn map_err_parse_(self) -> (r: Result<T, Error>) { match self { Ok(v) => Ok(v), Err(e) => Err(Error::Parse(e)) } }\n}\n"
           "// R14: `E.map_err(Error::Validation)` (definition of Result::map_err applied to the constructor; verified, not trusted)\n"
           "fn map_err_validation_<T>(x: Result<T, ValidationError>) -> (r: Result<T, Error>)\n"
           "    ensures x is Ok <==> r is Ok, x is Ok ==> r->Ok_0 == x->Ok_0,\n"
           "{ match x { Ok(v) => Ok(v), Err(e) => Err(Error::Validation(e)) } }\n")
    V._register_raw_fns(vf, ["map_err_validation_"], PROPS)
    with vf.block(MS_IMPL):
        vf.fn(MSMOD, "mod:private/impl:Miniscript<Pk, Ctx>/fn:validate", qual="Miniscript", assumed=True, contract=Contract(ensures=validate_contract(repo)))
    vf.trust("Miniscript::validate (external_body): the contract units/c12_validation.py proves for it (Clause objects taken from that unit's build), "
             "its precondition ext_small(self.ext) as premise", "proved on the real text in c12_validation")
    if loop.body is not None:
        step = ("fn from_tree_check_step<Pk: MiniscriptKey, Ctx: ScriptContext>(%s: &Arc<Miniscript<Pk, Ctx>>) -> Result<(), Error> {%s    Ok(())\n}"
                % (loop.var, loop.body))
        v = loop.var
        vf.rewrites_used.append("R8/R16-preorder-loop [%s] @ %s" % (loop.shape, FT))
        vf.fn_text("Miniscript::from_tree_check_step", step, Contract(ensures=[
            Clause("checked.%s" % k, P, "r is Ok && %s.node is %s ==> Ctx::spec_global_valid(**%s)" % (v, k, v)) for k in VARIANTS
        ] + [Clause("rejects_only_invalid_nodes__INFO", (), "r is Err ==> !Ctx::spec_global_valid(**%s)" % v)]),
            PROPS, file=MSMOD, lines=reg.lines(), anchor=FT + "/loop:pre_order_iter/body")
    with vf.block(MS_IMPL):
        vf.fn(MSMOD, FT, qual="Miniscript", rename="from_tree_tail", props=PROPS,
              rewrites=[cut_head, ASSERT_EQ, ARC_UNWRAP, loop],
              contract=Contract(requires=["stack_in_@.len() == 1"], ensures=from_tree_result_clauses() + [
                  Clause("result_is_the_checked_tree", P, "r is Ok ==> r->Ok_0 == *stack_in_@[0]"),
              ]))
        # the whole function, as its callers see it: same clause text (every Ok is produced by the tail)
        vf.fn(MSMOD, FT, qual="Miniscript", assumed=True, rewrites=[R7_EXPR], contract=Contract(ensures=from_tree_result_clauses() + [
            # established by the HEAD (cut off here): every node it builds is a leaf constructor's (height 0 / 1) or goes through from_ast,
            # whose contract in c05_ctors (accepts_iff) has `ext_of(t).tree_height <= MAX_RECURSION_DEPTH`
            Clause("depth_within_library_limit", P, "r is Ok ==> r->Ok_0.ext.tree_height <= MAX_RECURSION_DEPTH")]))
    vf.trust("Miniscript::from_tree (external_body, as seen by its callers) additionally: tree_height <= MAX_RECURSION_DEPTH (402)",
             "units/c05_ctors.py proves it for everything from_ast returns (accepts_iff); the head of from_tree takes its nodes from from_ast or from the leaf constructors; "
             "only needed to JUDGE a parser that skips validate for ValidationParams::MAX (whose only rule is the depth limit)")
    vf.trust("Miniscript::from_tree (external_body, as seen by its callers): clause text of from_tree_tail (same Python function)",
             "the function is HEAD; TAIL and every Ok it returns is the tail's (checked on the head's text)")

    # ---- Part 2: the string parsers --------------------------------------------------------------------------------------------
    def str_contract(params):
        return [Clause("validated_with_stated_params", P, "r is Ok ==> (%s)" % validated("r->Ok_0", params)),
                Clause("every_node_checked", P, "r is Ok ==> all_nodes_global_valid(r->Ok_0)")]
    R_STR = [R7_EXPR, FROM_TREE_TRAIT_CALL, R14_VALIDATE, R12_CONSTS]
    a_ext = impl_index(repo, MSMOD, "Miniscript<Pk, Ctx>", "from_str_with_validation_params")
    a_ins = impl_index(repo, MSMOD, "Miniscript<Pk, Ctx>", "from_str_insane")
    INSANE = "ValidationParams { allow_raw_pkh: false, ..Ctx::spec_CONSENSUS() }"
    with vf.block(MS_IMPL):
        vf.fn(MSMOD, a_ext, qual="Miniscript", props=PROPS, rewrites=R_STR, contract=Contract(ensures=str_contract("*params")))
        vf.fn(MSMOD, a_ext, qual="Miniscript", rename="from_str_with_validation_params_", assumed=True, rewrites=R_STR, contract=Contract(ensures=str_contract("*params")))
        R_STR = R_STR + [lit("R7-twin", "Self::from_str_with_validation_params(", "Self::from_str_with_validation_params_(", required=False)]
        # doc: "checking only for consensus compatibility, lack of raw pubkeyhashes, and no other checks"
        vf.fn(MSMOD, a_ins, qual="Miniscript", props=PROPS, rewrites=R_STR, contract=Contract(ensures=str_contract(INSANE) + [
            Clause("no_raw_pkh", P, "r is Ok && ext_small(r->Ok_0.ext) ==> forall|i: int| 0 <= i < spec_nodes(r->Ok_0).len() ==> !(#[trigger] spec_nodes(r->Ok_0)[i] is RawPkH)")]))
        # FromStr: the context's SANE parameters
        vf.fn(MSMOD, "impl:str::FromStr for Miniscript<Pk, Ctx>/fn:from_str", qual="Miniscript", props=PROPS, rewrites=R_STR,
              contract=Contract(ensures=str_contract("Ctx::spec_SANE()")))
    vf.trust("Miniscript::from_str_with_validation_params (external_body twin for its two callers)", "same clause text as proved in this unit")

    # ---- Part 3: descriptor wrappers ------------------------------------------------------------------------------------------------
    vf.item(SEGWIT, "struct:Wsh", rewrites=[STRIP_DERIVE])
    vf.item(SEGWIT, "struct:Wpkh", rewrites=[STRIP_DERIVE])
    vf.item(SH, "struct:Sh", rewrites=[STRIP_DERIVE])
    vf.item(SH, "enum:ShInner", rewrites=[STRIP_DERIVE])
    vf.item(BARE, "struct:Bare", rewrites=[STRIP_DERIVE])
    vf.item(BARE, "struct:Pkh", rewrites=[STRIP_DERIVE])
    vf.item(TAPTREE, "struct:TapTree", rewrites=[STRIP_DERIVE])
    vf.item(TR, "struct:Tr", rewrites=[STRIP_DERIVE, sub("R9-field", r"\n\s*spend_info\s*:\s*Mutex<[^\n]*>,\s*\n", "\n")])
    vf.item(DESC, "enum:Descriptor", rewrites=[STRIP_DERIVE])
    vf.raw(WRAPPER_SPECS)
    vf.raw(TAPTREE_STUBS)
    V._register_raw_fns(vf, ["lemma_tr_leaf_step"], P)
    vf.trust("TapTreeBuilder (external_body type; new / push_inner_node / push_leaf / finalize record the pushed leaves), tt_leaves, tr_leaf_handles",
             "the builder's bit-stack is k15_taptree's subject; here: finalize() has exactly the pushed leaves in order (it moves the vector), Tr::leaves iterates them in order")
    vf.raw("impl<Pk: MiniscriptKey> Wpkh<Pk> { #[verifier::external_body] fn from_tree(top: TreeIterItem) -> Result<Self, Error> { unimplemented!() } }\n"
           "impl<Pk: MiniscriptKey> Pkh<Pk> { #[verifier::external_body] fn from_tree(top: TreeIterItem) -> Result<Self, Error> { unimplemented!() } }\n")
    vf.trust("Wpkh::from_tree / Pkh::from_tree (external_body, no contract)", "single-key descriptors; nothing assumed")
    R_DESC = [R7_USE, R7_EXPR, R14_VERIFY, R14_TERMINAL, R14_VALIDATE, R12_CONSTS]

    def wsh_clauses():
        return [Clause("inner_passed_from_tree", P, "r is Ok ==> all_nodes_global_valid(r->Ok_0.ms)"),
                Clause("top_level_checked", P, "r is Ok ==> Segwitv0::spec_top_level_ok(r->Ok_0.ms)")]

    def sh_clauses():
        return [Clause("ms_arm_passed_from_tree", P, "r is Ok ==> (r->Ok_0.inner matches ShInner::Ms(ms) ==> all_nodes_global_valid(ms))"),
                Clause("ms_arm_top_level_checked", P, "r is Ok ==> (r->Ok_0.inner matches ShInner::Ms(ms) ==> Legacy::spec_top_level_ok(ms))"),
                Clause("wsh_arm_is_a_parsed_wsh", P, "r is Ok ==> (r->Ok_0.inner matches ShInner::Wsh(w) ==> wsh_ok(w))")]

    def bare_clauses():
        return [Clause("inner_passed_from_tree", P, "r is Ok ==> all_nodes_global_valid(r->Ok_0.ms)"),
                Clause("top_level_checked", P, "r is Ok ==> BareCtx::spec_top_level_ok(r->Ok_0.ms)")]

    def tr_clauses():
        return [Clause("internal_key_checked", P, "r is Ok ==> Tap::spec_pk_ok(r->Ok_0.internal_key)"),
                Clause("every_leaf_passed_from_tree", P, "r is Ok ==> (r->Ok_0.tree matches Some(t) ==> forall|i: int| 0 <= i < tt_leaves(t).len() ==> all_nodes_global_valid(#[trigger] tt_leaves(t)[i]))"),
                Clause("every_leaf_validated_tap_consensus", P, "r is Ok ==> (r->Ok_0.tree matches Some(t) ==> forall|i: int| 0 <= i < tt_leaves(t).len() ==> "
                                                                "(ext_small((#[trigger] tt_leaves(t)[i]).ext) ==> validate_ok(tt_leaves(t)[i], Tap::spec_CONSENSUS())))")]

    WSH_FT = "impl:crate::expression::FromTree for Wsh<Pk>/fn:from_tree"
    SH_FT = "impl:crate::expression::FromTree for Sh<Pk>/fn:from_tree"
    BARE_FT = "impl:FromTree for Bare<Pk>/fn:from_tree"
    TR_FT = "impl:crate::expression::FromTree for Tr<Pk>/fn:from_tree"
    # Property text: "what the descriptor parser accepts, the miniscript parser with consensus parameters accepts too".  Tr::from_tree runs
    # `validate(&Tap::CONSENSUS)` on every leaf (its FIXME for issue 734); Wsh / Sh do not run `validate` at all, so the resource rules of
    # Segwitv0::CONSENSUS / Legacy::CONSENSUS (201 executed opcodes, ...) are never applied to a parsed wsh() / sh().  RED on the unchanged
    # tree (see the unit report for the inputs); claimed on the verified instances only, never assumed by a caller.
    def consensus_clause(tag, ms, ctx, guard=""):
        return Clause(tag, P, "r is Ok ==> (%s(%s))" % (guard, validated(ms, "%s::spec_CONSENSUS()" % ctx)))
    with vf.block("impl<Pk: MiniscriptKey> Wsh<Pk>"):
        vf.fn(SEGWIT, WSH_FT, qual="Wsh", props=PROPS, rewrites=R_DESC, contract=Contract(ensures=wsh_clauses() + [
            consensus_clause("accepted_by_miniscript_parser_with_consensus_params", "r->Ok_0.ms", "Segwitv0")]))
        vf.fn(SEGWIT, WSH_FT, qual="Wsh", rename="from_tree_", assumed=True, rewrites=R_DESC, contract=Contract(ensures=wsh_clauses()))
    with vf.block("impl<Pk: MiniscriptKey> Sh<Pk>"):
        vf.fn(SH, SH_FT, qual="Sh", props=PROPS, rewrites=R_DESC + [lit("R7-twin", "Wsh::from_tree(", "Wsh::from_tree_(", required=False)],
              contract=Contract(ensures=sh_clauses() + [
                  consensus_clause("ms_arm_accepted_by_miniscript_parser_with_consensus_params", "ms", "Legacy", guard="r->Ok_0.inner matches ShInner::Ms(ms) ==> ")]))
        vf.fn(SH, SH_FT, qual="Sh", rename="from_tree_", assumed=True, rewrites=R_DESC, contract=Contract(ensures=sh_clauses()))
    with vf.block("impl<Pk: MiniscriptKey> Bare<Pk>"):
        vf.fn(BARE, "impl:Bare<Pk>/fn:new", qual="Bare", props=PROPS, contract=Contract(ensures=[
            Clause("top_level_checked", P, "r is Ok ==> BareCtx::spec_top_level_ok(r->Ok_0.ms)"),
            Clause("keeps_the_script", P, "r is Ok ==> r->Ok_0.ms == ms")]))
        vf.fn(BARE, BARE_FT, qual="Bare", props=PROPS, rewrites=R_DESC, contract=Contract(ensures=bare_clauses()))
        vf.fn(BARE, BARE_FT, qual="Bare", rename="from_tree_", assumed=True, rewrites=R_DESC, contract=Contract(ensures=bare_clauses()))
    tr_inv = ("\n            invariant tr_leaves_ok(tree_builder.pushed()),\n        {")
    R_TR = R_DESC + [
        sub("R14-err", r"return Err\(Error::Parse\(ParseError::Tree\(ParseTreeError::IncorrectName \{.*?\}\)\)\);", "return Err(incorrect_name_error(node));", flags=re.S, required=False)]
    branch = TrLeafBranch()
    tr_reg = repo.at(TR, TR_FT)
    probe = drop_vis(strip_docs(tr_reg.text)).strip("\n")
    for rw in R_TR:
        probe = rw(probe)
    branch(probe)                                                                   # fills branch.body / names
    if branch.body is not None:
        b = branch.builder
        step = ("fn tr_from_tree_leaf_step<Pk: MiniscriptKey>(%s: TreeIterItem, %s: &mut TapTreeBuilder<Pk>, %s: &mut ExprPreOrderIter) -> Result<(), Error> {%s    Ok(())\n}"
                % (branch.node, b, branch.iter, branch.body))
        vf.rewrites_used.append("R16-tr-leaf-branch @ %s" % TR_FT)
        new_leaves = "forall|i: int| old(%s).pushed().len() <= i < final(%s).pushed().len() ==> " % (b, b)
        vf.fn_text("Tr::from_tree_leaf_step", step, Contract(ensures=[
            Clause("earlier_leaves_kept", P, "r is Ok ==> old(%s).pushed().len() <= final(%s).pushed().len() && final(%s).pushed().take(old(%s).pushed().len() as int) == old(%s).pushed()" % (b, b, b, b, b)),
            Clause("pushed_leaf_passed_from_tree", P, "r is Ok ==> %s all_nodes_global_valid(#[trigger] final(%s).pushed()[i])" % (new_leaves, b)),
            Clause("pushed_leaf_validated_tap_consensus", P, "r is Ok ==> %s (ext_small((#[trigger] final(%s).pushed()[i]).ext) ==> validate_ok(final(%s).pushed()[i], Tap::spec_CONSENSUS()))" % (new_leaves, b, b)),
        ]), PROPS, file=TR, lines=tr_reg.lines(), anchor=TR_FT + "/leaf-branch")
    with vf.block("impl<Pk: MiniscriptKey> Tr<Pk>"):
        vf.fn(TR, "impl:Tr<Pk>/fn:new", qual="Tr", props=PROPS,
              rewrites=[sub("R9-field", r",\s*spend_info\s*:\s*Mutex::new\(None\)", "")],
              contract=Contract(ensures=[
                  Clause("internal_key_checked", P, "r is Ok ==> Tap::spec_pk_ok(internal_key)"),
                  Clause("keeps_key_and_tree", P, "r is Ok ==> r->Ok_0.internal_key == internal_key && r->Ok_0.tree == tree")]))
        vf.fn(TR, TR_FT, qual="Tr", props=PROPS, attrs="#[verifier::exec_allows_no_decreases_clause]",
              rewrites=R_TR + [branch,
                  sub("R10", r"(while let Some\(\w+\) = \w+\.next\(\)) \{", r"\1" + tr_inv.replace("\\", "\\\\").replace("tree_builder", branch.builder or "tree_builder"), required=False),
              ], contract=Contract(ensures=tr_clauses()))
        vf.fn(TR, TR_FT, qual="Tr", rename="from_tree_", assumed=True, rewrites=R_DESC, contract=Contract(ensures=tr_clauses()))
    vf.trust("Wsh::from_tree_ / Sh::from_tree_ / Bare::from_tree_ / Tr::from_tree_ (external_body twins for Sh / Descriptor)", "same clause text as proved in this unit")

    # ---- Descriptor::from_tree / from_str -----------------------------------------------------------------------------------------
    TWINS = [sub("R7-twin", r"\b(Sh|Wsh|Bare|Tr)::from_tree\(", r"\1::from_tree_(", required=False)]

    def desc_clauses():
        return [Clause("wsh_obeys_segwitv0", P, "r matches Ok(Descriptor::Wsh(w)) ==> wsh_ok(w)"),
                Clause("sh_obeys_legacy_or_nested_segwit", P, "r matches Ok(Descriptor::Sh(s)) ==> sh_ok(s)"),
                Clause("bare_obeys_bare", P, "r matches Ok(Descriptor::Bare(b)) ==> bare_ok(b)"),
                Clause("tr_obeys_tap", P, "r matches Ok(Descriptor::Tr(t)) ==> tr_ok(t)")]
    DESC_FT = "impl:crate::expression::FromTree for Descriptor<Pk>/fn:from_tree"
    DESC_FS = "impl:FromStr for Descriptor<Pk>/fn:from_str"
    vf.item(TAPTREE, "struct:TapTreeIterItem", rewrites=[STRIP_DERIVE])
    vf.raw("impl<'tr, Pk: MiniscriptKey> TapTreeIterItem<'tr, Pk> {\n"
           "    // derived Clone (two Copy fields): stand-in used by the rewritten loop to take the i-th item out of the drained vector\n"
           "    fn clone_(&self) -> (r: Self) ensures r == *self { TapTreeIterItem { node: self.node, depth: self.depth } }\n}\n")
    with vf.block("impl<'tr, Pk: MiniscriptKey> TapTreeIterItem<'tr, Pk>"):
        vf.fn(TAPTREE, "impl:TapTreeIterItem<'tr, Pk>/fn:miniscript", qual="TapTreeIterItem", props=PROPS, contract=Contract(ensures=[
            Clause("is_the_leaf_script", P, "**r == leaf_of(*self)")]))
    leaves = TrLeavesLoop()
    fs_reg = repo.at(DESC, DESC_FS)
    probe = drop_vis(strip_docs(fs_reg.text)).strip("\n")
    for rw in R_DESC:
        probe = rw(probe)
    leaves(probe)
    if leaves.body is not None:
        step = ("fn descriptor_from_str_leaf_step<'a, Pk: MiniscriptKey>(%s: TapTreeIterItem<'a, Pk>) -> Result<(), Error> {%s    Ok(())\n}" % (leaves.var, leaves.body))
        vf.rewrites_used.append("R8/R16-tr-leaves @ %s" % DESC_FS)
        vf.fn_text("Descriptor::from_str_leaf_step", step, Contract(ensures=[
            Clause("leaf_validated_tap_sane", P, "r is Ok ==> leaf_sane(leaf_of(%s))" % leaves.var)]),
            PROPS, file=DESC, lines=fs_reg.lines(), anchor=DESC_FS + "/loop:leaves/body")
    with vf.block("impl<Pk: MiniscriptKey> Descriptor<Pk>"):
        vf.fn(DESC, DESC_FT, qual="Descriptor", props=PROPS, rewrites=R_DESC + TWINS, contract=Contract(ensures=desc_clauses()))
        vf.fn(DESC, DESC_FT, qual="Descriptor", rename="from_tree_", assumed=True, rewrites=R_DESC, contract=Contract(ensures=desc_clauses()))
        vf.fn(DESC, DESC_FS, qual="Descriptor", props=PROPS,
              rewrites=R_DESC + [lit("R7-twin", "Self::from_tree(", "Self::from_tree_("), leaves],
              contract=Contract(ensures=desc_clauses() + [
                  Clause("tr_leaves_validated_tap_sane", P, "r matches Ok(Descriptor::Tr(t)) ==> (t.tree matches Some(tree) ==> tr_leaves_sane(tt_leaves(tree)))")]))
    vf.trust("Descriptor::from_tree_ (external_body twin for Descriptor::from_str)", "same clause text as proved in this unit")
    return vf


class TrLeavesLoop:
    """R8 + R16 on Descriptor::from_str's `for item in inner.leaves() { BODY }`: BODY is cut out verbatim (self.body, emitted by the
    caller as descriptor_from_str_leaf_step), the loop becomes an index loop over the leaf handles."""
    rule = "R8/R16-tr-leaves"

    def __init__(self):
        self.body = self.var = None

    def __call__(self, text):
        m = re.search(r"\bfor\s+(\w+)\s+in\s+(\w+)\.leaves\(\)\s*\{", text)
        if not m:
            if ".leaves()" in text:
                raise Undecided("Descriptor::from_str: leaves() used outside a `for VAR in X.leaves()` loop (shape not modelled)")
            return text                      # no such loop: verified as it stands (the SANE clause then fails)
        close = match_close(text, m.end() - 1)
        body = text[m.end():close]
        var, tr = m.group(1), m.group(2)
        if re.search(r"\bbreak\b", body) or (re.search(r"\bcontinue\b", body) and re.search(r"\b(for|while|loop)\b", body)):
            raise Undecided("Descriptor::from_str: loop body with `break` cannot be lambda-lifted")
        self.body, self.var = re.sub(r"\bcontinue\s*;", "return Ok(());", body), var
        new = ("let leaves_ = tr_leaf_handles(%s);\n            let mut li_: usize = 0;\n            while li_ < leaves_.len()\n"
               "                invariant li_ <= leaves_@.len(),\n"
               "                    forall|j_: int| 0 <= j_ < li_ ==> leaf_sane(leaf_of(#[trigger] leaves_@[j_])),\n"
               "                decreases leaves_@.len() - li_,\n            {\n                let %s = leaves_[li_].clone_();\n"
               "                descriptor_from_str_leaf_step(%s)?;\n                li_ += 1;\n            }\n"
               "            proof {\n                if %s.tree is Some && li_ == leaves_@.len() {\n                    let tl_ = tt_leaves(%s.tree->Some_0);\n"
               "                    assert forall|i_: int| 0 <= i_ < tl_.len() && leaf_sane(leaf_of(leaves_@[i_])) implies leaf_sane(#[trigger] tl_[i_]) by {}\n                }\n            }"
               % (tr, var, var, tr, tr))
        return text[:m.start()] + new + text[close + 1:]


class TrLeafBranch:
    """R16 on Tr::from_tree: the block that contains `BUILDER.push_leaf(..)` (the leaf branch of the `while let Some(NODE) = ITER.next()`
    loop) is cut out verbatim (self.body; emitted by the caller as tr_from_tree_leaf_step with NODE, &mut BUILDER, &mut ITER as
    parameters) and replaced by a call.  No push_leaf: nothing to do."""
    rule = "R16-tr-leaf-branch"

    def __init__(self):
        self.body = self.node = self.builder = self.iter = None

    def __call__(self, text):
        m = re.search(r"\b(\w+)\s*\.push_leaf\(", text)
        if not m:
            return text
        w = re.search(r"while let Some\((\w+)\) = (\w+)\.next\(\)", text)
        if not w or w.start() > m.start():
            raise Undecided("Tr::from_tree: push_leaf outside the `while let Some(..) = ITER.next()` loop (shape not modelled)")
        if len(re.findall(r"\.push_leaf\(", text)) != 1:
            raise Undecided("Tr::from_tree: more than one push_leaf call (shape not modelled)")
        open_ = None
        for b in [i for i, ch in enumerate(text[:m.start()]) if ch == "{"]:
            try:
                c = match_close(text, b)
            except Exception:
                continue
            if c > m.start():
                open_, close = b, c          # the innermost enclosing block is the last one found
        if open_ is None:
            return None
        body = text[open_ + 1:close]
        if re.search(r"\b(break|continue)\b", body):
            raise Undecided("Tr::from_tree: leaf branch with break / continue cannot be lambda-lifted")
        self.body, self.node, self.builder, self.iter = body, w.group(1), m.group(1), w.group(2)
        call = ("{\n                let ghost before_ = %s.pushed();\n                tr_from_tree_leaf_step(%s, &mut %s, &mut %s)?;\n"
                "                proof { if leaf_step_ok(before_, %s.pushed()) { lemma_tr_leaf_step(before_, %s.pushed()); } }\n            }"
                % (self.builder, self.node, self.builder, self.iter, self.builder, self.builder))
        return text[:open_] + call + text[close + 1:]
