"""C18 (Kani): abstract-policy transformations on the real crate.

Registered (fit the budget)
* lock_stub_rel / lock_stub_abs -- COMPLETE over u32 x u32: the BIP68 / BIP65 rules assumed by the Verus units
  c18_semantic / c18_timelock for their stubs of the bitcoin crate (`relative::LockTime::from(RelLockTime)`,
  `is_implied_by`, `RelLockTime::is_time_locked`, `absolute::LockTime::from(AbsLockTime)`, `is_block_height`).

Attempted and DROPPED (decision taken at build time, DESIGN C18 last sentence) -- the corresponding sentences of C18
are NOT decided by this framework:
* `normalized()` / `sorted()` preserve the truth table, `entails(a, b)` == truth-table implication,
  `minimum_n_keys` == fewest keys of any satisfying assignment, `Concrete::lift` == same truth table, on policies of
  depth <= 2 / arity <= 3 built from symbolic selectors.
  Measured on this machine (16 cores, 62 GB), each with `core::mem::forget` on the results:
    - `minimum_n_keys` on ONE leaf chosen by a symbolic selector out of 3:             > 600 s (killed)
    - `minimum_n_keys` on the CONCRETE policy or(pk(a), TRIVIAL):                      > 300 s (killed)
    - `normalized()`   on the CONCRETE policy or(pk(a), TRIVIAL), unwind 4 and 3:      > 400 s / > 320 s (killed)
    - `Concrete::timelock_info` on one symbolic leaf / and-or of two / thresh of 3:    > 600 s, 3-10 GB (killed)
  Cause (CBMC symex log): `PostOrderIter::next` is recursive and allocates a `Vec` of child indices per node; every
  `Arc<Policy>` drop is a recursion through `drop_glue` -> `Vec` -> `Arc::drop_slow` that CBMC unwinds to the bound at
  every level; with a symbolic variant selector CBMC additionally explores the `Thresh` arms (sort, filter_map,
  collect) on unconstrained pointers.  Stubbing `Arc::drop_slow` needs `allocator_api` in the crate root (not
  available through a `#[cfg(kani)]` child module).
  The harness text that was tried is kept at the end of contracts/kani/k18_policy.rs (`normalized_thresh2_*`) but is
  NOT registered below, so that no check can hang on it.
Since then `normalized()` has been brought under a Verus contract (unit c18_normalized: truth table preserved for every
policy, unbounded) and the constant arms of `entails` / the n-ary arms of `Concrete::lift` are verified per node
(c18_semantic); still undecided: `sorted()`, the recursive arm of `entails`, the Thresh arm of `minimum_n_keys`.
"""
NAME = "k18_policy"
ENGINE = "kani"
PROPS = ("C18", "C11")
INJECT = [("src/policy/semantic.rs", "contracts/kani/k18_policy.rs")]
TRUSTED = ["bitcoin::absolute::LockTime / bitcoin::relative::LockTime / bitcoin::Sequence are executed as compiled (not stubbed)"]
DROPPED = [
    "bounded truth-table harnesses for Semantic::{normalized, sorted, entails, minimum_n_keys} and Concrete::lift over real policy trees: every attempted shape (down to one leaf / the concrete policy or(pk,TRIVIAL)) exceeded the 300 s budget; dropped -- these sentences of C18 are not decided",
]
HARNESSES = [
    dict(name="lock_stub_rel", fn="relative::LockTime::from(RelLockTime) / is_implied_by", props=("C18", "C11"), kind="complete", tier="quick",
         tags=["C18:lock_stub_rel.type_flag", "C18:lock_stub_rel.from_is_bip68", "C18:lock_stub_rel.implied_by_is_bip68"]),
    dict(name="lock_stub_abs", fn="absolute::LockTime::from(AbsLockTime) / is_implied_by", props=("C18", "C11"), kind="complete", tier="quick",
         tags=["C18:lock_stub_abs.from_is_bip65", "C18:lock_stub_abs.value", "C18:lock_stub_abs.implied_by_is_bip65"]),
]
