"""C17 / C09 / C01 unit: the spending-plan layer (src/plan.rs, src/util.rs, Placeholder::satisfy_self, Descriptor::into_plan).

1. The blanket `impl<T: Satisfier<Pk>, Pk> AssetProvider<Pk> for T` (src/plan.rs), every method verbatim, against
   "provider_lookup_x  <=>  lookup_x is Some" (and: the announced signature size is the length of the signature the
   satisfier holds; `check_older / check_after` forwarded unchanged).  `Satisfier` is a stub trait whose lookups are
   uninterpreted functions of their arguments.

   WHY THIS GIVES "a plan exists  <=>  the satisfier succeeds" (C17):  `Miniscript::satisfy(stfr)` is
   `build_template(&stfr).try_completing(stfr)` and a plan is `build_template(provider)`: BOTH run the SAME
   `Satisfaction::sat_dissat(node, provider, ..)`, once with the provider being the satisfier seen through this blanket
   impl.  `sat_dissat` looks at its provider only through the `provider_lookup_*` / `check_*` methods (the per-node
   contract of that function is unit c01_satisfier, stated over exactly these answers), so two providers that answer
   every query alike produce the same template.  By the clauses below the satisfier-as-provider answers "available"
   exactly when the satisfier's own lookup is `Some`, hence (i) the template is a `Stack` iff the satisfaction
   assembled from the satisfier's lookups is, and (ii) every placeholder of that template names an item for which the
   lookup is `Some`, so `Placeholder::satisfy_self` (clauses below: it performs that very lookup) returns `Some` for
   each of them and `try_completing` / `Plan::satisfy` cannot fail -- that is the `expect("the same satisfier should
   manage to complete the template")`.

2. `Placeholder::satisfy_self` (src/miniscript/satisfy/mod.rs): one clause per placeholder kind -- it completes to
   exactly the datum it names (C01).  `ItemSize::size` for placeholders and `util::witness_size` (src/util.rs) against the
   Bitcoin serialization of the LONGEST datum `satisfy_self` can return (C09), `Plan::{witness_template, witness_size,
   scriptsig_size, satisfaction_weight, satisfy}` and `Descriptor::{into_plan, into_plan_mall}` (C17 frame: the plan
   carries the template and the time locks of the satisfaction it was built from, untouched).

Oracles (none of them read off the code): BIP144 witness serialization (CompactSize count, CompactSize length + bytes per
element), script push encoding (CScript::operator<<: 1-byte opcode for lengths < 76, PUSHDATA1/2), BIP62 rule 3 / Core's
CheckMinimalPush, BIP16 (scriptSig = pushes of the inputs followed by the push of the serialized redeem script), BIP141
(P2WSH witness = inputs followed by the witness script, scriptSig empty, or the single push of the witness program when
nested in P2SH; P2WPKH witness = <sig> <pubkey>), BIP66 DER (ECDSA signature <= 72 bytes, 71 with low S) + 1 sighash
byte, BIP340/341 (Schnorr signature 64 bytes, 65 with an explicit sighash byte; control block 33 + 32 m).
"""
import os
import re

from vlib.verus import VerusFile, Contract, Clause, sub, lit, rule, DERIVE_TRIM, Undecided
from units import _tree
from units import c20_translate as C20

NAME = "c17_plan"
ENGINE = "verus"
PROPS = ("C17", "C09", "C01", "C02", "C11")

PLAN = "src/plan.rs"
SAT = "src/miniscript/satisfy/mod.rs"
UTIL = "src/util.rs"
LIB = "src/lib.rs"
DESC = "src/descriptor/mod.rs"
SH = "src/descriptor/sh.rs"
SEGWIT = "src/descriptor/segwitv0.rs"
BARE = "src/descriptor/bare.rs"
CTX = "src/miniscript/context.rs"

DROPPED = [
    "trait Satisfier is a stub (14 of its 15 methods; `lookup_tap_control_block_map` is not used by any function in this unit); its impls for "
    "maps / tuples / references are not verified here",
    "trait AssetProvider is extracted verbatim except that the anonymous parameters `_: T` are named (Verus wants identifier patterns)",
    "closures `|x| expr` passed to Option::map get parameter / result types and a ghost `ensures` (R10); tuple-pattern closure parameters "
    "`|(a, _)| body` become `|p: (A, B)| { let (a, _) = p; body }` (R14, Verus rejects patterns in closure parameters)",
    "Plan::satisfy / Satisfaction::try_completing: `xs.iter().map(f).collect::<Option<Vec<_>>>()` and `xs.into_iter().fold(init, f)` are replaced "
    "(R4) by the std wrappers slice_iter_map_collect_option / vec_into_iter_fold whose trusted contracts are the std semantics (fold: stated as "
    "the theorem 'a step that appends one element yields the pointwise image, in order')",
    "Plan::satisfy is judged in BOTH of its shapes (rewrite `either`): the Builder fold with push_slice (up to a464895d) and the call of "
    "util::witness_to_scriptsig (after the D3 repair), the latter consumed through the contract proved in unit c01_wrappers (one push per element "
    "in order, minimal pushes; precondition: non-final elements <= 73 bytes, final <= 520); ghost asserts relate the completed Vec<Vec<u8>> to "
    "max_len of the placeholders (R10)",
    "util::witness_size: the generic `T: ItemSize` is specialised to Placeholder<Pk> (what every call site passes) and "
    "`wit.iter().map(T::size).sum::<usize>()` is replaced (R9) by the stub sum_sizes carrying: the sum of `size()` over the slice, with the verified "
    "per-item contract of `size()` folded in (sum >= sum of the per-item bounds)",
    "ItemSize::size for Placeholder is verified as an inherent method (trait indirection dropped)",
    "Plan::update_psbt_input (BTreeMap / psbt::Input, fold with a local enum) is C14's and not verified here",
    "Assets and its AssetProvider impl (BTreeSet, bip32 paths): the key-origin rule is unit k11_planner (Kani)",
    "Descriptor::into_plan: `Option::map(Into::into)` is eta-expanded to a closure calling the stub abs_into / rel_into (function value, R12-eta)",
]

# ======================================================================================================================
# Shared prelude (also used by units/c01_wrappers.py)
# ======================================================================================================================
BITCOIN = r"""
// ---- bitcoin / secp256k1 types reduced to their consensus serialization (trusted, listed) --------------------------
pub mod bitcoin {
    use vstd::prelude::*;
    verus!{
    #[derive(Clone, Copy, PartialEq, Eq)]
    pub struct PublicKey { pub compressed: bool, pub inner: SecpPublicKey }
    // secp256k1::PublicKey: `serialize()` is ALWAYS the 33-byte compressed SEC1 form, whatever bitcoin::PublicKey::compressed says
    #[derive(Clone, Copy, PartialEq, Eq)]
    pub struct SecpPublicKey { pub point: u64 }
    impl SecpPublicKey {
        pub uninterp spec fn ser33(&self) -> Seq<u8>;
        #[verifier::external_body]
        pub fn serialize(&self) -> (r: [u8; 33]) ensures r@ == self.ser33() { unimplemented!() }
    }
    impl PublicKey {
        // consensus serialization of the key AS WRITTEN: 33 bytes if compressed, 65 bytes otherwise
        pub uninterp spec fn ser(&self) -> Seq<u8>;
        #[verifier::external_body]
        pub fn to_bytes(&self) -> (r: Vec<u8>) ensures r@ == self.ser() { unimplemented!() }
    }
    // the only relation between the two: a compressed key's bytes ARE the secp serialization; an uncompressed key's are 65 bytes
    pub broadcast proof fn axiom_pubkey_ser(k: PublicKey)
        ensures k.compressed ==> #[trigger] k.ser() == k.inner.ser33(), !k.compressed ==> k.ser().len() == 65, k.inner.ser33().len() == 33,
    { admit(); }
    pub mod ecdsa {
        use vstd::prelude::*;
        verus!{
        #[derive(Clone, Copy, PartialEq, Eq)]
        pub struct Signature { pub rs: u64, pub sighash_type: u8 }
        // SerializedSignature (DER + sighash byte), what `serialize()` returns; derefs to the bytes
        pub struct SerializedSignature { pub bytes: Vec<u8> }
        impl SerializedSignature { pub fn as_ref(&self) -> (r: &[u8]) ensures r@ == self.bytes@ { self.bytes.as_slice() } }
        impl Signature {
            pub uninterp spec fn ser(&self) -> Seq<u8>;
            #[verifier::external_body]
            pub fn to_vec(&self) -> (r: Vec<u8>) ensures r@ == self.ser() { unimplemented!() }
            #[verifier::external_body]
            pub fn serialize(&self) -> (r: SerializedSignature) ensures r.bytes@ == self.ser() { unimplemented!() }
        }
        }
    }
    // bitcoin::Witness / TxIn: the witness as the list of its elements
    pub struct Witness { pub content: Vec<Vec<u8>> }
    impl Witness {
        pub open spec fn elems(&self) -> Seq<Seq<u8>> { Seq::new(self.content@.len(), |i: int| self.content@[i]@) }
        #[verifier::external_body]
        pub fn from_slice(v: &Vec<Vec<u8>>) -> (r: Witness) ensures r.elems() == Seq::new(v@.len(), |i: int| v@[i]@) { unimplemented!() }
    }
    pub struct TxIn { pub previous_output: u64, pub script_sig: super::ScriptBuf, pub sequence: u32, pub witness: Witness }
    pub mod taproot {
        use vstd::prelude::*;
        verus!{
        #[derive(Clone, Copy, PartialEq, Eq)]
        pub struct Signature { pub rs: u64, pub sighash_type: u8 }
        impl Signature {
            pub uninterp spec fn ser(&self) -> Seq<u8>;
            #[verifier::external_body]
            pub fn to_vec(&self) -> (r: Vec<u8>) ensures r@ == self.ser() { unimplemented!() }
        }
        }
    }
    }
}
#[derive(Clone, Copy, PartialEq, Eq)]
pub struct XOnlyPublicKey { pub x: u64 }
impl XOnlyPublicKey {
    pub uninterp spec fn ser(&self) -> Seq<u8>;
    #[verifier::external_body]
    pub fn serialize(&self) -> (r: [u8; 32]) ensures r@ == self.ser() { unimplemented!() }
}
#[derive(Clone, Copy, PartialEq, Eq)] pub struct TapLeafHash(pub u64);
#[derive(Clone, Copy, PartialEq, Eq)] pub struct TapNodeHash(pub u64);
#[derive(Clone, Copy, PartialEq, Eq)] pub struct ControlBlock { pub depth: u8, pub id: u64 }
impl ControlBlock {
    pub uninterp spec fn ser(&self) -> Seq<u8>;
    #[verifier::external_body]
    pub fn serialize(&self) -> (r: Vec<u8>) ensures r@ == self.ser() { unimplemented!() }
}
pub type Preimage32 = [u8; 32];
pub mod absolute { use vstd::prelude::*; verus!{ #[derive(Clone, Copy, PartialEq, Eq)] pub struct LockTime(pub u32); } }
pub mod relative { use vstd::prelude::*; verus!{ #[derive(Clone, Copy, PartialEq, Eq)] pub struct LockTime(pub u32); } }
#[derive(Clone, Copy, PartialEq, Eq)]
pub enum WitnessVersion { V0, V1, V2 }

// lengths fixed by the encodings (trusted facts about the external serializers):
//  * SEC1 public key 33 bytes compressed / 65 uncompressed, BIP340 x-only key 32 bytes
//  * BIP66 strict DER: 0x30 L 0x02 Lr R 0x02 Ls S with R, S <= 33 bytes  =>  8..72 bytes, plus the sighash byte.
//    ASSUMPTION (documented by the library: "Assumes all ECDSA signatures are 73 bytes, including push opcode and sighash
//    suffix"): S is low (BIP146 / standardness), so DER <= 71 and the element <= 72 bytes.  `ecdsa_low_s()` marks where it is used.
//  * BIP340/341 signature: 64 bytes, or 65 with an explicit sighash byte
//  * BIP341 control block: 33 + 32 m bytes, m <= 128
pub open spec fn ecdsa_low_s() -> bool { true }
pub mod lengths {
    use vstd::prelude::*;
    use super::{bitcoin, XOnlyPublicKey, ControlBlock, ecdsa_low_s};
    verus!{
    pub broadcast proof fn axiom_pubkey_len(k: bitcoin::PublicKey)
        ensures #[trigger] k.ser().len() == (if k.compressed { 33nat } else { 65nat }) { admit(); }
    pub broadcast proof fn axiom_xonly_len(k: XOnlyPublicKey) ensures #[trigger] k.ser().len() == 32 { admit(); }
    pub broadcast proof fn axiom_ecdsa_sig_len(s: bitcoin::ecdsa::Signature)
        ensures 9 <= #[trigger] s.ser().len() <= 73, ecdsa_low_s() ==> s.ser().len() <= 72 { admit(); }
    pub broadcast proof fn axiom_schnorr_sig_len(s: bitcoin::taproot::Signature)
        ensures #[trigger] s.ser().len() == 64 || s.ser().len() == 65 { admit(); }
    pub broadcast proof fn axiom_control_block_len(cb: ControlBlock)
        ensures #[trigger] cb.ser().len() == 33 + 32 * (cb.depth as nat), cb.depth <= 128 { admit(); }
    pub broadcast group serialized_lengths { axiom_pubkey_len, axiom_xonly_len, axiom_ecdsa_sig_len, axiom_schnorr_sig_len, axiom_control_block_len }
    }
}

pub assume_specification<T: Clone>[<[T]>::to_vec](s: &[T]) -> (r: Vec<T>) ensures r@ == s@;
pub assume_specification<T>[Option::<T>::or](a: Option<T>, b: Option<T>) -> (r: Option<T>) ensures r == (if a is Some { a } else { b });
"""

SCRIPT = r"""
// ---- scripts: bytes + (for push-only scripts) the sequence of push instructions ----------------------------------------
// One push instruction: the stack element it leaves and how it is encoded (`direct`: length-prefixed data push
// PUSHBYTES_n / PUSHDATA1/2/4; otherwise one of the opcodes OP_0, OP_1..OP_16, OP_1NEGATE).
pub struct Push { pub data: Seq<u8>, pub direct: bool }
#[derive(Clone, PartialEq, Eq)]
pub struct ScriptBuf { pub raw: Vec<u8> }
pub uninterp spec fn decode_pushes(bytes: Seq<u8>) -> Seq<Push>;
// script hashing / output templates: uninterpreted functions of the script bytes
pub uninterp spec fn spec_p2wsh(bytes: Seq<u8>) -> Seq<u8>;
pub uninterp spec fn spec_p2sh(bytes: Seq<u8>) -> Seq<u8>;
pub uninterp spec fn spec_p2pkh(pk: bitcoin::PublicKey) -> Seq<u8>;
pub uninterp spec fn spec_p2wpkh(pk: bitcoin::PublicKey) -> Seq<u8>;      // OP_0 PUSHBYTES_20 <hash160(pk)>: 22 bytes
impl ScriptBuf {
    pub open spec fn bytes(&self) -> Seq<u8> { self.raw@ }
    pub open spec fn pushes(&self) -> Seq<Push> { decode_pushes(self.raw@) }
    #[verifier::external_body]
    pub fn new() -> (r: ScriptBuf) ensures r.bytes() == Seq::<u8>::empty(), r.pushes() == Seq::<Push>::empty() { unimplemented!() }
    // `ScriptBuf::from(&Script)`: a copy of the script
    #[verifier::external_body]
    pub fn from(s: &ScriptBuf) -> (r: ScriptBuf) ensures r == *s { unimplemented!() }
    pub fn len(&self) -> (r: usize) ensures r == self.bytes().len() { self.raw.len() }
    pub fn into_bytes(self) -> (r: Vec<u8>) ensures r@ == self.bytes() { self.raw }
    #[verifier::external_body]
    pub fn to_bytes(&self) -> (r: Vec<u8>) ensures r@ == self.bytes() { unimplemented!() }
    pub fn as_bytes(&self) -> (r: &[u8]) ensures r@ == self.bytes() { self.raw.as_slice() }
    #[verifier::external_body]
    pub fn to_p2wsh(&self) -> (r: ScriptBuf) ensures r.bytes() == spec_p2wsh(self.bytes()) { unimplemented!() }
    #[verifier::external_body]
    pub fn to_p2sh(&self) -> (r: ScriptBuf) ensures r.bytes() == spec_p2sh(self.bytes()) { unimplemented!() }
}
pub const MAX_SCRIPT_ELEMENT_SIZE: usize = 520;

// script numbers (CScriptNum): minimal little-endian sign-magnitude, at most 4 bytes when read back
pub open spec fn is_minimal_scriptint(v: Seq<u8>) -> bool {
    v.len() <= 4 && (v.len() == 0 || v.last() % 128 != 0 || (v.len() > 1 && v[v.len() - 2] >= 128))
}
pub uninterp spec fn scriptint_value(v: Seq<u8>) -> int;
pub uninterp spec fn scriptnum_enc(n: int) -> Seq<u8>;
pub mod script_axioms {
    use vstd::prelude::*;
    use super::{is_minimal_scriptint, scriptnum_enc, scriptint_value, spec_p2wsh, spec_p2wpkh, bitcoin};
    verus!{
    // CScriptNum::serialize o CScriptNum(vch) is the identity on minimal encodings; small numbers have their opcodes' values
    pub broadcast proof fn axiom_scriptnum_roundtrip(v: Seq<u8>)
        requires is_minimal_scriptint(v) ensures #[trigger] scriptnum_enc(scriptint_value(v)) == v { admit(); }
    pub broadcast proof fn axiom_scriptnum_small(n: int)
        ensures (#[trigger] scriptnum_enc(n)).len() == 0 <==> n == 0,
                (scriptnum_enc(n).len() == 1 && 1 <= scriptnum_enc(n)[0] <= 16) <==> 1 <= n <= 16,
                1 <= n <= 16 ==> scriptnum_enc(n)[0] == n,
                (scriptnum_enc(n).len() == 1 && scriptnum_enc(n)[0] == 0x81) <==> n == -1,
    { admit(); }
    // P2WSH output script: OP_0 PUSHBYTES_32 <sha256(script)>
    pub broadcast proof fn axiom_p2wsh_len(b: Seq<u8>) ensures #[trigger] spec_p2wsh(b).len() == 34 { admit(); }
    pub broadcast proof fn axiom_p2wpkh_len(pk: bitcoin::PublicKey) ensures #[trigger] spec_p2wpkh(pk).len() == 22 { admit(); }
    pub broadcast group script_facts { axiom_scriptnum_roundtrip, axiom_scriptnum_small, axiom_p2wsh_len, axiom_p2wpkh_len }
    }
}
pub struct ScriptIntError { pub opaque: u8 }
pub struct PushBytesError { pub len: usize }
impl core::fmt::Debug for PushBytesError { #[verifier::external_body] fn fmt(&self, f: &mut core::fmt::Formatter<'_>) -> core::fmt::Result { unimplemented!() } }
pub struct PushBytesBuf { pub raw: Vec<u8> }
pub trait PushData { spec fn push_bytes(&self) -> Seq<u8>; }
impl PushData for PushBytesBuf { open spec fn push_bytes(&self) -> Seq<u8> { self.raw@ } }
impl PushData for &[u8] { open spec fn push_bytes(&self) -> Seq<u8> { self@ } }
impl PushBytesBuf {
    // TryFrom<Vec<u8>>: fails only for >= 2^32 bytes
    #[verifier::external_body]
    pub fn try_from(v: Vec<u8>) -> (r: Result<PushBytesBuf, PushBytesError>)
        ensures r is Ok <==> v@.len() < 0x1_0000_0000, r is Ok ==> r->Ok_0.raw@ == v@
    { unimplemented!() }
}
// `<&PushBytes>::try_from(&[u8])`
#[verifier::external_body]
pub fn push_bytes_try_from(v: &[u8]) -> (r: Result<&[u8], PushBytesError>)
    ensures r is Ok <==> v@.len() < 0x1_0000_0000, r is Ok ==> r->Ok_0@ == v@
{ unimplemented!() }

#[verifier::external_body]
pub struct Builder { bytes: Vec<u8> }
impl Builder {
    pub uninterp spec fn view(&self) -> Seq<Push>;
    #[verifier::external_body]
    pub fn new() -> (r: Builder) ensures r@ == Seq::<Push>::empty() { unimplemented!() }
    // script::Builder::push_int: OP_1NEGATE / OP_0 / OP_1..OP_16 for -1, 0..16, otherwise the minimal number as a data push
    #[verifier::external_body]
    pub fn push_int(self, data: i64) -> (r: Builder)
        ensures r@ == self@.push(Push { data: scriptnum_enc(data as int), direct: !(data == -1 || (0 <= data && data <= 16)) }) { unimplemented!() }
    // script::Builder::push_slice: length-prefixed push of exactly these bytes (no OP_n optimisation)
    #[verifier::external_body]
    pub fn push_slice<T: PushData>(self, data: T) -> (r: Builder) ensures r@ == self@.push(Push { data: data.push_bytes(), direct: true }) { unimplemented!() }
    #[verifier::external_body]
    pub fn push_key(self, key: &bitcoin::PublicKey) -> (r: Builder) ensures r@ == self@.push(Push { data: key.ser(), direct: true }) { unimplemented!() }
    #[verifier::external_body]
    pub fn into_script(self) -> (r: ScriptBuf) ensures r.pushes() == self@ { unimplemented!() }
}
pub mod script {
    pub use super::Builder;
    use vstd::prelude::*;
    verus!{
    // script::read_scriptint: Ok exactly on minimal encodings of at most 4 bytes
    #[verifier::external_body]
    pub fn read_scriptint(v: &[u8]) -> (r: Result<i64, super::ScriptIntError>)
        ensures r is Ok <==> super::is_minimal_scriptint(v@), r is Ok ==> r->Ok_0 as int == super::scriptint_value(v@)
    { unimplemented!() }
    }
}

// ---- oracle: serialized sizes -------------------------------------------------------------------------------------------
// CompactSize (serialize.h WriteCompactSize); `varint_len` is proved equal to it by Kani (unit k09_weights, complete)
pub open spec fn spec_varint_len(n: int) -> int { if n < 253 { 1 } else if n <= 0xffff { 3 } else if n <= 0xffff_ffff { 5 } else { 9 } }
#[verifier::external_body]
pub fn varint_len(n: usize) -> (r: usize) ensures r == spec_varint_len(n as int) { unimplemented!() }
// one witness stack element of `len` bytes inside a serialized witness (BIP144): CompactSize(len) + len
pub open spec fn wit_elem_ser(len: int) -> int { spec_varint_len(len) + len }
// one data push of `len` bytes inside a script (CScript::operator<<(vector)): opcode (+ length bytes) + len
pub open spec fn push_ser(len: int) -> int { (if len < 76 { 1int } else if len < 0x100 { 2 } else if len < 0x10000 { 3 } else { 5 }) + len }
pub open spec fn push_len(p: Push) -> int { if p.direct { push_ser(p.data.len() as int) } else { 1 } }
pub open spec fn pushes_len(ps: Seq<Push>) -> int decreases ps.len() { if ps.len() == 0 { 0 } else { pushes_len(ps.drop_last()) + push_len(ps.last()) } }
// BIP62 rule 3 / CheckMinimalPush: the shortest encoding of the element is used
pub open spec fn has_opcode(d: Seq<u8>) -> bool { d.len() == 0 || (d.len() == 1 && (1 <= d[0] <= 16 || d[0] == 0x81)) }
pub open spec fn minimal_push(p: Push) -> bool { if p.data.len() == 0 { true } else { p.direct == !has_opcode(p.data) } }
pub open spec fn all_minimal(ps: Seq<Push>) -> bool { forall|i: int| 0 <= i < ps.len() ==> minimal_push(#[trigger] ps[i]) }
pub open spec fn datas(ps: Seq<Push>) -> Seq<Seq<u8>> { Seq::new(ps.len(), |i: int| ps[i].data) }
pub open spec fn views(w: Seq<Vec<u8>>) -> Seq<Seq<u8>> { Seq::new(w.len(), |i: int| w[i]@) }
pub open spec fn direct_pushes(w: Seq<Seq<u8>>) -> Seq<Push> { Seq::new(w.len(), |i: int| Push { data: w[i], direct: true }) }
"""

KEYS = r"""
// ---- keys ---------------------------------------------------------------------------------------------------------------
pub trait ToPublicKey: MiniscriptKey {
    spec fn spec_to_public_key(&self) -> bitcoin::PublicKey;
    fn to_public_key(&self) -> (r: bitcoin::PublicKey) ensures r == self.spec_to_public_key();
    spec fn spec_to_x_only_pubkey(&self) -> XOnlyPublicKey;
    fn to_x_only_pubkey(&self) -> (r: XOnlyPublicKey) ensures r == self.spec_to_x_only_pubkey();
}
"""

SATISFIER = r"""
// ---- Satisfier: every lookup is an uninterpreted function of its arguments ---------------------------------------------
pub trait Satisfier<Pk: MiniscriptKey + ToPublicKey> {
    spec fn spec_lookup_ecdsa_sig(&self, pk: &Pk) -> Option<bitcoin::ecdsa::Signature>;
    fn lookup_ecdsa_sig(&self, pk: &Pk) -> (r: Option<bitcoin::ecdsa::Signature>) ensures r == self.spec_lookup_ecdsa_sig(pk);
    spec fn spec_lookup_tap_key_spend_sig(&self, pk: &Pk) -> Option<bitcoin::taproot::Signature>;
    fn lookup_tap_key_spend_sig(&self, pk: &Pk) -> (r: Option<bitcoin::taproot::Signature>) ensures r == self.spec_lookup_tap_key_spend_sig(pk);
    spec fn spec_lookup_tap_leaf_script_sig(&self, pk: &Pk, lh: &TapLeafHash) -> Option<bitcoin::taproot::Signature>;
    fn lookup_tap_leaf_script_sig(&self, pk: &Pk, lh: &TapLeafHash) -> (r: Option<bitcoin::taproot::Signature>) ensures r == self.spec_lookup_tap_leaf_script_sig(pk, lh);
    spec fn spec_lookup_raw_pkh_pk(&self, h: &hash160::Hash) -> Option<bitcoin::PublicKey>;
    fn lookup_raw_pkh_pk(&self, h: &hash160::Hash) -> (r: Option<bitcoin::PublicKey>) ensures r == self.spec_lookup_raw_pkh_pk(h);
    spec fn spec_lookup_raw_pkh_x_only_pk(&self, h: &hash160::Hash) -> Option<XOnlyPublicKey>;
    fn lookup_raw_pkh_x_only_pk(&self, h: &hash160::Hash) -> (r: Option<XOnlyPublicKey>) ensures r == self.spec_lookup_raw_pkh_x_only_pk(h);
    spec fn spec_lookup_raw_pkh_ecdsa_sig(&self, h: &hash160::Hash) -> Option<(bitcoin::PublicKey, bitcoin::ecdsa::Signature)>;
    fn lookup_raw_pkh_ecdsa_sig(&self, h: &hash160::Hash) -> (r: Option<(bitcoin::PublicKey, bitcoin::ecdsa::Signature)>) ensures r == self.spec_lookup_raw_pkh_ecdsa_sig(h);
    spec fn spec_lookup_raw_pkh_tap_leaf_script_sig(&self, h: &(hash160::Hash, TapLeafHash)) -> Option<(XOnlyPublicKey, bitcoin::taproot::Signature)>;
    fn lookup_raw_pkh_tap_leaf_script_sig(&self, h: &(hash160::Hash, TapLeafHash)) -> (r: Option<(XOnlyPublicKey, bitcoin::taproot::Signature)>) ensures r == self.spec_lookup_raw_pkh_tap_leaf_script_sig(h);
    spec fn spec_lookup_sha256(&self, h: &Pk::Sha256) -> Option<Preimage32>;
    fn lookup_sha256(&self, h: &Pk::Sha256) -> (r: Option<Preimage32>) ensures r == self.spec_lookup_sha256(h);
    spec fn spec_lookup_hash256(&self, h: &Pk::Hash256) -> Option<Preimage32>;
    fn lookup_hash256(&self, h: &Pk::Hash256) -> (r: Option<Preimage32>) ensures r == self.spec_lookup_hash256(h);
    spec fn spec_lookup_ripemd160(&self, h: &Pk::Ripemd160) -> Option<Preimage32>;
    fn lookup_ripemd160(&self, h: &Pk::Ripemd160) -> (r: Option<Preimage32>) ensures r == self.spec_lookup_ripemd160(h);
    spec fn spec_lookup_hash160(&self, h: &Pk::Hash160) -> Option<Preimage32>;
    fn lookup_hash160(&self, h: &Pk::Hash160) -> (r: Option<Preimage32>) ensures r == self.spec_lookup_hash160(h);
    spec fn spec_check_older(&self, t: relative::LockTime) -> bool;
    fn check_older(&self, t: relative::LockTime) -> (r: bool) ensures r == self.spec_check_older(t);
    spec fn spec_check_after(&self, t: absolute::LockTime) -> bool;
    fn check_after(&self, t: absolute::LockTime) -> (r: bool) ensures r == self.spec_check_after(t);
}
"""

SATISFIER_METHODS = ["lookup_ecdsa_sig", "lookup_tap_key_spend_sig", "lookup_tap_leaf_script_sig", "lookup_raw_pkh_pk", "lookup_raw_pkh_x_only_pk",
                     "lookup_raw_pkh_ecdsa_sig", "lookup_raw_pkh_tap_leaf_script_sig", "lookup_sha256", "lookup_hash256", "lookup_ripemd160",
                     "lookup_hash160", "check_older", "check_after"]


def name_anonymous_params(text):
    """R1-style: `_: T` parameters get names `_p0, _p1, ..` (no runtime meaning)."""
    n = [0]

    def f(m):
        n[0] += 1
        return "_p%d: " % n[0]
    new = re.sub(r"(?<![\w])_: ", f, text)
    return new if n[0] else None


name_anonymous_params.rule = "R1-param-names"


FACTS = "broadcast use {lengths::serialized_lengths, script_axioms::script_facts};"


def prologue(ghost=FACTS):
    """R10: ghost statement inserted as the first statement of the function body."""
    from vlib.verus import split_fn

    @rule("R10")
    def rw(text):
        head, ret, where, body = split_fn(text)
        if not body.startswith("{"):
            return None
        return text[:len(text) - len(body)] + "{\n        " + ghost + body[1:]
    return rw


def lit_ws(name, old, new):
    """Like `lit`, but insensitive to the amount of whitespace (comments are blanked by strip_docs)."""
    pat = r"\s*".join(re.escape(tok) for tok in old.split())
    return sub(name, pat, lambda m: new)


def closure(orig, params, ret, ensures=None, requires=None, destruct=None):
    """R10 / R14: annotate the closure literal `orig` (`|x| body`) with parameter / result types and ghost
    requires / ensures; the body text is kept verbatim.  `destruct`: the original tuple pattern, re-bound by a `let`
    from the single typed parameter (R14)."""
    m = re.match(r"^\|([^|]*)\|\s*(.*)$", orig, flags=re.S)
    body = m.group(2).strip()
    if body.startswith("{") and body.endswith("}"):
        body = body[1:-1].strip()
    pre = ""
    if destruct:
        pre = "let %s = %s; " % (destruct, params.split(":")[0].strip())
    spec = ""
    if requires:
        spec += " requires " + requires
    if ensures:
        spec += " ensures " + ensures
    return "|%s| -> (o: %s)%s { %s%s }" % (params, ret, spec, pre, body)


def emit_base(vf, script_context):
    """_tree prelude (real Terminal / Miniscript / Threshold / Type definitions) + the bitcoin stubs of this unit."""
    _tree.emit(vf, ext="opaque", types="defs", script_context=script_context, terminal=True)
    vf.raw(BITCOIN, keep_vis=True)
    vf.raw(SCRIPT, keep_vis=True)
    vf.raw(KEYS, keep_vis=True)
    vf.trust("mod bitcoin {PublicKey, ecdsa::Signature, taproot::Signature}, XOnlyPublicKey, ControlBlock, TapLeafHash, TapNodeHash, "
             "absolute/relative::LockTime, WitnessVersion, ScriptBuf, PushBytesBuf (stubs)",
             "bitcoin crate types reduced to an opaque value + an uninterpreted serialization `ser()`")
    vf.trust("axiom_pubkey_len / axiom_xonly_len / axiom_ecdsa_sig_len / axiom_schnorr_sig_len / axiom_control_block_len / axiom_p2wsh_len (admit)",
             "lengths fixed by SEC1, BIP340, BIP66 (+ low-S standardness, the library's documented 73-byte assumption), BIP341, BIP141")
    vf.trust("assume_specification [<[T]>::to_vec], [Option::or]", "std: copy of the slice; `a.or(b)` is a if a is Some else b")
    vf.trust("script::Builder (external_body; view = sequence of push instructions), read_scriptint, scriptnum_enc / scriptint_value + "
             "axiom_scriptnum_roundtrip / axiom_scriptnum_small (admit)",
             "rust-bitcoin 0.32 Builder::{push_int, push_slice, push_key, into_script} and read_scriptint as documented; CScriptNum encode/decode "
             "are mutually inverse on minimal encodings (Kani unit k04_pushint covers the number pushes)")
    vf.trust("varint_len (external_body) == CompactSize length", "proved on the real function by Kani, unit k09_weights (c09_varint_len, complete)")
    vf.trust("trait ToPublicKey (spec_to_public_key / spec_to_x_only_pubkey)", "key conversion is a function of the key")
    vf.trust("bitcoin::PublicKey { compressed, inner: SecpPublicKey } with ser() (as written: 33 / 65 bytes) and inner.serialize() == ser33() (always compressed); axiom_pubkey_ser (admit)",
             "rust-bitcoin / secp256k1 documentation: PublicKey::to_bytes honours the compressed flag, secp256k1::PublicKey::serialize is always the 33-byte form; present so that a satisfier that reveals `inner.serialize()` is judged")


SCRIPT_CONTEXT = r"""
trait ScriptContext: Sized {
    spec fn spec_pk_len<Pk: MiniscriptKey>(pk: &Pk) -> usize;
    fn pk_len<Pk: MiniscriptKey>(pk: &Pk) -> (r: usize) ensures r == Self::spec_pk_len(pk);
}
"""
CTX_IMPL = """
uninterp spec fn %(l)s_pk_len<Pk: MiniscriptKey>(pk: &Pk) -> usize;
impl ScriptContext for %(c)s {
    spec fn spec_pk_len<Pk: MiniscriptKey>(pk: &Pk) -> usize { %(l)s_pk_len(pk) }
    #[verifier::external_body] fn pk_len<Pk: MiniscriptKey>(pk: &Pk) -> usize { unimplemented!() }
}
"""


# ======================================================================================================================
# 1. blanket impl
# ======================================================================================================================
BLANKET = "impl:AssetProvider<Pk> for T"
SIG_T = "bitcoin::taproot::Signature"


def blanket_impl(vf):
    P = ("C17", "C11")
    vf.raw(SATISFIER, keep_vis=True)
    vf.trust("trait Satisfier (spec_lookup_* / spec_check_*)", "a satisfier's answers are modelled as uninterpreted FUNCTIONS of the query "
             "(a satisfier whose answers change between planning and completion is outside the model)")
    vf.item(PLAN, "trait:AssetProvider", rewrites=[name_anonymous_params])
    size_of = closure("|s| s.to_vec().len()", "s: %s" % SIG_T, "usize", ensures="o == s.ser().len()")
    with vf.block("impl<T, Pk> AssetProvider<Pk> for T where T: Satisfier<Pk>, Pk: MiniscriptKey + ToPublicKey,"):
        def m(name, clauses, rewrites=()):
            vf.fn(PLAN, BLANKET + "/fn:" + name, qual="<T as AssetProvider>", props=P, contract=Contract(ensures=clauses), rewrites=list(rewrites))
        m("provider_lookup_ecdsa_sig", [Clause("available_iff_lookup_is_some", ("C17",), "r == (self.spec_lookup_ecdsa_sig(pk) is Some)")])
        m("provider_lookup_tap_key_spend_sig", [
            Clause("available_iff_lookup_is_some", ("C17",), "r is Some <==> self.spec_lookup_tap_key_spend_sig(pk) is Some"),
            Clause("announced_size_is_the_signature_length", ("C17", "C09"), "r is Some ==> r->Some_0 == self.spec_lookup_tap_key_spend_sig(pk)->Some_0.ser().len()")],
          [lit("R10", "|s| s.to_vec().len()", size_of)])
        m("provider_lookup_tap_leaf_script_sig", [
            Clause("available_iff_lookup_is_some", ("C17",), "r is Some <==> self.spec_lookup_tap_leaf_script_sig(pk, leaf_hash) is Some"),
            Clause("announced_size_is_the_signature_length", ("C17", "C09"), "r is Some ==> r->Some_0 == self.spec_lookup_tap_leaf_script_sig(pk, leaf_hash)->Some_0.ser().len()")],
          [lit("R10", "|s| s.to_vec().len()", size_of)])
        m("provider_lookup_raw_pkh_pk", [Clause("forwarded", ("C17",), "r == self.spec_lookup_raw_pkh_pk(hash)")])
        m("provider_lookup_raw_pkh_x_only_pk", [Clause("forwarded", ("C17",), "r == self.spec_lookup_raw_pkh_x_only_pk(hash)")])
        m("provider_lookup_raw_pkh_ecdsa_sig", [
            Clause("available_iff_lookup_is_some", ("C17",), "r is Some <==> self.spec_lookup_raw_pkh_ecdsa_sig(hash) is Some"),
            Clause("is_the_key_of_the_found_pair", ("C17",), "r is Some ==> r->Some_0 == self.spec_lookup_raw_pkh_ecdsa_sig(hash)->Some_0.0")],
          [lit("R14", "|(pk, _)| pk", closure("|(pk, _)| pk", "p: (bitcoin::PublicKey, bitcoin::ecdsa::Signature)", "bitcoin::PublicKey",
                                              ensures="o == p.0", destruct="(pk, _)"))])
        m("provider_lookup_raw_pkh_tap_leaf_script_sig", [
            Clause("available_iff_lookup_is_some", ("C17",), "r is Some <==> self.spec_lookup_raw_pkh_tap_leaf_script_sig(hash) is Some"),
            Clause("key_and_signature_length_of_the_found_pair", ("C17", "C09"),
                   "r is Some ==> r->Some_0.0 == self.spec_lookup_raw_pkh_tap_leaf_script_sig(hash)->Some_0.0 && "
                   "r->Some_0.1 == self.spec_lookup_raw_pkh_tap_leaf_script_sig(hash)->Some_0.1.ser().len()")],
          [lit("R14", "|(pk, sig)| (pk, sig.to_vec().len())",
               closure("|(pk, sig)| (pk, sig.to_vec().len())", "p: (XOnlyPublicKey, %s)" % SIG_T, "(XOnlyPublicKey, usize)",
                       ensures="o.0 == p.0 && o.1 == p.1.ser().len()", destruct="(pk, sig)"))])
        for h in ("sha256", "hash256", "ripemd160", "hash160"):
            m("provider_lookup_" + h, [Clause("available_iff_lookup_is_some", ("C17",), "r == (self.spec_lookup_%s(hash) is Some)" % h)])
        m("check_older", [Clause("forwarded_unchanged", ("C17",), "r == self.spec_check_older(s)")])
        m("check_after", [Clause("forwarded_unchanged", ("C17",), "r == self.spec_check_after(l)")])



# ======================================================================================================================
# 2. placeholders: completion (C01) and announced sizes (C09)
# ======================================================================================================================
PLACEHOLDER_SPEC = r"""
pub open spec fn opt_bytes(o: Option<Vec<u8>>) -> Option<Seq<u8>> { match o { Some(v) => Some(v@), None => None } }
pub open spec fn opt_ecdsa(o: Option<bitcoin::ecdsa::Signature>) -> Option<Seq<u8>> { match o { Some(s) => Some(s.ser()), None => None } }
pub open spec fn opt_schnorr(o: Option<bitcoin::taproot::Signature>) -> Option<Seq<u8>> { match o { Some(s) => Some(s.ser()), None => None } }
pub open spec fn opt_preimage(o: Option<Preimage32>) -> Option<Seq<u8>> { match o { Some(a) => Some(a@), None => None } }
pub open spec fn zeros32() -> Seq<u8> { Seq::new(32, |i: int| 0u8) }
// the key a satisfier holds for a raw key hash (pkh -> pk map first, then the key stored next to a signature)
pub open spec fn key_for_hash<Pk: MiniscriptKey + ToPublicKey, Sat: Satisfier<Pk>>(sat: &Sat, pkh: hash160::Hash) -> Option<bitcoin::PublicKey> {
    if sat.spec_lookup_raw_pkh_pk(&pkh) is Some { sat.spec_lookup_raw_pkh_pk(&pkh) }
    else if sat.spec_lookup_raw_pkh_ecdsa_sig(&pkh) is Some { Some(sat.spec_lookup_raw_pkh_ecdsa_sig(&pkh)->Some_0.0) }
    else { None }
}
// ORACLE (the placeholder's own documentation, satisfy/mod.rs `enum Placeholder`): what each placeholder stands for.
//   Pubkey(pk, size): the key itself, in the serialization whose push is `size` bytes long (x-only keys: 1 + 32)
pub open spec fn spec_complete<Pk: MiniscriptKey + ToPublicKey, Sat: Satisfier<Pk>>(p: Placeholder<Pk>, sat: &Sat) -> Option<Seq<u8>> {
    match p {
        Placeholder::Pubkey(pk, size) => Some(if size == 33 { pk.spec_to_x_only_pubkey().ser() } else { pk.spec_to_public_key().ser() }),
        Placeholder::PubkeyHash(pkh, _) => match key_for_hash(sat, pkh) { Some(k) => Some(k.ser()), None => None },
        Placeholder::EcdsaSigPk(pk) => opt_ecdsa(sat.spec_lookup_ecdsa_sig(&pk)),
        Placeholder::EcdsaSigPkHash(pkh) => match sat.spec_lookup_raw_pkh_ecdsa_sig(&pkh) { Some(ks) => Some(ks.1.ser()), None => None },
        Placeholder::SchnorrSigPk(pk, SchnorrSigType::ScriptSpend { leaf_hash }, _) => opt_schnorr(sat.spec_lookup_tap_leaf_script_sig(&pk, &leaf_hash)),
        Placeholder::SchnorrSigPk(pk, SchnorrSigType::KeySpend { .. }, _) => opt_schnorr(sat.spec_lookup_tap_key_spend_sig(&pk)),
        Placeholder::SchnorrSigPkHash(pkh, lh, _) => match sat.spec_lookup_raw_pkh_tap_leaf_script_sig(&(pkh, lh)) { Some(ks) => Some(ks.1.ser()), None => None },
        Placeholder::Sha256Preimage(h) => opt_preimage(sat.spec_lookup_sha256(&h)),
        Placeholder::Hash256Preimage(h) => opt_preimage(sat.spec_lookup_hash256(&h)),
        Placeholder::Ripemd160Preimage(h) => opt_preimage(sat.spec_lookup_ripemd160(&h)),
        Placeholder::Hash160Preimage(h) => opt_preimage(sat.spec_lookup_hash160(&h)),
        Placeholder::HashDissatisfaction => Some(zeros32()),
        Placeholder::PushOne => Some(seq![1u8]),
        Placeholder::PushZero => Some(Seq::<u8>::empty()),
        Placeholder::TapScript(s) => Some(s.bytes()),
        Placeholder::TapControlBlock(cb) => Some(cb.ser()),
    }
}
// What the `debug_assert!`s of satisfy_self state: the sizes a placeholder ANNOUNCES (fixed at planning time) are the
// sizes of the data found at completion time.  Helper precondition; true when plan and completion use the same satisfier
// (blanket impl above: announced size == length of the signature held).
pub open spec fn sizes_hold<Pk: MiniscriptKey + ToPublicKey, Sat: Satisfier<Pk>>(p: Placeholder<Pk>, sat: &Sat) -> bool {
    match p {
        Placeholder::Pubkey(pk, size) => size == 33 || size == 1 + pk.spec_to_public_key().ser().len(),
        Placeholder::PubkeyHash(pkh, size) => key_for_hash(sat, pkh) is Some ==> size == 1 + key_for_hash(sat, pkh)->Some_0.ser().len(),
        Placeholder::SchnorrSigPk(_, _, size) => spec_complete(p, sat) is Some ==> size == spec_complete(p, sat)->Some_0.len(),
        Placeholder::SchnorrSigPkHash(_, _, size) => spec_complete(p, sat) is Some ==> size == spec_complete(p, sat)->Some_0.len(),
        _ => true,
    }
}
// ORACLE: the longest datum a placeholder can complete to (from the encodings; see the header of the bitcoin stubs)
pub open spec fn max_len<Pk: MiniscriptKey>(p: Placeholder<Pk>) -> int {
    match p {
        Placeholder::Pubkey(_, size) => size - 1,
        Placeholder::PubkeyHash(_, size) => size - 1,
        Placeholder::EcdsaSigPk(_) | Placeholder::EcdsaSigPkHash(_) => 72,
        Placeholder::SchnorrSigPk(_, _, size) => size as int,
        Placeholder::SchnorrSigPkHash(_, _, size) => size as int,
        Placeholder::Sha256Preimage(_) | Placeholder::Hash256Preimage(_) | Placeholder::Ripemd160Preimage(_) | Placeholder::Hash160Preimage(_) => 32,
        Placeholder::HashDissatisfaction => 32,
        Placeholder::PushOne => 1,
        Placeholder::PushZero => 0,
        Placeholder::TapScript(s) => s.bytes().len() as int,
        Placeholder::TapControlBlock(cb) => cb.ser().len() as int,
    }
}
pub open spec fn is_tap_item<Pk: MiniscriptKey>(p: Placeholder<Pk>) -> bool { p is TapScript || p is TapControlBlock }
// domain of the size arithmetic: announced key pushes (33 / 34 / 66 in a template built by the library) and signature
// sizes (64 / 65) lie in the range of the one-byte push opcodes / one-byte CompactSize; a leaf script is below the 4 MB
// block limit and a witness has at most 1000 elements (consensus stack limit), so the sums fit into 32 bits
pub open spec fn placeholder_small<Pk: MiniscriptKey>(p: Placeholder<Pk>) -> bool {
    match p {
        Placeholder::Pubkey(_, size) => 1 <= size <= 76,
        Placeholder::PubkeyHash(_, size) => 1 <= size <= 76,
        Placeholder::SchnorrSigPk(_, _, size) => size <= 75,
        Placeholder::SchnorrSigPkHash(_, _, size) => size <= 75,
        Placeholder::TapScript(s) => s.bytes().len() <= 0x40_0000,
        _ => true,
    }
}
pub open spec fn all_small<Pk: MiniscriptKey>(t: Seq<Placeholder<Pk>>) -> bool { t.len() <= 1000 && forall|i: int| 0 <= i < t.len() ==> placeholder_small(#[trigger] t[i]) }
// serialized size of the elements of a template inside a witness / as direct pushes inside a scriptSig
pub open spec fn sum_wit<Pk: MiniscriptKey>(t: Seq<Placeholder<Pk>>) -> int decreases t.len() {
    if t.len() == 0 { 0 } else { sum_wit(t.drop_last()) + wit_elem_ser(max_len(t.last())) }
}
pub open spec fn sum_push<Pk: MiniscriptKey>(t: Seq<Placeholder<Pk>>) -> int decreases t.len() {
    if t.len() == 0 { 0 } else { sum_push(t.drop_last()) + (if is_tap_item(t.last()) { 0 } else { push_ser(max_len(t.last())) }) }
}
"""


def annotate_satisfy_self():
    """R10 / R14 closure annotations of Placeholder::satisfy_self (every closure body verbatim)."""
    E, T, PK = "bitcoin::ecdsa::Signature", "bitcoin::taproot::Signature", "bitcoin::PublicKey"
    def c(orig, *a, **k):
        return orig, closure(orig, *a, **k)
    pkh_body = """|pk| {
                    let pk = pk.to_bytes();
                    debug_assert!(1 + pk.len() == *size);
                    pk
                }"""
    schnorr_body = """|s| {
                    debug_assert!(s.len() == *size);
                    s
                }"""
    pkh_sig_body = """|(_, s)| {
                    let sig = s.to_vec();
                    debug_assert!(sig.len() == *size);
                    sig
                }"""
    out = []
    # PubkeyHash arm
    o, n = c("|p| p.to_public_key()", "p: %s" % PK, PK, ensures="o == p")
    out.append(lit("R10", ".map(%s)" % o, ".map(%s)" % n))
    o, n = c("|(p, _)| p", "q: (%s, %s)" % (PK, E), PK, ensures="o == q.0", destruct="(p, _)")
    out.append(lit("R14", ".map(%s)" % o, ".map(%s)" % n))
    o, n = c(pkh_body, "pk: %s" % PK, "Vec<u8>", requires="1 + pk.ser().len() == *size", ensures="o@ == pk.ser()")
    out.append(lit_ws("R10", ".map(%s)" % o, ".map(%s)" % n))
    # preimages
    for h in ("hash256", "sha256", "hash160", "ripemd160"):
        o, n = c("|p| p.to_vec()", "p: Preimage32", "Vec<u8>", ensures="o@ == p@")
        out.append(lit("R10", "sat.lookup_%s(h).map(%s)" % (h, o), "sat.lookup_%s(h).map(%s)" % (h, n)))
    # signatures
    o, n = c("|s| s.to_vec()", "s: %s" % E, "Vec<u8>", ensures="o@ == s.ser()")
    out.append(lit("R10", "sat.lookup_ecdsa_sig(pk).map(%s)" % o, "sat.lookup_ecdsa_sig(pk).map(%s)" % n))
    o, n = c("|(_, s)| s.to_vec()", "q: (%s, %s)" % (PK, E), "Vec<u8>", ensures="o@ == q.1.ser()", destruct="(_, s)")
    out.append(lit("R14", "sat.lookup_raw_pkh_ecdsa_sig(pkh).map(%s)" % o, "sat.lookup_raw_pkh_ecdsa_sig(pkh).map(%s)" % n))
    o, n = c("|s| s.to_vec()", "s: %s" % T, "Vec<u8>", ensures="o@ == s.ser()")
    out.append(sub("R10", r"(\.lookup_tap_leaf_script_sig\(pk, leaf_hash\)\s*)\.map\(\|s\| s\.to_vec\(\)\)", lambda m, n=n: m.group(1) + ".map(%s)" % n))
    out.append(sub("R10", r"(\.lookup_tap_key_spend_sig\(pk\)\s*)\.map\(\|s\| s\.to_vec\(\)\)", lambda m, n=n: m.group(1) + ".map(%s)" % n))
    o, n = c(schnorr_body, "s: Vec<u8>", "Vec<u8>", requires="s@.len() == *size", ensures="o@ == s@")
    out.append(lit_ws("R10", ".map(%s)" % o, ".map(%s)" % n))
    o, n = c(pkh_sig_body, "q: (XOnlyPublicKey, %s)" % T, "Vec<u8>", requires="q.1.ser().len() == *size", ensures="o@ == q.1.ser()", destruct="(_, s)")
    out.append(lit_ws("R14", ".map(%s)" % o, ".map(%s)" % n))
    return out


VARIANTS = ["Pubkey", "PubkeyHash", "EcdsaSigPk", "EcdsaSigPkHash", "SchnorrSigPk", "SchnorrSigPkHash", "Sha256Preimage", "Hash256Preimage",
            "Ripemd160Preimage", "Hash160Preimage", "HashDissatisfaction", "PushOne", "PushZero", "TapScript", "TapControlBlock"]


def satisfy_self_contract():
    cl = [Clause(v + ".completes_to_the_datum_it_names", ("C01", "C17"), "*self is %s ==> opt_bytes(r) == spec_complete(*self, sat)" % v) for v in VARIANTS]
    cl.append(Clause("Pubkey.length_is_the_announced_one", ("C01", "C09"), "*self matches Placeholder::Pubkey(pk, size) ==> r is Some && r->Some_0@.len() + 1 == size"))
    cl.append(Clause("never_longer_than_the_encoding_allows", ("C09",), "r is Some ==> r->Some_0@.len() <= max_len(*self)"))
    return Contract(requires=["sizes_hold(*self, sat)"], ensures=cl)


def size_clauses():
    cl = []
    groups = [("key", "*self is Pubkey || *self is PubkeyHash"), ("ecdsa_sig", "*self is EcdsaSigPk || *self is EcdsaSigPkHash"),
              ("schnorr_sig", "*self is SchnorrSigPk || *self is SchnorrSigPkHash"),
              ("hash_preimage", "*self is Sha256Preimage || *self is Hash256Preimage || *self is Ripemd160Preimage || *self is Hash160Preimage || *self is HashDissatisfaction"),
              ("push_one", "*self is PushOne"), ("push_zero", "*self is PushZero"), ("tap_script", "*self is TapScript"), ("control_block", "*self is TapControlBlock")]
    for name, cond in groups:
        cl.append(Clause(name + ".covers_the_witness_element", ("C09",), "(%s) ==> r >= wit_elem_ser(max_len(*self))" % cond))
        if not name.startswith(("tap_", "control_")):
            cl.append(Clause(name + ".covers_the_scriptsig_push", ("C09",), "(%s) ==> r >= push_ser(max_len(*self))" % cond))
    cl.append(Clause("bounded", ("C11",), "r <= 0x40_0005"))
    return cl


def placeholders(vf):
    vf.item(SAT, "enum:SchnorrSigType", rewrites=[DERIVE_TRIM])
    vf.item(SAT, "enum:Placeholder", rewrites=[DERIVE_TRIM])
    vf.item(SAT, "enum:Witness", rewrites=[DERIVE_TRIM])
    vf.item(SAT, "struct:Satisfaction", rewrites=[DERIVE_TRIM])
    vf.raw("mod satisfy { pub(crate) use super::{Witness, Satisfaction, Placeholder, SchnorrSigType}; }", keep_vis=True)
    vf.raw(PLACEHOLDER_SPEC)
    with vf.block("impl bitcoin::PublicKey"):
        # `impl ToPublicKey for bitcoin::PublicKey` (src/lib.rs), the one method satisfy_self calls, as an inherent method
        vf.fn(LIB, "impl:ToPublicKey for bitcoin::PublicKey/fn:to_public_key", qual="bitcoin::PublicKey", props=("C11",),
              contract=Contract(ensures=[Clause("identity", ("C01",), "r == *self")]))
    with vf.block("impl<Pk: MiniscriptKey + ToPublicKey> Placeholder<Pk>"):
        vf.fn(SAT, "impl:Placeholder<Pk>/fn:satisfy_self", qual="Placeholder", props=("C01", "C09", "C17", "C11"),
              contract=satisfy_self_contract(), rewrites=annotate_satisfy_self() + [prologue()])
    with vf.block("impl<Pk: MiniscriptKey> Placeholder<Pk>"):
        vf.fn(UTIL, "impl:ItemSize for Placeholder<Pk>/fn:size", qual="Placeholder", props=("C09", "C11"),
              contract=Contract(requires=["placeholder_small(*self)"], ensures=size_clauses()), rewrites=[prologue()])



# ======================================================================================================================
# 3. descriptor scripts (shared with c01_wrappers), util::witness_size, Plan, Descriptor::into_plan
# ======================================================================================================================
DESC_SPEC = r"""
pub type PushBytes = [u8];
#[derive(Debug)]
pub enum Error { CouldNotSatisfy, MissingSig(bitcoin::PublicKey), TrNoScriptCode, Other(u8) }
impl core::fmt::Debug for bitcoin::PublicKey { #[verifier::external_body] fn fmt(&self, f: &mut core::fmt::Formatter<'_>) -> core::fmt::Result { unimplemented!() } }

// ---- scripts of the descriptor layer: the encoders are other units' (C04 / C16); here uninterpreted functions ------------
pub uninterp spec fn spec_encode<Pk: MiniscriptKey, Ctx: ScriptContext>(ms: Miniscript<Pk, Ctx>) -> Seq<u8>;
impl<Pk: MiniscriptKey + ToPublicKey, Ctx: ScriptContext> Miniscript<Pk, Ctx> {
    #[verifier::external_body]
    pub fn encode(&self) -> (r: ScriptBuf) ensures r.bytes() == spec_encode(*self) { unimplemented!() }
}
impl<Pk: MiniscriptKey + ToPublicKey> Bare<Pk> {
    #[verifier::external_body]
    pub fn script_pubkey(&self) -> (r: ScriptBuf) ensures r.bytes() == spec_encode(self.ms) { unimplemented!() }
}
impl<Pk: MiniscriptKey + ToPublicKey> Pkh<Pk> {
    #[verifier::external_body]
    pub fn script_pubkey(&self) -> (r: ScriptBuf) ensures r.bytes() == spec_p2pkh(self.pk.spec_to_public_key()) { unimplemented!() }
}
impl<Pk: MiniscriptKey + ToPublicKey> Wpkh<Pk> {
    #[verifier::external_body]
    pub fn script_pubkey(&self) -> (r: ScriptBuf) ensures r.bytes() == spec_p2wpkh(self.pk.spec_to_public_key()) { unimplemented!() }
}

// ---- ORACLE: the standard input layout of each output type ---------------------------------------------------------------
// BIP141: the script committed to by a P2WSH program (native or nested in P2SH) is revealed as the LAST witness element
pub open spec fn witness_script_of<Pk: MiniscriptKey>(d: Descriptor<Pk>) -> Option<Seq<u8>> {
    match d {
        Descriptor::Wsh(w) => Some(spec_encode(w.ms)),
        Descriptor::Sh(sh) => match sh.inner { ShInner::Wsh(w) => Some(spec_encode(w.ms)), _ => None },
        _ => None,
    }
}
pub open spec fn is_segwit<Pk: MiniscriptKey>(d: Descriptor<Pk>) -> bool {
    match d { Descriptor::Wpkh(_) | Descriptor::Wsh(_) | Descriptor::Tr(_) => true, Descriptor::Sh(sh) => !(sh.inner is Ms), _ => false }
}
// witness stack, given the inputs `w` of the (mini)script in push order
pub open spec fn expected_witness<Pk: MiniscriptKey>(d: Descriptor<Pk>, w: Seq<Seq<u8>>) -> Seq<Seq<u8>> {
    if !is_segwit(d) { Seq::empty() } else { match witness_script_of(d) { Some(ws) => w.push(ws), None => w } }
}
// the stack elements pushed by the scriptSig: legacy: the inputs, then (BIP16) the serialized redeem script;
// native segwit / taproot: nothing; P2SH-nested segwit: exactly the witness program
pub open spec fn expected_scriptsig<Pk: MiniscriptKey + ToPublicKey>(d: Descriptor<Pk>, w: Seq<Seq<u8>>) -> Seq<Seq<u8>> {
    match d {
        Descriptor::Bare(_) | Descriptor::Pkh(_) => w,
        Descriptor::Sh(sh) => match sh.inner {
            ShInner::Ms(m) => w.push(spec_encode(m)),
            ShInner::Wpkh(p) => seq![spec_p2wpkh(p.pk.spec_to_public_key())],
            ShInner::Wsh(x) => seq![spec_p2wsh(spec_encode(x.ms))],
        },
        _ => Seq::empty(),
    }
}
"""

SUM_SIZES_STUB = r"""
// R9 stub for `wit.iter().map(T::size).sum::<usize>()` at T = Placeholder<Pk>: the sum of `size()` over the slice.  Its
// contract folds in the per-item contract of `Placeholder::size` verified above (size(p) >= serialized length of the longest
// completion of p, as a witness element and -- tap items aside -- as a scriptSig push; size(p) <= 4 MB + 5).
#[verifier::external_body]
fn sum_sizes<Pk: MiniscriptKey>(wit: &[Placeholder<Pk>]) -> (r: usize)
    requires all_small(wit@),
    ensures r >= sum_wit(wit@), r >= sum_push(wit@), r <= wit@.len() * 0x40_0005,
{ unimplemented!() }

"""

COMPLETED_SPEC = r"""
pub open spec fn completed<Pk: MiniscriptKey + ToPublicKey, Sat: Satisfier<Pk>>(t: Seq<Placeholder<Pk>>, sat: &Sat) -> Seq<Seq<u8>> {
    Seq::new(t.len(), |i: int| spec_complete(t[i], sat)->Some_0)
}
pub open spec fn all_complete<Pk: MiniscriptKey + ToPublicKey, Sat: Satisfier<Pk>>(t: Seq<Placeholder<Pk>>, sat: &Sat) -> bool {
    forall|i: int| 0 <= i < t.len() ==> spec_complete(#[trigger] t[i], sat) is Some
}
"""

PLAN_BOUNDS_SPEC = r"""
// ---- ORACLE: serialized sizes of the input a plan leads to (BIP144; txin scriptSig = CompactSize(len) + bytes) ------------
pub open spec fn plan_witness_bound<Pk: MiniscriptKey>(d: Descriptor<Pk>, t: Seq<Placeholder<Pk>>) -> int {
    if !is_segwit(d) { 0 } else {
        match witness_script_of(d) {
            Some(ws) => spec_varint_len(t.len() as int + 1) + sum_wit(t) + wit_elem_ser(ws.len() as int),
            None => spec_varint_len(t.len() as int) + sum_wit(t),
        }
    }
}
pub open spec fn plan_scriptsig_len<Pk: MiniscriptKey + ToPublicKey>(d: Descriptor<Pk>, t: Seq<Placeholder<Pk>>) -> int {
    match d {
        Descriptor::Bare(_) | Descriptor::Pkh(_) => sum_push(t),
        Descriptor::Sh(sh) => match sh.inner {
            ShInner::Ms(m) => sum_push(t) + push_ser(spec_encode(m).len() as int),
            ShInner::Wpkh(_) => push_ser(22),
            ShInner::Wsh(_) => push_ser(34),
        },
        _ => 0,
    }
}
pub open spec fn scriptsig_ser(len: int) -> int { spec_varint_len(len) + len }

"""

STD_ITER = r"""
// ---- std iterator pipelines (R4) ----------------------------------------------------------------------------------------------
// xs.iter().map(f).collect::<Option<Vec<_>>>(): Some(all results, in order) iff every call returns Some
#[verifier::external_body]
fn slice_iter_map_collect_option<T, F: FnMut(&T) -> Option<Vec<u8>>>(v: &Vec<T>, f: F, Ghost(g): Ghost<spec_fn(T) -> Option<Seq<u8>>>) -> (r: Option<Vec<Vec<u8>>>)
    requires forall|i: int| 0 <= i < v@.len() ==> call_requires(f, (&#[trigger] v@[i],)),
             forall|x: &T, o: Option<Vec<u8>>| call_ensures(f, (x,), o) ==> opt_bytes(o) == g(*x),
    ensures r is Some <==> (forall|i: int| 0 <= i < v@.len() ==> g(#[trigger] v@[i]) is Some),
            r is Some ==> r->Some_0@.len() == v@.len() && (forall|i: int| 0 <= i < v@.len() ==> (#[trigger] r->Some_0@[i])@ == g(v@[i])->Some_0),
{ unimplemented!() }
// xs.into_iter().fold(init, f) for a step that appends exactly one push: the pushes of all elements, in order (theorem about
// fold, by induction on xs)
#[verifier::external_body]
fn vec_into_iter_fold<F: FnMut(Builder, Vec<u8>) -> Builder>(v: Vec<Vec<u8>>, init: Builder, f: F, Ghost(g): Ghost<spec_fn(Seq<u8>) -> Push>) -> (r: Builder)
    requires forall|b: Builder, i: int| 0 <= i < v@.len() ==> #[trigger] call_requires(f, (b, v@[i])),
             forall|b: Builder, x: Vec<u8>, o: Builder| call_ensures(f, (b, x), o) ==> o@ == b@.push(g(x@)),
    ensures r@ == init@ + Seq::new(v@.len(), |i: int| g(v@[i]@)),
{ unimplemented!() }
#[verifier::external_body]
fn abs_into(t: AbsLockTime) -> (r: absolute::LockTime) ensures r.0 == t.consensus() { unimplemented!() }
#[verifier::external_body]
fn rel_into(t: RelLockTime) -> (r: relative::LockTime) ensures r.0 == t.consensus() { unimplemented!() }
"""


STYPE = {"Bare": "*self is Bare", "Pkh": "*self is Pkh", "Wpkh": "*self is Wpkh", "Wsh": "*self is Wsh", "Tr": "*self is Tr",
         "Sh": "(*self matches Descriptor::Sh(sh) && sh.inner is Ms)", "ShWsh": "(*self matches Descriptor::Sh(sh) && sh.inner is Wsh)",
         "ShWpkh": "(*self matches Descriptor::Sh(sh) && sh.inner is Wpkh)"}


def dkind(expr, k):
    """spec condition: descriptor `expr` is of kind k"""
    if k in ("Bare", "Pkh", "Wpkh", "Wsh", "Tr"):
        return "%s is %s" % (expr, k)
    inner = {"Sh": "Ms", "ShWsh": "Wsh", "ShWpkh": "Wpkh"}[k]
    return "(%s is Sh && %s->Sh_0.inner is %s)" % (expr, expr, inner)


def unsigned_script_sig_contracts():
    sh = Contract(ensures=[
        Clause("nested_p2wsh_pushes_the_witness_program", ("C01",), "self.inner matches ShInner::Wsh(w) ==> r.pushes() == seq![Push { data: spec_p2wsh(spec_encode(w.ms)), direct: true }]"),
        Clause("nested_p2wpkh_pushes_the_witness_program", ("C01",), "self.inner matches ShInner::Wpkh(w) ==> r.pushes() == seq![Push { data: spec_p2wpkh(w.pk.spec_to_public_key()), direct: true }]"),
        Clause("legacy_p2sh_is_empty_before_signing", ("C01",), "self.inner is Ms ==> r.pushes() == Seq::<Push>::empty() && r.bytes() == Seq::<u8>::empty()")])
    d = Contract(ensures=[
        Clause("only_nested_segwit_has_one", ("C01",), "!(*self is Sh) ==> r.pushes() == Seq::<Push>::empty() && r.bytes() == Seq::<u8>::empty()"),
        Clause("sh_delegates", ("C01",), "*self matches Descriptor::Sh(sh) ==> datas(r.pushes()) == (if sh.inner is Ms { Seq::<Seq<u8>>::empty() } else { expected_scriptsig(*self, Seq::empty()) }) "
               "&& (forall|i: int| 0 <= i < r.pushes().len() ==> (#[trigger] r.pushes()[i]).direct) && (sh.inner is Ms ==> r.bytes() == Seq::<u8>::empty())")])
    return sh, d


def descriptor_scripts(vf, assumed=False):
    """Descriptor::{desc_type, explicit_script, unsigned_script_sig}, DescriptorType::segwit_version, Wsh/Sh::inner_script, Sh::unsigned_script_sig.
    Verified in c17_plan, consumed (assumed=True, same contract text) by c01_wrappers."""
    repo = vf.repo
    P = ("C01", "C11")
    PB = lit("R7", "<&PushBytes>::try_from(", "push_bytes_try_from(")
    with vf.block("impl<Pk: MiniscriptKey + ToPublicKey> Wsh<Pk>"):
        vf.fn(SEGWIT, "impl:Wsh<Pk>#1/fn:inner_script", qual="Wsh", props=P, assumed=assumed,
              contract=Contract(ensures=[Clause("is_the_encoded_miniscript", ("C01",), "r.bytes() == spec_encode(self.ms)")]))
    sh_c, d_c = unsigned_script_sig_contracts()
    with vf.block("impl<Pk: MiniscriptKey + ToPublicKey> Sh<Pk>"):
        vf.fn(SH, C20.impl_with_fn(repo, SH, "Sh<Pk>", "inner_script"), qual="Sh", props=P, assumed=assumed, contract=Contract(ensures=[
            Clause("Wsh", ("C01",), "self.inner matches ShInner::Wsh(w) ==> r.bytes() == spec_encode(w.ms)"),
            Clause("Wpkh", ("C01",), "self.inner matches ShInner::Wpkh(w) ==> r.bytes() == spec_p2wpkh(w.pk.spec_to_public_key())"),
            Clause("Ms", ("C01",), "self.inner matches ShInner::Ms(m) ==> r.bytes() == spec_encode(m)")]))
        vf.fn(SH, C20.impl_with_fn(repo, SH, "Sh<Pk>", "unsigned_script_sig"), qual="Sh", props=P, assumed=assumed, contract=sh_c,
              rewrites=[PB, prologue()])
    with vf.block("impl DescriptorType"):
        vf.fn(DESC, "impl:DescriptorType/fn:segwit_version", qual="DescriptorType", props=P, assumed=assumed, contract=Contract(ensures=[
            Clause("taproot_is_v1", ("C01",), "*self is Tr ==> r == Some(WitnessVersion::V1)"),
            Clause("segwit_v0_native_or_nested", ("C01",), "*self is Wpkh || *self is ShWpkh || *self is Wsh || *self is ShWsh ==> r == Some(WitnessVersion::V0)"),
            Clause("legacy_has_none", ("C01",), "*self is Bare || *self is Sh || *self is Pkh ==> r is None")]))
    with vf.block("impl<Pk: MiniscriptKey> Descriptor<Pk>"):
        vf.fn(DESC, C20.impl_with_fn(repo, DESC, "Descriptor<Pk>", "desc_type"), qual="Descriptor", props=P, assumed=assumed, contract=Contract(ensures=[
            Clause(k, ("C01",), "%s <==> r is %s" % (STYPE[k], k)) for k in ("Bare", "Pkh", "Wpkh", "Wsh", "Tr", "Sh", "ShWsh", "ShWpkh")]))
    with vf.block("impl<Pk: MiniscriptKey + ToPublicKey> Descriptor<Pk>"):
        vf.fn(DESC, C20.impl_with_fn(repo, DESC, "Descriptor<Pk>", "unsigned_script_sig"), qual="Descriptor", props=P, assumed=assumed, contract=d_c)
        vf.fn(DESC, C20.impl_with_fn(repo, DESC, "Descriptor<Pk>", "explicit_script"), qual="Descriptor", props=P, assumed=assumed, contract=Contract(ensures=[
            Clause("taproot_has_none", ("C01",), "r is Err <==> *self is Tr"),
            Clause("witness_script", ("C01",), "witness_script_of(*self) matches Some(ws) ==> r is Ok && r->Ok_0.bytes() == ws"),
            Clause("redeem_script", ("C01",), "*self matches Descriptor::Sh(sh) ==> sh.inner matches ShInner::Ms(m) ==> r is Ok && r->Ok_0.bytes() == spec_encode(m)")]))


# R9: `SLICE.iter().map(F).sum::<usize>()` -> `sum_sizes(SLICE)` where F is the per-item size in any of its spellings: the path
# `T::size` / `ItemSize::size` / `<T as ItemSize>::size`, or the eta-expanded closure `|x| x.size()` / `|x| T::size(x)` (the closure
# parameter is read off the text and must be the receiver; anything else in the closure -- `x.size() + 1` -- is not this pattern
# and leaves the unit UNDECIDED).  The turbofish on `sum` is optional (a typed `let` says the same).
R9_SUM_SIZES = sub(
    "R9",
    r"\b(\w+)\s*\.iter\(\)\s*\.map\(\s*(?:T::size|ItemSize::size|<T as ItemSize>::size"
    r"|\|\s*(\w+)(?:\s*:\s*&\s*T)?\s*\|\s*(?:\2\.size\(\)|(?:T|ItemSize|<T as ItemSize>)::size\(\2\)))\s*\)"
    r"\s*\.sum(?:::<usize>)?\(\)",
    r"sum_sizes(\1)")


PLAN_IMPL = "impl:Plan<Pk>"


def plan(vf):
    repo = vf.repo
    strip_derive = sub("derive-off", r"#\[derive\([^)]*\)\]\s*", "", required=False)
    C20.emit_descriptors(vf, CTX_IMPL)
    vf.item(DESC, "enum:DescriptorType", rewrites=[DERIVE_TRIM])
    vf.raw(DESC_SPEC)
    for v in ("CouldNotSatisfy", "MissingSig(bitcoin::PublicKey)", "TrNoScriptCode"):
        if v not in repo.at(LIB, "enum:Error").text:
            raise Undecided("enum Error lost variant %s" % v)
    vf.trust("enum Error {CouldNotSatisfy, MissingSig, TrNoScriptCode, Other}", "crate::Error reduced to the variants the unit's functions construct")
    vf.trust("Miniscript::encode, Bare/Pkh/Wpkh::script_pubkey (external_body), spec_encode / spec_p2pkh / spec_p2wpkh / spec_p2wsh / spec_p2sh (+ axiom_p2wpkh_len)",
             "script encoders and output templates are units C04 / C16; here uninterpreted functions of the miniscript / key")
    vf.trust("PartialEqSpecImpl-free use of DescriptorType", "only matched on")
    descriptor_scripts(vf)
    vf.raw(SUM_SIZES_STUB)
    vf.raw(COMPLETED_SPEC)
    vf.raw(PLAN_BOUNDS_SPEC)
    vf.raw(STD_ITER)
    vf.trust("sum_sizes (external_body)", "R9: iter().map(T::size).sum() with the verified per-item contract of Placeholder::size folded in")
    vf.trust("slice_iter_map_collect_option, vec_into_iter_fold (external_body)", "std semantics of iter().map(f).collect::<Option<Vec<_>>>() and into_iter().fold(init, f)")
    vf.trust("abs_into / rel_into (external_body)", "`impl From<AbsLockTime> for absolute::LockTime` / RelLockTime: same consensus value (Kani unit k_locktime)")
    # util::witness_size at T = Placeholder<Pk>
    vf.fn(UTIL, "fn:witness_size", props=("C09", "C11"), contract=Contract(
        requires=["all_small(wit@)"],
        ensures=[Clause("covers_elements_and_count_prefix", ("C09",), "r >= sum_wit(wit@) + spec_varint_len(wit@.len() as int)"),
                 Clause("covers_scriptsig_pushes", ("C09",), "r >= sum_push(wit@) + 1"),
                 Clause("bounded", ("C11",), "r <= wit@.len() * 0x40_0005 + 9")]),
        rewrites=[lit("R8-specialise", "<T: ItemSize>(wit: &[T])", "<Pk: MiniscriptKey>(wit: &[Placeholder<Pk>])"),
                  R9_SUM_SIZES])
    vf.item(PLAN, "struct:Plan", rewrites=[strip_derive])
    ASREF = lit("R7", "self.template.as_ref()", "self.template.as_slice()")
    D, T = "self.descriptor", "self.template@"
    with vf.block("impl<Pk: MiniscriptKey + ToPublicKey> Plan<Pk>"):
        vf.fn(PLAN, PLAN_IMPL + "/fn:witness_template", qual="Plan", props=("C17", "C11"),
              contract=Contract(ensures=[Clause("is_the_template", ("C17",), "r@ == self.template@")]))
        vf.fn(PLAN, PLAN_IMPL + "/fn:witness_size", qual="Plan", props=("C09", "C17", "C11"), rewrites=[ASREF], contract=Contract(
            requires=["all_small(%s)" % T],
            ensures=[Clause("no_witness_for_legacy_outputs", ("C09",), "!is_segwit(%s) ==> r == 0" % D)] +
                    [Clause("upper_bound." + k, ("C09", "C17"), "%s ==> r >= plan_witness_bound(%s, %s)" % (dkind(D, k), D, T)) for k in ("Wpkh", "ShWpkh", "Tr", "Wsh", "ShWsh")] +
                    [Clause("bounded", ("C11",), "r <= 1000 * 0x40_0005 + 9")]))
        vf.fn(PLAN, PLAN_IMPL + "/fn:scriptsig_size", qual="Plan", props=("C09", "C17", "C11"), rewrites=[ASREF], contract=Contract(
            requires=["all_small(%s)" % T],
            ensures=[Clause("native_segwit_and_taproot_have_an_empty_scriptsig", ("C09",), "%s || %s || %s ==> r >= scriptsig_ser(0)" % (dkind(D, "Wpkh"), dkind(D, "Wsh"), dkind(D, "Tr"))),
                     Clause("upper_bound.ShWpkh", ("C09", "C17"), "%s ==> r >= scriptsig_ser(plan_scriptsig_len(%s, %s))" % (dkind(D, "ShWpkh"), D, T)),
                     Clause("upper_bound.ShWsh", ("C09", "C17"), "%s ==> r >= scriptsig_ser(plan_scriptsig_len(%s, %s))" % (dkind(D, "ShWsh"), D, T)),
                     Clause("legacy.covers_the_pushes", ("C09", "C17"), "%s || %s ==> r >= plan_scriptsig_len(%s, %s) + 1" % (dkind(D, "Bare"), dkind(D, "Pkh"), D, T)),
                     # Bare descriptors are pk / pkh / multi with n <= 3 (BareCtx::other_top_level_checks), pkh is <sig> <key>: at most
                     # OP_0 + 3 signatures = 220 bytes, so the CompactSize prefix of such a scriptSig is one byte
                     Clause("legacy.covers_the_length_prefix", ("C09", "C17"), "(%s || %s) && plan_scriptsig_len(%s, %s) < 253 ==> r >= scriptsig_ser(plan_scriptsig_len(%s, %s))" % (dkind(D, "Bare"), dkind(D, "Pkh"), D, T, D, T)),
                     Clause("upper_bound.Sh_includes_the_redeem_script", ("C09", "C17"), "%s ==> r >= scriptsig_ser(plan_scriptsig_len(%s, %s))" % (dkind(D, "Sh"), D, T)),
                     Clause("bounded", ("C11",), "r <= 1000 * 0x40_0005 + 9")]))
        vf.fn(PLAN, PLAN_IMPL + "/fn:satisfaction_weight", qual="Plan", props=("C09", "C17", "C11"), contract=Contract(
            requires=["all_small(%s)" % T, "usize::MAX >= 0xffff_ffff_ffff"],
            ensures=[Clause("bip141_weight_of_witness_plus_4_scriptsig." + k, ("C09", "C17"),
                            "%s%s ==> r >= plan_witness_bound(%s, %s) + 4 * scriptsig_ser(plan_scriptsig_len(%s, %s))" % (
                                dkind(D, k), " && plan_scriptsig_len(%s, %s) < 253" % (D, T) if k in ("Bare", "Pkh") else "", D, T, D, T))
                     for k in ("Bare", "Pkh", "Sh", "Wpkh", "ShWpkh", "Wsh", "ShWsh", "Tr")]))



def witness_to_scriptsig_fn(vf, elem_max=73, assumed=False):
    """util::witness_to_scriptsig: proved in unit c01_wrappers, consumed (assumed=True, same contract text) by Plan::satisfy here."""
    from units.c05_types import for_to_index_loop
    inv = ("                forall|j: int| 0 <= j < witness@.len() - 1 ==> (#[trigger] witness@[j])@.len() <= %d,\n"
           "                witness@.len() > 0 ==> witness@[witness@.len() - 1]@.len() <= 520,\n"
           "                b@.len() == i, i <= witness@.len(),\n"
           "                forall|j: int| 0 <= j < i ==> (#[trigger] b@[j]).data == witness@[j]@ && minimal_push(b@[j]),") % elem_max
    vf.fn(UTIL, "fn:witness_to_scriptsig", props=("C01", "C11"), assumed=assumed, contract=Contract(
        requires=["forall|j: int| 0 <= j < witness@.len() - 1 ==> (#[trigger] witness@[j])@.len() <= %d" % elem_max,
                  "witness@.len() > 0 ==> witness@[witness@.len() - 1]@.len() <= 520"],
        ensures=[Clause("one_push_per_element_in_order", ("C01",), "datas(r.pushes()) =~= views(witness@)"),
                 Clause("pushes_are_minimal", ("C01",), "all_minimal(r.pushes())")]),
        rewrites=[for_to_index_loop("for (i, wit) in", "witness", "wit", "i", True, inv, "witness.len() - i"),
                  lit("R10", "let wit = &witness[i];", "let wit = &witness[i];\n            " + FACTS),
                  lit("R7", "script::read_scriptint(wit)", "script::read_scriptint(wit.as_slice())"),
                  lit("R7", "<&PushBytes>::try_from(", "push_bytes_try_from("), prologue()])


def either(name, shapes):
    """Shape-tolerant rewrite: `shapes` = [(probe_text, [rewrites])]; the rewrites of the FIRST shape whose probe occurs in the
    text are applied (all of them must then apply); no shape present => None (anchor lost, UNDECIDED)."""
    @rule(name)
    def rw(text):
        for probe, rws in shapes:
            if re.search(r"\s*".join(re.escape(t) for t in probe.split()), text):
                for r in rws:
                    text = r(text)
                    if text is None:
                        return None
                return text
        return None
    return rw


COMPLETE_CLOSURE = ("|placeholder: &Placeholder<Pk>| -> (o: Option<Vec<u8>>) requires sizes_hold(*placeholder, stfr) "
                    "ensures opt_bytes(o) == spec_complete(*placeholder, stfr) { placeholder.satisfy_self(stfr) }")
GHOST_COMPLETE = "Ghost(|p: Placeholder<Pk>| spec_complete(p, stfr))"


LEN_HINT = ("proof { assert forall|j: int| 0 <= j < stack@.len() implies (#[trigger] stack@[j])@.len() <= max_len(self.template@[j]) by "
            "{ assert(stack@[j]@ == spec_complete(self.template@[j], stfr)->Some_0); } }")
SH_HINT = ("proof { assert forall|j: int| 0 <= j < stack@.len() - 1 implies (#[trigger] stack@[j])@.len() <= 73 by "
           "{ assert(stack@[j]@ == spec_complete(self.template@[j], stfr)->Some_0); } }")


def plan_satisfy(vf):
    D, T = "self.descriptor", "self.template@"
    W = "completed(%s, stfr)" % T
    fold_old = """stack
                    .into_iter()
                    .fold(Builder::new(), |builder, item| {
                        let bytes = PushBytesBuf::try_from(item)
                            .expect("All the possible placeholders can be made into PushBytesBuf");
                        builder.push_slice(bytes)
                    })"""
    fold_new = ("vec_into_iter_fold(stack, Builder::new(), |builder: Builder, item: Vec<u8>| -> (o: Builder) requires item@.len() < 0x1_0000_0000 "
                "ensures o@ == builder@.push(Push { data: item@, direct: true }) {\n"
                "                        let bytes = PushBytesBuf::try_from(item)\n"
                "                            .expect(\"All the possible placeholders can be made into PushBytesBuf\");\n"
                "                        builder.push_slice(bytes)\n"
                "                    }, Ghost(|x: Seq<u8>| Push { data: x, direct: true }))")
    collect_old = """self
            .template
            .iter()
            .map(|placeholder| placeholder.satisfy_self(stfr))
            .collect::<Option<Vec<Vec<u8>>>>()"""
    collect_new = "slice_iter_map_collect_option(&self.template, %s, %s)" % (COMPLETE_CLOSURE, GHOST_COMPLETE)
    ok = lambda k, body: "%s ==> r is Ok ==> %s" % (dkind(D, k), body)
    ens = [
        Clause("fails_iff_a_placeholder_cannot_be_completed", ("C17", "C02"), "r is Ok <==> all_complete(%s, stfr)" % T),
        Clause("the_only_error_is_could_not_satisfy", ("C17",), "r is Err ==> r->Err_0 is CouldNotSatisfy"),
    ]
    for k in ("Bare", "Pkh", "Sh", "Wpkh", "ShWpkh", "Wsh", "ShWsh", "Tr"):
        ens.append(Clause("witness." + k, ("C01", "C17"), ok(k, "views(r->Ok_0.0@) =~= expected_witness(%s, %s)" % (D, W))))
        ens.append(Clause("scriptsig." + k, ("C01", "C17"), ok(k, "datas(r->Ok_0.1.pushes()) =~= expected_scriptsig(%s, %s)" % (D, W))))
    ens.append(Clause("segwit_scriptsig_is_the_unsigned_one", ("C01",), "is_segwit(%s) ==> r is Ok ==> forall|i: int| 0 <= i < r->Ok_0.1.pushes().len() ==> (#[trigger] r->Ok_0.1.pushes()[i]).direct" % D))
    ens.append(Clause("legacy_pushes_are_minimal", ("C01", "C17"), "!is_segwit(%s) ==> r is Ok ==> forall|i: int| 0 <= i < r->Ok_0.1.pushes().len() ==> minimal_push(#[trigger] r->Ok_0.1.pushes()[i])" % D))
    witness_to_scriptsig_fn(vf, assumed=True)
    vf.trust("util::witness_to_scriptsig (assumed contract)", "proved in unit c01_wrappers from the same contract text")
    with vf.block("impl<Pk: MiniscriptKey + ToPublicKey> Plan<Pk>"):
        vf.fn(PLAN, PLAN_IMPL + "/fn:satisfy", qual="Plan", props=("C01", "C17", "C02", "C11"), contract=Contract(
            # helper preconditions, from witness_to_scriptsig's assertions: in a plan for a legacy output every placeholder completes to at most
            # a signature's length (keys 33 / 65, ECDSA signatures <= 73, preimages 32; no taproot items) and the P2SH redeem script is <= 520
            # bytes (Legacy context rule, checked by Sh::new)
            requires=["forall|i: int| 0 <= i < %s.len() ==> sizes_hold(#[trigger] %s[i], stfr)" % (T, T),
                      "!is_segwit(%s) ==> forall|i: int| 0 <= i < %s.len() ==> max_len(#[trigger] %s[i]) <= 73" % (D, T, T),
                      "%s matches Descriptor::Sh(sh) ==> sh.inner matches ShInner::Ms(m) ==> spec_encode(m).len() <= 520" % D],
            ensures=ens),
            rewrites=[lit_ws("R4", collect_old, collect_new),
                      lit_ws("R10", ".ok_or(Error::CouldNotSatisfy)?;", ".ok_or(Error::CouldNotSatisfy)?;\n        " + LEN_HINT),
                      either("R4/R7-legacy-scriptsig", [
                          # shape up to a464895d: Builder fold with push_slice
                          (".fold(Builder::new(),", [lit("R7", "use bitcoin::blockdata::script::Builder;", ""), lit_ws("R4", fold_old, fold_new)]),
                          # shape after the D3 repair: witness_to_scriptsig (contract proved in unit c01_wrappers)
                          ("witness_to_scriptsig(&stack)", [sub("R7", r"witness_to_scriptsig\(&stack\)", "witness_to_scriptsig(stack.as_slice())"),
                                                             lit_ws("R10", "stack.push(redeem_script.into_bytes());", "stack.push(redeem_script.into_bytes());\n                " + SH_HINT)]),
                      ]),
                      prologue()])
    try_completing(vf)


def try_completing(vf, assumed=False):
    # Satisfaction::try_completing: same completion, on a whole satisfaction
    tc_old = """stack
                    .iter()
                    .map(|placeholder| placeholder.satisfy_self(stfr))
                    .collect::<Option<_>>()"""
    tc_new = "slice_iter_map_collect_option(stack, %s, %s)" % (COMPLETE_CLOSURE, GHOST_COMPLETE)
    with vf.block("impl<Pk: MiniscriptKey + ToPublicKey> Satisfaction<Placeholder<Pk>>"):
        vf.fn(SAT, "impl:Satisfaction<Placeholder<Pk>>/fn:try_completing", qual="Satisfaction", props=("C01", "C17", "C02", "C11"), assumed=assumed, contract=Contract(
            requires=["self.stack matches Witness::Stack(t) ==> forall|i: int| 0 <= i < t@.len() ==> sizes_hold(#[trigger] t@[i], stfr)"],
            ensures=[Clause("fails_iff_a_placeholder_cannot_be_completed", ("C17", "C02"), "r is None <==> (self.stack matches Witness::Stack(t) && !all_complete(t@, stfr))"),
                     Clause("every_placeholder_replaced_in_order", ("C01", "C17"), "self.stack matches Witness::Stack(t) ==> r is Some ==> r->Some_0.stack is Stack && views(r->Some_0.stack->Stack_0@) =~= completed(t@, stfr)"),
                     Clause("unavailable_and_impossible_stay", ("C01", "C02"), "(self.stack is Unavailable ==> r is Some && r->Some_0.stack is Unavailable) && (self.stack is Impossible ==> r is Some && r->Some_0.stack is Impossible)"),
                     Clause("locks_and_signature_flag_carried_over", ("C17",), "r is Some ==> r->Some_0.has_sig == self.has_sig && r->Some_0.relative_timelock == self.relative_timelock && r->Some_0.absolute_timelock == self.absolute_timelock")]),
            rewrites=[lit_ws("R4", tc_old, tc_new)])


INTO_PLAN_SPEC = r"""
// ---- template builders of the descriptor wrappers (verified in unit c01_wrappers); here: uninterpreted results -----------------
uninterp spec fn spec_plan_bare<Pk: MiniscriptKey, P: AssetProvider<Pk>>(d: Bare<Pk>, provider: &P, mall: bool) -> Satisfaction<Placeholder<Pk>>;
uninterp spec fn spec_plan_pkh<Pk: MiniscriptKey, P: AssetProvider<Pk>>(d: Pkh<Pk>, provider: &P, mall: bool) -> Satisfaction<Placeholder<Pk>>;
uninterp spec fn spec_plan_wpkh<Pk: MiniscriptKey, P: AssetProvider<Pk>>(d: Wpkh<Pk>, provider: &P, mall: bool) -> Satisfaction<Placeholder<Pk>>;
uninterp spec fn spec_plan_wsh<Pk: MiniscriptKey, P: AssetProvider<Pk>>(d: Wsh<Pk>, provider: &P, mall: bool) -> Satisfaction<Placeholder<Pk>>;
uninterp spec fn spec_plan_sh<Pk: MiniscriptKey, P: AssetProvider<Pk>>(d: Sh<Pk>, provider: &P, mall: bool) -> Satisfaction<Placeholder<Pk>>;
uninterp spec fn spec_plan_tr<Pk: MiniscriptKey, P: AssetProvider<Pk>>(d: Tr<Pk>, provider: &P, mall: bool) -> Satisfaction<Placeholder<Pk>>;
spec fn spec_plan_satisfaction<Pk: MiniscriptKey, P: AssetProvider<Pk>>(d: Descriptor<Pk>, provider: &P, mall: bool) -> Satisfaction<Placeholder<Pk>> {
    match d {
        Descriptor::Bare(x) => spec_plan_bare(x, provider, mall),
        Descriptor::Pkh(x) => spec_plan_pkh(x, provider, mall),
        Descriptor::Wpkh(x) => spec_plan_wpkh(x, provider, mall),
        Descriptor::Wsh(x) => spec_plan_wsh(x, provider, mall),
        Descriptor::Sh(x) => spec_plan_sh(x, provider, mall),
        Descriptor::Tr(x) => spec_plan_tr(x, provider, mall),
    }
}
spec fn same_abs(a: Option<absolute::LockTime>, b: Option<AbsLockTime>) -> bool { (a is Some <==> b is Some) && (a is Some ==> a->Some_0.0 == b->Some_0.consensus()) }
spec fn same_rel(a: Option<relative::LockTime>, b: Option<RelLockTime>) -> bool { (a is Some <==> b is Some) && (a is Some ==> a->Some_0.0 == b->Some_0.consensus()) }
"""


def into_plan(vf):
    repo = vf.repo
    vf.raw(INTO_PLAN_SPEC)
    for ty, l in (("Bare", "bare"), ("Pkh", "pkh"), ("Wpkh", "wpkh"), ("Wsh", "wsh"), ("Sh", "sh"), ("Tr", "tr")):
        vf.raw("""impl<Pk: MiniscriptKey + ToPublicKey> %(ty)s<Pk> {
    #[verifier::external_body]
    fn plan_satisfaction<P: AssetProvider<Pk>>(&self, provider: &P) -> (r: Satisfaction<Placeholder<Pk>>) ensures r == spec_plan_%(l)s(*self, provider, false) { unimplemented!() }
    #[verifier::external_body]
    fn plan_satisfaction_mall<P: AssetProvider<Pk>>(&self, provider: &P) -> (r: Satisfaction<Placeholder<Pk>>) ensures r == spec_plan_%(l)s(*self, provider, true) { unimplemented!() }
}""" % dict(ty=ty, l=l))
    vf.trust("Bare/Pkh/Wpkh/Wsh/Sh/Tr::plan_satisfaction{,_mall} (external_body, uninterpreted results)", "callees of into_plan; verified against the miniscript template in unit c01_wrappers")
    ABS = lit("R12-eta", "satisfaction.absolute_timelock.map(Into::into)", "satisfaction.absolute_timelock.map(|t: AbsLockTime| -> (o: absolute::LockTime) ensures o.0 == t.consensus() { abs_into(t) })")
    REL = lit("R12-eta", "satisfaction.relative_timelock.map(Into::into)", "satisfaction.relative_timelock.map(|t: RelLockTime| -> (o: relative::LockTime) ensures o.0 == t.consensus() { rel_into(t) })")
    with vf.block("impl<Pk: MiniscriptKey + ToPublicKey> Descriptor<Pk>"):
        for fn, mall in (("into_plan", "false"), ("into_plan_mall", "true")):
            S = "spec_plan_satisfaction(self, provider, %s)" % mall
            vf.fn(DESC, C20.impl_with_fn(repo, DESC, "Descriptor<Pk>", fn), qual="Descriptor", props=("C17", "C11"), rewrites=[ABS, REL], contract=Contract(ensures=[
                Clause("a_plan_exists_iff_the_template_is_a_witness", ("C17", "C02"), "r is Ok <==> %s.stack is Stack" % S),
                Clause("the_plan_is_that_template", ("C17", "C01"), "r is Ok ==> r->Ok_0.template == %s.stack->Stack_0" % S),
                Clause("absolute_lock_is_the_templates", ("C17",), "r is Ok ==> same_abs(r->Ok_0.absolute_timelock, %s.absolute_timelock)" % S),
                Clause("relative_lock_is_the_templates", ("C17",), "r is Ok ==> same_rel(r->Ok_0.relative_timelock, %s.relative_timelock)" % S),
                Clause("descriptor_kept", ("C17",), "(r is Ok ==> r->Ok_0.descriptor == self) && (r is Err ==> r->Err_0 == self)")]))


def build(repo):
    vf = VerusFile(NAME, repo)
    emit_base(vf, SCRIPT_CONTEXT)
    blanket_impl(vf)
    placeholders(vf)
    plan(vf)
    plan_satisfy(vf)
    into_plan(vf)
    return vf
