"""C20 unit: the KEY ITERATORS (and Tr::for_each_key) visit exactly the keys of the string form, in string order.

Under contract (real text of /repo, woven):
  src/miniscript/iter.rs    Iter::{new, next}, PkIter::{new, next} (emitted as `MsPkIter`: the descriptor iterator has the same
                            name), Miniscript::{iter, iter_pk, branches}; get_nth_child / get_nth_pk are consumed through the
                            contract text that units/c20_translate.py proves (assumed)
  src/descriptor/iter.rs    PkIter::{from_key, from_miniscript_bare, from_miniscript_legacy, from_miniscript_segwit, from_tr, next}
                            + one iteration of the tap-leaf loop of `next` as a step function (`next__loop_iteration`)
  src/descriptor/mod.rs     Descriptor::iter_pk
  src/descriptor/tr/*       TapTreeIter::{empty, from_tree, next, next_back} (against vstd's specification of core::slice::Iter),
                            TapTree::leaves, TapTreeIterItem::miniscript, Tr::{internal_key, leaves}, ForEachKey for Tr
                            (+ its closure, lambda-lifted: `for_each_key__leaf`)
  Wsh / Wpkh / Bare / Pkh / Sh ::as_inner

ORACLE (descriptor / Miniscript grammar, not the code): the keys of an expression in the order in which they appear in its
string form --
  keys_of_ms(X)    = own keys of the fragment (pk_k(K) pk_h(K): K;  multi / sortedmulti / multi_a / sortedmulti_a (k,K1..Kn):
                     K1..Kn;  everything else: none)  followed by keys_of_ms of the sub-expressions, left to right
  keys_of_desc     bare(X) wsh(X) sh(X) sh(wsh(X)): keys_of_ms(X);   pkh(K) wpkh(K) sh(wpkh(K)): K;
                   tr(K, TREE): K, then keys_of_ms(leaf) for every leaf of TREE in leaf order (a leaf without keys contributes
                   nothing and does not end the enumeration)

CONTRACT SHAPE (as units/c00_tree.py): a representation invariant plus a ghost "remaining sequence" (`iter_rem`,
`ms_pk_rem`, `desc_rem`); the constructors establish `remaining == oracle sequence`; every `next` returns `None` iff the
remaining sequence is empty, else its head, and leaves its tail; an exhausted iterator stays exhausted; loops terminate
(`decreases`; the tap-leaf loop of the descriptor iterator: number of leaves not yet loaded; the descriptor iterator as a whole:
(leaves not yet loaded, keys buffered) lexicographically, clause `progress`).  `drain_*` (composition, /verif text) run the
iterators to exhaustion -- they terminate -- and obtain exactly the oracle sequence.
for_each_key(pred) on Tr answers `true` only if pred answers `true` on every key of keys_of_tr and `false` only if pred answers
`false` on some key of it (short-circuit and visiting order left open: the code presents the leaves before the internal key).

The remaining sequence of a TapTreeIter is vstd's `remaining()` of the slice iterator, which is a PROPHETIC specification
value (may be used in contracts and assertions, not in `decreases` or ghost control flow): hence the separate non-prophetic
termination measures (`tti_measure`, `desc_leaves_left`, `desc_keys_loaded`) and the `tried(..)` form of two proof hints.
Proof hints inserted into the real functions (R10) are written `if a =~= b { }` / `assert(tried(a =~= b))`, never as plain
assertions about what the code did, so that a changed step fails a NAMED clause (or the loop invariant) and is not masked.
"""
import inspect
import re

from vlib.verus import VerusFile, Contract, Clause, sub, lit, rule, Undecided, drop_vis
from vlib.extract import match_close, AnchorLost, strip_docs
from units import _tree
from units import c20_translate as C20
from units import c00_treelike as TL

NAME = "c20_iters"
ENGINE = "verus"
PROPS = ("C20", "C11")
P20 = ("C20",)

MSITER = "src/miniscript/iter.rs"
MSMOD = "src/miniscript/mod.rs"
DITER = "src/descriptor/iter.rs"
DMOD = "src/descriptor/mod.rs"
TR = "src/descriptor/tr/mod.rs"
TAPTREE = "src/descriptor/tr/taptree.rs"
SEGWIT = "src/descriptor/segwitv0.rs"
BARE = "src/descriptor/bare.rs"
SH = "src/descriptor/sh.rs"
CTX = "src/miniscript/context.rs"

DROPPED = [
    "`impl Iterator for X { fn next }` (miniscript Iter / PkIter, descriptor PkIter, TapTreeIter) and `impl DoubleEndedIterator for TapTreeIter { fn next_back }` are verified as "
    "inherent methods (`Self::Item` -> the concrete item type, R7): Verus does not allow `requires` on implementations of std's Iterator::next and the representation invariant is a "
    "precondition.  std adaptors applied by callers (`.collect()`, `.count()`, `for key in d.iter_pk()`) are outside the unit; `drain_*` stand for them",
    "miniscript::iter::PkIter is emitted as `MsPkIter` (R7 rename; one Verus module, and the descriptor iterator is also called PkIter)",
    "PkIter::next (miniscript): the function body is one `loop { .. break VALUE .. }` in tail position; `break VALUE` -> `return VALUE` (R17: the value of a tail-position loop is the "
    "function result; Verus has no break-with-value)",
    "descriptor PkIter::next: `E.as_mut().and_then(Iterator::next)` -> `match &mut E { Some(it) => it.next(), None => None }` and `A.or_else(|| B)` -> "
    "`match A { Some(v) => Some(v), None => B }` (R14: definitions of Option::as_mut / and_then / or_else; the closures capture `&mut self`); `DoubleEndedIterator::next_back` in the "
    "same position is mapped to `it.next_back()` so that such a change is judged",
    "TapTreeIter::{next, next_back}: `E.map(|&(depth, ref node)| BODY)` -> `match E { None => None, Some(elem) => { let depth = elem.0; let node = &elem.1; Some(BODY) } }` "
    "(R14 Option::map + R3: tuple / ref patterns in closure parameters; BODY verbatim)",
    "Tr::for_each_key: `self.leaves().all(|leaf| BODY)` -> the loop that std's Iterator::all is (R14; /verif text with its invariant) calling the lambda-lifted closure "
    "`for_each_key__leaf(leaf, &mut pred)` (R16: BODY verbatim, the captured `&mut pred` becomes the parameter `pred: &mut F`); in BODY `X.for_each_key(pred)` -> `ms_for_each_key(X, pred)` "
    "(std's `impl FnMut for &mut F` forwards to F); the whole-tree contract of Miniscript::for_each_key is ASSUMED (its per-node step is proved in units/c20_translate.py, the traversal in "
    "units/c00_tree.py; the induction is not mechanised)",
    "descriptor PkIter::next is verified with #[verifier::loop_isolation(false)] (the loop body sees what the code in front of the loop established, e.g. that the single key was taken); "
    "`next__loop_iteration` = the body of its `loop { .. }` verbatim with `break;` / `continue;` -> `return None;` (R17: the iteration ends without a yield) and a generated trailing `None`; "
    "it exists only to name the obligations of one iteration and is skipped when `next` has no loop",
    "struct Tr is extracted without its `spend_info: Mutex<..>` cache field (not read by the verified functions)",
    "Miniscript::branches (not called by any iterator: Iter::next uses get_nth_child): the Thresh arm `thresh.iter().map(Arc::deref).collect()` -> the std wrapper "
    "`arcs_deref_collect(thresh)` (R14: one reference per element, in order; trusted)",
    "FnMut predicates are modelled as Verus models them: a call does not change the closure's specification (`call_ensures` of the same value); a predicate whose answers depend on the "
    "call history is outside the model (as in units/c20_translate.py)",
    "#[derive(..)] on the iterator structs is dropped (R1)",
]


# ----------------------------------------------------------------------------------------------------------------------
# text shared with other units (sliced, not retyped; a changed source text makes the unit UNDECIDED)
# ----------------------------------------------------------------------------------------------------------------------
def _slice(text, start, end, what):
    try:
        s = text.index(start)
        e = text.index(end, s)
    except ValueError:
        raise Undecided("%s: marker text not found any more" % what)
    return text[s:e]


def shared_specs():
    # node_keys / node_children / pred_all_true / pred_first_false: units/c20_translate.py (the contracts of get_nth_pk / get_nth_child are stated over them)
    keys = _slice(C20.MAPS, "// ---- keys of ONE node", "// std: `slice.iter().all(&mut pred)`", "c20_translate.MAPS")
    # structural height of the AST (termination measure): units/c00_treelike.py
    height = _slice(TL.ORACLE, "// finiteness: structural height", "proof fn lemma_sub_exprs_smaller", "c00_treelike.ORACLE")
    return keys + "\n" + height


# the contracts c20_translate proves for the two per-node accessors (same clause text; guarded below)
GET_NTH_PK = [("exactly_the_node_keys", "r is Some <==> n < node_keys(self.node).len()"),
              ("in_order", "r is Some ==> r->Some_0 == node_keys(self.node)[n as int]")]
GET_NTH_CHILD = [("exactly_the_children", "r is Some <==> n < node_children(self.node).len()"),
                 ("in_order", "r is Some ==> *r->Some_0 == *node_children(self.node)[n as int]")]


def check_shared_contracts():
    src = inspect.getsource(C20.build)
    for tag, text in GET_NTH_PK + GET_NTH_CHILD:
        if ('"%s"' % text) not in src or ('"%s"' % tag) not in src:
            raise Undecided("units/c20_translate.py no longer proves the clause `%s` (%s) that this unit assumes of get_nth_pk / get_nth_child" % (tag, text))


# ----------------------------------------------------------------------------------------------------------------------
# prelude
# ----------------------------------------------------------------------------------------------------------------------
STD = r"""
use vstd::std_specs::iter::IteratorSpec;
// Clone on a key returns an equal key (assumption, as in units/c20_translate.py)
broadcast proof fn axiom_key_clone<Pk: MiniscriptKey>(a: Pk, b: Pk)
    requires #[trigger] call_ensures(Pk::clone, (&a,), b) ensures a == b { admit(); }
"""

BRANCHES_STUB = r"""
// std: `thresh.iter().map(Arc::deref).collect()` -- one `&T` per stored `Arc<T>`, in order
#[verifier::external_body]
fn arcs_deref_collect<'a, T, const MAX: usize>(thresh: &'a Threshold<Arc<T>, MAX>) -> (r: Vec<&'a T>)
    ensures r@.len() == thresh.inner@.len(), forall|i: int| 0 <= i < r@.len() ==> *#[trigger] r@[i] == *thresh.inner@[i],
{ unimplemented!() }
"""

ORACLE_MS = r"""
// ================================================================================================
// ORACLE (Miniscript grammar): keys of an expression in the order of its string form
// ================================================================================================
spec fn nkids<Pk: MiniscriptKey, Ctx: ScriptContext>(m: Miniscript<Pk, Ctx>) -> int { node_children(m.node).len() as int }
spec fn kid<Pk: MiniscriptKey, Ctx: ScriptContext>(m: Miniscript<Pk, Ctx>, i: int) -> Miniscript<Pk, Ctx> { *node_children(m.node)[i] }
proof fn lemma_kid_smaller<Pk: MiniscriptKey, Ctx: ScriptContext>(m: Miniscript<Pk, Ctx>, i: int)
    requires 0 <= i < nkids(m),
    ensures ms_height(kid(m, i)) < ms_height(m),
{
    if m.node is Thresh { lemma_ms_max(m.node->Thresh_0.inner@, m.node->Thresh_0.inner@.len(), i); }
}
// keys_of_ms(X) = own keys of X ++ keys_of_ms(X1) ++ .. ++ keys_of_ms(Xn)
#[verifier::opaque]
spec fn keys_of_ms<Pk: MiniscriptKey, Ctx: ScriptContext>(m: Miniscript<Pk, Ctx>) -> Seq<Pk>
    decreases ms_height(m), nkids(m) + 1,
{
    node_keys(m.node) + keys_from(m, 0)
}
// keys of the sub-expressions j, j+1, ..  (the guard only makes the definition terminate; lemma_kid_smaller discharges it)
#[verifier::opaque]
spec fn keys_from<Pk: MiniscriptKey, Ctx: ScriptContext>(m: Miniscript<Pk, Ctx>, j: int) -> Seq<Pk>
    decreases ms_height(m), nkids(m) - j,
{
    if 0 <= j < nkids(m) {
        (if ms_height(kid(m, j)) < ms_height(m) { keys_of_ms(kid(m, j)) } else { Seq::empty() }) + keys_from(m, j + 1)
    } else {
        Seq::empty()
    }
}
// the same in forest form: the oracle without the termination guard
spec fn keys_of_forest<Pk: MiniscriptKey, Ctx: ScriptContext>(f: Seq<Arc<Miniscript<Pk, Ctx>>>) -> Seq<Pk>
    decreases f.len(),
{
    if f.len() == 0 { Seq::empty() } else { keys_of_ms(*f[0]) + keys_of_forest(f.drop_first()) }
}

// ---- pre-order of the NODES (what Iter yields) ------------------------------------------------------
#[verifier::opaque]
spec fn preorder<Pk: MiniscriptKey, Ctx: ScriptContext>(m: Miniscript<Pk, Ctx>) -> Seq<Miniscript<Pk, Ctx>>
    decreases ms_height(m), nkids(m) + 1,
{
    seq![m] + pre_from(m, 0)
}
#[verifier::opaque]
spec fn pre_from<Pk: MiniscriptKey, Ctx: ScriptContext>(m: Miniscript<Pk, Ctx>, j: int) -> Seq<Miniscript<Pk, Ctx>>
    decreases ms_height(m), nkids(m) - j,
{
    if 0 <= j < nkids(m) {
        (if ms_height(kid(m, j)) < ms_height(m) { preorder(kid(m, j)) } else { Seq::empty() }) + pre_from(m, j + 1)
    } else {
        Seq::empty()
    }
}
// own keys of a sequence of nodes, concatenated
spec fn flat_keys<Pk: MiniscriptKey, Ctx: ScriptContext>(s: Seq<Miniscript<Pk, Ctx>>) -> Seq<Pk>
    decreases s.len(),
{
    if s.len() == 0 { Seq::empty() } else { node_keys(s[0].node) + flat_keys(s.drop_first()) }
}
"""

LEMMA_ORACLE_MS = r"""
// the oracle IS the grammar's definition: keys_of_ms(X) = own keys ++ concat(keys_of_ms(Xi))
proof fn lemma_keys_from_forest<Pk: MiniscriptKey, Ctx: ScriptContext>(m: Miniscript<Pk, Ctx>, j: int)
    requires 0 <= j <= nkids(m),
    ensures keys_from(m, j) == keys_of_forest(node_children(m.node).skip(j)),
    decreases nkids(m) - j,
{
    reveal(keys_of_ms); reveal(keys_from);
    let f = node_children(m.node).skip(j);
    if j < nkids(m) {
        lemma_kid_smaller(m, j);
        lemma_keys_from_forest(m, j + 1);
        assert(f[0] == node_children(m.node)[j]);
        assert(f.drop_first() =~= node_children(m.node).skip(j + 1));
    } else {
        assert(f.len() == 0);
    }
}
proof fn lemma_keys_of_ms_textbook<Pk: MiniscriptKey, Ctx: ScriptContext>(m: Miniscript<Pk, Ctx>)
    ensures keys_of_ms(m) == node_keys(m.node) + keys_of_forest(node_children(m.node)),
{
    reveal(keys_of_ms); reveal(keys_from);
    lemma_keys_from_forest(m, 0);
    assert(node_children(m.node).skip(0) =~= node_children(m.node));
}
proof fn lemma_flat_concat<Pk: MiniscriptKey, Ctx: ScriptContext>(a: Seq<Miniscript<Pk, Ctx>>, b: Seq<Miniscript<Pk, Ctx>>)
    ensures flat_keys(a + b) == flat_keys(a) + flat_keys(b),
    decreases a.len(),
{
    if a.len() == 0 {
        assert(a + b =~= b);
        assert(flat_keys(a) + flat_keys(b) =~= flat_keys(b));
    } else {
        assert((a + b)[0] == a[0]);
        assert((a + b).drop_first() =~= a.drop_first() + b);
        lemma_flat_concat(a.drop_first(), b);
        assert(flat_keys(a + b) =~= flat_keys(a) + flat_keys(b));
    }
}
// visiting the nodes in pre-order and listing each node's own keys gives the keys in string order
proof fn lemma_keys_preorder<Pk: MiniscriptKey, Ctx: ScriptContext>(m: Miniscript<Pk, Ctx>)
    ensures flat_keys(preorder(m)) == keys_of_ms(m),
    decreases ms_height(m), nkids(m) + 1,
{
    reveal(keys_of_ms); reveal(keys_from); reveal(preorder); reveal(pre_from);
    lemma_keys_pre_from(m, 0);
    let one = seq![m];
    assert(one.drop_first() =~= Seq::<Miniscript<Pk, Ctx>>::empty());
    assert(flat_keys(one.drop_first()) =~= Seq::<Pk>::empty());
    assert(flat_keys(one) =~= node_keys(m.node));
    lemma_flat_concat(one, pre_from(m, 0));
}
proof fn lemma_keys_pre_from<Pk: MiniscriptKey, Ctx: ScriptContext>(m: Miniscript<Pk, Ctx>, j: int)
    requires 0 <= j <= nkids(m),
    ensures flat_keys(pre_from(m, j)) == keys_from(m, j),
    decreases ms_height(m), nkids(m) - j,
{
    reveal(keys_of_ms); reveal(keys_from); reveal(preorder); reveal(pre_from);
    if j < nkids(m) {
        lemma_kid_smaller(m, j);
        lemma_keys_preorder(kid(m, j));
        lemma_keys_pre_from(m, j + 1);
        lemma_flat_concat(preorder(kid(m, j)), pre_from(m, j + 1));
    }
}
"""

ITER_INV = r"""
// ---- representation of Iter: what `next` + `path` will still yield ------------------------------------
// a path entry (node, i) stands for the sub-expressions i, i+1, .. of node (with everything below them)
spec fn path_rem<'a, Pk: MiniscriptKey, Ctx: ScriptContext>(p: Seq<(&'a Miniscript<Pk, Ctx>, usize)>) -> Seq<Miniscript<Pk, Ctx>>
    decreases p.len(),
{
    if p.len() == 0 { Seq::empty() } else { pre_from(*p.last().0, p.last().1 as int) + path_rem(p.drop_last()) }
}
spec fn iter_rem<'a, Pk: MiniscriptKey, Ctx: ScriptContext>(it: Iter<'a, Pk, Ctx>) -> Seq<Miniscript<Pk, Ctx>> {
    (match it.next { Some(n) => preorder(*n), None => Seq::empty() }) + path_rem(it.path@)
}
proof fn lemma_preorder_head<Pk: MiniscriptKey, Ctx: ScriptContext>(m: Miniscript<Pk, Ctx>)
    ensures preorder(m).len() >= 1, preorder(m)[0] == m, preorder(m).skip(1) =~= pre_from(m, 0), preorder(m) =~= seq![m] + pre_from(m, 0),
{
    reveal(preorder); reveal(pre_from);
    let one = seq![m];
    let rest = pre_from(m, 0);
    assert(preorder(m) =~= one + rest);
    assert((one + rest).skip(1) =~= rest);
}
proof fn lemma_pre_from_step<Pk: MiniscriptKey, Ctx: ScriptContext>(m: Miniscript<Pk, Ctx>, j: int)
    ensures
        0 <= j < nkids(m) ==> pre_from(m, j) =~= preorder(kid(m, j)) + pre_from(m, j + 1),
        !(0 <= j < nkids(m)) ==> pre_from(m, j) =~= Seq::<Miniscript<Pk, Ctx>>::empty(),
{
    reveal(preorder); reveal(pre_from);
    if 0 <= j < nkids(m) { lemma_kid_smaller(m, j); }
}
// a fragment has at most usize::MAX sub-expressions (thresh stores them in a Vec), so `child + 1` cannot overflow
proof fn lemma_nkids_bound<Pk: MiniscriptKey, Ctx: ScriptContext>(m: Miniscript<Pk, Ctx>)
    ensures nkids(m) <= usize::MAX,
{
    if m.node is Thresh { assert(m.node->Thresh_0.inner@.len() == m.node->Thresh_0.inner.len()); }
}
// .. and at most usize::MAX own keys (multi stores them in a Vec), so `key_index += 1` cannot overflow
proof fn lemma_nkeys_bound<Pk: MiniscriptKey, Ctx: ScriptContext>(t: Terminal<Pk, Ctx>)
    ensures node_keys(t).len() <= usize::MAX,
{
    match t {
        Terminal::Multi(th) => { assert(th.inner@.len() == th.inner.len()); }
        Terminal::SortedMulti(th) => { assert(th.inner@.len() == th.inner.len()); }
        Terminal::MultiA(th) => { assert(th.inner@.len() == th.inner.len()); }
        Terminal::SortedMultiA(th) => { assert(th.inner@.len() == th.inner.len()); }
        _ => {}
    }
}

// ---- representation of the miniscript key iterator ---------------------------------------------------------
spec fn keys_tail<Pk>(s: Seq<Pk>, i: usize) -> Seq<Pk> { if i <= s.len() { s.skip(i as int) } else { Seq::empty() } }
#[verifier::opaque]
spec fn ms_pk_rem<'a, Pk: MiniscriptKey, Ctx: ScriptContext>(it: MsPkIter<'a, Pk, Ctx>) -> Seq<Pk> {
    (match it.curr_node { Some(n) => keys_tail(node_keys(n.node), it.key_index), None => Seq::empty() }) + flat_keys(iter_rem(it.node_iter))
}
// no current node only when the node iterator is exhausted
#[verifier::opaque]
spec fn ms_pk_inv<'a, Pk: MiniscriptKey, Ctx: ScriptContext>(it: MsPkIter<'a, Pk, Ctx>) -> bool {
    it.curr_node is None ==> iter_rem(it.node_iter).len() == 0
}
// termination measure of MsPkIter::next: nodes still to be looked at
#[verifier::opaque]
spec fn ms_pk_measure<'a, Pk: MiniscriptKey, Ctx: ScriptContext>(it: MsPkIter<'a, Pk, Ctx>) -> nat {
    iter_rem(it.node_iter).len() + (if it.curr_node is Some { 1nat } else { 0nat })
}
"""

# ghost insertions (R10) for Iter::next
ITER_WHILE_OLD = "while let Some((node, child)) = self.path.pop() {"
ITER_WHILE_NEW = """while let Some((node, child)) = self.path.pop()
                invariant_except_break
                    curr is None,
                    path_rem(self.path@) == path_rem(old(self).path@),
                invariant
                    self.next == old(self).next,
                ensures
                    self.next == old(self).next,
                    curr is None ==> self.path@.len() == 0 && path_rem(old(self).path@).len() == 0,
                    curr matches Some(c) ==> path_rem(old(self).path@) == preorder(*c) + path_rem(self.path@),
                decreases self.path@.len(),
            {
                let ghost popped = self.path@;
                proof { lemma_pre_from_step(*node, child as int); lemma_nkids_bound(*node); }"""
ITER_PUSH1_OLD = "self.path.push((node, child + 1));"
ITER_PUSH1_NEW = """self.path.push((node, child + 1));
                    proof { assert(self.path@.drop_last() =~= popped); }"""
ITER_PUSH2_OLD = "self.path.push((node, 1));"
ITER_PUSH2_NEW = """let ghost before_push = self.path@;
            self.path.push((node, 1));
            proof {
                assert(self.path@.drop_last() =~= before_push);
                lemma_preorder_head(*node);
                lemma_pre_from_step(*node, 0);
                lemma_pre_from_step(*node, 1);
                // (an `if`, not an `assert`: if the first sub-expression is not the one descended into, the named clause rest_is_tail fails)
                if iter_rem(*self) =~= iter_rem(*old(self)).skip(1) { }
            }"""

MSPK_LOOP_OLD = "loop {"
MSPK_LOOP_NEW = """loop
            invariant
                ms_pk_inv(*self),
                ms_pk_rem(*self) == ms_pk_rem(*old(self)),
            decreases ms_pk_measure(*self),
        {"""
MSPK_ADV_OLD = "self.key_index = 0;"
MSPK_ADV_NEW = """self.key_index = 0;
                        proof {
                            // (`if`, not `assert`: a changed step must fail the loop invariant / the named clauses, not a hint)
                            if keys_tail(node_keys(node.node), key_index0) =~= Seq::<Pk>::empty() { }
                            if self.curr_node is Some {
                                if keys_tail(node_keys(self.curr_node->Some_0.node), 0) =~= node_keys(self.curr_node->Some_0.node) { }
                            }
                            if ms_pk_rem(*self) =~= ms_pk_rem(before) { }
                        }"""
MSPK_HEAD_OLD = "match self.curr_node {"
MSPK_HEAD_NEW = """proof { reveal(ms_pk_rem); reveal(ms_pk_inv); reveal(ms_pk_measure); }
            let ghost before = *self;
            let ghost key_index0 = self.key_index;
            match self.curr_node {"""
MSPK_YIELD_OLD = "self.key_index += 1;"
MSPK_YIELD_NEW = """proof { lemma_nkeys_bound(node.node); }
                        self.key_index += 1;
                        proof {
                            let ks = node_keys(node.node);
                            if keys_tail(ks, key_index0) =~= seq![pk] + keys_tail(ks, self.key_index) { }
                            if ms_pk_rem(before) =~= seq![pk] + ms_pk_rem(*self) { }
                            if ms_pk_rem(*self) =~= ms_pk_rem(before).skip(1) { }
                        }"""


@rule("R17-tail-loop-break-value")
def break_value_to_return(text):
    """R17: the body of the function is one `loop { .. }` in tail position, so `break VALUE` is `return VALUE`.
    If the function has another shape (restructured) nothing is rewritten and Verus judges the text as it is."""
    brace = text.index("{", text.index(")"))
    body = text[brace:]
    m = re.match(r"\{\s*loop\s*\{", body)
    if not m:
        return text
    close = match_close(body, m.end() - 1)
    if body[close + 1:].strip() != "}":
        return text
    return text[:brace] + re.sub(r"\bbreak\s+(?=[A-Za-z(])", "return ", body)


def iter_next_contract(rem, inv=None, item="*r->Some_0", what="preorder", props=P20):
    """The step contract every iterator of this unit gets (shape of units/c00_tree.py)."""
    req = ["%s(*old(self))" % inv] if inv else []
    ens = []
    if inv:
        ens.append(Clause("invariant_preserved", PROPS, "%s(*final(self))" % inv))
    ens += [Clause("none_iff_exhausted", props, "r is None <==> %s(*old(self)).len() == 0" % rem),
            Clause("yields_next_in_%s" % what, props, "r is Some ==> %s == %s(*old(self))[0]" % (item, rem)),
            Clause("rest_is_tail", props, "r is Some ==> %s(*final(self)) =~= %s(*old(self)).skip(1)" % (rem, rem)),
            Clause("exhausted_stays_exhausted", props, "r is None ==> %s(*final(self)).len() == 0" % rem)]
    return Contract(requires=req, ensures=ens)


DRAIN_MS = r"""
// composition: running Miniscript::iter_pk to exhaustion yields exactly the keys of the string form, in order
fn drain_ms_iter_pk<Pk: MiniscriptKey, Ctx: ScriptContext>(ms: &Miniscript<Pk, Ctx>) -> (out: Vec<Pk>)
    ensures out@ == keys_of_ms(*ms),
{
    let mut it = ms.iter_pk();
    let mut out: Vec<Pk> = Vec::new();
    loop
        invariant ms_pk_inv(it), out@ + ms_pk_rem(it) =~= keys_of_ms(*ms),
        decreases ms_pk_rem(it).len(),
    {
        let ghost before = ms_pk_rem(it);
        match it.next() {
            None => { assert(before =~= Seq::<Pk>::empty()); return out; }
            Some(x) => {
                out.push(x);
                assert(before =~= seq![x] + before.skip(1));
            }
        }
    }
}
"""



# ======================================================================================================================
# descriptor level
# ======================================================================================================================
ORACLE_DESC = r"""
// ================================================================================================
// ORACLE (descriptor grammar): keys of a descriptor in the order of its string form
// ================================================================================================
// tr(K, {leaf, ..}): the keys of every leaf, in leaf order; a leaf without keys contributes nothing
spec fn leaves_keys<Pk: MiniscriptKey>(l: Seq<(u8, Arc<Miniscript<Pk, Tap>>)>) -> Seq<Pk>
    decreases l.len(),
{
    if l.len() == 0 { Seq::empty() } else { keys_of_ms(*l[0].1) + leaves_keys(l.drop_first()) }
}
spec fn tr_leaves<Pk: MiniscriptKey>(t: Tr<Pk>) -> Seq<(u8, Arc<Miniscript<Pk, Tap>>)> {
    match t.tree { Some(tt) => tt.depths_leaves@, None => Seq::empty() }
}
spec fn keys_of_tr<Pk: MiniscriptKey>(t: Tr<Pk>) -> Seq<Pk> { seq![t.internal_key] + leaves_keys(tr_leaves(t)) }
spec fn keys_of_sh<Pk: MiniscriptKey>(s: Sh<Pk>) -> Seq<Pk> {
    match s.inner {
        ShInner::Wsh(w) => keys_of_ms(w.ms),        // sh(wsh(X))
        ShInner::Wpkh(w) => seq![w.pk],             // sh(wpkh(K))
        ShInner::Ms(m) => keys_of_ms(m),            // sh(X)
    }
}
spec fn keys_of_desc<Pk: MiniscriptKey>(d: Descriptor<Pk>) -> Seq<Pk> {
    match d {
        Descriptor::Bare(b) => keys_of_ms(b.ms),    // X
        Descriptor::Pkh(p) => seq![p.pk],           // pkh(K)
        Descriptor::Wpkh(p) => seq![p.pk],          // wpkh(K)
        Descriptor::Sh(s) => keys_of_sh(s),
        Descriptor::Wsh(w) => keys_of_ms(w.ms),     // wsh(X)
        Descriptor::Tr(t) => keys_of_tr(t),         // tr(K, TREE)
    }
}
"""

TTI_INV = r"""
// ---- TapTreeIter: what the slice iterator will still yield, as entries of depths_leaves -----------------------
#[verifier::prophetic]
spec fn tti_rem<'tr, Pk: MiniscriptKey>(it: TapTreeIter<'tr, Pk>) -> Seq<(u8, Arc<Miniscript<Pk, Tap>>)> {
    it.inner.remaining().map_values(|e: &(u8, Arc<Miniscript<Pk, Tap>>)| *e)
}
// termination measure (vstd's `decrease` of the slice iterator: drops by one with every yielded element)
spec fn tti_measure<'tr, Pk: MiniscriptKey>(it: TapTreeIter<'tr, Pk>) -> nat { it.inner.decrease()->0 }
// vstd: a slice iterator has such a measure (true of every iterator `<[T]>::iter` hands out, preserved by next / next_back)
spec fn tti_inv<'tr, Pk: MiniscriptKey>(it: TapTreeIter<'tr, Pk>) -> bool { it.inner.decrease() is Some }
"""

DESC_INV = r"""
// ---- representation of the descriptor key iterator ---------------------------------------------------------
// proof hint that cannot fail: puts the (extensional) equality `b` in front of the solver without asserting it
// (prophetic values may not be branched on, so the `if b { }` form of the other hints is not available here)
spec fn tried(b: bool) -> bool { true }
spec fn opt_key<Pk>(o: Option<Pk>) -> Seq<Pk> { match o { Some(k) => seq![k], None => Seq::empty() } }
spec fn opt_ms_rem<'a, Pk: MiniscriptKey, Ctx: ScriptContext>(o: Option<MsPkIter<'a, Pk, Ctx>>) -> Seq<Pk> {
    match o { Some(i) => ms_pk_rem(i), None => Seq::empty() }
}
spec fn opt_ms_inv<'a, Pk: MiniscriptKey, Ctx: ScriptContext>(o: Option<MsPkIter<'a, Pk, Ctx>>) -> bool {
    match o { Some(i) => ms_pk_inv(i), None => true }
}
#[verifier::prophetic]
spec fn opt_tti_rem<'a, Pk: MiniscriptKey>(o: Option<TapTreeIter<'a, Pk>>) -> Seq<(u8, Arc<Miniscript<Pk, Tap>>)> {
    match o { Some(i) => tti_rem(i), None => Seq::empty() }
}
// remaining = [single key] ++ rest of the current tap leaf ++ keys of the leaves not yet loaded ++ bare ++ legacy ++ segwit script keys
ghost struct Parts<Pk> { key: Seq<Pk>, cur: Seq<Pk>, leaves: Seq<Pk>, bare: Seq<Pk>, legacy: Seq<Pk>, segwit: Seq<Pk> }
#[verifier::opaque]
spec fn cat<Pk>(p: Parts<Pk>) -> Seq<Pk> { p.key + p.cur + p.leaves + p.bare + p.legacy + p.segwit }
#[verifier::prophetic]
spec fn parts<'a, Pk: MiniscriptKey>(it: PkIter<'a, Pk>) -> Parts<Pk> {
    Parts {
        key: opt_key(it.single_key), cur: opt_ms_rem(it.ms_iter_taproot), leaves: leaves_keys(opt_tti_rem(it.taptree_iter)),
        bare: opt_ms_rem(it.ms_iter_bare), legacy: opt_ms_rem(it.ms_iter_legacy), segwit: opt_ms_rem(it.ms_iter_segwit),
    }
}
#[verifier::prophetic]
spec fn desc_rem<'a, Pk: MiniscriptKey>(it: PkIter<'a, Pk>) -> Seq<Pk> { cat(parts(it)) }
// how `cat` changes when a key is taken from the first non-empty part / when a tap leaf is loaded into `cur`
// (pure sequence facts; implications only, so that instantiating the lemma can never fail)
broadcast proof fn lemma_cat_step<Pk>(p: Parts<Pk>, q: Parts<Pk>)
    ensures
        #![trigger cat(p), cat(q)]
        cat(p).len() == p.key.len() + p.cur.len() + p.leaves.len() + p.bare.len() + p.legacy.len() + p.segwit.len(),
        p.key =~= q.key && p.cur =~= q.cur && p.leaves =~= q.leaves && p.bare =~= q.bare && p.legacy =~= q.legacy && p.segwit =~= q.segwit ==> cat(q) =~= cat(p),
        p.key.len() > 0 && q.key =~= p.key.skip(1) && q.cur =~= p.cur && q.leaves =~= p.leaves && q.bare =~= p.bare && q.legacy =~= p.legacy && q.segwit =~= p.segwit
            ==> cat(p)[0] == p.key[0] && cat(q) =~= cat(p).skip(1),
        p.key.len() == 0 && q.key.len() == 0 && p.cur.len() > 0 && q.cur =~= p.cur.skip(1) && q.leaves =~= p.leaves && q.bare =~= p.bare && q.legacy =~= p.legacy && q.segwit =~= p.segwit
            ==> cat(p)[0] == p.cur[0] && cat(q) =~= cat(p).skip(1),
        // a tap leaf is loaded: its keys move from `leaves` to `cur`
        p.key =~= q.key && p.cur.len() == 0 && p.leaves =~= q.cur + q.leaves && q.bare =~= p.bare && q.legacy =~= p.legacy && q.segwit =~= p.segwit
            ==> cat(q) =~= cat(p),
        p.key.len() + p.cur.len() + p.leaves.len() == 0 && q.key.len() + q.cur.len() + q.leaves.len() == 0 && p.bare.len() > 0
            && q.bare =~= p.bare.skip(1) && q.legacy =~= p.legacy && q.segwit =~= p.segwit
            ==> cat(p)[0] == p.bare[0] && cat(q) =~= cat(p).skip(1),
        p.key.len() + p.cur.len() + p.leaves.len() + p.bare.len() == 0 && q.key.len() + q.cur.len() + q.leaves.len() + q.bare.len() == 0 && p.legacy.len() > 0
            && q.legacy =~= p.legacy.skip(1) && q.segwit =~= p.segwit
            ==> cat(p)[0] == p.legacy[0] && cat(q) =~= cat(p).skip(1),
        p.key.len() + p.cur.len() + p.leaves.len() + p.bare.len() + p.legacy.len() == 0 && q.key.len() + q.cur.len() + q.leaves.len() + q.bare.len() + q.legacy.len() == 0
            && p.segwit.len() > 0 && q.segwit =~= p.segwit.skip(1)
            ==> cat(p)[0] == p.segwit[0] && cat(q) =~= cat(p).skip(1),
{
    reveal(cat);
}
// the head of `cat` is the head of its first non-empty part
broadcast proof fn lemma_cat_head<Pk>(p: Parts<Pk>)
    ensures
        #![trigger cat(p)]
        cat(p).len() == p.key.len() + p.cur.len() + p.leaves.len() + p.bare.len() + p.legacy.len() + p.segwit.len(),
        p.key.len() > 0 ==> cat(p)[0] == p.key[0],
        p.key.len() == 0 && p.cur.len() > 0 ==> cat(p)[0] == p.cur[0],
        p.key.len() + p.cur.len() == 0 && p.leaves.len() > 0 ==> cat(p)[0] == p.leaves[0],
        p.key.len() + p.cur.len() + p.leaves.len() == 0 && p.bare.len() > 0 ==> cat(p)[0] == p.bare[0],
        p.key.len() + p.cur.len() + p.leaves.len() + p.bare.len() == 0 && p.legacy.len() > 0 ==> cat(p)[0] == p.legacy[0],
        p.key.len() + p.cur.len() + p.leaves.len() + p.bare.len() + p.legacy.len() == 0 && p.segwit.len() > 0 ==> cat(p)[0] == p.segwit[0],
{
    reveal(cat);
}
// `cat` of an iterator with one populated source (what the constructors build)
broadcast proof fn lemma_cat_one<Pk>(p: Parts<Pk>)
    ensures
        #![trigger cat(p)]
        p.cur.len() + p.leaves.len() + p.bare.len() + p.legacy.len() + p.segwit.len() == 0 ==> cat(p) =~= p.key,
        p.key.len() + p.cur.len() + p.leaves.len() + p.legacy.len() + p.segwit.len() == 0 ==> cat(p) =~= p.bare,
        p.key.len() + p.cur.len() + p.leaves.len() + p.bare.len() + p.segwit.len() == 0 ==> cat(p) =~= p.legacy,
        p.key.len() + p.cur.len() + p.leaves.len() + p.bare.len() + p.legacy.len() == 0 ==> cat(p) =~= p.segwit,
        p.cur.len() + p.bare.len() + p.legacy.len() + p.segwit.len() == 0 ==> cat(p) =~= p.key + p.leaves,
{
    reveal(cat);
}
spec fn desc_inv<'a, Pk: MiniscriptKey>(it: PkIter<'a, Pk>) -> bool {
    &&& opt_ms_inv(it.ms_iter_taproot) && opt_ms_inv(it.ms_iter_bare) && opt_ms_inv(it.ms_iter_legacy) && opt_ms_inv(it.ms_iter_segwit)
    &&& (it.taptree_iter matches Some(t) ==> tti_inv(t))
    // a taproot iterator carries no bare / legacy / segwit script iterator
    &&& (it.taptree_iter is Some ==> it.ms_iter_bare is None && it.ms_iter_legacy is None && it.ms_iter_segwit is None)
}
// termination: (tap leaves not yet loaded, keys buffered in the loaded iterators) decreases lexicographically with every yielded key;
// the inner loop of `next` decreases the first component
spec fn desc_leaves_left<'a, Pk: MiniscriptKey>(it: PkIter<'a, Pk>) -> nat {
    match it.taptree_iter { Some(t) => tti_measure(t), None => 0 }
}
spec fn desc_keys_loaded<'a, Pk: MiniscriptKey>(it: PkIter<'a, Pk>) -> nat {
    opt_key(it.single_key).len() + opt_ms_rem(it.ms_iter_taproot).len() + opt_ms_rem(it.ms_iter_bare).len()
        + opt_ms_rem(it.ms_iter_legacy).len() + opt_ms_rem(it.ms_iter_segwit).len()
}
"""

DESC_LOOP_OLD = "loop {"
DESC_LOOP_NEW = """let ghost at_loop = *self;
        loop
            invariant_except_break
                desc_leaves_left(*self) < desc_leaves_left(at_loop)
                    || (desc_leaves_left(*self) == desc_leaves_left(at_loop) && desc_keys_loaded(*self) <= desc_keys_loaded(at_loop)),
            invariant
                desc_inv(*self),
                self.single_key == at_loop.single_key,
                self.ms_iter_bare == at_loop.ms_iter_bare && self.ms_iter_legacy == at_loop.ms_iter_legacy && self.ms_iter_segwit == at_loop.ms_iter_segwit,
                desc_rem(*self) =~= desc_rem(at_loop),
            ensures
                opt_ms_rem(self.ms_iter_taproot).len() == 0,
                opt_tti_rem(self.taptree_iter).len() == 0,
                self.taptree_iter is None ==> desc_keys_loaded(*self) <= desc_keys_loaded(at_loop),
            decreases desc_leaves_left(*self),
        {
            broadcast use lemma_cat_step, lemma_cat_head;"""
DESC_LOAD_OLD = "self.ms_iter_taproot = Some(iter.miniscript().iter_pk());"
DESC_LOAD_NEW = """self.ms_iter_taproot = Some(iter.miniscript().iter_pk());
                proof {
                    // (`tried`, not a plain `assert`: a changed step must fail the loop invariant / the named clauses, not a hint)
                    let l = opt_tti_rem(before_load.taptree_iter);
                    assert(tried(l.drop_first() =~= opt_tti_rem(self.taptree_iter)));
                }"""
DESC_PEEK_OLD = "if let Some(iter) = self.taptree_iter"
DESC_PEEK_NEW = "let ghost before_load = *self;\n            if let Some(iter) = self.taptree_iter"


@rule("R14-option-as_mut-and_then")
def as_mut_and_then(text):
    """R14: `E.as_mut().and_then(Iterator::next)` -> `(match &mut E { Some(it) => it.next(), None => None })`
    (definitions of Option::as_mut and Option::and_then; `Iterator::next` / `DoubleEndedIterator::next_back` applied to `it`)."""
    new, n = re.subn(r"(self\.\w+)\s*\.as_mut\(\)\s*\.and_then\(\s*(?:Iterator::(next)|DoubleEndedIterator::(next_back))\s*\)",
                     lambda m: "(match &mut %s { Some(it) => it.%s(), None => None })" % (m.group(1), m.group(2) or m.group(3)), text)
    return new if n else None


@rule("R14-option-or_else")
def or_else_to_match(text):
    """R14: `A.or_else(|| B)` -> `match A { Some(v) => Some(v), None => B }` (definition of Option::or_else), innermost last."""
    n = 0
    while True:
        m = re.search(r"\.or_else\(\s*\|\|", text)
        if not m:
            break
        open_ = text.index("(", m.start())
        close = match_close(text, open_)
        b = text[m.end():close].strip()
        # receiver: the parenthesised match produced by as_mut_and_then right in front of `.or_else`
        j = m.start()
        while j > 0 and text[j - 1].isspace():
            j -= 1
        if j == 0 or text[j - 1] != ")":
            return None
        # find the opening paren of the receiver
        depth, k = 0, j - 1
        while k >= 0:
            if text[k] == ")":
                depth += 1
            elif text[k] == "(":
                depth -= 1
                if depth == 0:
                    break
            k -= 1
        if k < 0:
            return None
        a = text[k:j]
        text = text[:k] + "match %s { Some(v) => Some(v), None => %s }" % (a, b) + text[close + 1:]
        n += 1
    return text if n else None


@rule("R14-option-map-tuple-closure")
def map_tuple_closure(text):
    """R14 + R3: `E.map(|&(depth, ref node)| BODY)` -> `match E { None => None, Some(elem) => { let depth = elem.0; let node = &elem.1; Some(BODY) } }`
    (definition of Option::map; the closure's tuple / ref pattern becomes two field projections; BODY verbatim)."""
    m = re.search(r"\.map\(\s*\|&\(depth, ref node\)\|", text)
    if not m:
        return None
    open_ = text.index("(", m.start())
    close = match_close(text, open_)
    body = text[m.end():close].strip()
    brace = text.index("{", text.index(")"))
    recv = text[brace + 1:m.start()].strip()
    return (text[:brace + 1] + "\n        match %s {\n            None => None,\n            Some(elem) => {\n                let depth = elem.0;\n                let node = &elem.1;\n"
            "                Some(%s)\n            }\n        }" % (recv, body) + text[close + 1:])


# Tr::for_each_key: the loop that Iterator::all is, with the closure body verbatim
ALL_LOOP = """{
            let mut all_iter = %(recv)s;
            let mut all_result = true;
            let ghost mut done_keys: Seq<Pk> = Seq::empty();
            let ghost pred0 = pred;
            loop
                invariant_except_break
                    all_result,
                    pred_all_true(pred, done_keys),
                    done_keys + leaves_keys(tti_rem(all_iter)) =~= leaves_keys(tr_leaves(*self)),
                invariant
                    pred == pred0,      // Verus' model of FnMut: a call leaves the closure's specification unchanged
                    forall|k: &'a Pk| call_requires(pred, (k,)),
                    tti_inv(all_iter),
                ensures
                    all_result ==> pred_all_true(pred, leaves_keys(tr_leaves(*self))),
                    !all_result ==> pred_some_false(pred, leaves_keys(tr_leaves(*self))),
                decreases tti_measure(all_iter),
            {
                let ghost rem0 = tti_rem(all_iter);
                match all_iter.next() {
                    None => {
                        proof { assert(leaves_keys(rem0) =~= Seq::<Pk>::empty()); assert(done_keys =~= leaves_keys(tr_leaves(*self))); }
                        break;
                    }
                    Some(leaf) => {
                        let ghost ks = item_keys(&leaf);
                        proof { assert(leaves_keys(rem0) =~= ks + leaves_keys(rem0.drop_first())); assert(rem0.drop_first() =~= tti_rem(all_iter)); }
                        if !Self::for_each_key__leaf(leaf, &mut pred) {
                            all_result = false;
                            proof {
                                let i = choose|i: int| 0 <= i < ks.len() && call_ensures(pred, (&#[trigger] ks[i],), false);
                                assert(leaves_keys(tr_leaves(*self))[done_keys.len() + i] == ks[i]);
                            }
                            break;
                        }
                        proof {
                            assert forall|i: int| 0 <= i < (done_keys + ks).len() implies call_ensures(pred, (&#[trigger] (done_keys + ks)[i],), true) by {
                                if i < done_keys.len() { assert((done_keys + ks)[i] == done_keys[i]); } else { assert((done_keys + ks)[i] == ks[i - done_keys.len()]); }
                            }
                            done_keys = done_keys + ks;
                        }
                    }
                }
            }
            all_result
        }"""


class LeavesAll:
    """R14 + R16 on `self.leaves().all(|leaf| BODY)`: the chain becomes the loop that std's Iterator::all is (ALL_LOOP, /verif text);
    the closure is lambda-lifted: BODY is kept verbatim in `self.body` and emitted by the caller as `for_each_key__leaf(leaf, pred)`
    (the captured `&mut pred` is the parameter `pred: &mut F`)."""
    rule = "R14/R16-iterator-all"

    def __init__(self):
        self.body = None

    def __call__(self, text):
        m = re.search(r"=\s*(self\s*\.leaves\(\))\s*\.all\(\s*\|leaf\|", text)
        if not m:
            return None
        open_ = text.index("(", text.index(".all", m.start()))
        close = match_close(text, open_)
        self.body = text[m.end():close].strip()
        recv = re.sub(r"\s+", "", m.group(1))
        return text[:m.start()] + "= " + ALL_LOOP % dict(recv=recv) + text[close + 1:]


FEK_STUB = r"""
spec fn item_keys<'tr, Pk: MiniscriptKey>(leaf: &TapTreeIterItem<'tr, Pk>) -> Seq<Pk> { keys_of_ms(**leaf.node) }
// the predicate answered `false` on some key
spec fn pred_some_false<'a, Pk: 'a, F: FnMut(&'a Pk) -> bool>(pred: F, keys: Seq<Pk>) -> bool {
    exists|i: int| 0 <= i < keys.len() && call_ensures(pred, (&#[trigger] keys[i],), false)
}
// tr(K, TREE): K is the first key of the string form, the keys of the leaves follow
proof fn lemma_pred_cons<'a, Pk: 'a, F: FnMut(&'a Pk) -> bool>(pred: F, k: Pk, l: Seq<Pk>)
    ensures
        call_ensures(pred, (&k,), true) && pred_all_true(pred, l) ==> pred_all_true(pred, seq![k] + l),
        call_ensures(pred, (&k,), false) || pred_some_false(pred, l) ==> pred_some_false(pred, seq![k] + l),
{
    let kl = seq![k] + l;
    assert(kl[0] == k);
    if call_ensures(pred, (&k,), true) && pred_all_true(pred, l) {
        assert forall|i: int| 0 <= i < kl.len() implies call_ensures(pred, (&#[trigger] kl[i],), true) by {
            if i > 0 { assert(kl[i] == l[i - 1]); }
        }
    }
    if pred_some_false(pred, l) {
        let i = choose|i: int| 0 <= i < l.len() && call_ensures(pred, (&#[trigger] l[i],), false);
        assert(kl[i + 1] == l[i]);
    }
}
// ASSUMED whole-tree contract of `impl ForEachKey for Miniscript` (per-node step: units/c20_translate.py; traversal: units/c00_tree.py):
// pred is presented the keys of the expression in string order and the walk stops at the first `false`.
// `ms.for_each_key(&mut pred)`: std's `impl FnMut for &mut F` forwards to F, so the callee works on the caller's predicate.
#[verifier::external_body]
fn ms_for_each_key<'a, Pk: MiniscriptKey + 'a, Ctx: ScriptContext, F: FnMut(&'a Pk) -> bool>(ms: &'a Arc<Miniscript<Pk, Ctx>>, pred: &mut F) -> (r: bool)
    requires forall|k: &'a Pk| call_requires(*old(pred), (k,)),
    ensures
        *final(pred) == *old(pred),
        r ==> pred_all_true(*old(pred), keys_of_ms(**ms)),
        !r ==> pred_first_false(*old(pred), keys_of_ms(**ms)),
{ unimplemented!() }
"""

DRAIN_DESC = r"""
// composition: running Descriptor::iter_pk to exhaustion terminates and yields exactly the keys of the string form, in order
fn drain_desc_iter_pk<Pk: MiniscriptKey>(d: &Descriptor<Pk>) -> (out: Vec<Pk>)
    ensures out@ == keys_of_desc(*d),
{
    let mut it = d.iter_pk();
    let mut out: Vec<Pk> = Vec::new();
    loop
        invariant desc_inv(it), out@ + desc_rem(it) =~= keys_of_desc(*d),
        decreases desc_leaves_left(it), desc_keys_loaded(it),
    {
        let ghost before = desc_rem(it);
        match it.next() {
            None => { assert(before =~= Seq::<Pk>::empty()); return out; }
            Some(x) => {
                out.push(x);
                assert(before =~= seq![x] + before.skip(1));
            }
        }
    }
}
"""

def at_body_start(ghost):
    """R10: ghost statement inserted right after the opening brace of the function body."""
    @rule("R10")
    def rw(text):
        brace = text.index("{", text.index(")"))
        return text[:brace + 1] + "\n        " + ghost + text[brace + 1:]
    return rw


USE_CLONE = "broadcast use axiom_key_clone;"


def strip_derive():
    return sub("R1-derive", r"#\[derive\([^)]*\)\]\s*", "", required=False)


RENAME = sub("R7-rename-MsPkIter", r"\bPkIter\b", "MsPkIter")


def build(repo):
    check_shared_contracts()
    vf = VerusFile(NAME, repo)
    _tree.emit(vf, ext="opaque", types="defs")
    vf.raw(STD)
    vf.trust("axiom_key_clone (admit)", "Clone on a key returns an equal key (DESIGN 3.4; same assumption as units/c20_translate.py)")
    vf.raw(shared_specs())
    vf.raw(ORACLE_MS)
    vf.spec_obligation("lemma::keys_of_ms_textbook", LEMMA_ORACLE_MS, P20)

    # ---- per-node accessors: consumed through the contracts c20_translate proves ------------------------------------------
    with vf.block("impl<Pk: MiniscriptKey, Ctx: ScriptContext> Miniscript<Pk, Ctx>"):
        vf.fn(MSITER, "impl:Miniscript<Pk, Ctx>/fn:get_nth_pk", qual="Miniscript", assumed=True,
              contract=Contract(ensures=[Clause(t, P20, x) for t, x in GET_NTH_PK]))
        vf.fn(MSITER, "impl:Miniscript<Pk, Ctx>/fn:get_nth_child", qual="Miniscript", assumed=True,
              contract=Contract(ensures=[Clause(t, P20, x) for t, x in GET_NTH_CHILD]))
    vf.trust("Miniscript::get_nth_pk / get_nth_child (external_body, assumed)", "proved on the real functions by units/c20_translate.py from the same clause text (guarded: the unit is "
             "UNDECIDED if that text changes there)")

    # ---- (2) miniscript Iter / PkIter -------------------------------------------------------------------------------------------
    vf.item(MSITER, "struct:Iter", rewrites=[strip_derive()])
    vf.item(MSITER, "struct:PkIter", rewrites=[strip_derive(), RENAME])
    vf.raw(ITER_INV)
    with vf.block("impl<'a, Pk: MiniscriptKey, Ctx: ScriptContext> Iter<'a, Pk, Ctx>"):
        vf.fn(MSITER, "impl:Iter<'a, Pk, Ctx>/fn:new", qual="Iter", props=PROPS,
              rewrites=[lit("R10", "Iter {", "proof { assert(path_rem(Seq::<(&'a Miniscript<Pk, Ctx>, usize)>::empty()) =~= Seq::<Miniscript<Pk, Ctx>>::empty()); }\n        Iter {")],
              contract=Contract(ensures=[Clause("starts_with_whole_preorder", P20, "iter_rem(r) =~= preorder(*miniscript)")]))
        vf.fn(MSITER, "impl:Iterator for Iter<'a, Pk, Ctx>/fn:next", qual="Iter", props=PROPS,
              rewrites=[lit("R7-assoc-type", "Option<Self::Item>", "Option<&'a Miniscript<Pk, Ctx>>"),
                        lit("R10-loop-invariant", ITER_WHILE_OLD, ITER_WHILE_NEW, required=False),
                        lit("R10", ITER_PUSH1_OLD, ITER_PUSH1_NEW, required=False),
                        lit("R10", ITER_PUSH2_OLD, ITER_PUSH2_NEW, required=False)],
              contract=iter_next_contract("iter_rem"))
    with vf.block("impl<'a, Pk: MiniscriptKey, Ctx: ScriptContext> MsPkIter<'a, Pk, Ctx>"):
        vf.fn(MSITER, "impl:PkIter<'a, Pk, Ctx>/fn:new", qual="MsPkIter", props=PROPS,
              rewrites=[RENAME, lit("R10", "MsPkIter {", "proof { reveal(ms_pk_rem); reveal(ms_pk_inv); reveal(ms_pk_measure); lemma_keys_preorder(*miniscript); }\n        MsPkIter {")],
              contract=Contract(ensures=[Clause("invariant_established", PROPS, "ms_pk_inv(r)"),
                                         Clause("starts_with_all_keys_in_string_order", P20, "ms_pk_rem(r) =~= keys_of_ms(*miniscript)")]))
        vf.fn(MSITER, "impl:Iterator for PkIter<'_, Pk, Ctx>/fn:next", qual="MsPkIter", props=PROPS,
              rewrites=[lit("R7-assoc-type", "Option<Self::Item>", "Option<Pk>"),
                        break_value_to_return,
                        lit("R10-loop-invariant", MSPK_LOOP_OLD, MSPK_LOOP_NEW, required=False),
                        lit("R10", MSPK_HEAD_OLD, MSPK_HEAD_NEW, required=False),
                        lit("R10", MSPK_ADV_OLD, MSPK_ADV_NEW, required=False),
                        lit("R10", MSPK_YIELD_OLD, MSPK_YIELD_NEW, required=False)],
              contract=iter_next_contract("ms_pk_rem", inv="ms_pk_inv", item="r->Some_0", what="string_order"))
    vf.raw(BRANCHES_STUB)
    vf.trust("arcs_deref_collect (external_body)", "std semantics of slice.iter().map(Arc::deref).collect()")
    with vf.block("impl<Pk: MiniscriptKey, Ctx: ScriptContext> Miniscript<Pk, Ctx>"):
        vf.fn(MSITER, "impl:Miniscript<Pk, Ctx>/fn:branches", qual="Miniscript", props=PROPS,
              rewrites=[sub("R14", r"thresh\s*\.iter\(\)\s*\.map\(Arc::deref\)\s*\.collect\(\)", "arcs_deref_collect(thresh)")],
              contract=Contract(ensures=[
                  Clause("exactly_the_sub_expressions", P20, "r@.len() == node_children(self.node).len()"),
                  Clause("in_source_order", P20, "forall|i: int| 0 <= i < r@.len() ==> *#[trigger] r@[i] == *node_children(self.node)[i]")]))
        vf.fn(MSITER, "impl:Miniscript<Pk, Ctx>/fn:iter", qual="Miniscript", props=PROPS,
              contract=Contract(ensures=[Clause("starts_with_whole_preorder", P20, "iter_rem(r) =~= preorder(*self)")]))
        vf.fn(MSITER, "impl:Miniscript<Pk, Ctx>/fn:iter_pk", qual="Miniscript", props=PROPS, rewrites=[RENAME],
              contract=Contract(ensures=[Clause("invariant_established", PROPS, "ms_pk_inv(r)"),
                                         Clause("starts_with_all_keys_in_string_order", P20, "ms_pk_rem(r) =~= keys_of_ms(*self)")]))
    vf.spec_obligation("compose::drain_ms_iter_pk", DRAIN_MS, P20)

    # ---- (1) descriptor level -------------------------------------------------------------------------------------------------------
    for c in ("Segwitv0", "Legacy", "BareCtx", "Tap"):
        repo.at(CTX, "enum:%s" % c)                      # anchor must exist; `enum X {}` (uninhabited) is not accepted by Verus
        vf.raw("struct %s { marker: u8 }\nimpl ScriptContext for %s {}" % (c, c))
    vf.trust("struct Legacy / BareCtx / Segwitv0 / Tap { marker }", "the uninhabited context marker enums as unit-like structs (never constructed)")
    for rel, a in ((SEGWIT, "struct:Wsh"), (SEGWIT, "struct:Wpkh"), (BARE, "struct:Bare"), (BARE, "struct:Pkh"), (SH, "struct:Sh"), (SH, "enum:ShInner"),
                   (TAPTREE, "struct:TapTree"), (TAPTREE, "struct:TapTreeIterItem"), (TAPTREE, "struct:TapTreeIter"), (DMOD, "enum:Descriptor")):
        vf.item(rel, a, rewrites=[strip_derive()])
    vf.item(TR, "struct:Tr", rewrites=[strip_derive(), sub("R7-drop-cache-field", r"spend_info\s*:\s*Mutex<[^\n]*>\s*,", "")])
    vf.item(DITER, "struct:PkIter", rewrites=[strip_derive(), lit("R7-rename-MsPkIter", "miniscript::iter::PkIter", "MsPkIter")])
    vf.raw(ORACLE_DESC)
    vf.raw(TTI_INV)
    vf.raw(DESC_INV)
    for rel, ty, field in ((SEGWIT, "Wsh", "ms"), (SEGWIT, "Wpkh", "pk"), (BARE, "Bare", "ms"), (BARE, "Pkh", "pk"), (SH, "Sh", "inner")):
        with vf.block("impl<Pk: MiniscriptKey> %s<Pk>" % ty):
            vf.fn(rel, "impl:%s<Pk>/fn:as_inner" % ty, qual=ty, props=("C11",),
                  contract=Contract(ensures=[Clause("field", (), "*r == self.%s" % field)]))

    # TapTreeIter (a std slice iterator over depths_leaves) and the accessors that hand it out
    ITEM = "Option<TapTreeIterItem<'tr, Pk>>"
    with vf.block("impl<'tr, Pk: MiniscriptKey> TapTreeIter<'tr, Pk>"):
        vf.fn(TAPTREE, "impl:TapTreeIter<'tr, Pk>/fn:empty", qual="TapTreeIter", props=PROPS,
              contract=Contract(ensures=[Clause("well_formed", ("C11",), "tti_inv(r)"), Clause("yields_nothing", P20, "tti_rem(r).len() == 0")]))
        vf.fn(TAPTREE, "impl:TapTreeIter<'tr, Pk>/fn:from_tree", qual="TapTreeIter", props=PROPS,
              contract=Contract(ensures=[Clause("well_formed", ("C11",), "tti_inv(r)"), Clause("all_leaves_in_order", P20, "tti_rem(r) =~= tree.depths_leaves@")]))
        vf.fn(TAPTREE, "impl:Iterator for TapTreeIter<'tr, Pk>/fn:next", qual="TapTreeIter", props=PROPS,
              rewrites=[lit("R7-assoc-type", "Option<Self::Item>", ITEM), map_tuple_closure],
              contract=Contract(requires=["tti_inv(*old(self))"], ensures=[
                  Clause("invariant_preserved", ("C11",), "tti_inv(*final(self))"),
                  Clause("none_iff_exhausted", P20, "r is None <==> tti_rem(*old(self)).len() == 0"),
                  Clause("yields_first_remaining_leaf", P20, "r is Some ==> *r->Some_0.node == tti_rem(*old(self))[0].1 && r->Some_0.depth == tti_rem(*old(self))[0].0"),
                  Clause("rest_is_tail", P20, "r is Some ==> tti_rem(*final(self)) =~= tti_rem(*old(self)).skip(1)"),
                  Clause("exhausted_stays_exhausted", P20, "r is None ==> tti_rem(*final(self)).len() == 0"),
                  Clause("measure_decreases", ("C11",), "r is Some ==> tti_measure(*final(self)) < tti_measure(*old(self))")]))
        vf.fn(TAPTREE, "impl:DoubleEndedIterator for TapTreeIter<'tr, Pk>/fn:next_back", qual="TapTreeIter", props=PROPS,
              rewrites=[lit("R7-assoc-type", "Option<Self::Item>", ITEM), map_tuple_closure],
              contract=Contract(requires=["tti_inv(*old(self))"], ensures=[
                  Clause("invariant_preserved", ("C11",), "tti_inv(*final(self))"),
                  Clause("none_iff_exhausted", P20, "r is None <==> tti_rem(*old(self)).len() == 0"),
                  Clause("yields_last_remaining_leaf", P20, "r is Some ==> *r->Some_0.node == tti_rem(*old(self)).last().1 && r->Some_0.depth == tti_rem(*old(self)).last().0"),
                  Clause("rest_is_front", P20, "r is Some ==> tti_rem(*final(self)) =~= tti_rem(*old(self)).drop_last()"),
                  Clause("exhausted_stays_exhausted", P20, "r is None ==> tti_rem(*final(self)).len() == 0"),
                  Clause("measure_decreases", ("C11",), "r is Some ==> tti_measure(*final(self)) < tti_measure(*old(self))")]))
    vf.trust("vstd specification of core::slice::Iter (IteratorSpec::remaining / decrease, next, next_back, <[T]>::iter)",
             "std: a slice iterator yields the elements of the slice front to back (next) / back to front (next_back); shipped with Verus")
    with vf.block("impl<'tr, Pk: MiniscriptKey> TapTreeIterItem<'tr, Pk>"):
        vf.fn(TAPTREE, "impl:TapTreeIterItem<'tr, Pk>/fn:miniscript", qual="TapTreeIterItem", props=("C11",),
              contract=Contract(ensures=[Clause("field", (), "r == self.node")]))
    with vf.block("impl<Pk: MiniscriptKey> TapTree<Pk>"):
        vf.fn(TAPTREE, "impl:TapTree<Pk>/fn:leaves", qual="TapTree", props=PROPS,
              contract=Contract(ensures=[Clause("well_formed", ("C11",), "tti_inv(r)"), Clause("all_leaves_in_order", P20, "tti_rem(r) =~= self.depths_leaves@")]))
    with vf.block("impl<Pk: MiniscriptKey> Tr<Pk>"):
        vf.fn(TR, C20.impl_with_fn(repo, TR, "Tr<Pk>", "internal_key"), qual="Tr", props=("C11",),
              contract=Contract(ensures=[Clause("field", (), "*r == self.internal_key")]))
        vf.fn(TR, C20.impl_with_fn(repo, TR, "Tr<Pk>", "leaves"), qual="Tr", props=PROPS,
              contract=Contract(ensures=[Clause("well_formed", ("C11",), "tti_inv(r)"), Clause("all_leaves_in_order_or_none", P20, "tti_rem(r) =~= tr_leaves(*self)")]))

    # the iterator itself
    def ctor(what):
        return Contract(ensures=[Clause("invariant_established", PROPS, "desc_inv(r)"),
                                 Clause("starts_with_all_keys_in_string_order", P20, "desc_rem(r) =~= %s" % what)])
    no_attr = sub("R1-attr", r"#\[rustfmt::skip\][^\n]*\n", "", required=False)
    with vf.block("impl<'desc, Pk: MiniscriptKey> PkIter<'desc, Pk>"):
        ONE = at_body_start("broadcast use lemma_cat_one;")
        vf.fn(DITER, "impl:PkIter<'desc, Pk>/fn:from_key", qual="PkIter", props=PROPS, rewrites=[ONE], contract=ctor("seq![pk]"))
        for c in ("bare", "legacy", "segwit"):
            vf.fn(DITER, "impl:PkIter<'desc, Pk>/fn:from_miniscript_%s" % c, qual="PkIter", props=PROPS, rewrites=[ONE], contract=ctor("keys_of_ms(*ms)"))
        vf.fn(DITER, "impl:PkIter<'desc, Pk>/fn:from_tr", qual="PkIter", props=PROPS, rewrites=[at_body_start(USE_CLONE + " broadcast use lemma_cat_one;")], contract=ctor("keys_of_tr(*tr)"))
        c = iter_next_contract("desc_rem", inv="desc_inv", item="r->Some_0", what="string_order")
        c.ensures.append(Clause("progress", ("C11",), "r is Some ==> desc_leaves_left(*final(self)) < desc_leaves_left(*old(self)) || "
                                "(desc_leaves_left(*final(self)) == desc_leaves_left(*old(self)) && desc_keys_loaded(*final(self)) < desc_keys_loaded(*old(self)))"))
        vf.fn(DITER, "impl:Iterator for PkIter<'desc, Pk>/fn:next", qual="PkIter", props=PROPS, attrs="#[verifier::loop_isolation(false)]\n    #[verifier::allow_complex_invariants]",
              rewrites=[no_attr, lit("R7-assoc-type", "Option<Self::Item>", "Option<Pk>"), at_body_start(USE_CLONE + " broadcast use lemma_cat_step, lemma_cat_head;"),
                        lit("R10", DESC_PEEK_OLD, DESC_PEEK_NEW, required=False),
                        as_mut_and_then, or_else_to_match,
                        lit("R10-loop-invariant", DESC_LOOP_OLD, DESC_LOOP_NEW, required=False),
                        lit("R10", DESC_LOAD_OLD, DESC_LOAD_NEW, required=False)],
              contract=c)
        # ONE ITERATION of the tap-leaf loop of `next`, body verbatim (DESIGN 3.2), so that a wrong step is reported on a named clause
        # (inside `next` it can only break the loop invariant = `next.body`).  `None` = the iteration ended without yielding
        # (a leaf was loaded / the loop was left): `break;` / `continue;` become `return None;` (R17) and a trailing `None` is generated.
        try:
            reg = repo.at(DITER, "impl:Iterator for PkIter<'desc, Pk>/fn:next/block:loop")
        except AnchorLost:
            reg = None                 # no loop any more: `next` itself is judged as it stands
        if reg is not None:
            text = ("fn next__loop_iteration(&mut self) -> Option<Pk> {\n        broadcast use lemma_cat_step, lemma_cat_head;\n%s\n        None\n    }\n" % reg.text)
            text = vf._apply(drop_vis(strip_docs(text)), [lit("R10", DESC_PEEK_OLD, DESC_PEEK_NEW, required=False), as_mut_and_then,
                                                          lit("R10", DESC_LOAD_OLD, DESC_LOAD_NEW, required=False),
                                                          sub("R17-iteration-ends", r"\b(break|continue);", "return None;", required=False)], "next/block:loop")
            vf.fn_text("PkIter::next__loop_iteration", text, Contract(
                requires=["desc_inv(*old(self))", "old(self).single_key is None"],
                ensures=[Clause("invariant_preserved", PROPS, "desc_inv(*final(self))"),
                         Clause("leaves_are_loaded_in_leaf_order", P20, "r is None ==> desc_rem(*final(self)) =~= desc_rem(*old(self))"),
                         Clause("keys_of_the_current_leaf_come_first", P20, "r is Some ==> r->Some_0 == desc_rem(*old(self))[0] && desc_rem(*final(self)) =~= desc_rem(*old(self)).skip(1)"),
                         Clause("other_sources_untouched", P20, "final(self).single_key == old(self).single_key && final(self).ms_iter_bare == old(self).ms_iter_bare "
                                "&& final(self).ms_iter_legacy == old(self).ms_iter_legacy && final(self).ms_iter_segwit == old(self).ms_iter_segwit")]),
                PROPS, file=DITER, lines=reg.lines(), anchor="impl:Iterator for PkIter<'desc, Pk>/fn:next/block:loop")
    K = "keys_of_ms(%s)"
    with vf.block("impl<Pk: MiniscriptKey> Descriptor<Pk>"):
        vf.fn(DMOD, C20.impl_with_fn(repo, DMOD, "Descriptor<Pk>", "iter_pk"), qual="Descriptor", props=PROPS, rewrites=[at_body_start(USE_CLONE)], contract=Contract(ensures=[
            Clause("invariant_established", PROPS, "desc_inv(r)"),
            Clause("Bare", P20, "*self matches Descriptor::Bare(d) ==> desc_rem(r) =~= " + K % "d.ms"),
            Clause("Pkh", P20, "*self matches Descriptor::Pkh(d) ==> desc_rem(r) =~= seq![d.pk]"),
            Clause("Wpkh", P20, "*self matches Descriptor::Wpkh(d) ==> desc_rem(r) =~= seq![d.pk]"),
            Clause("Wsh", P20, "*self matches Descriptor::Wsh(d) ==> desc_rem(r) =~= " + K % "d.ms"),
            Clause("Sh.Ms", P20, "*self matches Descriptor::Sh(d) ==> d.inner matches ShInner::Ms(m) ==> desc_rem(r) =~= " + K % "m"),
            Clause("Sh.Wsh", P20, "*self matches Descriptor::Sh(d) ==> d.inner matches ShInner::Wsh(w) ==> desc_rem(r) =~= " + K % "w.ms"),
            Clause("Sh.Wpkh", P20, "*self matches Descriptor::Sh(d) ==> d.inner matches ShInner::Wpkh(w) ==> desc_rem(r) =~= seq![w.pk]"),
            Clause("Tr", P20, "*self matches Descriptor::Tr(d) ==> desc_rem(r) =~= keys_of_tr(d)"),
            Clause("all_keys_in_string_order", P20, "desc_rem(r) =~= keys_of_desc(*self)")]))
    vf.spec_obligation("compose::drain_desc_iter_pk", DRAIN_DESC, PROPS)

    # ---- (3) ForEachKey for Tr ------------------------------------------------------------------------------------------------------------
    vf.raw(FEK_STUB)
    vf.trust("ms_for_each_key (external_body): whole-tree contract of `impl ForEachKey for Miniscript`",
             "ASSUMED: pred sees the keys of the expression in string order, stops at the first `false`; per-node step proved in units/c20_translate.py, "
             "traversal order in units/c00_tree.py, the induction over the tree is not mechanised")
    chain = LeavesAll()
    with vf.block("impl<Pk: MiniscriptKey> Tr<Pk>"):
        reg = vf.fn(TR, "impl:ForEachKey<Pk> for Tr<Pk>/fn:for_each_key", qual="Tr", props=PROPS,
              rewrites=[chain,
                        sub("R10", r"\n(\s*)(script_keys_res\b[^\n;]*\n\s*\}\s*)$", r"\n\1proof { lemma_pred_cons(pred, self.internal_key, leaves_keys(tr_leaves(*self))); }\n\1\2", required=False)],
              contract=Contract(requires=["forall|k: &'a Pk| call_requires(pred, (k,))"], canary=False, ensures=[
                  Clause("true_only_if_pred_holds_on_every_key", P20, "r ==> pred_all_true(pred, keys_of_tr(*self))"),
                  Clause("false_only_if_pred_fails_on_some_key", P20, "!r ==> pred_some_false(pred, keys_of_tr(*self))")]))
        # the closure `|leaf| BODY` of the `.all(..)`, lambda-lifted (R16), BODY verbatim
        text = ("fn for_each_key__leaf<'a, F: FnMut(&'a Pk) -> bool>(leaf: TapTreeIterItem<'a, Pk>, pred: &mut F) -> bool {\n        %s\n    }\n" % chain.body)
        text = vf._apply(text, [sub("R16-captured-pred", r"&mut pred\b", "pred"),
                                sub("R7-fnmut-forward", r"\b([\w.()]+)\.for_each_key\(pred\)", r"ms_for_each_key(\1, pred)")], "for_each_key closure |leaf|")
        vf.fn_text("Tr::for_each_key__leaf", text, Contract(
            requires=["forall|k: &'a Pk| call_requires(*old(pred), (k,))"], canary=False,
            ensures=[Clause("predicate_unchanged", (), "*final(pred) == *old(pred)"),
                     Clause("true_only_if_pred_holds_on_every_key_of_the_leaf", P20, "r ==> pred_all_true(*old(pred), item_keys(&leaf))"),
                     Clause("false_only_if_pred_fails_on_some_key_of_the_leaf", P20, "!r ==> pred_some_false(*old(pred), item_keys(&leaf))")]),
            PROPS, file=TR, lines=reg.lines(), anchor="impl:ForEachKey<Pk> for Tr<Pk>/fn:for_each_key closure |leaf|")
    return vf
