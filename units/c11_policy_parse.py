"""C11 unit (Verus): PANIC-FREEDOM of the expression-tree consumers that keep an explicit result stack.

Part 1  src/expression/mod.rs  the real accessors of `TreeIterItem` / `DirectChildIterator` (name, n_children, parent, is_first_child,
        first_child, children, DirectChildIterator::next, rightmost_descendant_idx, verify_terminal_parent, verify_after, verify_older,
        parse_num) over the REAL `TreeNode` array, under contracts stated over an abstract well-formed pre-order array (`wf_tree`: what
        Tree::from_str builds -- ASSUMED, listed).  Every `self.nodes[self.index]` is an obligation (C11).
Part 2  `TreeIterItem::verify_threshold` (shared by the thresh / multi parsers of Miniscript, policy::Concrete, policy::Semantic):
            r is Ok ==> the k child is a TERMINAL; map_child was called exactly once on each of the children 1..n, in order, and never on
            the k child; `inner` holds the results in order; k is parse_num of the k child's name; 1 <= k <= n-1 (<= MAX);
            no children / a k child with children ==> Err;  `n_children() - 1` cannot underflow, `child_iter.next().unwrap()` cannot panic.
        The FnMut closure is closure-converted (trait ChildMapper with an abstract call log); the two policy call sites are ALSO verified as
        instances with the closure body of the call site inlined (`|_| Ok(stack.pop().unwrap().1)`): one pop per value child.
Part 3  `impl FromTree for Policy` in src/policy/concrete.rs and src/policy/semantic.rs: for EVERY well-formed tree and every assignment
        of names no `stack.pop().unwrap()`, no index, no `assert_eq!(stack.len(), 1)` can panic.  The loop body is cut verbatim into
        `from_tree_step(node, &mut stack)`; the `for node in root.pre_order_iter().rev()` loop becomes a verified index loop that carries

            INVARIANT  stack.len() == pending(i) = #{ c in [i, last] : c is not skipped and (parent(c) < i or parent(c) is skipped) }

        ("one entry per pending root of the processed suffix").  The step contract: needs nsc(i) = #value children of i entries, changes the
        length by 0 (skipped) / 1 - nsc(i), and -- the coupling with verify_threshold -- a node that makes the traversal skip its first child
        has verified that this child is a LEAF (`node_ok`).  Flat counting lemmas (no tree induction needed beyond parent < child) give:
        pending(i+1) >= nsc(i) (no pop on an empty stack), pending(i) = pending(i+1) + delta(i), and pending(root) == 1 once every node is ok
        (skipped nodes are leaves, so nobody's entry is orphaned): the final assert.

PRECONDITION of the two from_tree (clause root_is_not_an_inner_value): the root handed in is not itself an "inner value" (its parent, if
any, has != 1 children and it is not the first child of a node named thresh) -- true for `tree.root()`, which is what FromStr passes.
The same text is ALSO verified without that precondition as `from_tree__handed_any_node` (FromTree::from_tree is a public trait method and
takes any TreeIterItem): RED on the unchanged tree, genuine -- the traversal consults `node.parent()` for the root of the traversal too,
so handed the only child of its parent (what `verify_toplevel(name, 1..=1)` returns) or the first child of a node named thresh the
function skips its own root and `assert_eq!(stack.len(), 1)` fires.  Reproduced against the crate:
    let t = expression::Tree::from_str("x(pk(A))").unwrap();
    policy::Concrete::<String>::from_tree(t.root().first_child().unwrap())      // panics: assertion `left == right` failed, left: 0, right: 1
(same for policy::Semantic; "thresh(and(pk(A),pk(B)),pk(C))" + first_child(): left: 2).  Not reachable through Policy::from_str.
Miniscript::from_tree guards against exactly this with `n > 0` (its comment: "We do not do this check on the root node").
"""
import re

from vlib.verus import VerusFile, Contract, Clause, Undecided, sub, lit, rule, drop_vis, split_fn
from vlib.extract import match_close, strip_docs
from units import _tree
from units import c18_semantic as S

NAME = "c11_policy_parse"
ENGINE = "verus"
PROPS = ("C11", "C10")
P11 = ("C11",)
P10 = ("C10",)
P1011 = ("C10", "C11")

EXPR = "src/expression/mod.rs"
EXPR_ERR = "src/expression/error.rs"
THRESH = _tree.THRESH
CONC = "src/policy/concrete.rs"
SEM = "src/policy/semantic.rs"

DROPPED = [
    "ASSUMED: every TreeIterItem handed in points into a well-formed pre-order array (wf_tree: parent_idx < index; n_children == number of nodes naming the node as parent; "
    "first child right behind its parent; last_child_idx / right_sibling_idx chains enumerate exactly n_children nodes; the descendants of a node are the contiguous block "
    "[i, rmd(i)]).  That Tree::from_str builds such arrays is NOT verified here (Kani ran out of memory on it, DESIGN 11)",
    "verify_threshold: R16 closure conversion `mut map_child: F, F: FnMut(Self) -> Result<T, E>` -> `map_child: &mut F, F: ChildMapper<'s, T, E>` with `map_child(x)` -> `map_child.call(x)` "
    "(a by-value FnMut closure capturing `&mut stack` IS a `&mut` environment; Verus has no FnMut state).  Instances for the policy call sites: the closure body of the call site "
    "is inlined for `map_child(ARG)` as `{ let _ = ARG; BODY }`, `stack` becomes a `&mut Vec` parameter, T / E are fixed to the call site's types (also where the body names them: `E::from(x)` -> `Error::from(x)`)",
    "verify_threshold: R14 `PRE.and_then(|thresh| thresh.translate_by_index(|_| BODY))` -> `match PRE { Err(e) => Err(e), Ok(thresh) => { index loop over 0..thresh.inner.len() "
    "running BODY (verbatim), stop at the first Err, Ok(Threshold { k, inner }) } }` (also when written `let t = PRE?; t.translate_by_index(|_| BODY)`: `let th_ = t;` + the same loop): definitions of Result::and_then and of Threshold::translate_by_index "
    "(`(0..n).map(f).collect::<Result<Vec<_>, _>>().map(|inner| Threshold { k, inner })`; its text must equal EXPECTED_TRANSLATE_BY_INDEX, else UNDECIDED) + trusted std semantics "
    "of map/collect into Result (calls in index order, stops at the first Err)",
    "constructors used as function values (`.map_err(ParseThresholdError::ParseK)`, `.map(Policy::Key)`, `.map_err(Error::Parse)` ..) are eta-expanded to closures (R12')",
    "closures inside the accessors (`.map(|n| Self { nodes: self.nodes, index: n })`, `.map(|n| n + 1 == self.index)`) get a type ascription and `requires/ensures` (R10, ghost only)",
    "verify_n_children(desc, A..=B) / (desc, A..) -> stubs verify_n_children_(desc, A, B) / verify_n_children_from_(desc, A): the `impl RangeBounds<usize>` parameter is specialised "
    "to the two range shapes the call sites pass (R8; trusted: RangeInclusive::contains / RangeFrom::contains); name_separated (str::splitn), verify_terminal (T::from_str), "
    "parse_num_nonzero, verify_no_curly_braces, AbsLockTime / RelLockTime::from_consensus are contract stubs (see trusted list)",
    "verify_terminal / verify_terminal_parent: the bound `where T: FromStr, T::Err: StaticDebugAndDisplay` is dropped (the stub of verify_terminal is unconstrained in T)",
    "policy from_tree: `for node in root.pre_order_iter().rev() { BODY }` -> `let it_hi_ = root.rightmost_descendant_idx(); let mut it_i_ = it_hi_ + 1; while it_i_ > root.index { it_i_ -= 1; "
    "let node = TreeIterItem { nodes: root.nodes, index: it_i_ }; Self::from_tree_step(node, &mut stack)?; }` (R8 + R16 lambda lifting; BODY verbatim in from_tree_step with "
    "`continue;` -> `return Ok(());`, its `?` / `return Err` leave through the `?` of the call).  Trusted: PreOrderIter::next_back / Rev / RangeInclusive::next_back yield the items "
    "TreeIterItem { nodes, index: n } for n = rightmost_descendant_idx() down to index (texts of pre_order_iter / next_back checked against EXPECTED_*, else UNDECIDED).  "
    "Termination of the loop IS proved",
    "semantic from_tree, and / or arms: `let child_iter = (0..N).map(|_| stack.pop().unwrap()); .. Threshold::from_iter(K, child_iter)` -> eager index loop collecting the pops into a Vec + "
    "stub from_iter_drained_ (trusted: Threshold::from_iter drains its iterator completely on both of its paths -- `count()` / `for_each` -- so exactly N pops happen, in order; then it is Threshold::new)",
    "`assert_eq!(a, b)` -> `assert!(a == b)`; `Arc::try_unwrap(x).unwrap()` -> arc_unwrap_unique(x) (that the reference count is 1 is NOT claimed: the Arc was created two lines above and never cloned)",
    "the default arm `x => Err(..UnknownName { name: x.to_owned() })`: `x.to_owned()` -> stub str_to_owned_(x); error enums Error / ParseError / ParseTreeError reduced to the variants the "
    "extracted text constructs; `crate::` / `expression::` path prefixes dropped (R7); enum Policy renamed Concrete / Semantic (two enums of the same name in one file)",
    "from_tree__handed_any_node (both policies): the from_tree text once more, WITHOUT the precondition that the root is not skipped; kept RED as an INFO obligation without property id (robustness of the public trait method; outside C11's quantifier, see the module docstring)",
    "WHAT the arms build (which name gives which Policy variant, the odds of `or`, the order of popped children) is NOT claimed here except: verify_threshold keeps child order and k (C10 clauses)",
    "NOT covered: the head of Miniscript::from_tree (same stack discipline; its `binary` / wrapper-loop plumbing needs fn-pointer specialisation) -- still R9-head in c12_from_tree",
]

MODEL = r"""
// ================================================================================================================
// The expression tree as /repo stores it: a flat array of TreeNode in pre-order.  ASSUMED well-formedness (what
// Tree::from_str builds; not verified here): parents precede children, n_children counts the nodes whose parent_idx
// is the node, a node with children has its first child right behind it, the right_sibling_idx chain from the first
// child enumerates exactly n_children nodes, and the descendants of a node form the contiguous block behind it.
// ================================================================================================================
spec fn par(ns: Seq<TreeNode>, c: int) -> Option<usize> { ns[c].parent_idx }
spec fn nch(ns: Seq<TreeNode>, i: int) -> int { ns[i].n_children as int }
spec fn is_child_of(ns: Seq<TreeNode>, i: int) -> spec_fn(int) -> bool { |c: int| par(ns, c) == Some(i as usize) }

// number of indices in [lo, hi) that satisfy p
spec fn count(p: spec_fn(int) -> bool, lo: int, hi: int) -> nat decreases hi - lo {
    if lo >= hi { 0 } else { count(p, lo, hi - 1) + if p(hi - 1) { 1nat } else { 0nat } }
}
// the right_sibling_idx chain starting at node c
spec fn sibs_from(ns: Seq<TreeNode>, c: int) -> Seq<int> decreases ns.len() - c {
    if 0 <= c < ns.len() {
        seq![c] + (match ns[c].right_sibling_idx { Some(s) => if c < s < ns.len() { sibs_from(ns, s as int) } else { Seq::empty() }, None => Seq::empty() })
    } else { Seq::empty() }
}
// the direct children of node i, left to right
spec fn child_seq(ns: Seq<TreeNode>, i: int) -> Seq<int> {
    if ns[i].last_child_idx is Some { sibs_from(ns, i + 1) } else { Seq::empty() }
}
// index of the last node of the block of descendants of i (follow last_child_idx)
spec fn rmd(ns: Seq<TreeNode>, i: int) -> int decreases ns.len() - i {
    if 0 <= i < ns.len() {
        match ns[i].last_child_idx { Some(l) => if i < l < ns.len() { rmd(ns, l as int) } else { i }, None => i }
    } else { i }
}
spec fn wf_node(ns: Seq<TreeNode>, i: int) -> bool {
    &&& (par(ns, i) matches Some(p) ==> p < i)
    &&& nch(ns, i) == count(is_child_of(ns, i), i + 1, ns.len() as int)
    &&& (ns[i].last_child_idx is Some <==> nch(ns, i) > 0)
    &&& (nch(ns, i) > 0 ==> i + 1 < ns.len() && par(ns, i + 1) == Some(i as usize))
    &&& (ns[i].last_child_idx matches Some(l) ==> i < l < ns.len() && ns[l as int].right_sibling_idx is None)
    &&& (ns[i].right_sibling_idx matches Some(s) ==> i < s < ns.len())
    &&& child_seq(ns, i).len() == nch(ns, i)
    // the block [i, rmd(i)] is closed under parent / child
    &&& i <= rmd(ns, i) < ns.len()
    &&& (forall|c: int| i < c <= rmd(ns, i) ==> (#[trigger] par(ns, c) matches Some(p) && i <= p))
    &&& (forall|c: int| rmd(ns, i) < c < ns.len() ==> (#[trigger] par(ns, c) matches Some(p) ==> !(i <= p <= rmd(ns, i))))
}
spec fn wf_tree(ns: Seq<TreeNode>) -> bool {
    ns.len() <= usize::MAX && forall|i: int| 0 <= i < ns.len() ==> #[trigger] wf_node(ns, i)
}

// ---- counting lemmas ---------------------------------------------------------------------------------------------
proof fn lemma_count_le(p: spec_fn(int) -> bool, q: spec_fn(int) -> bool, lo: int, hi: int)
    requires forall|c: int| lo <= c < hi && #[trigger] p(c) ==> q(c),
    ensures count(p, lo, hi) <= count(q, lo, hi),
    decreases hi - lo,
{ if lo < hi { lemma_count_le(p, q, lo, hi - 1); } }
proof fn lemma_count_union(p: spec_fn(int) -> bool, q: spec_fn(int) -> bool, r: spec_fn(int) -> bool, lo: int, hi: int)
    requires forall|c: int| lo <= c < hi ==> (#[trigger] p(c) <==> (q(c) || r(c))) && !(q(c) && r(c)),
    ensures count(p, lo, hi) == count(q, lo, hi) + count(r, lo, hi),
    decreases hi - lo,
{ if lo < hi { lemma_count_union(p, q, r, lo, hi - 1); } }
proof fn lemma_count_zero(p: spec_fn(int) -> bool, lo: int, hi: int)
    requires forall|c: int| lo <= c < hi ==> !#[trigger] p(c),
    ensures count(p, lo, hi) == 0,
    decreases hi - lo,
{ if lo < hi { lemma_count_zero(p, lo, hi - 1); } }
proof fn lemma_count_split(p: spec_fn(int) -> bool, lo: int, mid: int, hi: int)
    requires lo <= mid <= hi,
    ensures count(p, lo, hi) == count(p, lo, mid) + count(p, mid, hi),
    decreases hi - mid,
{ if mid < hi { lemma_count_split(p, lo, mid, hi - 1); } }
proof fn lemma_count_first(p: spec_fn(int) -> bool, lo: int, hi: int)
    requires lo < hi,
    ensures count(p, lo, hi) == count(p, lo + 1, hi) + if p(lo) { 1nat } else { 0nat },
{ lemma_count_split(p, lo, lo + 1, hi); assert(count(p, lo, lo) == 0); }
proof fn lemma_count_pos(p: spec_fn(int) -> bool, lo: int, hi: int, w: int)
    requires lo <= w < hi, p(w),
    ensures count(p, lo, hi) >= 1,
{ lemma_count_split(p, lo, w, hi); lemma_count_first(p, w, hi); }
proof fn lemma_count_two(p: spec_fn(int) -> bool, lo: int, hi: int, w: int, v: int)
    requires lo <= w < v < hi, p(w), p(v),
    ensures count(p, lo, hi) >= 2,
{ lemma_count_split(p, lo, v, hi); lemma_count_pos(p, lo, v, w); lemma_count_first(p, v, hi); }

// ---- consequences of well-formedness -----------------------------------------------------------------------------
// a node that is somebody's parent has n_children >= 1
proof fn lemma_has_child(ns: Seq<TreeNode>, p: int, c: int)
    requires wf_tree(ns), 0 <= p < ns.len(), 0 <= c < ns.len(), par(ns, c) == Some(p as usize),
    ensures nch(ns, p) >= 1, p < c,
{
    assert(wf_node(ns, c)); assert(wf_node(ns, p));
    lemma_count_pos(is_child_of(ns, p), p + 1, ns.len() as int, c);
}
// an only child is the next node
proof fn lemma_only_child(ns: Seq<TreeNode>, p: int, c: int)
    requires wf_tree(ns), 0 <= p < ns.len(), 0 <= c < ns.len(), par(ns, c) == Some(p as usize), nch(ns, p) == 1,
    ensures c == p + 1,
{
    assert(wf_node(ns, c)); assert(wf_node(ns, p));
    if c != p + 1 { lemma_count_two(is_child_of(ns, p), p + 1, ns.len() as int, p + 1, c); }
}
"""

POLICY_SPEC = r"""
// ================================================================================================================
// The stack discipline of the two policy parsers (proof-internal; derived from the code).
//   sep = true : policy::Concrete  (parent names are read through name_separated('@'))
//   sep = false: policy::Semantic  (parent names are read through name())
// ================================================================================================================
// name_separated(sep).1 : the whole name if it has no separator, else what follows the first one
spec fn sepname(s: Seq<char>, sep: char) -> Seq<char> {
    if !s.contains(sep) { s } else { s.subrange(s.index_of(sep) + 1, s.len() as int) }
}
spec fn base_name(ns: Seq<TreeNode>, p: int, sep: bool) -> Seq<char> {
    if sep { sepname(ns[p].name@, '@') } else { ns[p].name@ }
}
// SKIP RULE: the node pushes nothing (inner value of a terminal; the k of a thresh)
spec fn skip(ns: Seq<TreeNode>, c: int, sep: bool) -> bool {
    par(ns, c) matches Some(p) && (nch(ns, p as int) == 1 || (p + 1 == c && base_name(ns, p as int, sep) == "thresh"@))
}
spec fn value_child_of(ns: Seq<TreeNode>, i: int, sep: bool) -> spec_fn(int) -> bool { |c: int| par(ns, c) == Some(i as usize) && !skip(ns, c, sep) }
// number of children of i that push a value = what node i must pop
spec fn nsc(ns: Seq<TreeNode>, i: int, sep: bool) -> int { count(value_child_of(ns, i, sep), i + 1, ns.len() as int) as int }
// what a successfully processed node guarantees about the child it made the traversal skip
spec fn node_ok(ns: Seq<TreeNode>, i: int, sep: bool) -> bool {
    !skip(ns, i, sep) && nch(ns, i) >= 1 && (nch(ns, i) == 1 || base_name(ns, i, sep) == "thresh"@) ==> nch(ns, i + 1) == 0
}
// entry of node c is on the stack once the nodes >= i have been processed: c pushed one and no processed node popped it
spec fn live(ns: Seq<TreeNode>, i: int, sep: bool) -> spec_fn(int) -> bool {
    |c: int| !skip(ns, c, sep) && (match par(ns, c) { None => true, Some(p) => p < i || skip(ns, p as int, sep) })
}
// INVARIANT: stack.len() == pending(i) after the nodes i..=hi have been processed
spec fn pending(ns: Seq<TreeNode>, i: int, hi: int, sep: bool) -> int { count(live(ns, i, sep), i, hi + 1) as int }

proof fn lemma_nsc(ns: Seq<TreeNode>, i: int, sep: bool)
    requires wf_tree(ns), 0 <= i < ns.len(),
    ensures
        0 <= nsc(ns, i, sep) <= nch(ns, i),
        nch(ns, i) == 1 ==> nsc(ns, i, sep) == 0,
        nch(ns, i) != 1 && base_name(ns, i, sep) != "thresh"@ ==> nsc(ns, i, sep) == nch(ns, i),
        nch(ns, i) >= 1 && base_name(ns, i, sep) == "thresh"@ ==> nsc(ns, i, sep) == nch(ns, i) - 1,
{
    let n = ns.len() as int;
    assert(wf_node(ns, i));
    let all = is_child_of(ns, i);
    let val = value_child_of(ns, i, sep);
    lemma_count_le(val, all, i + 1, n);
    if nch(ns, i) == 1 {
        lemma_count_zero(val, i + 1, n);
    } else if base_name(ns, i, sep) != "thresh"@ {
        lemma_count_le(all, val, i + 1, n);
    } else if nch(ns, i) >= 1 {
        let first = |c: int| c == i + 1;
        assert forall|c: int| i + 1 <= c < n implies (#[trigger] all(c) <==> (val(c) || first(c))) && !(val(c) && first(c)) by {}
        lemma_count_union(all, val, first, i + 1, n);
        lemma_count_first(first, i + 1, n);
        lemma_count_zero(first, i + 2, n);
    }
}
// children of a node of the block [lo, rmd(lo)] lie in the block
proof fn lemma_nsc_in_block(ns: Seq<TreeNode>, lo: int, i: int, sep: bool)
    requires wf_tree(ns), 0 <= lo <= i <= rmd(ns, lo), lo < ns.len(),
    ensures nsc(ns, i, sep) == count(value_child_of(ns, i, sep), i + 1, rmd(ns, lo) + 1),
{
    assert(wf_node(ns, lo));
    lemma_count_split(value_child_of(ns, i, sep), i + 1, rmd(ns, lo) + 1, ns.len() as int);
    lemma_count_zero(value_child_of(ns, i, sep), rmd(ns, lo) + 1, ns.len() as int);
}
// A: the entries node i pops are on the stack
proof fn lemma_pending_covers_pops(ns: Seq<TreeNode>, lo: int, i: int, sep: bool)
    requires wf_tree(ns), 0 <= lo <= i <= rmd(ns, lo), lo < ns.len(),
    ensures pending(ns, i + 1, rmd(ns, lo), sep) >= nsc(ns, i, sep),
{
    lemma_nsc_in_block(ns, lo, i, sep);
    lemma_count_le(value_child_of(ns, i, sep), live(ns, i + 1, sep), i + 1, rmd(ns, lo) + 1);
}
// B: processing node i changes the stack by d(i) = 0 (skipped) / 1 - nsc(i)
proof fn lemma_pending_step(ns: Seq<TreeNode>, lo: int, i: int, sep: bool)
    requires wf_tree(ns), 0 <= lo <= i <= rmd(ns, lo), lo < ns.len(),
    ensures pending(ns, i, rmd(ns, lo), sep) == pending(ns, i + 1, rmd(ns, lo), sep) + (if skip(ns, i, sep) { 0 } else { 1 - nsc(ns, i, sep) }),
{
    let hi = rmd(ns, lo);
    assert(wf_node(ns, lo));
    assert(wf_node(ns, i));
    lemma_nsc_in_block(ns, lo, i, sep);
    lemma_count_first(live(ns, i, sep), i, hi + 1);
    let popped = |c: int| value_child_of(ns, i, sep)(c) && !skip(ns, i, sep);
    assert forall|c: int| i + 1 <= c < hi + 1 implies (#[trigger] live(ns, i + 1, sep)(c) <==> (live(ns, i, sep)(c) || popped(c))) && !(live(ns, i, sep)(c) && popped(c)) by {}
    lemma_count_union(live(ns, i + 1, sep), live(ns, i, sep), popped, i + 1, hi + 1);
    if skip(ns, i, sep) { lemma_count_zero(popped, i + 1, hi + 1); }
    else { lemma_count_le(popped, value_child_of(ns, i, sep), i + 1, hi + 1); lemma_count_le(value_child_of(ns, i, sep), popped, i + 1, hi + 1); }
}
// when every node of the block was processed successfully, the skipped ones are leaves ...
proof fn lemma_skipped_are_leaves(ns: Seq<TreeNode>, lo: int, p: int, sep: bool)
    requires wf_tree(ns), 0 <= lo < p <= rmd(ns, lo), lo < ns.len(), !skip(ns, lo, sep),
        forall|j: int| lo <= j <= rmd(ns, lo) ==> #[trigger] node_ok(ns, j, sep),
        skip(ns, p, sep),
    ensures nch(ns, p) == 0,
    decreases p,
{
    assert(wf_node(ns, lo));
    assert(wf_node(ns, p));
    let q = par(ns, p)->Some_0 as int;
    assert(par(ns, p) is Some && lo <= q);
    lemma_has_child(ns, q, p);
    if skip(ns, q, sep) { lemma_skipped_are_leaves(ns, lo, q, sep); }
    assert(node_ok(ns, q, sep));
    if nch(ns, q) == 1 { lemma_only_child(ns, q, p); }
}
// C: ... so nothing but the root's entry is left
proof fn lemma_pending_final(ns: Seq<TreeNode>, lo: int, sep: bool)
    requires wf_tree(ns), 0 <= lo < ns.len(), !skip(ns, lo, sep),
        forall|j: int| lo <= j <= rmd(ns, lo) ==> #[trigger] node_ok(ns, j, sep),
    ensures pending(ns, lo, rmd(ns, lo), sep) == 1,
{
    let hi = rmd(ns, lo);
    assert(wf_node(ns, lo));
    lemma_count_first(live(ns, lo, sep), lo, hi + 1);
    assert forall|c: int| lo + 1 <= c < hi + 1 implies !#[trigger] live(ns, lo, sep)(c) by {
        let p = par(ns, c)->Some_0 as int;
        assert(par(ns, c) is Some && lo <= p);
        if skip(ns, p, sep) {
            assert(wf_node(ns, c));
            lemma_skipped_are_leaves(ns, lo, p, sep);
            lemma_has_child(ns, p, c);
        }
    }
    lemma_count_zero(live(ns, lo, sep), lo + 1, hi + 1);
}
// the literal fragment names the arms of the two parsers pop under
proof fn lemma_names()
    ensures
        "and"@ != "thresh"@, "or"@ != "thresh"@,
        sepname("and"@, '@') == "and"@, sepname("or"@, '@') == "or"@, sepname("thresh"@, '@') == "thresh"@,
{
    reveal_strlit("and"); reveal_strlit("or"); reveal_strlit("thresh");
    assert("and"@.len() == 3 && "or"@.len() == 2 && "thresh"@.len() == 6);
    assert(!"and"@.contains('@'));
    assert(!"or"@.contains('@'));
    assert(!"thresh"@.contains('@'));
}
"""

ERRORS = r"""
// ---- error types: payloads are only moved around (reduced to the variants the extracted text constructs) -----------------------
struct ParseNumError { opaque: u8 }
struct AbsLockTimeError { opaque: u8 }
struct RelLockTimeError { opaque: u8 }
enum ParseTreeError { UnknownName { name: String }, Other }
enum ParseError { AbsoluteLockTime(AbsLockTimeError), RelativeLockTime(RelLockTimeError), FromStr, Num(ParseNumError), Tree(ParseTreeError) }
enum Error { Parse(ParseError), Threshold(ThresholdError), ParseThreshold(ParseThresholdError), Other }
// src/error.rs, src/lib.rs: the three conversions the `?` / `.map_err(From::from)` / `.into()` of the extracted text go through
impl From<ParseNumError> for ParseError { fn from(e: ParseNumError) -> Self { Self::Num(e) } }
impl From<ParseTreeError> for ParseError { fn from(e: ParseTreeError) -> Self { Self::Tree(e) } }
impl From<ParseThresholdError> for Error { fn from(e: ParseThresholdError) -> Self { Self::ParseThreshold(e) } }
impl vstd::std_specs::convert::FromSpecImpl<ParseNumError> for ParseError {
    open spec fn obeys_from_spec() -> bool { true }
    closed spec fn from_spec(e: ParseNumError) -> Self { ParseError::Num(e) }
}
impl vstd::std_specs::convert::FromSpecImpl<ParseTreeError> for ParseError {
    open spec fn obeys_from_spec() -> bool { true }
    closed spec fn from_spec(e: ParseTreeError) -> Self { ParseError::Tree(e) }
}
impl vstd::std_specs::convert::FromSpecImpl<ParseThresholdError> for Error {
    open spec fn obeys_from_spec() -> bool { true }
    closed spec fn from_spec(e: ParseThresholdError) -> Self { Error::ParseThreshold(e) }
}
#[verifier::external_body] fn str_to_owned_(s: &str) -> String { unimplemented!() }
// Arc::try_unwrap(a).unwrap(): the pointee (that the count is 1 is not modelled)
#[verifier::external_body] fn arc_unwrap_unique<T>(a: Arc<T>) -> (r: T) ensures r == *a { unimplemented!() }
impl AbsLockTime {
    #[verifier::external_body] fn from_consensus(n: u32) -> Result<AbsLockTime, AbsLockTimeError> { unimplemented!() }
}
impl RelLockTime {
    #[verifier::external_body] fn from_consensus(n: u32) -> Result<RelLockTime, RelLockTimeError> { unimplemented!() }
}
"""

THRESH_SPEC = r"""
impl<T, const MAX: usize> Threshold<T, MAX> {
    // the threshold invariant (doc comment of struct Threshold): 1 <= k <= n, and n <= MAX when MAX > 0
    spec fn inv(&self) -> bool { 1 <= self.k <= self.inner@.len() && (MAX > 0 ==> self.inner@.len() <= MAX) }
    // Threshold::from_iter over an iterator that has been drained into `items` (R14; see DROPPED)
    #[verifier::external_body]
    fn from_iter_drained_(k: usize, items: Vec<T>) -> (r: Result<Self, ThresholdError>)
        ensures r is Ok ==> r->Ok_0.k == k && r->Ok_0.inner == items && r->Ok_0.inv(),
    { unimplemented!() }
}
"""

TREE_SPEC = r"""
impl<'s> TreeIterItem<'s> {
    // the handle points into a well-formed array
    spec fn valid(self) -> bool { wf_tree(self.nodes@) && self.index < self.nodes@.len() }
    spec fn ns(self) -> Seq<TreeNode<'s>> { self.nodes@ }
    spec fn i(self) -> int { self.index as int }
}
impl<'s> DirectChildIterator<'s> {
    spec fn wf_iter(&self) -> bool { self.current matches Some(it) ==> it.valid() }
    // the nodes still to be yielded
    spec fn remaining(&self) -> Seq<int> {
        match self.current { None => Seq::empty(), Some(it) => sibs_from(it.nodes@, it.index as int) }
    }
    spec fn arr(&self) -> Seq<TreeNode<'s>> { match self.current { None => Seq::empty(), Some(it) => it.nodes@ } }
}
proof fn lemma_sibs_unfold(ns: Seq<TreeNode>, c: int)
    requires wf_tree(ns), 0 <= c < ns.len(),
    ensures sibs_from(ns, c).len() >= 1, sibs_from(ns, c)[0] == c,
        sibs_from(ns, c).skip(1) == (match ns[c].right_sibling_idx { Some(s) => sibs_from(ns, s as int), None => Seq::<int>::empty() }),
{
    assert(wf_node(ns, c));
    let rest = match ns[c].right_sibling_idx { Some(s) => sibs_from(ns, s as int), None => Seq::<int>::empty() };
    assert(sibs_from(ns, c) =~= seq![c] + rest);
    assert((seq![c] + rest).skip(1) =~= rest);
}
uninterp spec fn spec_parse_num_nonzero(s: Seq<char>) -> Result<u32, ParseNumError>;
spec fn spec_parse_num(s: Seq<char>) -> Result<u32, ParseNumError> { if s == "0"@ { Ok(0u32) } else { spec_parse_num_nonzero(s) } }

// R16: the FnMut(TreeIterItem) -> Result<T, E> argument of verify_threshold, closure-converted: an abstract state with a call log
trait ChildMapper<'s, T, E> {
    spec fn calls(&self) -> Seq<int>;          // indices of the nodes it has been called on, oldest first
    spec fn outs(&self) -> Seq<T>;             // its Ok results, oldest first
    fn call(&mut self, item: TreeIterItem<'s>) -> (r: Result<T, E>)
        ensures final(self).calls() == old(self).calls().push(item.index as int),
            r matches Ok(v) ==> final(self).outs() == old(self).outs().push(v),
            r is Err ==> final(self).outs() == old(self).outs();
}
"""
TREE_LEMMAS = ["lemma_sibs_unfold"]
MODEL_LEMMAS = ["lemma_count_le", "lemma_count_union", "lemma_count_zero", "lemma_count_split", "lemma_count_first", "lemma_count_pos", "lemma_count_two",
                "lemma_has_child", "lemma_only_child"]
POLICY_LEMMAS = ["lemma_nsc", "lemma_nsc_in_block", "lemma_pending_covers_pops", "lemma_pending_step", "lemma_skipped_are_leaves", "lemma_pending_final", "lemma_names"]

EXPECTED_TRANSLATE_BY_INDEX = """fn translate_by_index<U, F, FuncError>(
        &self,
        translatefn: F,
    ) -> Result<Threshold<U, MAX>, FuncError>
    where
        F: FnMut(usize) -> Result<U, FuncError>,
    {
        let k = self.k;
        (0..self.inner.len())
            .map(translatefn)
            .collect::<Result<Vec<_>, _>>()
            .map(|inner| Threshold { k, inner })
    }"""
EXPECTED_PRE_ORDER_ITER = """fn pre_order_iter(&'s self) -> PreOrderIter<'s> {
        PreOrderIter { nodes: self.nodes, inner: self.index..=self.rightmost_descendant_idx() }
    }"""
EXPECTED_NEXT_BACK = """fn next_back(&mut self) -> Option<Self::Item> {
        self.inner
            .next_back()
            .map(|n| TreeIterItem { nodes: self.nodes, index: n })
    }"""


def _norm(t):
    return re.sub(r"\s+", " ", t).strip()


def expect_text(repo, rel, anchor, expected, what):
    reg = repo.at(rel, anchor)
    got = drop_vis(strip_docs(reg.text)).strip()
    if _norm(got) != _norm(expected):
        raise Undecided("%s: the text of %s changed; the rewrite that relies on its definition is no longer justified" % (what, anchor))


# ---------------------------------------------------------------------------------------------------------------------
# rewrites
# ---------------------------------------------------------------------------------------------------------------------
R7_PATHS = sub("R7", r"\b(?:crate::|expression::)", "", required=False)
# R12': a tuple-variant constructor used as a function value -> closure
ETA = sub("R12'-eta", r"\.(map|map_err)\(((?:[A-Z]\w*::)+[A-Z]\w*)\)", r".\1(|x_| \2(x_))", required=False)
# R10: closures of the accessors get their types and contracts (ghost only)
ITEM_CLOSURE = sub("R10-closure-contract",
                   r"\.map\(\|(\w+)\|\s*(Self|TreeIterItem)\s*\{\s*nodes:\s*([\w.]+),\s*index:\s*([^}]+?)\s*\}\)",
                   lambda m: ".map(|%s: usize| -> (o_: TreeIterItem<'s>) ensures o_.nodes == %s && o_.index == %s { %s { nodes: %s, index: %s } })"
                   % ("unused_" if m.group(1) == "_" else m.group(1), m.group(3), m.group(4), m.group(2), m.group(3), m.group(4)))
FIRST_CHILD_CLOSURE = sub("R10-closure-contract", r"\.map\(\|(\w+)\|\s*([^()|{}]+?)\)(\s*\.unwrap_or\(false\))",
                          r".map(|\1: usize| -> (o_: bool) requires \1 < usize::MAX ensures o_ == (\2) { \2 })\3")
# R8-range: the RangeBounds parameter of verify_n_children specialised to the two shapes the call sites pass
RANGE_INCL = sub("R8-range", r"\.verify_n_children\(\s*([^,()]+?)\s*,\s*(\d+)\s*\.\.=\s*(\d+)\s*\)", r".verify_n_children_(\1, \2, \3)", required=False)
RANGE_FROM = sub("R8-range", r"\.verify_n_children\(\s*([^,()]+?)\s*,\s*(\d+)\s*\.\.\s*\)", r".verify_n_children_from_(\1, \2)", required=False)
DROP_FROMSTR_BOUND = sub("R7-bound", r"where\s+T:\s*FromStr,\s*T::Err:\s*StaticDebugAndDisplay,?", "", required=False)
ASSERT_EQ = sub("R13-assert_eq", r"\bassert_eq!\(([^,;]+),\s*([^,;]+)\);", r"assert!(\1 == \2);", required=False)


@rule("R7-std")
def ARC_UNWRAP(text):
    while True:
        m = re.search(r"Arc::try_unwrap\(", text)
        if not m:
            return text
        c = match_close(text, m.end() - 1)
        mm = re.match(r"\s*\.unwrap\(\)", text[c + 1:])
        if not mm:
            raise Undecided("Arc::try_unwrap(..) not followed by .unwrap() (shape not modelled)")
        text = text[:m.start()] + "arc_unwrap_unique(" + text[m.end():c] + ")" + text[c + 1 + mm.end():]

TO_OWNED = sub("R7-std", r"\b(\w+)\.to_owned\(\)", r"str_to_owned_(\1)", required=False)
STRIP_DERIVE = sub("derive-off", r"#\[derive\([^)]*\)\]\s*", "", required=False)
COPY_DERIVE = sub("derive-copy", r"#\[derive\([^)]*\)\]\s*", "#[derive(Copy, Clone)]\n", required=True)
THEN_SOME = sub("R12'", r"\(([^()]+)\)\.then_some\((\w+)\)", r"(if \1 { Some(\2) } else { None })", required=False)


def ghost_at_body_start(ghost):
    @rule("R10")
    def rw(text):
        head, ret, where, body = split_fn(text)
        if not body.startswith("{"):
            return None
        return text[:len(text) - len(body)] + "{\n        " + ghost + body[1:]
    return rw


VALID_HINT = ghost_at_body_start("proof { assert(wf_node(self.nodes@, self.index as int)); }")


def tail_expr_start(text, pos):
    """start of the statement of the function body (nesting depth 0) that contains `pos`"""
    head_, ret_, where_, fbody_ = split_fn(text)
    j, start = len(text) - len(fbody_) + 1, None
    while j < pos:
        ch = text[j]
        if ch in "([{":
            j = match_close(text, j)
        elif ch == ";":
            start = j + 1
        j += 1
    return start


@rule("R14-and_then")
def AND_THEN_TAIL(text):
    """`X.and_then(|v| BODY)` as the tail expression -> `match X { Ok(v) => BODY, Err(e_) => Err(e_) }` (definition of Result::and_then)"""
    m = re.search(r"\s*\.and_then\(\|(\w+)\|\s*", text)
    if not m:
        return None
    o = text.index("(", m.start())
    c = match_close(text, o)
    if text[c + 1:].strip() != "}":
        raise Undecided("`.and_then(..)` is not the tail expression (shape not modelled)")
    start = tail_expr_start(text, m.start())
    if start is None:
        return None
    return "%s\n        match %s {\n            Ok(%s) => %s,\n            Err(e_) => Err(e_),\n        }\n    }" % (
        text[:start], text[start:m.start()].strip(), m.group(1), text[m.end():c].strip())


# ---- verify_threshold ------------------------------------------------------------------------------------------------
class ThresholdTail:
    """R14: `PRE.and_then(|THRESH| THRESH.translate_by_index(|IDX| BODY))` at the end of verify_threshold -> match + index loop (BODY verbatim);
    equally `RECV.translate_by_index(|IDX| BODY)` as the tail expression (the Err case of PRE already left through `?`) -> `let th_ = RECV;` + the same loop"""
    rule = "R14-and_then-translate_by_index"

    def __init__(self, ghost0, inv, post):
        self.ghost0, self.inv, self.post = ghost0, inv, post

    def __call__(self, text):
        # the call `RECV.translate_by_index(|IDX| BODY)`; BODY is the closure body, verbatim
        m = re.search(r"\.translate_by_index\(\|(\w+)\|\s*", text)
        if not m:
            return None
        inner_open = text.index("(", m.start())
        inner_close = match_close(text, inner_open)
        body = text[m.end():inner_close].strip()
        idx = m.group(1)
        ma = re.search(r"\.and_then\(\|(\w+)\|\s*(\w+)\s*$", text[:m.start()])
        if ma and ma.group(1) == ma.group(2):
            # shape A: `PRE.and_then(|TH| TH.translate_by_index(..))` is the tail expression (definition of Result::and_then)
            o = text.index("(", ma.start())                  # the `(` of and_then(
            c = match_close(text, o)
            if text[inner_close + 1:c].strip() or text[c + 1:].strip() != "}":
                raise Undecided("verify_threshold: `.and_then(..translate_by_index..)` is not the tail expression")
            start = tail_expr_start(text, ma.start())
            if start is None:
                return None
            th = ma.group(1)
            opener = "match %s {\n            Err(e_) => Err(e_),\n            Ok(%s) => {" % (text[start:ma.start()].strip(), th)
            closer = "}\n        }"
        else:
            # shape B: `RECV.translate_by_index(..)` itself is the tail expression (the and_then of shape A written as `let TH = PRE?;`)
            if text[inner_close + 1:].strip() != "}":
                raise Undecided("verify_threshold: `..translate_by_index(..)` is not the tail expression")
            start = tail_expr_start(text, m.start())
            if start is None:
                return None
            recv = text[start:m.start()].strip()
            if not recv:
                return None
            th = "th_"
            opener = "{\n                let th_ = %s;" % recv
            closer = "}"
        bind = "" if idx == "_" else "let %s = i_;\n                    " % idx
        # the ghost text names the child iterator `child_iter`: read the local's actual name off `let mut NAME = self.children();`
        ghost0, inv, post = self.ghost0, self.inv, self.post
        mi = re.search(r"\blet\s+mut\s+(\w+)\s*=\s*self\s*\.children\(\)\s*;", text)
        if mi and mi.group(1) != "child_iter":
            ghost0, inv, post = (re.sub(r"\bchild_iter\b", mi.group(1), g) for g in (ghost0, inv, post))
        new = ("""
        %(opener)s
                let %(th)s: Threshold<(), MAX> = %(th)s;          // translate_by_index keeps MAX
                let k_ = %(th)s.k;
                let n_ = %(th)s.inner.len();
                let mut inner_ = Vec::new();
                let mut i_: usize = 0;
                %(ghost0)s
                while i_ < n_
                    invariant i_ <= n_, inner_@.len() == i_, %(inv)s
                    decreases n_ - i_,
                {
                    %(bind)smatch %(body)s { Ok(v_) => { inner_.push(v_); } Err(e_) => { return Err(e_); } }
                    i_ += 1;
                }
                %(post)s
                Ok(Threshold { k: k_, inner: inner_ })
            %(closer)s
    }""" % dict(opener=opener, closer=closer, th=th, ghost0=ghost0, inv=inv, bind=bind, body=body, post=post))
        return text[:start] + new


ITER_INV = ("child_iter.wf_iter(), child_iter.arr() == self.nodes@ || child_iter.remaining().len() == 0, rem0_.len() >= n_, "
            "child_iter.remaining() == rem0_.skip(i_ as int), self.valid(),")
GENERIC_TAIL = ThresholdTail(
    ghost0="let ghost rem0_ = child_iter.remaining(); let ghost calls0_ = map_child.calls(); let ghost outs0_ = map_child.outs();",
    inv=ITER_INV + " map_child.calls() == calls0_ + rem0_.take(i_ as int), map_child.outs() == outs0_ + inner_@,",
    post="proof { if rem0_.len() == n_ { assert(rem0_.take(n_ as int) =~= rem0_); } }")

def instance_tail():
    return ThresholdTail(ghost0="let ghost rem0_ = child_iter.remaining(); let ghost len0_ = stack@.len();",
                         inv=ITER_INV + " stack@.len() + i_ == len0_, n_ <= len0_,", post="")


def closure_of_call_site(text, where):
    """the `|_| BODY` passed to verify_threshold by a policy from_tree; returns (receiver, BODY, span)"""
    m = re.search(r"(\w+)\s*\.verify_threshold\(", text)
    if not m:
        raise Undecided("%s: no verify_threshold call (anchor lost)" % where)
    o = m.end() - 1
    c = match_close(text, o)
    arg = text[o + 1:c].strip()
    mm = re.match(r"\|_\|\s*(.*)$", arg, flags=re.S)
    if not mm:
        raise Undecided("%s: verify_threshold argument `%s` is not a `|_| BODY` closure (shape not modelled)" % (where, arg[:60]))
    body = mm.group(1).strip()
    free = set(re.findall(r"\b([a-z_]\w*)\b(?!\s*\()(?!::)", re.sub(r"\.\w+", "", body))) - {"_", "unwrap", "pop"}
    if free - {"stack"}:
        raise Undecided("%s: the verify_threshold closure captures %s (only `stack` is modelled)" % (where, sorted(free - {"stack"})))
    return m.group(1), body, (m.start(), c + 1)


def inline_closure(body):
    @rule("R16-closure-inlined")
    def rw(text):
        n = 0
        while True:
            m = re.search(r"\bmap_child\(", text)
            if not m:
                return text if n else None
            c = match_close(text, m.end() - 1)
            arg = text[m.end():c]
            text = text[:m.start()] + "{ let _ = %s; %s }" % (arg, body) + text[c + 1:]
            n += 1
    return rw


def subst_type_param_path(text, param, ty):
    """instantiating the type parameter `param` with `ty` also instantiates its uses as a path head in the body (`E::from(x)` -> `Error::from(x)`)"""
    return re.sub(r"(?<![\w:])%s(?=\s*::)" % re.escape(param), ty, text)


def instance_signature(ty, err):
    @rule("R16-instance-signature")
    def rw(text):
        new, n = re.subn(r"<\s*const MAX: usize,\s*F: FnMut\(Self\) -> Result<T, E>,\s*T,\s*E: From<ParseThresholdError>,?\s*>", "<const MAX: usize, Pk: MiniscriptKey>", text, count=1)
        if not n:
            return None
        new, n = re.subn(r"\bmut map_child: F,", "stack: &mut Vec<%s>," % STACK_ELEM[ty], new, count=1)
        if not n:
            return None
        new, n = re.subn(r"->\s*Result<Threshold<T, MAX>, E>", "-> Result<Threshold<%s, MAX>, %s>" % (RESULT_ELEM[ty], err), new, count=1)
        return subst_type_param_path(new, "E", err) if n else None
    return rw


STACK_ELEM = {"concrete": "(usize, Arc<Concrete<Pk>>)", "semantic": "Arc<Semantic<Pk>>"}
RESULT_ELEM = {"concrete": "Arc<Concrete<Pk>>", "semantic": "Arc<Semantic<Pk>>"}
ENUM = {"concrete": "Concrete", "semantic": "Semantic"}
SEP = {"concrete": "true", "semantic": "false"}

GENERIC_SIGNATURE = [
    sub("R16-closure-conversion", r"F: FnMut\(Self\) -> Result<T, E>,", "F: ChildMapper<'s, T, E>,"),
    sub("R16-closure-conversion", r"\bmut map_child: F,", "map_child: &mut F,"),
    sub("R16-closure-conversion", r"\bmap_child\(", "map_child.call("),
]


# ---- the policy loops -------------------------------------------------------------------------------------------------
class RevPreOrderLoop:
    """R8 + R16 on `for VAR in ROOT.pre_order_iter().rev() { BODY }`: BODY is cut out verbatim (self.body), the loop becomes the verified index loop"""
    rule = "R8/R16-rev-preorder-loop"

    def __init__(self, kind):
        self.kind, self.body, self.var, self.root = kind, None, None, None

    def __call__(self, text):
        m = re.search(r"\bfor\s+(\w+)\s+in\s+(\w+)\s*\.pre_order_iter\(\)\s*\.rev\(\)\s*\{", text)
        if not m:
            raise Undecided("policy from_tree (%s): loop `for VAR in ROOT.pre_order_iter().rev()` not found (shape not modelled)" % self.kind)
        close = match_close(text, m.end() - 1)
        body = text[m.end():close]
        if re.search(r"\bbreak\b", body) or re.search(r"\b(for|while|loop)\b", body):
            raise Undecided("policy from_tree (%s): loop body with break / nested loop cannot be lambda-lifted" % self.kind)
        if re.search(r"\breturn\b(?!\s+Err\()", body):
            raise Undecided("policy from_tree (%s): loop body returns something other than Err" % self.kind)
        self.var, self.root = m.group(1), m.group(2)
        self.body = re.sub(r"\bcontinue\s*;", "return Ok(());", body)
        sep, root = SEP[self.kind], self.root
        loop = ("""let it_hi_ = %(root)s.rightmost_descendant_idx();
        proof { assert(wf_node(%(root)s.ns(), %(root)s.i())); }
        let mut it_i_: usize = it_hi_ + 1;
        while it_i_ > %(root)s.index
            invariant
                %(root)s.valid(), it_hi_ == rmd(%(root)s.ns(), %(root)s.i()),
                %(root)s.index <= it_i_ <= it_hi_ + 1, it_hi_ < %(root)s.ns().len(),
                stack@.len() == pending(%(root)s.ns(), it_i_ as int, it_hi_ as int, %(sep)s),
                forall|j_: int| it_i_ <= j_ <= it_hi_ ==> #[trigger] node_ok(%(root)s.ns(), j_, %(sep)s),
            decreases it_i_,
        {
            it_i_ -= 1;
            let %(var)s = TreeIterItem { nodes: %(root)s.nodes, index: it_i_ };
            proof { lemma_pending_covers_pops(%(root)s.ns(), %(root)s.i(), it_i_ as int, %(sep)s); }
            Self::from_tree_step(%(var)s, &mut stack)?;
            proof { lemma_pending_step(%(root)s.ns(), %(root)s.i(), it_i_ as int, %(sep)s); }
        }
        proof {
            // (an `if`, not a precondition: for a root that is itself skipped the obligation that fails is the `assert_eq!` below)
            if !skip(%(root)s.ns(), %(root)s.i(), %(sep)s) { lemma_pending_final(%(root)s.ns(), %(root)s.i(), %(sep)s); }
        }"""
                % dict(root=root, var=self.var, sep=sep))
        return text[:m.start()] + loop + text[close + 1:]


def pop_map_loop():
    """R14: `let X = (0..N).map(|_| stack.pop().unwrap());` -> eager index loop (closure body verbatim)"""
    @rule("R14-range-map-pop")
    def rw(text):
        pat = r"let (\w+) = \(0\.\.([^;]+?)\)\.map\(\|_\|\s*(stack\.pop\(\)\.unwrap\(\))\);"
        def repl(m):
            return ("let %s = {\n                        let n_ = %s;\n                        let ghost len0_ = stack@.len();\n                        let mut v_ = Vec::new();\n"
                    "                        let mut j_: usize = 0;\n                        while j_ < n_\n"
                    "                            invariant j_ <= n_, n_ <= len0_, v_@.len() == j_, stack@.len() + j_ == len0_,\n"
                    "                            decreases n_ - j_,\n                        {\n                            v_.push(%s);\n                            j_ += 1;\n                        }\n"
                    "                        v_\n                    };" % (m.group(1), m.group(2), m.group(3)))
        new, n = re.subn(pat, repl, text)
        return new
    return rw


FROM_ITER = sub("R14-from_iter", r"Threshold::from_iter\(", "Threshold::from_iter_drained_(", required=False)


def call_site_instance(kind):
    @rule("R16-call-site")
    def rw(text):
        recv, body, (a, b) = closure_of_call_site(text, "policy from_tree (%s)" % kind)
        return text[:a] + "%s.verify_threshold_pop_%s(stack)" % (recv, kind) + text[b:]
    return rw


def tree_contract(extra_req=(), ensures=()):
    return Contract(requires=["self.valid()"] + list(extra_req), ensures=list(ensures))


# ---------------------------------------------------------------------------------------------------------------------
def build(repo):
    vf = VerusFile(NAME, repo)
    vf.raw(S.KEY_STUBS, keep_vis=True)
    vf.trust("prelude stubs MiniscriptKey / AbsLockTime / RelLockTime (text of units/c18_semantic.py KEY_STUBS) + AbsLockTime / RelLockTime::from_consensus (external_body, arbitrary result)",
             "out-of-unit types reduced to opaque values; the lock-time constructors are k_locktime's")
    vf.item(THRESH, "struct:ThresholdError", rewrites=[STRIP_DERIVE])
    vf.item(EXPR_ERR, "enum:ParseThresholdError", rewrites=[STRIP_DERIVE])
    vf.raw(ERRORS)
    vf.trust("struct ParseNumError / AbsLockTimeError / RelLockTimeError (opaque), enums ParseTreeError / ParseError / Error reduced to the variants constructed, the three From impls of "
             "src/error.rs / src/lib.rs copied by hand + FromSpecImpl glue, str_to_owned_ (external_body)", "error payloads are only moved around")
    vf.trust("arc_unwrap_unique (external_body) for `Arc::try_unwrap(x).unwrap()`", "returns the pointee; the uniqueness of the Arc (no panic) is not claimed")

    # ---- Threshold: real struct, validate_k_n, new, is_or, is_and -----------------------------------------------------------------------
    vf.item(THRESH, "struct:Threshold", rewrites=[STRIP_DERIVE])
    vf.raw(THRESH_SPEC)
    vf.trust("Threshold::from_iter_drained_ (external_body)", "Threshold::from_iter (generic over Iterator: size_hint / count / for_each) drains its iterator on both paths and then is "
             "Threshold::new; only `Ok ==> k, items kept, invariant` is assumed")
    expect_text(repo, THRESH, "impl:Threshold<T, MAX>/fn:translate_by_index", EXPECTED_TRANSLATE_BY_INDEX, "R14 (inlining of translate_by_index)")
    vf.fn(THRESH, "fn:validate_k_n", props=PROPS, rewrites=[THEN_SOME], contract=Contract(ensures=[
        Clause("accepts_exactly_the_invariant", P1011, "r is Ok <==> (1 <= k <= n && (MAX > 0 ==> n <= MAX))")]))
    with vf.block("impl<T, const MAX: usize> Threshold<T, MAX>"):
        vf.fn(THRESH, "impl:Threshold<T, MAX>/fn:new", qual="Threshold", props=PROPS, contract=Contract(ensures=[
            Clause("accepts_exactly_the_invariant", P1011, "r is Ok <==> (1 <= k <= inner@.len() && (MAX > 0 ==> inner@.len() <= MAX))"),
            Clause("keeps_k_and_elements", P10, "r is Ok ==> r->Ok_0.k == k && r->Ok_0.inner == inner && r->Ok_0.inv()")]))
        vf.fn(THRESH, "impl:Threshold<T, MAX>/fn:is_or", qual="Threshold", props=PROPS, contract=Contract(ensures=[Clause("def", P10, "r == (self.k == 1)")]))
        vf.fn(THRESH, "impl:Threshold<T, MAX>/fn:is_and", qual="Threshold", props=PROPS, contract=Contract(ensures=[Clause("def", P10, "r == (self.k == self.inner@.len())")]))

    # ---- the expression tree: real node / handle / iterator types, the abstract well-formedness, real accessors ---------------------------
    vf.item(EXPR, "enum:Parens", rewrites=[COPY_DERIVE])
    vf.item(EXPR, "struct:TreeNode", rewrites=[STRIP_DERIVE])
    vf.item(EXPR, "struct:TreeIterItem", rewrites=[COPY_DERIVE])
    vf.item(EXPR, "struct:DirectChildIterator")
    vf.raw(MODEL)
    vf.trust("wf_tree (spec): ASSUMED shape of the TreeNode array behind every TreeIterItem (precondition `valid()` of every function of this unit)",
             "what Tree::from_str / from_str_inner build (nodes pushed in pre-order, parent_idx = top of the open-paren stack, n_children / last_child_idx updated per child, "
             "right_sibling_idx set at each comma); not verified (string scanning; Kani ran out of memory on it)")
    for l in MODEL_LEMMAS:
        _register(vf, l)
    vf.raw(TREE_SPEC)
    for l in TREE_LEMMAS:
        _register(vf, l)
    vf.trust("trait ChildMapper (R16): the FnMut argument of verify_threshold as an abstract state with a call log", "closure conversion; any closure is an instance (its effect on the log is the definition of the log)")
    vf.trust("uninterp spec_parse_num_nonzero", "the number a string denotes is left uninterpreted (parse_num_nonzero is a stub)")
    NS, I = "self.nodes@", "self.index as int"
    with vf.block("impl<'s> DirectChildIterator<'s>"):
        vf.fn(EXPR, "impl:Iterator for DirectChildIterator<'s>/fn:next", qual="DirectChildIterator", props=PROPS,
              rewrites=[sub("R7-assoc", r"Option<Self::Item>", "Option<TreeIterItem<'s>>"), ITEM_CLOSURE,
                        sub("R10", r"\n(\s*)Some\(item\)\s*\}\s*$", r"\n\1proof { lemma_sibs_unfold(item.nodes@, item.index as int); assert(wf_node(item.nodes@, item.index as int)); }\n\1Some(item)\n    }")],
              contract=Contract(requires=["old(self).wf_iter()"], ensures=[
                  Clause("none_iff_exhausted", P11, "r is None <==> old(self).remaining().len() == 0"),
                  Clause("yields_the_chain_in_order", P1011, "r matches Some(it) ==> it.index == old(self).remaining()[0] && it.nodes@ == old(self).arr() && it.valid() "
                                                             "&& final(self).remaining() == old(self).remaining().skip(1)"),
                  Clause("stays_in_the_array", P11, "final(self).wf_iter() && (final(self).remaining().len() == 0 || final(self).arr() == old(self).arr())"),
                  Clause("exhausted_stays_exhausted", P11, "r is None ==> final(self).remaining().len() == 0")]))
    with vf.block("impl<'s> TreeIterItem<'s>"):
        vf.fn(EXPR, "impl:TreeIterItem<'s>/fn:name", qual="TreeIterItem", props=PROPS, contract=tree_contract(ensures=[
            Clause("def", P10, "r@ == %s[%s].name@" % (NS, I))]))
        vf.fn(EXPR, "impl:TreeIterItem<'s>/fn:n_children", qual="TreeIterItem", props=PROPS, contract=tree_contract(ensures=[
            Clause("def", P10, "r == nch(%s, %s)" % (NS, I))]))
        vf.fn(EXPR, "impl:TreeIterItem<'s>/fn:parent", qual="TreeIterItem", props=PROPS, rewrites=[ITEM_CLOSURE, VALID_HINT], contract=tree_contract(ensures=[
            Clause("def", P1011, "(r is None <==> par(%s, %s) is None) && (r matches Some(p) ==> p.nodes == self.nodes && Some(p.index) == par(%s, %s) && p.valid())" % (NS, I, NS, I))]))
        vf.fn(EXPR, "impl:TreeIterItem<'s>/fn:is_first_child", qual="TreeIterItem", props=PROPS, rewrites=[FIRST_CHILD_CLOSURE, VALID_HINT], contract=tree_contract(ensures=[
            Clause("def", P1011, "r == (par(%s, %s) matches Some(p) && p + 1 == self.index)" % (NS, I))]))
        vf.fn(EXPR, "impl:TreeIterItem<'s>/fn:first_child", qual="TreeIterItem", props=PROPS, rewrites=[ITEM_CLOSURE, VALID_HINT], contract=tree_contract(ensures=[
            Clause("def", P1011, "(r is Some <==> nch(%s, %s) > 0) && (r matches Some(c) ==> c.nodes == self.nodes && c.index == self.index + 1 && c.valid())" % (NS, I))]))
        vf.fn(EXPR, "impl:TreeIterItem<'s>/fn:children", qual="TreeIterItem", props=PROPS, rewrites=[VALID_HINT], contract=tree_contract(ensures=[
            Clause("yields_exactly_the_children", P1011, "r.wf_iter() && r.remaining() == child_seq(%s, %s) && (r.remaining().len() == 0 || r.arr() == %s)" % (NS, I, NS))]))
        vf.fn(EXPR, "impl:TreeIterItem<'s>/fn:rightmost_descendant_idx", qual="TreeIterItem", props=PROPS,
              rewrites=[sub("R10-invariant", r"(while let Some\(idx\) = self\.nodes\[scan\]\.last_child_idx) \{\s*\n(\s*)scan = idx;",
                            r"\1\n\2invariant self.valid(), scan < self.nodes@.len(), rmd(self.nodes@, scan as int) == rmd(self.nodes@, self.index as int),\n"
                            r"\2ensures self.nodes@[scan as int].last_child_idx is None,\n\2decreases self.nodes@.len() - scan,\n        {\n"
                            r"\2proof { assert(wf_node(self.nodes@, scan as int)); }\n\2let ghost scan0_ = scan;\n\2scan = idx;"),
                        sub("R10-invariant", r"(while let Some\(idx\) = self\.nodes\[scan\]\.right_sibling_idx) \{",
                            r"\1\n                invariant self.valid(), scan < self.nodes@.len(), rmd(self.nodes@, scan as int) == rmd(self.nodes@, self.index as int), "
                            r"self.nodes@[scan as int].right_sibling_idx is None, scan0_ < scan,\n                decreases self.nodes@.len() - scan,\n            {")],
              contract=tree_contract(ensures=[Clause("is_the_end_of_the_block_of_descendants", P1011, "r == rmd(%s, %s)" % (NS, I))]))
        # stubs (contract only)
        vf.raw("""
    // R8-range stubs of verify_n_children (RangeInclusive / RangeFrom): Ok exactly when the number of children is in the range
    #[verifier::external_body] fn verify_n_children_(self, description: &'static str, lo: usize, hi: usize) -> (r: Result<(), ParseTreeError>)
        requires self.valid(), ensures r is Ok <==> lo <= nch(self.nodes@, self.index as int) <= hi { unimplemented!() }
    #[verifier::external_body] fn verify_n_children_from_(self, description: &'static str, lo: usize) -> (r: Result<(), ParseTreeError>)
        requires self.valid(), ensures r is Ok <==> lo <= nch(self.nodes@, self.index as int) { unimplemented!() }
""")
        vf.fn(EXPR, "impl:TreeIterItem<'s>/fn:name_separated", qual="TreeIterItem", assumed=True, contract=tree_contract(ensures=[
            Clause("def", (), "r matches Ok(p) ==> p.1@ == sepname(%s[%s].name@, separator) && (p.0 is None ==> p.1@ == %s[%s].name@)" % (NS, I, NS, I))]))
        vf.fn(EXPR, "impl:TreeIterItem<'s>/fn:verify_terminal", qual="TreeIterItem", assumed=True, rewrites=[DROP_FROMSTR_BOUND], contract=tree_contract(ensures=[
            Clause("def", (), "r is Ok ==> nch(%s, %s) == 0" % (NS, I))]))
        vf.fn(EXPR, "impl:TreeIterItem<'s>/fn:verify_no_curly_braces", qual="TreeIterItem", assumed=True, contract=tree_contract())
        TERMINAL_PARENT = [Clause("one_child_which_is_a_leaf", P11, "r is Ok ==> nch(%s, %s) == 1 && nch(%s, %s + 1) == 0" % (NS, I, NS, I))]
        COMMON = [RANGE_INCL, ETA, DROP_FROMSTR_BOUND]
        vf.fn(EXPR, "impl:TreeIterItem<'s>/fn:verify_terminal_parent", qual="TreeIterItem", props=PROPS, rewrites=COMMON, contract=tree_contract(ensures=TERMINAL_PARENT))
        vf.fn(EXPR, "impl:TreeIterItem<'s>/fn:verify_after", qual="TreeIterItem", props=PROPS, rewrites=COMMON + [AND_THEN_TAIL], contract=tree_contract(ensures=TERMINAL_PARENT))
        vf.fn(EXPR, "impl:TreeIterItem<'s>/fn:verify_older", qual="TreeIterItem", props=PROPS, rewrites=COMMON + [AND_THEN_TAIL], contract=tree_contract(ensures=TERMINAL_PARENT))
    vf.trust("TreeIterItem::verify_n_children_ / verify_n_children_from_ (external_body)", "verify_n_children's text: Ok iff `n_children.contains(&self.n_children())`; std: (A..=B).contains(x) <=> A <= x <= B, (A..).contains(x) <=> A <= x")
    vf.trust("TreeIterItem::name_separated (external_body): Ok((prefix, name)) ==> name is what follows the first separator, or the whole name when there is none",
             "its text: splitn(3, separator) yields one piece when the separator is absent, (prefix, rest) when it occurs once, Err when it occurs more than once")
    vf.trust("TreeIterItem::verify_terminal (external_body): Ok ==> no children", "its first statement is verify_n_children(description, 0..=0)?; the rest is T::from_str on the name")
    vf.trust("TreeIterItem::verify_no_curly_braces (external_body, arbitrary result)", "loop over the nodes reading `parens`; nothing assumed")
    vf.fn(EXPR, "fn:parse_num_nonzero", assumed=True, contract=Contract(ensures=[Clause("def", (), "r == spec_parse_num_nonzero(s@)")]))
    vf.trust("parse_num_nonzero (external_body)", "its result IS the uninterpreted spec_parse_num_nonzero(s)")
    vf.fn(EXPR, "fn:parse_num", props=PROPS, contract=Contract(ensures=[Clause("def", P10, "r == spec_parse_num(s@)")]))

    # ---- verify_threshold: generic (closure-converted) -----------------------------------------------------------------------------------
    VT = "impl:TreeIterItem<'s>/fn:verify_threshold"
    K_TERMINAL = "r is Ok ==> nch(%s, %s) >= 1 && nch(%s, %s + 1) == 0" % (NS, I, NS, I)
    with vf.block("impl<'s> TreeIterItem<'s>"):
        vf.fn(EXPR, VT, qual="TreeIterItem", props=PROPS, rewrites=[ETA] + GENERIC_SIGNATURE + [GENERIC_TAIL, VALID_HINT],
              contract=Contract(requires=["self.valid()"], ensures=[
                  Clause("k_child_is_a_terminal", P11, K_TERMINAL),
                  Clause("map_child_called_once_per_value_child_in_order", P1011,
                         "r is Ok ==> final(map_child).calls() == old(map_child).calls() + child_seq(%s, %s).skip(1)" % (NS, I)),
                  Clause("children_are_the_results_in_order", P10, "r is Ok ==> final(map_child).outs() == old(map_child).outs() + r->Ok_0.inner@"),
                  Clause("one_element_per_value_child", P1011, "r is Ok ==> r->Ok_0.inner@.len() == nch(%s, %s) - 1" % (NS, I)),
                  Clause("k_is_the_number_in_the_k_child", P10, "r is Ok ==> spec_parse_num(%s[%s + 1].name@) is Ok && r->Ok_0.k == spec_parse_num(%s[%s + 1].name@)->Ok_0 as usize" % (NS, I, NS, I)),
                  Clause("threshold_invariant", P10, "r is Ok ==> r->Ok_0.inv()"),
                  Clause("no_children_is_an_error", P11, "nch(%s, %s) == 0 ==> r is Err" % (NS, I)),
              ]))

    # ---- the two policy enums, the call-site instances of verify_threshold, the loops ------------------------------------------------------
    vf.item(CONC, "enum:Policy", rewrites=[STRIP_DERIVE, sub("R7-rename", r"\benum Policy<", "enum Concrete<")])
    vf.item(SEM, "enum:Policy", rewrites=[STRIP_DERIVE, sub("R7-rename", r"\benum Policy<", "enum Semantic<")])
    vf.raw(POLICY_SPEC)
    for l in POLICY_LEMMAS:
        _register(vf, l)
    expect_text(repo, EXPR, "impl:TreeIterItem<'s>/fn:pre_order_iter", EXPECTED_PRE_ORDER_ITER, "R8 (rev pre-order loop)")
    expect_text(repo, EXPR, "impl:DoubleEndedIterator for PreOrderIter<'_>/fn:next_back", EXPECTED_NEXT_BACK, "R8 (rev pre-order loop)")
    vf.trust("loop rewrite R8: `for node in root.pre_order_iter().rev()` visits TreeIterItem { nodes: root.nodes, index: n } for n = root.rightmost_descendant_idx() down to root.index",
             "texts of pre_order_iter / PreOrderIter::next_back (checked against EXPECTED_*); std: Rev<I>::next = I::next_back, RangeInclusive<usize>::next_back counts down from end to start")

    FT = {"concrete": "impl:expression::FromTree for Policy<Pk>/fn:from_tree", "semantic": "impl:expression::FromTree for Policy<Pk>/fn:from_tree"}
    FILE = {"concrete": CONC, "semantic": SEM}
    for kind in ("concrete", "semantic"):
        rel, anchor, En, sep = FILE[kind], FT[kind], ENUM[kind], SEP[kind]
        reg = repo.at(rel, anchor)
        src = R7_PATHS(drop_vis(strip_docs(reg.text)).strip("\n"))
        src = re.sub(r"\bPolicy::", En + "::", src)
        loop = RevPreOrderLoop(kind)
        framed = loop(src)                                         # fills loop.body / var / root
        recv, closure_body, _ = closure_of_call_site(loop.body, "policy from_tree (%s)" % kind)
        # -- the instance of verify_threshold for this call site: real text, closure body inlined
        with vf.block("impl<'s> TreeIterItem<'s>"):
            vf.fn(EXPR, VT, qual="TreeIterItem", rename="verify_threshold_pop_%s" % kind, props=PROPS,
                  rewrites=[ETA, instance_signature(kind, "Error"), inline_closure(closure_body), instance_tail(), VALID_HINT],
                  contract=Contract(requires=["self.valid()", "nch(%s, %s) >= 1 ==> old(stack)@.len() >= nch(%s, %s) - 1" % (NS, I, NS, I)], ensures=[
                      Clause("k_child_is_a_terminal", P11, K_TERMINAL),
                      Clause("pops_one_entry_per_value_child", P11, "r is Ok ==> final(stack)@.len() == old(stack)@.len() - (nch(%s, %s) - 1)" % (NS, I)),
                      Clause("threshold_invariant", P10, "r is Ok ==> r->Ok_0.inv() && r->Ok_0.inner@.len() == nch(%s, %s) - 1" % (NS, I))]))
        vf.rewrites_used.append("R16-closure-inlined [%s] @ %s" % (closure_body, VT))
        # -- the loop body as a step
        NSN, IN = "%s.nodes@" % loop.var, "%s.index as int" % loop.var
        step = ("fn from_tree_step<'s>(%s: TreeIterItem<'s>, stack: &mut Vec<%s>) -> Result<(), Error> {\n"
                "        proof { lemma_nsc(%s, %s, %s); lemma_names(); assert(wf_node(%s, %s)); }%s    Ok(())\n}"
                % (loop.var, STACK_ELEM[kind], NSN, IN, sep, NSN, IN, loop.body))
        vf.rewrites_used.append("R8/R16-rev-preorder-loop @ %s" % anchor)
        step_rw = [RANGE_INCL, RANGE_FROM, call_site_instance(kind), pop_map_loop(), FROM_ITER, ETA, TO_OWNED,
                   sub("R10", r"(if let Some\((\w+)\) = \w+\.parent\(\) \{)", r"\1\n                proof { assert(wf_node(\2.nodes@, \2.index as int)); }", required=False)]
        with vf.block("impl<Pk: MiniscriptKey> %s<Pk>" % En):
            text = vf._apply(step, step_rw, anchor + "/loop body")
            vf.fn_text("%s::from_tree_step" % En, text, Contract(
                requires=["%s.valid()" % loop.var, "old(stack)@.len() >= nsc(%s, %s, %s)" % (NSN, IN, sep)],
                ensures=[
                    Clause("stack_effect_is_one_push_minus_one_pop_per_value_child", P11,
                           "r is Ok ==> final(stack)@.len() == old(stack)@.len() + (if skip(%s, %s, %s) { 0 } else { 1 - nsc(%s, %s, %s) })" % (NSN, IN, sep, NSN, IN, sep)),
                    Clause("a_skipped_first_child_was_verified_to_be_a_leaf", P11, "r is Ok ==> node_ok(%s, %s, %s)" % (NSN, IN, sep)),
                ], canary=False), PROPS, file=rel, lines=reg.lines(), anchor=anchor + "/loop body")
            # reachability canary of the step's precondition (the framework cannot express one for `&mut` parameters)
            cname = "canary_%s_from_tree_step" % En
            start = vf._emit("proof fn %s<'s>(%s: TreeIterItem<'s>, stack: Seq<%s>)\n    requires %s.valid(), stack.len() >= nsc(%s, %s, %s),\n    ensures false,\n{}\n"
                             % (cname, loop.var, STACK_ELEM[kind], loop.var, NSN, IN, sep), dict(origin="verif", fn=cname, canary_for="%s::from_tree_step" % En))
            vf.canaries.append((cname, "%s::from_tree_step" % En, start, vf._lines))
            # -- the frame
            R = loop.root
            vf.fn(rel, anchor, qual=En, props=PROPS,
                  rewrites=[R7_PATHS, sub("R7-rename", r"\bPolicy::", En + "::", required=False), ETA, ASSERT_EQ, ARC_UNWRAP, RevPreOrderLoop(kind)],
                  contract=Contract(requires=["%s.valid()" % R, Clause("root_is_not_an_inner_value", (), "!skip(%s.nodes@, %s.index as int, %s)" % (R, R, sep))], ensures=[]))
            # the same text WITHOUT the precondition on the root: `FromTree::from_tree` is a public trait method and accepts any node.
            # RED on the unchanged tree (genuine, reproduced: see the unit report): handed the only child of its parent (e.g. what
            # `verify_toplevel(name, 1..=1)` returns) or the first child of a node named thresh, the root itself is skipped and `assert_eq!(stack.len(), 1)` fires.
            # LEAD: INFO only (no property id): C11 quantifies over TEXT given to a parser, and every parser of the crate hands `tree.root()` to
            # the policy from_tree; a caller of the public trait method with an inner node is outside the property.  Kept as a robustness note.
            vf.fn(rel, anchor, qual=En, rename="from_tree__handed_any_node", props=(),
                  rewrites=[R7_PATHS, sub("R7-rename", r"\bPolicy::", En + "::", required=False), ETA, ASSERT_EQ, ARC_UNWRAP, RevPreOrderLoop(kind)],
                  contract=Contract(requires=["%s.valid()" % R], ensures=[]))
    return vf


def _register(vf, name):
    """a lemma of a raw block counts as an obligation of the unit"""
    text = vf.text()
    m = None
    for m in re.finditer(r"^proof fn %s\b" % re.escape(name), text, flags=re.M):
        pass
    if m is None:
        raise Undecided("lemma %s not found in the prelude" % name)
    start = text[:m.start()].count("\n") + 1
    # body: the first `{` at nesting depth 0 after the signature's clauses
    j = m.start()
    depth = 0
    while True:
        ch = text[j]
        if ch in "([":
            j = match_close(text, j)
        elif ch == "{":
            break
        j += 1
    end = text[:match_close(text, j)].count("\n") + 1
    vf.functions[name] = dict(props=P11, file=None, lines=None, clauses={}, start=start, end=end, origin="verif")
