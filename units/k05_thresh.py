"""C05 (and C11): `Type::threshold`, `Correctness::threshold`, `Malleability::threshold` -- the real, iterator-generic
text (no R8 rewrite) -- against the `thresh` row of the specification's type tables.  Kani, BOUNDED: n = 1..=4 fully
symbolic child `Type`s, symbolic 1 <= k <= n.  (Twin of the unbounded Verus proof of the slice-specialised text.)

The tag list of every harness is the set of literal "C05:<tag>" messages reachable from the harness function.
"""
import os
import re

NAME = "k05_thresh"
ENGINE = "kani"
PROPS = ("C05", "C11")
_RS = "contracts/kani/k05_thresh.rs"
INJECT = [("src/miniscript/types/mod.rs", _RS)]
TRUSTED = [
    "kani::assume(1 <= k <= n): the invariant of `Threshold` (validate_k_n), which every call site passes",
    "kani::assume(discriminant < number of variants) when building symbolic Base / Input / Dissat values",
]
DROPPED = ["which ErrorKind variant / child index is reported on rejection is not part of the specification and is not checked"]


def _tags():
    root = os.path.dirname(os.path.dirname(os.path.abspath(__file__)))
    src = re.sub(r"//[^\n]*", "", open(os.path.join(root, _RS)).read())
    i = src.index("fn check_thresh")
    j = src.index("fn any_k")
    out = []
    for t in re.findall(r"\"(C05:[\w.\-]+)\"", src[i:j]):
        if t not in out:
            out.append(t)
    names = re.findall(r"#\[kani::proof\]\s*(?:#\[[^\]]*\]\s*)*fn (\w+)", src)
    return out, names


_T, _NAMES = _tags()
HARNESSES = [dict(name=nm, fn="Type::threshold / Correctness::threshold / Malleability::threshold", props=("C05", "C11"),
                  kind="bounded", bound="n = %s fully symbolic children, symbolic 1 <= k <= n" % nm[-1], tier="quick", tags=list(_T))
             for nm in _NAMES]

if __name__ == "__main__":
    for h in HARNESSES:
        print(h["name"], h["bound"], h["tags"])
