"""C08 (Verus), taproot side of the policy compiler: src/policy/concrete.rs (feature `compiler`) + TapTree::{leaf, combine}.

WHAT IS DECIDED.  Whatever the f64 cost / probability search picks, the taproot output the compiler assembles MEANS the policy:

    compile_tr / compile_tr_native:   forall assignments a (which keys sign, which preimages are known, which lock atoms hold):
        csem(policy, a)  <==>  internal key signs  or  exists leaf of the script tree: the leaf's lift holds under a
    (when the internal key is the caller's `unspendable_key` -- used only when NO pk() is a root-level alternative -- the assignments
     considered are those in which that key does not sign)

decomposed per function (every clause is a named obligation):
  TapleafProbabilityIter::next   the work stack keeps the disjunction: yielded leaf OR rest of the stack == stack before (for BOTH readings of a
                                 sub-policy: "holds under a" and "has pk(k) as a root-level alternative"); a yielded leaf is not an `or` / `thresh(1,..)`;
                                 the number of policy nodes on the stack strictly decreases (termination of every consumer, C11)
  tapleaf_probability_iter       starts with the whole policy
  extract_key                    a root-level key is preferred; key OR rest == policy; fallback = the unspendable key with the policy unchanged;
                                 Err exactly when there is no key at all.  Its iterator chain `.filter_map(F).max_by_key(G).map(H)` is a verified loop
                                 (extract_key_chain) that drives the REAL `next`; F and H are lambda-lifted verbatim, G (f64 priority) is dropped
  translate_unsatisfiable_pk     per-node step (rtl post-order): the rebuilt node means the original one with the key not signing
  with_huffman_tree              the leaves of the result are exactly the BAG of input leaves -- for every order in which the heap may pop
  TapTree::{leaf, combine}       leaves = left leaves then right leaves, each one level deeper; Err iff a leaf would sit below depth 128 (BIP341)
  Tr::new / Descriptor::new_tr   Ok iff the key is allowed in tapscript (not uncompressed); stores key and tree
  generate_combination           thresh(k, x1..xn), k < n  <==>  exists i: thresh(k, all but xi)      (its doc's claim; lemma_drop_one)
  enumerate_pol(_native)         the returned alternatives are never empty and their disjunction is the policy (And arm of the native variant: R9)
  has_if_fragment (per node)     true exactly for d: j: andor or_d or_c or_i -- the fragments whose script template contains IF / NOTIF
  compile_tr / compile_tr_native the clause above; root-level key becomes the internal key; unspendable key only as fallback; native leaves are IF-free

ORACLE (none of it read off the code): `csem` = truth table of a concrete policy (And = all, Or = any, Thresh = at least k; text of c18_semantic),
BIP341 spending rule (key path or any ONE leaf; text of c07_taptree), BIP341 depth limit 128, the script templates of the specification (IF fragments).
ASSUMED here (declared with vf.trust): `compiler::best_compilation(leaf policy)` returns a miniscript whose lift means the leaf policy (its per-candidate
half is unit c08_compiler_nodes); `enumerate_leaves` (BTreeSet / BTreeMap fixed point) keeps the disjunction.

PARTIAL CORRECTNESS + PANIC FREEDOM AS TWO INSTANCES.  Functions that contain `X.expect(..)` on a Result the compiler claims cannot fail are verified
twice from the same text: `<fn>` with `.expect(..)` read as "if the call returns, X was Ok" (returns_ok_or_panics: meaning clauses hold for every run that
returns) and `<fn>__no_panic` with the real `.expect(..)` (may it panic?).

HISTORY.  On /repo 832b3f4e three obligations of this unit were red, each reproduced against the real crate and since fixed; the unit understands BOTH shapes of
the code, so reverting a fix brings its red obligation back (checked with `git revert --no-commit <sha>` in a scratch worktree):
  ef6dcc6a  with_huffman_tree returned `TapTree` and did `TapTree::combine(..).expect("huffman tree cannot produce depth > 128 ..")`: panic for a valid policy with
            > 130 nested `or`s  (with_huffman_tree__no_panic.body).  Now `-> Result<TapTree, TapTreeDepthError>` with `combine(..)?`; contract: Ok ==> bag equality,
            depth_error_only_with_more_than_128_leaves (a binary tree never has a leaf deeper than its number of leaves - 1: invariant
            no_leaf_deeper_than_its_subtree_has_leaves), combine's own clause says when it fails
  4b6e7cb6  `Descriptor::new_tr(..).expect("compiler produces sane output")` panicked for an uncompressed internal key
            (compile_tr__no_panic.body / compile_tr_native__no_panic.body).  Now `.map_err(|_| CompilerError::LimitsExceeded)?`
  b2cd0c6b  is_safe_nonmalleable counted TRIVIAL as signed, so the policy TRIVIAL with an unspendable key compiled to `tr(KEY)`
            (compile_tr(.._native).anyone_can_spend_policy_keeps_its_meaning).  The LEAF rows of is_safe_nonmalleable are now under contract, cut from the real text
            (is_safe_nonmalleable_step: leaf_is_signed_iff_every_satisfaction_needs_a_signature, trivial_is_satisfiable_without_a_signature, key_and_unsatisfiable_are_signed,
            hash_and_time_locks_are_unsigned, leaves_are_non_malleable); the same arms, as the spec function isnm_leaf_row, are what compile_tr* learn about a leaf policy

REWRITES (each a rewrite object; a lost pattern is UNDECIDED)
  R1      `#[cfg(feature = "compiler")]` dropped (the text compiled with the feature on is verified)
  R7-f64  `f64` -> opaque `F64` with uninterpreted total `* / +`; float literals -> F64::lit(L); `x as f64` -> usize_as_f64(x)
          (Verus: primitive float operators carry an unprovable precondition, no int->float cast); probabilities never enter a meaning clause
  R7      `impl Iterator::next` emitted as an inherent method, `Self::Item` spelled out; `compiler::best_compilation` -> the stub of that name;
          `TapTree::leaf<A: Into<Arc<..>>>(ms: A)` specialised to the type every call site passes (`ms.into()` = `Arc::new(ms)`);
          `assert_ne!(a, 0, "..")` -> `assert!(a != 0)`; `pol.as_ref()` -> `&**pol`; `Tr` without its `spend_info: Mutex` cache field
  R7-partial  `X.expect("..")` -> returns_ok_or_panics(X) in the partial-correctness instance (see above)
  R8      `for PAT in xs.iter().rev()` -> descending index loop; `for PAT in a.iter().chain(b.iter())` -> loop over a, then loop over b, body verbatim in both;
          `for PAT in ITER` over the leaf iterator -> the language's desugaring `loop { let PAT = match it.next() { Some(x) => x, None => break }; .. }`;
          `for (i, PAT) in v.iter().enumerate()` -> index loop with `let i = index`
  R13''   `P if G => A, _ => B` (guarded arm directly before the final wildcard) -> `P => if G { A } else { B }` (Verus loses `final(self)` at a `return` after a guarded arm)
  R14/R16 iterator chains -> verified index loops with the closure bodies verbatim (`.iter().map(|PAT| BODY).collect()`, `Threshold::from_iter(k,
          it.enumerate().filter_map(|(j, sub)| BODY))` = collect + `Threshold::new` for MAX = 0); `.sum()` / `.fold(0, +)` of odds -> uninterpreted usize
  R6      `enumerate_leaves(.., expand_fn)` (fn pointer) -> one instance per expansion function
  R9      And arm of enumerate_pol_native (recursion + enumerate/filter/map closures + Vec::insert): excluded, not claimed
  R10     loop invariants / decreases / ghost snapshots / lemma calls; `for (prob, script) in ms` gets a name for its iterator.  with_huffman_tree is annotated by
          STRUCTURE (huffman_annotate: the for loop and its heap push, the while loop over node_weights.len(), its two `let (_, TREE) = node_weights.pop()..`
          and its heap push; local names read off the text); TapTree::combine's chain loop takes the element pattern, the order of the two trees and the
          accumulator name from the text (`&(d, ref l)` against `&place` -> `(d, ref l)` against `place`, R3)
  R12     `.map_err(CompilerError::PolicyError)` eta-expanded; `a.min(b)` -> if/else
"""
import re

from vlib.verus import VerusFile, Contract, Clause, sub, lit, rule, Undecided, split_fn, replace_arm
from vlib.extract import match_close, AnchorLost
from units import _tree
from units import c18_semantic as S
from units import c18_normalized as N
from units import c20_policy as P20
from units import c07_taptree as T7
from units import c07_lift as L7
from units.c20_translate import impl_with_fn
from units.c02_multi import for_slice_loop, register_named_invariants

NAME = "c08_taptree_compile"
ENGINE = "verus"
PROPS = ("C08", "C11")
CONC = "src/policy/concrete.rs"
TAPTREE = "src/descriptor/tr/taptree.rs"
TR = "src/descriptor/tr/mod.rs"
COMPILER = "src/policy/compiler.rs"
CTX = "src/miniscript/context.rs"

DROPPED = [
    "enumerate_leaves (fixed-point loop over BTreeSet / BTreeMap with labelled breaks, fn-pointer parameter): NOT verified; consumed through the ASSUMED contract "
    "`the returned alternatives are the policy` (two instances, one per expansion function); what it relies on is proved for enumerate_pol / enumerate_pol_native",
    "enumerate_pol_native: the And arm (recursion, enumerate/filter/map closures, Vec::insert: distributing `and` over an expanded child) is excluded (R9); the two "
    "clauses are claimed for every other variant only",
    "compile_tr_private_experimental (iterator chain with `best_compilation(..).unwrap()` inside a closure), compile_to_descriptor, compile: not in this unit "
    "(compile_to_descriptor's Tr arm delegates to compile_tr)",
    "compiler::best_compilation is a stub: an Ok result lifts and means the leaf policy it was given (ASSUMPTION; per-candidate half: unit c08_compiler_nodes)",
    "Miniscript::lift of a compiled leaf is the uninterpreted `spec_ms_lift` (per-node step: unit c07_lift); the descriptor-level lift of the result is not re-verified "
    "(TapTree::lift / Tr::lift: unit c07_taptree); the clause is stated with that unit's BIP341 oracle",
    "is_valid, check_binary_ops, check_num_tapleaves: signature-only stubs, nothing assumed about their answers",
    "is_safe_nonmalleable: per-node step, LEAF rows only (And / Or / Thresh rows: `(0..n).map(|_| acc.pop().unwrap()).fold(..)` with tuple-pattern closures, excluded R9); "
    "the loop / push / final pop are dropped; compile_tr* consume `for a leaf policy the result is its row` (one-node traversal trusted), nothing for n-ary policies",
    "translate_unsatisfiable_pk: per-node step only (loop / push / final try_unwrap dropped; traversal contract DESIGN 3.2); extract_key consumes the whole-tree "
    "statement as an assumed contract",
    "has_if_fragment: per-node predicate only (`pre_order_iter().any(..)` summarised by an uninterpreted spec_has_if)",
    "extract_key: `max_by_key` (f64 priority) is modelled as `returns one of the candidates`; with_huffman_tree: BinaryHeap is a bag, `pop` returns SOME element: "
    "the meaning clauses hold for every order, Huffman optimality is not examined",
    "f64: every probability is an opaque value (R7-f64); NaN / zero total odds of hand-built policies (`or(0@a,0@b)` is rejected by the parser) and usize overflow of "
    "summed odds are not examined",
    "TapTree::combine: `Vec::with_capacity(a + b)` needs `a + b <= usize::MAX` (axiom_vec_len: a Vec holds at most isize::MAX bytes)",
    "termination: proved for TapleafProbabilityIter::next and every loop driving it (measure: policy nodes on the work stack), the Huffman loop, combine, "
    "generate_combination, enumerate_pol; not for enumerate_leaves",
]


def pick(text, name):
    """One fn item (spec / proof / exec, with its attribute line) out of another unit's prelude text (reuse, never retyped)."""
    m = re.search(r"(#\[verifier::external_body\]\s*)?((?:pub )?(?:open |closed )?(?:spec |proof |broadcast proof )?fn) %s\b" % re.escape(name), text)
    if not m:
        raise Undecided("prelude text of an imported unit changed: fn %s not found" % name)
    open_ = text.index("{", m.end())
    return text[m.start():match_close(text, open_) + 1] + "\n"


def csem_oracle():
    """`csem` / `csem_count` / `is_cleaf` / `cchild` / `carity`: the truth-table meaning of a CONCRETE policy (oracle text of c18_semantic)."""
    return "".join(pick(S.LIFT_ORACLE, n) for n in ("csem", "csem_count", "is_cleaf", "cchild", "carity"))


def asg_oracle():
    t = S.ORACLE
    try:
        s = t.index("pub struct Asg<Pk: MiniscriptKey>")
        return t[s:t.index("\n}\n", s) + 3]
    except ValueError:
        raise Undecided("c18_semantic.ORACLE no longer contains struct Asg")


STUBS = r"""
// ---- the script context of tap leaves (uninhabited marker enum in /repo) -----------------------------------------------
struct Tap { marker: u8 }
impl ScriptContext for Tap {}
// crate::Error reduced to the variant the lift constructs (text of c07_taptree's stub)
enum LiftErrorStub { Opaque }
enum Error { LiftError(LiftErrorStub), ContextError(ScriptContextError), Other(u8) }
// per-leaf lift of a compiled leaf: uninterpreted (its per-node step is unit c07_lift)
uninterp spec fn spec_ms_lift<Pk: MiniscriptKey, Ctx: ScriptContext>(ms: Miniscript<Pk, Ctx>) -> Result<Semantic<Pk>, Error>;

// derived PartialEq / Clone of the concrete policy: structural equality / an equal value (DESIGN 3.4)
impl<Pk: MiniscriptKey> PartialEq for Concrete<Pk> { #[verifier::external_body] fn eq(&self, o: &Concrete<Pk>) -> (r: bool) { unimplemented!() } }
impl<Pk: MiniscriptKey> vstd::std_specs::cmp::PartialEqSpecImpl for Concrete<Pk> {
    open spec fn obeys_eq_spec() -> bool { true }
    open spec fn eq_spec(&self, o: &Concrete<Pk>) -> bool { *self == *o }
}
impl<Pk: MiniscriptKey> Clone for Concrete<Pk> { #[verifier::external_body] fn clone(&self) -> (r: Self) ensures r == *self { unimplemented!() } }
// `==` on keys is equality of the key values (MiniscriptKey: Eq)
use vstd::std_specs::cmp::PartialEqSpec;
#[verifier::external_body]
proof fn axiom_key_eq<Pk: MiniscriptKey>()
    ensures Pk::obeys_eq_spec(), forall|x: Pk, y: Pk| #[trigger] x.eq_spec(&y) == (x == y),
{}
"""

ORACLE_A = r"""
// concrete.rs calls its own enum `Policy`
type Policy<Pk> = Concrete<Pk>;

// ---- ORACLE (truth tables): disjunction over the children of an n-ary node / over a work stack of sub-policies ------------------
spec fn b2n(b: bool) -> nat { if b { 1 } else { 0 } }
// what is asked of a (sub-)policy: "does it hold under the assignment a" / "is pk(k) one of its root-level alternatives"
enum LeafPred<Pk: MiniscriptKey> { Holds(Asg<Pk>), IsKey(Pk) }
spec fn peval<Pk: MiniscriptKey>(p: Concrete<Pk>, lp: LeafPred<Pk>) -> bool {
    match lp { LeafPred::Holds(a) => csem(p, a), LeafPred::IsKey(k) => rk(p, k) }
}
spec fn child_holds<Pk: MiniscriptKey>(p: Concrete<Pk>, j: int, lp: LeafPred<Pk>) -> bool { peval(cchild(p, j), lp) }
spec fn any_child_in<Pk: MiniscriptKey>(p: Concrete<Pk>, lo: int, hi: int, lp: LeafPred<Pk>) -> bool {
    exists|j: int| lo <= j < hi && #[trigger] child_holds(p, j, lp)
}
// the root-level disjunctions the taproot compiler splits at (doc of compile_tr: `Or` and `Thresh(1, ..)`)
spec fn splits<Pk: MiniscriptKey>(p: Concrete<Pk>) -> bool { p is Or || (p is Thresh && p->Thresh_0.k == 1) }
// one of the entries of the work stack holds
spec fn ent_holds<Pk: MiniscriptKey>(s: Seq<(F64, &Concrete<Pk>)>, i: int, lp: LeafPred<Pk>) -> bool { peval(*s[i].1, lp) }
spec fn stk_any<Pk: MiniscriptKey>(s: Seq<(F64, &Concrete<Pk>)>, lp: LeafPred<Pk>) -> bool {
    exists|i: int| 0 <= i < s.len() && #[trigger] ent_holds(s, i, lp)
}
// termination measure: number of policy nodes on the work stack
spec fn psize<Pk: MiniscriptKey>(p: Concrete<Pk>) -> nat
    decreases p, 1nat, 0nat
{
    1 + psize_upto(p, carity(p))
}
spec fn psize_upto<Pk: MiniscriptKey>(p: Concrete<Pk>, n: nat) -> nat
    decreases p, 0nat, n
{
    match p {
        Concrete::And(subs) => if n == 0 || n > subs@.len() { 0 } else { psize_upto(p, (n - 1) as nat) + psize(*subs@[n - 1]) },
        Concrete::Or(subs) => if n == 0 || n > subs@.len() { 0 } else { psize_upto(p, (n - 1) as nat) + psize(*subs@[n - 1].1) },
        Concrete::Thresh(th) => if n == 0 || n > th.inner@.len() { 0 } else { psize_upto(p, (n - 1) as nat) + psize(*th.inner@[n - 1]) },
        _ => 0,
    }
}
spec fn stk_size<Pk: MiniscriptKey>(s: Seq<(F64, &Concrete<Pk>)>) -> nat
    decreases s.len()
{
    if s.len() == 0 { 0 } else { stk_size(s.drop_last()) + psize(*s.last().1) }
}

// ---- f64: probabilities only order the leaves; the type and every operation on it are uninterpreted (R7-f64) -------------------
#[derive(Clone, Copy)]
struct F64 { v: f64 }
impl core::ops::Mul for F64 { type Output = F64; #[verifier::external_body] fn mul(self, o: F64) -> F64 { F64 { v: self.v * o.v } } }
impl core::ops::Div for F64 { type Output = F64; #[verifier::external_body] fn div(self, o: F64) -> F64 { F64 { v: self.v / o.v } } }
impl core::ops::Add for F64 { type Output = F64; #[verifier::external_body] fn add(self, o: F64) -> F64 { F64 { v: self.v + o.v } } }
impl vstd::std_specs::ops::MulSpecImpl for F64 { open spec fn obeys_mul_spec() -> bool { false } open spec fn mul_req(self, rhs: F64) -> bool { true } open spec fn mul_spec(self, rhs: F64) -> F64 { arbitrary() } }
impl vstd::std_specs::ops::DivSpecImpl for F64 { open spec fn obeys_div_spec() -> bool { false } open spec fn div_req(self, rhs: F64) -> bool { true } open spec fn div_spec(self, rhs: F64) -> F64 { arbitrary() } }
impl vstd::std_specs::ops::AddSpecImpl for F64 { open spec fn obeys_add_spec() -> bool { false } open spec fn add_req(self, rhs: F64) -> bool { true } open spec fn add_spec(self, rhs: F64) -> F64 { arbitrary() } }
impl F64 { #[verifier::external_body] fn lit(x: f64) -> F64 { F64 { v: x } } }
#[verifier::external_body]
fn usize_as_f64(x: usize) -> F64 { F64 { v: x as f64 } }
// R14: `subs.iter().map(|prob_sub| prob_sub.0).sum::<usize>()` (total odds; feeds probabilities only)
#[verifier::external_body]
fn sum_odds<T>(subs: &Vec<(usize, T)>) -> usize { subs.iter().map(|prob_sub| prob_sub.0).sum::<usize>() }
"""

LEMMAS_A = [
    ("count_positive_iff_some_child_holds", r"""
proof fn lemma_count_any<Pk: MiniscriptKey>(p: Concrete<Pk>, n: nat, a: Asg<Pk>)
    requires !is_cleaf(p), n <= carity(p),
    ensures csem_count(p, n, a) <= n, (csem_count(p, n, a) >= 1) == any_child_in(p, 0, n as int, LeafPred::Holds(a)),
    decreases n,
{
    let lp = LeafPred::Holds(a);
    if n > 0 {
        lemma_count_any(p, (n - 1) as nat, a);
        assert(csem_count(p, n, a) == csem_count(p, (n - 1) as nat, a) + b2n(child_holds(p, n - 1, lp)));
        if any_child_in(p, 0, n as int, lp) {
            let j = choose|j: int| 0 <= j < n && #[trigger] child_holds(p, j, lp);
            if j < n - 1 { assert(any_child_in(p, 0, n - 1, lp)); }
        }
        if any_child_in(p, 0, n - 1, lp) {
            let j = choose|j: int| 0 <= j < n - 1 && #[trigger] child_holds(p, j, lp);
            assert(0 <= j < n && child_holds(p, j, lp));
        }
        if child_holds(p, n - 1, lp) { assert(0 <= n - 1 < n && child_holds(p, n - 1, lp)); }
    }
}
proof fn lemma_rk_count_any<Pk: MiniscriptKey>(p: Concrete<Pk>, n: nat, k: Pk)
    requires splits(p), n <= carity(p),
    ensures (rk_count(p, n, k) >= 1) == any_child_in(p, 0, n as int, LeafPred::IsKey(k)),
    decreases n,
{
    let lp = LeafPred::IsKey(k);
    if n > 0 {
        lemma_rk_count_any(p, (n - 1) as nat, k);
        assert(rk_count(p, n, k) == rk_count(p, (n - 1) as nat, k) + b2n(child_holds(p, n - 1, lp)));
        if any_child_in(p, 0, n as int, lp) {
            let j = choose|j: int| 0 <= j < n && #[trigger] child_holds(p, j, lp);
            if j < n - 1 { assert(any_child_in(p, 0, n - 1, lp)); }
        }
        if any_child_in(p, 0, n - 1, lp) {
            let j = choose|j: int| 0 <= j < n - 1 && #[trigger] child_holds(p, j, lp);
            assert(0 <= j < n && child_holds(p, j, lp));
        }
        if child_holds(p, n - 1, lp) { assert(0 <= n - 1 < n && child_holds(p, n - 1, lp)); }
    }
}
"""),
    ("a_splitting_node_is_the_disjunction_of_its_children", r"""
proof fn lemma_splits<Pk: MiniscriptKey>(p: Concrete<Pk>)
    requires splits(p),
    ensures forall|lp: LeafPred<Pk>| #[trigger] peval(p, lp) == any_child_in(p, 0, carity(p) as int, lp),
{
    assert forall|lp: LeafPred<Pk>| #[trigger] peval(p, lp) == any_child_in(p, 0, carity(p) as int, lp) by {
        match lp {
            LeafPred::Holds(a) => { lemma_count_any(p, carity(p), a); }
            LeafPred::IsKey(k) => { lemma_rk_count_any(p, carity(p), k); }
        }
    }
}
"""),
    ("work_stack_push_pop", r"""
proof fn lemma_stk_push<Pk: MiniscriptKey>(s: Seq<(F64, &Concrete<Pk>)>, x: (F64, &Concrete<Pk>))
    ensures forall|lp: LeafPred<Pk>| #[trigger] stk_any(s.push(x), lp) == (stk_any(s, lp) || peval(*x.1, lp)),
            stk_size(s.push(x)) == stk_size(s) + psize(*x.1),
{
    let t = s.push(x);
    assert(t.drop_last() =~= s);
    assert forall|lp: LeafPred<Pk>| #[trigger] stk_any(t, lp) == (stk_any(s, lp) || peval(*x.1, lp)) by {
        if stk_any(t, lp) {
            let i = choose|i: int| 0 <= i < t.len() && #[trigger] ent_holds(t, i, lp);
            if i < s.len() { assert(ent_holds(s, i, lp)); }
        }
        if stk_any(s, lp) {
            let i = choose|i: int| 0 <= i < s.len() && #[trigger] ent_holds(s, i, lp);
            assert(ent_holds(t, i, lp));
        }
        if peval(*x.1, lp) { assert(ent_holds(t, s.len() as int, lp)); }
    }
}
proof fn lemma_stk_pop<Pk: MiniscriptKey>(s: Seq<(F64, &Concrete<Pk>)>)
    requires s.len() > 0,
    ensures forall|lp: LeafPred<Pk>| #[trigger] stk_any(s, lp) == (stk_any(s.drop_last(), lp) || peval(*s.last().1, lp)),
            stk_size(s) == stk_size(s.drop_last()) + psize(*s.last().1),
{
    lemma_stk_push(s.drop_last(), s.last());
    assert(s.drop_last().push(s.last()) =~= s);
}
proof fn lemma_stk_empty<Pk: MiniscriptKey>(s: Seq<(F64, &Concrete<Pk>)>)
    requires s.len() == 0,
    ensures forall|lp: LeafPred<Pk>| !#[trigger] stk_any(s, lp),
{}
proof fn lemma_stk_one<Pk: MiniscriptKey>(s: Seq<(F64, &Concrete<Pk>)>)
    requires s.len() == 1,
    ensures forall|lp: LeafPred<Pk>| #[trigger] stk_any(s, lp) == peval(*s[0].1, lp),
{
    assert forall|lp: LeafPred<Pk>| #[trigger] stk_any(s, lp) == peval(*s[0].1, lp) by {
        if peval(*s[0].1, lp) { assert(ent_holds(s, 0, lp)); }
    }
}
// one more child at the lower end of a range of children
proof fn lemma_child_range<Pk: MiniscriptKey>(p: Concrete<Pk>, lo: int, hi: int)
    requires lo < hi,
    ensures forall|lp: LeafPred<Pk>| #[trigger] any_child_in(p, lo, hi, lp) == (any_child_in(p, lo + 1, hi, lp) || child_holds(p, lo, lp)),
{
    assert forall|lp: LeafPred<Pk>| #[trigger] any_child_in(p, lo, hi, lp) == (any_child_in(p, lo + 1, hi, lp) || child_holds(p, lo, lp)) by {
        if any_child_in(p, lo, hi, lp) {
            let j = choose|j: int| lo <= j < hi && #[trigger] child_holds(p, j, lp);
            if j > lo { assert(any_child_in(p, lo + 1, hi, lp)); }
        }
        if any_child_in(p, lo + 1, hi, lp) {
            let j = choose|j: int| lo + 1 <= j < hi && #[trigger] child_holds(p, j, lp);
            assert(lo <= j < hi && child_holds(p, j, lp));
        }
        if child_holds(p, lo, lp) { assert(lo <= lo < hi && child_holds(p, lo, lp)); }
    }
}
"""),
]


# R1: the taproot compiler is gated behind the crate feature `compiler`; the unit verifies the text that is compiled with the feature on
CFG = sub("R1-cfg-feature-compiler", r'#\[cfg\(feature = "compiler"\)\]\s*', "", required=False)


def sub_as_f64_ext():
    """R7: `(EXPR) as f64` / `xs[i].0 as f64` / `0 as f64` -> usize_as_f64(..) (the operand shapes of compiler.rs)."""
    return sub("R7-usize-as-f64(ext)", r"(\([^()]*\)|\*?\b[\w.\[\]]+(?:\(\))?) as f64", r"usize_as_f64(\1)", required=False)


def pick_f64():
    """The opaque float type and its operations (text of ORACLE_A, for reuse by unit c08_compiler_nodes)."""
    a = ORACLE_A.index("// ---- f64: probabilities only order the leaves")
    b = ORACLE_A.index("// R14: `subs.iter().map(|prob_sub| prob_sub.0).sum::<usize>()`")
    return ORACLE_A[a:b]


def drop_docs_vis(text):
    from vlib.verus import drop_vis
    from vlib.extract import strip_docs
    return drop_vis(strip_docs(text)).strip("\n")


def C(tag, text, props=("C08",)):
    return Clause(tag, props, text)


# R7: `X as f64` (X: usize) -> usize_as_f64(X)   (Verus has no int->float cast; the value only feeds probabilities)
AS_F64 = sub("R7-usize-as-f64", r"(\*?\b[\w.]+(?:\(\))?) as f64", r"usize_as_f64(\1)", required=False)
# R7-f64: the type `f64` -> the opaque `F64` (Verus gives primitive float operators an unprovable precondition and has no int->float
# cast); float literals -> F64::lit(L).  Total, uninterpreted operations: nothing about a probability's VALUE is ever claimed.
F64_LIT = sub("R7-f64-literal", r"(?<![\w.])(\d+\.\d+)(?![\w.])", r"F64::lit(\1)", required=False)
F64_TY = sub("R7-f64-type", r"\bf64\b", "F64", required=False)
F64 = [AS_F64, F64_LIT, F64_TY]


def guard_to_if(scrutinee):
    """R13'': in `match S { .., P if G => A, _ => B }` (the guarded arm directly in front of the final wildcard arm) the guard is
    moved into the arm: `P => if G { A } else { B }`.  Same meaning: when P matches and G fails, the only arm left is `_`.
    (Verus loses track of `final(self)` at a `return` that follows a guarded arm.)"""
    from vlib.extract import Region, split_arms

    @rule("R13-guard-before-wildcard-to-if")
    def rw(text):
        reg = Region("<text>", text, 0, len(text))
        try:
            m = reg._find_match(scrutinee, 0)
        except AnchorLost:
            return None
        arms = split_arms(text, m.start, m.end)
        if len(arms) < 2 or arms[-1]["pat"].strip() != "_" or arms[-1]["guard"] or not arms[-2]["guard"]:
            return None
        if any(a["guard"] for a in arms[:-2]):
            return None
        g, w = arms[-2], arms[-1]
        wbody = text[w["body_start"]:w["body_end"]].strip().rstrip(",")
        gbody = text[g["body_start"]:g["body_end"]].strip().rstrip(",")
        if not gbody.startswith("{"):
            gbody = "{ " + gbody + " }"
        new_arm = "%s => if %s %s else { %s }," % (g["pat"], g["guard"], gbody, wbody)
        return text[:g["start"]] + new_arm + "\n                " + text[w["start"]:]
    return rw


def next_rewrites():
    inv_common = ("                    forall|lp: LeafPred<Pk>| #[trigger] stk_any(self.stack@, lp) == (stk_any(popped, lp) || any_child_in(*top, rv_i as int, carity(*top) as int, lp)), //@inv every_alternative_goes_on_the_work_stack [C08]\n"
                  "                    stk_size(self.stack@) + psize_upto(*top, rv_i as nat) == stk_size(popped) + psize_upto(*top, carity(*top)),")
    def rev_loop(prefix, slice_expr, elem, extra):
        # R8: `for PAT in XS.iter().rev() { BODY }` -> descending index loop, BODY verbatim
        @rule("R8-rev-slice-loop")
        def rw(text):
            from vlib.extract import Region
            reg = Region("<text>", text, 0, len(text))
            try:
                b = reg._find_block(prefix)
            except Exception:
                return None
            head = ("let rv_src = %s;\n                let mut rv_i: usize = rv_src.len();\n"
                    "                proof { lemma_child_range_empty(*top, rv_i as int); }\n"
                    "                while rv_i > 0\n                    invariant\n"
                    "                    rv_i <= rv_src@.len(), rv_src@.len() == carity(*top), %s\n%s\n"
                    "                    decreases rv_i\n                {\n"
                    "                    rv_i -= 1;\n                    let %s = &rv_src[rv_i];\n"
                    "                    let ghost stk_before = self.stack@;\n") % (slice_expr, extra, inv_common, elem)
            body = text[b.start:b.end]
            tail = ("\n                    proof { if self.stack@.len() == stk_before.len() + 1 { lemma_stk_push(stk_before, self.stack@.last()); assert(self.stack@ =~= stk_before.push(self.stack@.last())); }\n"
                    "                            lemma_child_range(*top, rv_i as int, carity(*top) as int); }\n                }\n")
            return text[:b.stmt_start] + head + body + tail + text[b.stmt_end:]
        return rw
    return [
        CFG,
        sub("R7-assoc-type", r"\bSelf::Item\b", "(F64, &'p Policy<Pk>)"),
        lit("R14-sum-odds", "subs.iter().map(|prob_sub| prob_sub.0).sum::<usize>()", "sum_odds(subs)"),
    ] + F64 + [
        guard_to_if("top"),
        rev_loop("for (sub_prob, sub) in subs.iter().rev()", "subs", "(sub_prob, sub)", "*top is Or, rv_src@ == top->Or_0@,"),
        rev_loop("for sub in thresh.iter().rev()", "thresh.data()", "sub", "*top is Thresh, rv_src@ == top->Thresh_0.inner@,"),
        # R10: loop invariant + termination measure of the `loop`
        sub("R10-loop-invariant", r"\bloop \{\s*let \(top_prob, top\) = self\.stack\.pop\(\)\?;",
            "loop\n            invariant\n                forall|lp: LeafPred<Pk>| #![trigger stk_any(self.stack@, lp)] #![trigger stk_any(old(self).stack@, lp)] stk_any(self.stack@, lp) == stk_any(old(self).stack@, lp), //@inv work_stack_keeps_the_disjunction [C08]\n"
            "                stk_size(self.stack@) <= stk_size(old(self).stack@),\n"
            "            decreases stk_size(self.stack@),\n        {\n"
            "            let ghost before = self.stack@;\n"
            "            proof { if self.stack@.len() == 0 { lemma_stk_empty(self.stack@); } else { lemma_stk_pop(self.stack@); } }\n"
            "            let (top_prob, top) = self.stack.pop()?;\n"
            "            let ghost popped = self.stack@;\n"
            "            proof { if splits(*top) { lemma_splits(*top); }\n"
            "                    assert(popped =~= before.drop_last()); assert(before.last().1 == top); }"),
    ]


RANGE_EMPTY = r"""
proof fn lemma_child_range_empty<Pk: MiniscriptKey>(p: Concrete<Pk>, lo: int)
    ensures forall|lp: LeafPred<Pk>| !#[trigger] any_child_in(p, lo, lo, lp),
{}
"""


ORACLE_B = r"""
// ---- ORACLE for the key extraction ----------------------------------------------------------------------------------------------
// Key(k) is one of the ROOT-LEVEL alternatives of p (reachable from the root through `or` / `thresh(1, ..)` nodes only): spending with k alone
// satisfies p, so k may become the taproot internal key
spec fn rk<Pk: MiniscriptKey>(p: Concrete<Pk>, k: Pk) -> bool
    decreases p, 1nat, 0nat
{
    match p {
        Concrete::Key(k2) => k2 == k,
        Concrete::Or(subs) => rk_count(p, subs@.len(), k) >= 1,
        Concrete::Thresh(th) => th.k == 1 && rk_count(p, th.inner@.len(), k) >= 1,
        _ => false,
    }
}
spec fn rk_count<Pk: MiniscriptKey>(p: Concrete<Pk>, n: nat, k: Pk) -> nat
    decreases p, 0nat, n
{
    match p {
        Concrete::Or(subs) => if n == 0 || n > subs@.len() { 0 } else { rk_count(p, (n - 1) as nat, k) + b2n(rk(*subs@[n - 1].1, k)) },
        Concrete::Thresh(th) => if n == 0 || n > th.inner@.len() { 0 } else { rk_count(p, (n - 1) as nat, k) + b2n(rk(*th.inner@[n - 1], k)) },
        _ => 0,
    }
}
spec fn has_root_key<Pk: MiniscriptKey>(p: Concrete<Pk>) -> bool { exists|k: Pk| rk(p, k) }
// the assignment a with the key k not signing
spec fn without_key<Pk: MiniscriptKey>(a: Asg<Pk>, k: Pk) -> Asg<Pk> { Asg { keys: a.keys.remove(k), ..a } }
// t is `orig` with every pk(k) replaced by UNSATISFIABLE, judged by meaning: t holds iff orig holds without k's signature
spec fn means_without<Pk: MiniscriptKey>(t: Concrete<Pk>, orig: Concrete<Pk>, k: Pk) -> bool {
    forall|a: Asg<Pk>| #[trigger] csem(t, a) == csem(orig, without_key(a, k))
}
// what the rtl-post-order iterator yields (only the field the steps read)
struct PostOrderIterItem<T> { node: T }
"""

LEMMAS_B = [
    ("a_root_level_key_alone_satisfies_the_policy", r"""
proof fn lemma_rk_spends<Pk: MiniscriptKey>(p: Concrete<Pk>, k: Pk, a: Asg<Pk>)
    requires rk(p, k), a.keys.contains(k),
    ensures csem(p, a),
    decreases p, 1nat, 0nat,
{
    match p {
        Concrete::Key(_) => {}
        Concrete::Or(subs) => { lemma_rk_count(p, subs@.len(), k, a); }
        Concrete::Thresh(th) => { lemma_rk_count(p, th.inner@.len(), k, a); }
        _ => {}
    }
}
proof fn lemma_rk_count<Pk: MiniscriptKey>(p: Concrete<Pk>, n: nat, k: Pk, a: Asg<Pk>)
    requires splits(p), n <= carity(p), a.keys.contains(k),
    ensures rk_count(p, n, k) >= 1 ==> csem_count(p, n, a) >= 1,
    decreases p, 0nat, n,
{
    if n > 0 {
        lemma_rk_count(p, (n - 1) as nat, k, a);
        if rk(cchild(p, n - 1), k) { lemma_rk_spends(cchild(p, n - 1), k, a); }
    }
}
"""),
    ("pointwise_equal_children_give_equal_counts", r"""
// children of c1 under a1 hold exactly when the children of c2 under a2 do  ==>  the same number of them hold
proof fn lemma_counts_pointwise<Pk: MiniscriptKey>(c1: Concrete<Pk>, a1: Asg<Pk>, c2: Concrete<Pk>, a2: Asg<Pk>, n: nat)
    requires !is_cleaf(c1), !is_cleaf(c2), n <= carity(c1), n <= carity(c2),
             (c1 is And) == (c2 is And), (c1 is Or) == (c2 is Or), (c1 is Thresh) == (c2 is Thresh),
             forall|i: int| 0 <= i < n ==> csem(cchild(c1, i), a1) == csem(#[trigger] cchild(c2, i), a2),
    ensures csem_count(c1, n, a1) == csem_count(c2, n, a2),
    decreases n,
{
    if n > 0 {
        lemma_counts_pointwise(c1, a1, c2, a2, (n - 1) as nat);
        assert(csem(cchild(c1, n - 1), a1) == csem(cchild(c2, n - 1), a2));
    }
}
"""),
]

# R10 ghost after the extracted match of translate_unsatisfiable_pk's per-node step
TRANSLATE_HINT = """    proof {
        let node = **data.node;
        let res = if step_result is Some { step_result->Some_0 } else { node };
        assert forall|a: Asg<Pk>| #[trigger] csem(res, a) == csem(node, without_key(a, *key)) by {
            let a2 = without_key(a, *key);
            if !is_cleaf(node) {
                assert(step_result is Some);
                assert forall|i: int| 0 <= i < carity(node) implies csem(cchild(res, i), a) == csem(#[trigger] cchild(node, i), a2) by {
                    assert(means_without(*child(old(translated)@, i), cchild(node, i), *key));
                }
                lemma_counts_pointwise(res, a, node, a2, carity(node));
            }
        }
    }"""


CHAIN = r"""
// R15: `Iterator::max_by_key` returns one of the elements it is given (WHICH one is decided by the f64 key: not modelled)
#[verifier::external_body]
fn max_by_key_pick<T: Copy>(best: Option<T>, cand: T) -> (r: T)
    ensures r == cand || best == Some(r),
{ unimplemented!() }

// R14/R16: `IT.filter_map(F).max_by_key(G).map(H)` over the leaf iterator IT, with F and H lambda-lifted verbatim (ek_filter, ek_map):
// a verified loop that drives the REAL `TapleafProbabilityIter::next`
fn extract_key_chain<'p, Pk: MiniscriptKey>(it0: TapleafProbabilityIter<'p, Pk>) -> (r: Option<Pk>)
    ensures
        r matches Some(k) ==> stk_any(it0.stack@, LeafPred::IsKey(k)),
        r is None ==> forall|k: Pk| !#[trigger] stk_any(it0.stack@, LeafPred::IsKey(k)),
        it0.stack@.len() == 1 ==> (r matches Some(k) ==> rk(*it0.stack@[0].1, k)) && (r is None ==> !has_root_key(*it0.stack@[0].1)),
{
    let ghost s0 = it0.stack@;
    let mut it = it0;
    let mut best: Option<(OrdF64, &'p Pk)> = None;
    proof { if s0.len() == 1 { lemma_stk_one(s0); } }
    loop
        invariant
            s0 == it0.stack@,
            best matches Some(b) ==> stk_any(s0, LeafPred::IsKey(*b.1)),
            forall|lp: LeafPred<Pk>| #[trigger] stk_any(it.stack@, lp) ==> stk_any(s0, lp),
            best is None ==> forall|k: Pk| #[trigger] stk_any(s0, LeafPred::IsKey(k)) ==> stk_any(it.stack@, LeafPred::IsKey(k)),
            s0.len() == 1 ==> forall|lp: LeafPred<Pk>| #[trigger] stk_any(s0, lp) == peval(*s0[0].1, lp),
        decreases stk_size(it.stack@),
    {
        let ghost before = it.stack@;
        match it.next() {
            None => {
                return match best {
                    Some(b) => { proof { if s0.len() == 1 { assert(stk_any(s0, LeafPred::IsKey(*b.1)) == peval(*s0[0].1, LeafPred::IsKey(*b.1))); } } Some(Concrete::<Pk>::ek_map(b)) }
                    None => {
                        proof { assert forall|k: Pk| !#[trigger] stk_any(s0, LeafPred::IsKey(k)) by { assert(!stk_any(before, LeafPred::IsKey(k))); }
                                if s0.len() == 1 { assert forall|k: Pk| !rk(*s0[0].1, k) by { assert(stk_any(s0, LeafPred::IsKey(k)) == peval(*s0[0].1, LeafPred::IsKey(k))); } } }
                        None
                    }
                };
            }
            Some(item) => {
                proof { assert forall|lp: LeafPred<Pk>| #[trigger] stk_any(it.stack@, lp) ==> stk_any(s0, lp) by { assert(stk_any(before, lp) == (peval(*item.1, lp) || stk_any(it.stack@, lp))); } }
                match Concrete::<Pk>::ek_filter(item) {
                    Some(cand) => {
                        proof { let lp = LeafPred::IsKey(*cand.1); assert(peval(*item.1, lp)); assert(stk_any(before, lp) == (peval(*item.1, lp) || stk_any(it.stack@, lp))); }
                        best = Some(max_by_key_pick(best, cand));
                    }
                    None => {
                        proof {
                            if best is None {
                                assert forall|k: Pk| #[trigger] stk_any(s0, LeafPred::IsKey(k)) implies stk_any(it.stack@, LeafPred::IsKey(k)) by {
                                    let lp = LeafPred::IsKey(k);
                                    assert(stk_any(before, lp) == (peval(*item.1, lp) || stk_any(it.stack@, lp)));
                                }
                            }
                        }
                    }
                }
            }
        }
    }
}
"""

LEMMAS_C = [
    ("internal_key_or_the_policy_without_it_is_the_policy", r"""
// BIP341 key path: when pk(k) is a root-level alternative of p and t is p with pk(k) made unsatisfiable, then  p  <==>  k signs  or  t
broadcast proof fn lemma_key_or_rest<Pk: MiniscriptKey>(p: Concrete<Pk>, t: Concrete<Pk>, k: Pk)
    requires rk(p, k), #[trigger] means_without(t, p, k),
    ensures forall|a: Asg<Pk>| #[trigger] csem(p, a) == (a.keys.contains(k) || csem(t, a)),
{
    assert forall|a: Asg<Pk>| #[trigger] csem(p, a) == (a.keys.contains(k) || csem(t, a)) by {
        if a.keys.contains(k) { lemma_rk_spends(p, k, a); }
        else { assert(without_key(a, k).keys =~= a.keys); assert(without_key(a, k) == a); }
    }
}
"""),
]


class KeyChain:
    """R14/R16 on `self.tapleaf_probability_iter().filter_map(|P1| B1).max_by_key(|P2| B2).map(|P3| B3)`: B1 and B3 are cut out verbatim and
    emitted as the lifted functions ek_filter / ek_map, the chain becomes a call of the verified loop `extract_key_chain`; B2 (the f64
    priority) is dropped.  Anything else in the chain is an anchor loss (UNDECIDED)."""
    rule = "R14/R16-extract-key-chain"

    def __init__(self):
        self.closures = {}

    def __call__(self, text):
        m = re.search(r"\bself\s*\.tapleaf_probability_iter\(\)", text)
        if not m:
            return None
        pos = m.end()
        for name in ("filter_map", "max_by_key", "map"):
            m2 = re.match(r"\s*\.%s\(" % name, text[pos:])
            if not m2:
                return None
            open_ = pos + m2.end() - 1
            close = match_close(text, open_)
            mc = re.match(r"\|(.*?)\|\s*(.*)$", text[open_ + 1:close].strip(), flags=re.S)
            if not mc:
                return None
            self.closures[name] = (mc.group(1).strip(), mc.group(2).strip())
            pos = close + 1
        return text[:m.start()] + "extract_key_chain(self.tapleaf_probability_iter())" + text[pos:]

    def lifted(self, name, fn, sig_in, sig_out):
        pat, body = self.closures[name]
        return "fn %s<'p>(item: %s) -> %s {\n        let %s = item;\n        %s\n}" % (fn, sig_in, sig_out, pat, body)


HUFF = r"""
use vstd::multiset::Multiset;
// ---- std containers used by the Huffman construction (stubs) ----------------------------------------------------------------------
// core::cmp::Reverse: a wrapper that only reverses the ORDER of its content
struct Reverse<T>(pub T);
// bitcoin::taproot::TAPROOT_CONTROL_MAX_NODE_COUNT (BIP341: a control block carries at most 128 hashes)
const TAPROOT_CONTROL_MAX_NODE_COUNT: usize = 128;
// std::collections::BinaryHeap as a bag: `pop` removes and returns SOME element (which one is decided by the f64 priority: not modelled)
#[verifier::external_body]
#[verifier::reject_recursive_types(T)]
struct BinaryHeap<T> { inner: Vec<T> }
impl<T> BinaryHeap<T> {
    uninterp spec fn view(&self) -> Seq<T>;
    #[verifier::external_body]
    fn new() -> (r: Self) ensures r@.len() == 0 { unimplemented!() }
    #[verifier::external_body]
    fn push(&mut self, x: T) ensures final(self)@ == old(self)@.push(x) { unimplemented!() }
    #[verifier::external_body]
    fn pop(&mut self) -> (r: Option<T>)
        ensures old(self)@.len() == 0 ==> r is None && final(self)@ == old(self)@,
                old(self)@.len() > 0 ==> r is Some && exists|i: int| 0 <= i < old(self)@.len() && #[trigger] old(self)@[i] == r->Some_0 && final(self)@ == old(self)@.remove(i),
    { unimplemented!() }
    #[verifier::external_body]
    fn len(&self) -> (r: usize) ensures r == self@.len() { unimplemented!() }
}

// ---- ORACLE: the leaves of a tree / of a heap of subtrees / of the input, as bags ---------------------------------------------------
type Leaf<Pk> = Miniscript<Pk, Tap>;
spec fn leaf_seq<Pk: MiniscriptKey>(t: TapTree<Pk>) -> Seq<Leaf<Pk>> { t.depths_leaves@.map_values(|e: (u8, Arc<Leaf<Pk>>)| *e.1) }
spec fn tree_ms<Pk: MiniscriptKey>(t: TapTree<Pk>) -> Multiset<Leaf<Pk>> { leaf_seq(t).to_multiset() }
spec fn heap_ms<Pk: MiniscriptKey>(s: Seq<(Reverse<OrdF64>, TapTree<Pk>)>) -> Multiset<Leaf<Pk>>
    decreases s.len()
{
    if s.len() == 0 { Multiset::empty() } else { heap_ms(s.drop_last()).add(tree_ms(s.last().1)) }
}
spec fn input_seq<Pk: MiniscriptKey>(v: Seq<(OrdF64, Leaf<Pk>)>) -> Seq<Leaf<Pk>> { v.map_values(|e: (OrdF64, Leaf<Pk>)| e.1) }
spec fn input_ms<Pk: MiniscriptKey>(v: Seq<(OrdF64, Leaf<Pk>)>) -> Multiset<Leaf<Pk>> { input_seq(v).to_multiset() }
// a tree in which no leaf sits deeper than (number of its leaves - 1): true of every binary tree; such a tree of at most 128 leaves respects BIP341's depth limit
spec fn tree_fits<Pk: MiniscriptKey>(t: TapTree<Pk>) -> bool {
    t.depths_leaves@.len() >= 1 && forall|j: int| 0 <= j < t.depths_leaves@.len() ==> (#[trigger] t.depths_leaves@[j]).0 + 1 <= t.depths_leaves@.len()
}
spec fn heap_fits<Pk: MiniscriptKey>(s: Seq<(Reverse<OrdF64>, TapTree<Pk>)>) -> bool { forall|i: int| 0 <= i < s.len() ==> tree_fits((#[trigger] s[i]).1) }
// number of leaves in all subtrees of the heap
spec fn heap_cnt<Pk: MiniscriptKey>(s: Seq<(Reverse<OrdF64>, TapTree<Pk>)>) -> nat
    decreases s.len()
{
    if s.len() == 0 { 0 } else { heap_cnt(s.drop_last()) + s.last().1.depths_leaves@.len() }
}
// BIP341: no leaf deeper than 128
spec fn depths_ok<Pk: MiniscriptKey>(t: TapTree<Pk>) -> bool { forall|i: int| 0 <= i < t.depths_leaves@.len() ==> (#[trigger] t.depths_leaves@[i]).0 <= 128 }
"""

LEMMAS_H = [
    ("bag_of_leaves_of_a_heap", r"""
proof fn lemma_heap_push<Pk: MiniscriptKey>(s: Seq<(Reverse<OrdF64>, TapTree<Pk>)>, x: (Reverse<OrdF64>, TapTree<Pk>))
    ensures heap_ms(s.push(x)) == heap_ms(s).add(tree_ms(x.1)),
{
    assert(s.push(x).drop_last() =~= s);
}
proof fn lemma_heap_remove<Pk: MiniscriptKey>(s: Seq<(Reverse<OrdF64>, TapTree<Pk>)>, i: int)
    requires 0 <= i < s.len(),
    ensures heap_ms(s) =~= heap_ms(s.remove(i)).add(tree_ms(s[i].1)),
    decreases s.len(),
{
    if i == s.len() - 1 {
        assert(s.remove(i) =~= s.drop_last());
    } else {
        lemma_heap_remove(s.drop_last(), i);
        assert(s.remove(i).drop_last() =~= s.drop_last().remove(i));
        assert(s.remove(i).last() == s.last());
    }
}
proof fn lemma_cnt_push<Pk: MiniscriptKey>(s: Seq<(Reverse<OrdF64>, TapTree<Pk>)>, x: (Reverse<OrdF64>, TapTree<Pk>))
    ensures heap_cnt(s.push(x)) == heap_cnt(s) + x.1.depths_leaves@.len(),
{
    assert(s.push(x).drop_last() =~= s);
}
proof fn lemma_cnt_remove<Pk: MiniscriptKey>(s: Seq<(Reverse<OrdF64>, TapTree<Pk>)>, i: int)
    requires 0 <= i < s.len(),
    ensures heap_cnt(s) == heap_cnt(s.remove(i)) + s[i].1.depths_leaves@.len(),
    decreases s.len(),
{
    if i == s.len() - 1 {
        assert(s.remove(i) =~= s.drop_last());
    } else {
        lemma_cnt_remove(s.drop_last(), i);
        assert(s.remove(i).drop_last() =~= s.drop_last().remove(i));
        assert(s.remove(i).last() == s.last());
    }
}
// t is l and r side by side, every leaf one level deeper (what TapTree::combine(l, r) returns)
spec fn is_combined<Pk: MiniscriptKey>(t: TapTree<Pk>, l: TapTree<Pk>, r: TapTree<Pk>) -> bool {
    &&& t.depths_leaves@.len() == l.depths_leaves@.len() + r.depths_leaves@.len()
    &&& forall|i: int| 0 <= i < l.depths_leaves@.len() ==> (#[trigger] t.depths_leaves@[i]).0 == l.depths_leaves@[i].0 + 1
    &&& forall|i: int| 0 <= i < r.depths_leaves@.len() ==> (#[trigger] t.depths_leaves@[l.depths_leaves@.len() + i]).0 == r.depths_leaves@[i].0 + 1
}
proof fn lemma_combined_fits<Pk: MiniscriptKey>(t: TapTree<Pk>, l: TapTree<Pk>, r: TapTree<Pk>)
    requires tree_fits(l), tree_fits(r), is_combined(t, l, r),
    ensures tree_fits(t),
{
    let ll = l.depths_leaves@.len() as int;
    assert forall|j: int| 0 <= j < t.depths_leaves@.len() implies (#[trigger] t.depths_leaves@[j]).0 + 1 <= t.depths_leaves@.len() by {
        if j < ll { assert(t.depths_leaves@[j].0 == l.depths_leaves@[j].0 + 1); }
        else { let i = j - ll; assert(t.depths_leaves@[ll + i].0 == r.depths_leaves@[i].0 + 1); }
    }
}
proof fn lemma_fits_remove<Pk: MiniscriptKey>(s: Seq<(Reverse<OrdF64>, TapTree<Pk>)>, i: int)
    requires 0 <= i < s.len(), heap_fits(s),
    ensures heap_fits(s.remove(i)), tree_fits(s[i].1),
{
    assert forall|q: int| 0 <= q < s.remove(i).len() implies tree_fits((#[trigger] s.remove(i)[q]).1) by {
        if q < i { assert(s.remove(i)[q] == s[q]); } else { assert(s.remove(i)[q] == s[q + 1]); }
    }
}
proof fn lemma_fits_push<Pk: MiniscriptKey>(s: Seq<(Reverse<OrdF64>, TapTree<Pk>)>, x: (Reverse<OrdF64>, TapTree<Pk>))
    requires heap_fits(s), tree_fits(x.1),
    ensures heap_fits(s.push(x)),
{
    assert forall|q: int| 0 <= q < s.push(x).len() implies tree_fits((#[trigger] s.push(x)[q]).1) by { if q < s.len() { assert(s.push(x)[q] == s[q]); } }
}
proof fn lemma_heap_one<Pk: MiniscriptKey>(s: Seq<(Reverse<OrdF64>, TapTree<Pk>)>)
    requires s.len() == 1,
    ensures heap_ms(s) =~= tree_ms(s[0].1),
{
    assert(heap_ms(s.drop_last()) =~= Multiset::empty());
}
proof fn lemma_input_push<Pk: MiniscriptKey>(v: Seq<(OrdF64, Leaf<Pk>)>, n: int)
    requires 0 <= n < v.len(),
    ensures input_ms(v.take(n + 1)) =~= input_ms(v.take(n)).insert(v[n].1), input_ms(v.take(0)) =~= Multiset::empty(), v.take(v.len() as int) =~= v,
{
    assert(input_seq(v.take(n + 1)) =~= input_seq(v.take(n)).push(v[n].1));
    input_seq(v.take(n)).to_multiset_ensures();
    assert(input_seq(v.take(0)) =~= Seq::empty());
    Seq::<Leaf<Pk>>::empty().to_multiset_ensures();
    assert(Seq::<Leaf<Pk>>::empty().to_multiset().len() == 0);
}
proof fn lemma_tree_concat<Pk: MiniscriptKey>(t: TapTree<Pk>, l: TapTree<Pk>, r: TapTree<Pk>)
    requires leaf_seq(t) =~= leaf_seq(l) + leaf_seq(r),
    ensures tree_ms(t) =~= tree_ms(l).add(tree_ms(r)),
{
    vstd::seq_lib::lemma_multiset_commutative(leaf_seq(l), leaf_seq(r));
}
proof fn lemma_tree_single<Pk: MiniscriptKey>(t: TapTree<Pk>, m: Leaf<Pk>)
    requires leaf_seq(t) =~= seq![m],
    ensures tree_ms(t) =~= Multiset::<Leaf<Pk>>::empty().insert(m),
{
    assert(seq![m] =~= Seq::<Leaf<Pk>>::empty().push(m));
    Seq::<Leaf<Pk>>::empty().to_multiset_ensures();
    assert(Seq::<Leaf<Pk>>::empty().to_multiset() =~= Multiset::<Leaf<Pk>>::empty()) by { assert(Seq::<Leaf<Pk>>::empty().to_multiset().len() == 0); }
}
"""),
]


@rule("R8-chain-of-two-slices")
def combine_chain_loop(text):
    """R8: `for PAT in A.depths_leaves.iter().chain(B.depths_leaves.iter()) { BODY }` -> the loop over A followed by the loop over B, BODY verbatim
    in both (std `Chain`: all elements of the first iterator, then all of the second).  Read off the text, not fixed: the element pattern PAT
    (`(depth, leaf)` binds through the reference; `&(d, ref l)` is R3: matching `&P` against `&place` is matching `P` against `place`; Verus has
    no reference patterns), which tree comes first (A, B) and the name of the accumulator the body pushes to."""
    m = re.search(r"\bfor\s+(\S(?:[^{};]*?\S)?)\s+in\s+(\w+)\s*\.\s*depths_leaves\s*\.\s*iter\(\)\s*\.\s*chain\(\s*(\w+)\s*\.\s*depths_leaves\s*\.\s*iter\(\)\s*\)\s*\{", text)
    if not m:
        return None
    pat, first, second = m.group(1), m.group(2), m.group(3)
    if {first, second} != {"left", "right"}:
        return None
    b_open = m.end() - 1
    b_close = match_close(text, b_open)
    body = text[b_open + 1:b_close]
    accs = set(re.findall(r"\b(\w+)\s*\.\s*push\s*\(", body))
    if len(accs) != 1:
        return None
    acc = accs.pop()
    if pat.startswith("&"):
        bind = "let %s = cmb_%%(w)s[cmb_i];" % pat[1:].strip()
    else:
        bind = "let %s = &cmb_%%(w)s[cmb_i];" % pat

    def loop(src, which, base, done):
        return ("let cmb_%(w)s = %(src)s.depths_leaves.as_slice();\n        let mut cmb_i: usize = 0;\n        while cmb_i < cmb_%(w)s.len()\n"
                "            invariant\n                cmb_i <= cmb_%(w)s@.len(), cmb_%(w)s@ == %(src)s.depths_leaves@,\n"
                "                %(acc)s@.len() == %(base)s + cmb_i,\n%(done)s"
                "                forall|q: int| 0 <= q < cmb_i ==> (#[trigger] %(src)s.depths_leaves@[q]).0 <= 127, //@inv no_leaf_is_pushed_below_depth_128 [C08]\n"
                "                forall|q: int| 0 <= q < cmb_i ==> #[trigger] %(acc)s@[%(idx)s] == ((%(src)s.depths_leaves@[q].0 + 1) as u8, %(src)s.depths_leaves@[q].1),\n"
                "            decreases cmb_%(w)s@.len() - cmb_i\n        {\n            " + bind + "\n"
                "            %(body)s\n            cmb_i += 1;\n        }\n") % dict(w=which, src=src, base=base, done=done, body=body.strip(), acc=acc, idx=("q" if base == "0" else base + " + q"))
    first_done = ("                forall|q: int| 0 <= q < %(f)s.depths_leaves@.len() ==> (#[trigger] %(f)s.depths_leaves@[q]).0 <= 127,\n"
                  "                forall|q: int| 0 <= q < %(f)s.depths_leaves@.len() ==> #[trigger] %(acc)s@[q] == ((%(f)s.depths_leaves@[q].0 + 1) as u8, %(f)s.depths_leaves@[q].1),\n") % dict(f=first, acc=acc)
    return (text[:m.start()] + loop(first, "l", "0", "") + "        " + loop(second, "r", "%s.depths_leaves@.len()" % first, first_done)
            + "        proof { lemma_combined(%s, %s, %s@); }\n" % (first, second, acc) + text[b_close + 1:])


COMBINE_LEMMA = r"""
proof fn lemma_combined<Pk: MiniscriptKey>(l: TapTree<Pk>, r: TapTree<Pk>, d: Seq<(u8, Arc<Leaf<Pk>>)>)
    requires d.len() == l.depths_leaves@.len() + r.depths_leaves@.len(),
        forall|q: int| 0 <= q < l.depths_leaves@.len() ==> #[trigger] d[q] == ((l.depths_leaves@[q].0 + 1) as u8, l.depths_leaves@[q].1),
        forall|q: int| 0 <= q < r.depths_leaves@.len() ==> #[trigger] d[l.depths_leaves@.len() + q] == ((r.depths_leaves@[q].0 + 1) as u8, r.depths_leaves@[q].1),
    ensures d.map_values(|e: (u8, Arc<Leaf<Pk>>)| *e.1) =~= leaf_seq(l) + leaf_seq(r),
{
    let f = |e: (u8, Arc<Leaf<Pk>>)| *e.1;
    assert forall|q: int| 0 <= q < d.len() implies d.map_values(f)[q] == (leaf_seq(l) + leaf_seq(r))[q] by {
        if q < l.depths_leaves@.len() { assert(d[q].1 == l.depths_leaves@[q].1); }
        else { let q2 = q - l.depths_leaves@.len(); assert(d[l.depths_leaves@.len() + q2].1 == r.depths_leaves@[q2].1); }
    }
}
"""


PANICS = r"""
// `Result::expect` / `unwrap` in the PARTIAL-CORRECTNESS instance of a function: if the call returns, the value was Ok (otherwise it panics and
// nothing is claimed about a run that does not return).  Panic-freedom of the same call is the obligation of the function's `__no_panic` instance.
#[verifier::external_body]
fn returns_ok_or_panics<T, E>(x: Result<T, E>) -> (r: T)
    ensures x is Ok && r == x->Ok_0,
{ unimplemented!() }
// Vec never holds more than isize::MAX bytes (std::vec: "Vec will never allocate more than isize::MAX bytes"); the element types here are not zero-sized
#[verifier::external_body]
proof fn axiom_vec_len<T>(v: &Vec<T>)
    ensures v@.len() <= usize::MAX / 2,
{}
"""


def partial_expect(call_re, name, required=True):
    """R7-partial: `CALL.expect("..")` -> returns_ok_or_panics(CALL) in the partial-correctness instance of a function."""
    @rule("R7-partial-correctness-expect(%s)" % name)
    def rw(text):
        new, k = re.subn(r"(%s)\s*(?:\.expect\(\s*\"[^\"]*\"\s*\)|\.unwrap\(\))" % call_re, r"returns_ok_or_panics(\1)", text, flags=re.S)
        return new if (k or not required) else None
    return rw


def _top_level_split(inner):
    """split the text between a pair of parentheses at its top-level commas"""
    out, depth, cur = [], 0, ""
    for ch in inner:
        if ch in "([{<":
            depth += 1
        elif ch in ")]}>":
            depth -= 1
        if ch == "," and depth == 0:
            out.append(cur.strip())
            cur = ""
        else:
            cur += ch
    if cur.strip():
        out.append(cur.strip())
    return out


def _heap_pushes(text, lo, hi):
    """the statements `node_weights.push(ARG);` in text[lo:hi]: list of positions right after the `;`"""
    out = []
    for m in re.finditer(r"\bnode_weights\s*\.\s*push\s*\(", text[lo:hi]):
        close = match_close(text, lo + m.end() - 1)
        m2 = re.match(r"\s*;", text[close + 1:hi])
        if m2:
            out.append(close + 1 + m2.end())
    return out


def _heap_pops(text, lo, hi):
    """the statements `let (PAT, TREE) = node_weights.pop().expect("..");` (or `.unwrap()`) in text[lo:hi], whatever PAT destructures
    (`p1`, `Reverse(OrdF64(prob1))`, `_`): list of (position right after the `;`, TREE)"""
    out = []
    for m in re.finditer(r"\blet\s*\(", text[lo:hi]):
        op = lo + m.end() - 1
        close = match_close(text, op)
        m2 = re.match(r"\s*=\s*node_weights\s*\.\s*pop\s*\(\s*\)\s*\.\s*(?:expect\s*\(\s*\"[^\"]*\"\s*\)|unwrap\s*\(\s*\))\s*;", text[close + 1:hi])
        if not m2:
            continue
        parts = _top_level_split(text[op + 1:close])
        if len(parts) != 2 or not re.match(r"^[A-Za-z_]\w*$", parts[1]) or parts[1] == "_":
            return None
        out.append((close + 1 + m2.end(), parts[1]))
    return out


def huffman_annotate(partial):
    """R10 (insertion only) for with_huffman_tree, anchored on STRUCTURE: the `for (P, S) in ms {..}` loop with its single heap push, the
    `while <condition over node_weights.len()> {..}` loop with its two `let (_, TREE) = node_weights.pop().expect(..)` and its single heap push
    (whatever is pushed: the combined tree inline or a local holding it), the end of the while loop.  The names of the locals are read off the
    text; loop conditions, patterns and pushed expressions stay verbatim.  partial=False: the panic-freedom instance (only what
    `pop().expect(..)` / `assert!` / `debug_assert!` need)."""
    GH = "heap_ms(node_weights@) =~= input_ms(ms@)"

    @rule("R10-huffman-annotations(for-invariant, after-push, while-invariant, after-pop-1, after-pop-2, after-combine, after-loop)")
    def rw(text):
        ins = []
        # ---- the `for` over the input vector gets a name for its iterator and an invariant
        mf = re.search(r"\bfor\s+\(\s*(\w+)\s*,\s*(\w+)\s*\)\s+in\s+(ms)\s*(\{)", text)
        if not mf:
            return None
        script = mf.group(2)
        f_open = mf.start(4)
        f_close = match_close(text, f_open)
        ins.append((mf.start(3), "hf_it: "))
        if not partial:
            ins.append((f_open, "\n        invariant\n            node_weights@.len() == hf_it.index@, hf_it.index@ <= ms@.len(),\n    "))
        else:
            pushes = _heap_pushes(text, f_open + 1, f_close)
            if len(pushes) != 1:
                return None
            ins.append((mf.start(), "proof { lemma_input_push(ms@, 0); }\n    "))
            ins.append((f_open, "\n        invariant\n            node_weights@.len() == hf_it.index@, hf_it.index@ <= ms@.len(),\n"
                        "            heap_ms(node_weights@) =~= input_ms(ms@.take(hf_it.index@ as int)), //@inv every_input_leaf_enters_the_heap_once [C08]\n"
                        "            heap_fits(node_weights@), heap_cnt(node_weights@) == hf_it.index@,\n    "))
            ins.append((f_open + 1, "\n        let ghost hw0 = node_weights@;\n        proof { lemma_input_push(ms@, hf_it.index@ as int); }"))
            ins.append((pushes[0], "\n        proof { lemma_heap_push(hw0, node_weights@.last()); lemma_tree_single(node_weights@.last().1, %s); lemma_cnt_push(hw0, node_weights@.last()); "
                        "lemma_fits_push(hw0, node_weights@.last()); assert(node_weights@ =~= hw0.push(node_weights@.last())); }" % script))
        # ---- the `while` that combines two subtrees per round
        mw = re.search(r"\bwhile\s+[^{};]*\bnode_weights\s*\.\s*len\s*\(\s*\)[^{};]*(\{)", text[f_close:])
        if not mw:
            return None
        w_open = f_close + mw.start(1)
        w_close = match_close(text, w_open)
        if not partial:
            ins.append((w_open, "\n        invariant\n            node_weights@.len() >= 1,\n        decreases node_weights@.len(),\n    "))
        else:
            pops = _heap_pops(text, w_open + 1, w_close)
            pushes = _heap_pushes(text, w_open + 1, w_close)
            if pops is None or len(pops) != 2 or len(pushes) != 1 or not (pops[0][0] < pops[1][0] < pushes[0]):
                return None
            (e1, s1), (e2, s2) = pops
            ins.append((w_open, "\n        invariant\n            node_weights@.len() >= 1,\n"
                        "            %s, //@inv combining_two_subtrees_keeps_every_leaf [C08]\n"
                        "            heap_fits(node_weights@), heap_cnt(node_weights@) == ms@.len(), //@inv no_leaf_deeper_than_its_subtree_has_leaves [C08]\n        decreases node_weights@.len(),\n    " % GH))
            ins.append((w_open + 1, "\n        let ghost h0 = node_weights@;"))
            for (e, tree, before, after, idx) in ((e1, s1, "h0", "h1", "i1"), (e2, s2, "h1", "h2", "i2")):
                ins.append((e, "\n        let ghost %(a)s = node_weights@;\n        proof { let %(i)s = choose|i: int| 0 <= i < %(b)s.len() && (#[trigger] %(b)s[i]).1 == %(t)s && %(a)s == %(b)s.remove(i); "
                            "lemma_heap_remove(%(b)s, %(i)s); lemma_cnt_remove(%(b)s, %(i)s); lemma_fits_remove(%(b)s, %(i)s); }" % dict(a=after, b=before, i=idx, t=tree)))
            ins.append((pushes[0], "\n        proof { lemma_heap_push(h2, node_weights@.last()); lemma_cnt_push(h2, node_weights@.last()); let hf_t = node_weights@.last().1;\n"
                        "                if leaf_seq(hf_t) =~= leaf_seq(%(a)s) + leaf_seq(%(b)s) { lemma_tree_concat(hf_t, %(a)s, %(b)s); } else if leaf_seq(hf_t) =~= leaf_seq(%(b)s) + leaf_seq(%(a)s) { lemma_tree_concat(hf_t, %(b)s, %(a)s); }\n"
                        "                if is_combined(hf_t, %(a)s, %(b)s) { lemma_combined_fits(hf_t, %(a)s, %(b)s); } else if is_combined(hf_t, %(b)s, %(a)s) { lemma_combined_fits(hf_t, %(b)s, %(a)s); }\n"
                        "                if tree_fits(hf_t) { lemma_fits_push(h2, node_weights@.last()); assert(node_weights@ =~= h2.push(node_weights@.last())); } }" % dict(a=s1, b=s2)))
            # after the loop exactly one subtree is left
            ins.append((w_close + 1, "\n    proof { if node_weights@.len() == 1 { lemma_heap_one(node_weights@); } }"))
        out = text
        for pos, t in sorted(ins, key=lambda x: -x[0]):
            out = out[:pos] + t + out[pos:]
        return out
    return rw


def huffman_rewrites(partial):
    ASSERT_NE = sub("R7-assert-ne", r"assert_ne!\(node_weights\.len\(\), 0, \"[^\"]*\"\);", "assert!(node_weights.len() != 0);")
    PATH = lit("R7-path", "crate::descriptor::TapTreeDepthError", "TapTreeDepthError", required=False)
    if not partial:
        return [CFG, huffman_annotate(False), ASSERT_NE, PATH] + F64
    return [CFG, partial_expect(r"TapTree::combine\([^()]*\)", "combine", required=False), huffman_annotate(True), ASSERT_NE, PATH] + F64


GLUE = r"""
// ---- stubs for the compile_tr glue ------------------------------------------------------------------------------------------------
enum ScriptContextError { UncompressedKeysNotAllowed, Other(u8) }
impl From<ScriptContextError> for Error { fn from(e: ScriptContextError) -> Error { Error::ContextError(e) } }
impl vstd::std_specs::convert::FromSpecImpl<ScriptContextError> for Error { open spec fn obeys_from_spec() -> bool { false } open spec fn from_spec(v: ScriptContextError) -> Error { arbitrary() } }
impl core::fmt::Debug for Error { #[verifier::external_body] fn fmt(&self, f: &mut core::fmt::Formatter) -> core::fmt::Result { unimplemented!() } }
// crate::Descriptor reduced to the variant the taproot compiler builds
enum Descriptor<Pk: MiniscriptKey> { Tr(Tr<Pk>), Other(u8) }

// a compiled leaf can be spent under the assignment a (BIP341 script path; the leaf's meaning is its lift: unit c07_lift / c07_taptree)
spec fn ms_spends<Pk: MiniscriptKey>(ms: Leaf<Pk>, a: Asg<Pk>) -> bool { spec_ms_lift(ms) is Ok && sem(spec_ms_lift(ms)->Ok_0, a) }
spec fn vec_ent_spends<Pk: MiniscriptKey>(v: Seq<(OrdF64, Leaf<Pk>)>, i: int, a: Asg<Pk>) -> bool { ms_spends(v[i].1, a) }
spec fn vec_spends<Pk: MiniscriptKey>(v: Seq<(OrdF64, Leaf<Pk>)>, a: Asg<Pk>) -> bool {
    exists|i: int| 0 <= i < v.len() && #[trigger] vec_ent_spends(v, i, a)
}
// a taproot output: key path or any one leaf (BIP341; oracle text of unit c07_taptree for the tree)
spec fn tr_tree_spends<Pk: MiniscriptKey>(t: Option<TapTree<Pk>>, a: Asg<Pk>) -> bool {
    match t { Some(tree) => some_leaf_spends(tree, a), None => false }
}
// THE C08 CLAUSE for a taproot compilation: whoever can satisfy the policy can spend the output and vice versa.  When the internal key is the
// caller's unspendable key (no root-level key in the policy) the assignments considered are those in which that key does not sign.
spec fn tr_means_policy<Pk: MiniscriptKey>(p: Concrete<Pk>, d: Descriptor<Pk>) -> bool {
    d is Tr && forall|a: Asg<Pk>| (!has_root_key(p) ==> !a.keys.contains(d->Tr_0.internal_key)) ==>
        #[trigger] csem(p, a) == (a.keys.contains(d->Tr_0.internal_key) || tr_tree_spends(d->Tr_0.tree, a))
}

// compiler::best_compilation: ASSUMED to return a leaf that means its policy (the per-candidate obligations of unit c08_compiler_nodes) and lifts
#[verifier::external_body]
fn best_compilation<Pk: MiniscriptKey, Ctx: ScriptContext>(policy: &Concrete<Pk>) -> (r: Result<Miniscript<Pk, Ctx>, CompilerError>)
    ensures r is Ok ==> spec_ms_lift(r->Ok_0) is Ok && forall|a: Asg<Pk>| #[trigger] sem(spec_ms_lift(r->Ok_0)->Ok_0, a) == csem(*policy, a),
{ unimplemented!() }
"""

LEMMAS_G = [
    ("same_bag_of_leaves_same_spending_paths", r"""
proof fn lemma_vec_push<Pk: MiniscriptKey>(v: Seq<(OrdF64, Leaf<Pk>)>, x: (OrdF64, Leaf<Pk>))
    ensures forall|a: Asg<Pk>| #[trigger] vec_spends(v.push(x), a) == (vec_spends(v, a) || ms_spends(x.1, a)),
{
    let t = v.push(x);
    assert forall|a: Asg<Pk>| #[trigger] vec_spends(t, a) == (vec_spends(v, a) || ms_spends(x.1, a)) by {
        if vec_spends(t, a) { let i = choose|i: int| 0 <= i < t.len() && #[trigger] vec_ent_spends(t, i, a); if i < v.len() { assert(vec_ent_spends(v, i, a)); } }
        if vec_spends(v, a) { let i = choose|i: int| 0 <= i < v.len() && #[trigger] vec_ent_spends(v, i, a); assert(vec_ent_spends(t, i, a)); }
        if ms_spends(x.1, a) { assert(vec_ent_spends(t, v.len() as int, a)); }
    }
}
proof fn lemma_same_bag<Pk: MiniscriptKey>(t: TapTree<Pk>, v: Seq<(OrdF64, Leaf<Pk>)>)
    requires tree_ms(t) =~= input_ms(v),
    ensures forall|a: Asg<Pk>| #[trigger] some_leaf_spends(t, a) == vec_spends(v, a),
{
    leaf_seq(t).to_multiset_ensures();
    input_seq(v).to_multiset_ensures();
    assert forall|a: Asg<Pk>| #[trigger] some_leaf_spends(t, a) == vec_spends(v, a) by {
        if some_leaf_spends(t, a) {
            let j = choose|j: int| 0 <= j < n_leaves(t) && #[trigger] leaf_spends(t, j, a);
            let m = leaf_seq(t)[j];
            assert(leaf_seq(t).contains(m));
            assert(input_seq(v).to_multiset().count(m) > 0);
            assert(input_seq(v).contains(m));
            let i = choose|i: int| 0 <= i < input_seq(v).len() && input_seq(v)[i] == m;
            assert(vec_ent_spends(v, i, a));
        }
        if vec_spends(v, a) {
            let i = choose|i: int| 0 <= i < v.len() && #[trigger] vec_ent_spends(v, i, a);
            let m = input_seq(v)[i];
            assert(input_seq(v).contains(m));
            assert(leaf_seq(t).to_multiset().count(m) > 0);
            assert(leaf_seq(t).contains(m));
            let j = choose|j: int| 0 <= j < leaf_seq(t).len() && leaf_seq(t)[j] == m;
            assert(leaf_spends(t, j, a));
        }
    }
}
"""),
]


def leaf_for_to_loop(item_pat, iter_expr, inv, ensures, hint_pre, after=""):
    """R8: `for PAT in ITER_EXPR { BODY }` with ITER_EXPR: TapleafProbabilityIter -> the language's own desugaring
        let mut tl_it = ITER_EXPR; loop { let PAT = match tl_it.next() { Some(x) => x, None => break }; BODY }
    (IntoIterator for an Iterator is the identity), BODY verbatim, with an invariant, the termination measure and ghost snapshots."""
    @rule("R8-for-desugared")
    def rw(text):
        from vlib.extract import Region
        reg = Region("<text>", text, 0, len(text))
        try:
            b = reg._find_block("for %s in %s" % (item_pat, iter_expr))
        except Exception:
            return None
        body = text[b.start:b.end]
        head = ("let mut tl_it = %s;\n        let ghost tl_s0 = tl_it.stack@;\n        loop\n            invariant\n%s\n            ensures\n%s\n            decreases stk_size(tl_it.stack@),\n        {\n"
                "            let ghost tl_before = tl_it.stack@;\n%s"
                "            let %s = match tl_it.next() { Some(tl_x) => tl_x, None => break };\n") % (iter_expr, inv, ensures, hint_pre, item_pat)
        return text[:b.stmt_start] + head + body + "\n        }\n" + after + text[b.stmt_end:]
    return rw


def compile_tr_rewrites(partial):
    J = ("                forall|a: Asg<Pk>| #![trigger stk_any(tl_it.stack@, LeafPred::Holds(a))] #![trigger vec_spends(leaf_compilations@, a)] "
         "(stk_any(tl_it.stack@, LeafPred::Holds(a)) || vec_spends(leaf_compilations@, a)) == stk_any(tl_s0, LeafPred::Holds(a)), //@inv compiled_leaves_and_work_left_are_the_policy [C08]")
    E = "                forall|a: Asg<Pk>| #![trigger vec_spends(leaf_compilations@, a)] #![trigger stk_any(tl_s0, LeafPred::Holds(a))] vec_spends(leaf_compilations@, a) == stk_any(tl_s0, LeafPred::Holds(a)),"
    AFTER = ("        proof { lemma_stk_one(tl_s0); assert forall|a: Asg<Pk>| #[trigger] csem(policy, a) == vec_spends(leaf_compilations@, a) by { "
             "assert(stk_any(tl_s0, LeafPred::Holds(a)) == peval(policy, LeafPred::Holds(a))); } }\n")
    rws = [
        CFG,
        lit("R12-eta", ".map_err(CompilerError::PolicyError)", ".map_err(|e: PolicyError| -> (o: CompilerError) ensures o == CompilerError::PolicyError(e) { CompilerError::PolicyError(e) })"),
        sub("R7-path", r"\bcompiler::best_compilation\b", "best_compilation"),
        leaf_for_to_loop("(prob, pol)", "policy.tapleaf_probability_iter()", J, E,
                         "            let ghost tl_lc0 = leaf_compilations@;\n", after=AFTER),
        # ghost: a skipped leaf never holds; a pushed compilation means its leaf policy
        sub("R10-after-push", r"(leaf_compilations\.push\(\(OrdF64\(prob\), compilation\)\);)",
            r"\1" + "\n                                proof { lemma_vec_push(tl_lc0, leaf_compilations@.last()); assert(leaf_compilations@ =~= tl_lc0.push(leaf_compilations@.last())); }"),
        sub("R10-after-huffman", r"let tap_tree = (with_huffman_tree::<Pk>\(leaf_compilations\)[^;]*);",
            r"let ghost tl_lc = leaf_compilations@;\n                                let tap_tree = \1;\n"
            r"                                proof { lemma_same_bag(tap_tree, tl_lc); }"),
        UNNAMED_CLOSURE_PARAM,
        sub("R10-body-start", r"\{", "{\n        broadcast use lemma_key_or_rest;", count=1),
    ] + F64
    if partial:
        rws.insert(1, PartialNewTr())
    return rws


# R7: `|_| EXPR` -> `|_unused| EXPR` (Verus rejects `_` as a closure parameter; the argument is ignored either way)
UNNAMED_CLOSURE_PARAM = sub("R7-unnamed-closure-param", r"\|_\|", "|_unused|", required=False)


class PartialNewTr:
    """R7-partial on `Descriptor::new_tr( ARGS )\n.expect("compiler produces sane output")`."""
    rule = "R7-partial-correctness-expect(new_tr)"

    def __call__(self, text):
        m = re.search(r"\bDescriptor::new_tr\(", text)
        if not m:
            return None
        close = match_close(text, m.end() - 1)
        m2 = re.match(r"\s*(?:\.expect\(\s*\"[^\"]*\"\s*\)|\.unwrap\(\))", text[close + 1:])
        if not m2:
            return text          # no `.expect(..)` on the constructor's result: its error is propagated, nothing to read partially
        return text[:m.start()] + "returns_ok_or_panics(" + text[m.start():close + 1] + ")" + text[close + 1 + m2.end():]


ENUM = r"""
// ---- ORACLE for the enumeration of alternatives (compile_tr_native / compile_tr_private_experimental) ----------------------------------
// one of the listed policies holds
type PolVec<Pk> = Seq<(F64, Arc<Concrete<Pk>>)>;
spec fn pv_ent<Pk: MiniscriptKey>(v: PolVec<Pk>, i: int, a: Asg<Pk>) -> bool { csem(*v[i].1, a) }
spec fn pv_any<Pk: MiniscriptKey>(v: PolVec<Pk>, a: Asg<Pk>) -> bool { exists|i: int| 0 <= i < v.len() && #[trigger] pv_ent(v, i, a) }
// number of the first n policies of a sequence that hold
spec fn scount<Pk: MiniscriptKey>(s: Seq<Arc<Concrete<Pk>>>, n: int, a: Asg<Pk>) -> nat
    decreases n
{
    if n <= 0 || n > s.len() { 0 } else { scount(s, n - 1, a) + b2n(csem(*s[n - 1], a)) }
}
spec fn pol_holds_at<Pk: MiniscriptKey>(s: Seq<Arc<Concrete<Pk>>>, i: int, a: Asg<Pk>) -> bool { csem(*s[i], a) }
spec fn lists_only<Pk: MiniscriptKey>(v: PolVec<Pk>, p: Concrete<Pk>) -> bool { v.len() == 1 && *v[0].1 == p }
// type invariant of Threshold (fields private, every constructor validates): 1 <= k <= n
spec fn thresh_wf<Pk: MiniscriptKey>(p: Concrete<Pk>) -> bool { p is Thresh ==> 1 <= p->Thresh_0.k <= p->Thresh_0.inner@.len() }
// R14 stub: `subs.iter().fold(0, |acc, x| acc + x.0)` (total odds; feeds probabilities only)
#[verifier::external_body]
fn fold_odds<T>(subs: &Vec<(usize, T)>) -> usize { subs.iter().fold(0, |acc, x| acc + x.0) }
"""

LEMMAS_E = [
    ("counting_children_that_hold", r"""
proof fn lemma_scount<Pk: MiniscriptKey>(p: Concrete<Pk>, n: nat, a: Asg<Pk>)
    requires p is Thresh || p is And, n <= carity(p),
    ensures csem_count(p, n, a) == scount(if p is Thresh { p->Thresh_0.inner@ } else { p->And_0@ }, n as int, a), csem_count(p, n, a) <= n,
    decreases n,
{
    if n > 0 { lemma_scount(p, (n - 1) as nat, a); }
}
proof fn lemma_scount_remove<Pk: MiniscriptKey>(s: Seq<Arc<Concrete<Pk>>>, i: int, n: int, a: Asg<Pk>)
    requires 0 <= i < s.len(), 0 <= n <= s.len(),
    ensures n <= i ==> scount(s.remove(i), n, a) == scount(s, n, a),
            n > i ==> scount(s.remove(i), n - 1, a) + b2n(csem(*s[i], a)) == scount(s, n, a),
            scount(s, n, a) <= n,
    decreases n,
{
    if n > 0 {
        lemma_scount_remove(s, i, n - 1, a);
        if n <= i { assert(s.remove(i)[n - 1] == s[n - 1]); }
        else if n - 1 > i { assert(s.remove(i)[n - 2] == s[n - 1]); }
    }
}
proof fn lemma_scount_some_false<Pk: MiniscriptKey>(s: Seq<Arc<Concrete<Pk>>>, n: int, a: Asg<Pk>)
    requires 0 <= n <= s.len(), scount(s, n, a) < n,
    ensures exists|i: int| 0 <= i < n && !csem(*#[trigger] s[i], a),
    decreases n,
{
    if n > 0 {
        let last_holds: bool = pol_holds_at(s, n - 1, a);
        if last_holds { lemma_scount_some_false(s, n - 1, a); let i = choose|i: int| 0 <= i < n - 1 && !csem(*#[trigger] s[i], a); assert(0 <= i < n && !csem(*s[i], a)); }
        else { assert(0 <= n - 1 < n && !csem(*s[n - 1], a)); }
    }
}
"""),
    ("k_of_n_is_the_disjunction_of_the_k_of_n_minus_one", r"""
// generate_combination's claim (its doc): thresh(k, x_1..x_n) with k < n  <==>  for some i: thresh(k, all but x_i)
spec fn is_thresh_less<Pk: MiniscriptKey>(q: Concrete<Pk>, th: Threshold<Arc<Concrete<Pk>>, 0>, i: int) -> bool {
    q is Thresh && q->Thresh_0.k == th.k && q->Thresh_0.inner@ =~= th.inner@.remove(i)
}
proof fn lemma_drop_one<Pk: MiniscriptKey>(th: Threshold<Arc<Concrete<Pk>>, 0>, v: PolVec<Pk>)
    requires 1 <= th.k < th.inner@.len(), v.len() == th.inner@.len(),
             forall|i: int| 0 <= i < v.len() ==> is_thresh_less(*(#[trigger] v[i]).1, th, i),
    ensures forall|a: Asg<Pk>| #[trigger] pv_any(v, a) == csem(Concrete::Thresh(th), a),
{
    let p = Concrete::Thresh(th);
    let s = th.inner@;
    let n = s.len() as int;
    assert forall|a: Asg<Pk>| #[trigger] pv_any(v, a) == csem(p, a) by {
        lemma_scount(p, n as nat, a);
        if pv_any(v, a) {
            let i = choose|i: int| 0 <= i < v.len() && #[trigger] pv_ent(v, i, a);
            let q = *v[i].1;
            lemma_scount(q, (n - 1) as nat, a);
            lemma_scount_remove(s, i, n, a);
            assert(q->Thresh_0.inner@ == s.remove(i));
        }
        if csem(p, a) {
            lemma_scount_remove(s, 0, n, a);
            let i = if scount(s, n, a) == n { 0int } else { lemma_scount_some_false(s, n, a); choose|i: int| 0 <= i < n && !csem(*#[trigger] s[i], a) };
            let q = *v[i].1;
            lemma_scount(q, (n - 1) as nat, a);
            lemma_scount_remove(s, i, n, a);
            assert(q->Thresh_0.inner@ == s.remove(i));
            assert(pv_ent(v, i, a));
        }
    }
}
"""),
    ("a_splitting_node_is_the_disjunction_of_its_listed_children", r"""
proof fn lemma_listed_children<Pk: MiniscriptKey>(p: Concrete<Pk>, v: PolVec<Pk>)
    requires splits(p), v.len() == carity(p), forall|i: int| 0 <= i < v.len() ==> *(#[trigger] v[i]).1 == cchild(p, i),
    ensures forall|a: Asg<Pk>| #[trigger] pv_any(v, a) == csem(p, a),
{
    lemma_splits(p);
    assert forall|a: Asg<Pk>| #[trigger] pv_any(v, a) == csem(p, a) by {
        let lp = LeafPred::Holds(a);
        assert(peval(p, lp) == any_child_in(p, 0, carity(p) as int, lp));
        if pv_any(v, a) { let i = choose|i: int| 0 <= i < v.len() && #[trigger] pv_ent(v, i, a); assert(child_holds(p, i, lp)); }
        if any_child_in(p, 0, carity(p) as int, lp) { let j = choose|j: int| 0 <= j < carity(p) && #[trigger] child_holds(p, j, lp); assert(pv_ent(v, j, a)); }
    }
}
proof fn lemma_listed_self<Pk: MiniscriptKey>(p: Concrete<Pk>, v: PolVec<Pk>)
    requires v.len() == 1, *v[0].1 == p,
    ensures forall|a: Asg<Pk>| #[trigger] pv_any(v, a) == csem(p, a),
{
    assert forall|a: Asg<Pk>| #[trigger] pv_any(v, a) == csem(p, a) by { if csem(p, a) { assert(pv_ent(v, 0, a)); } }
}
"""),
]


def map_collect_loop(src_expr, pat, src_slice, inv, name):
    """R14: `SRC.iter().map(|PAT| BODY).collect::<Vec<_>>()` -> index loop over the slice, `let PAT = &src[i];` in front of the closure body,
    BODY verbatim (the closure's own text)."""
    @rule("R14-map-collect(%s)" % name)
    def rw(text):
        m = re.search(re.escape(src_expr) + r"\s*\.iter\(\)\s*\.map\(", text)
        if not m:
            return None
        open_ = m.end() - 1
        close = match_close(text, open_)
        mc = re.match(r"\|(.*?)\|\s*(.*)$", text[open_ + 1:close].strip(), flags=re.S)
        if not mc or re.sub(r"\s+", "", mc.group(1)) != re.sub(r"\s+", "", pat):
            return None
        m3 = re.match(r"\s*\.collect::<Vec<_>>\(\)", text[close + 1:])
        if not m3:
            return None
        body = mc.group(2).strip()
        new = ("{\n                let mc_src = %s;\n                let mut mc_out: Vec<(F64, Arc<Concrete<Pk>>)> = Vec::new();\n                let mut mc_i: usize = 0;\n"
               "                while mc_i < mc_src.len()\n                    invariant\n                        mc_i <= mc_src@.len(), mc_out@.len() == mc_i,\n%s\n"
               "                    decreases mc_src@.len() - mc_i,\n                {\n                    let %s = &mc_src[mc_i];\n"
               "                    mc_out.push(%s);\n                    mc_i += 1;\n                }\n                mc_out\n            }") % (src_slice, inv, pat, body)
        return text[:m.start()] + new + text[close + 1 + m3.end():]
    return rw


def enumerate_pol_rewrites():
    return [
        CFG,
        sub("R14-fold-odds", r"subs\.iter\(\)\.fold\(0, \|acc, x\| acc \+ x\.0\)", "fold_odds(subs)"),
        map_collect_loop("subs", "(odds, pol)", "subs.as_slice()",
                         "                        mc_src@ == self->Or_0@, *self is Or,\n"
                         "                        forall|q: int| 0 <= q < mc_i ==> (#[trigger] mc_out@[q]).1 == mc_src@[q].1, //@inv every_alternative_of_the_or_is_listed [C08]", "or"),
        map_collect_loop("thresh", "pol", "thresh.data()",
                         "                        mc_src@ == self->Thresh_0.inner@, *self is Thresh,\n"
                         "                        forall|q: int| 0 <= q < mc_i ==> (#[trigger] mc_out@[q]).1 == mc_src@[q], //@inv every_alternative_of_the_thresh_is_listed [C08]", "thresh"),
    ] + F64


GEN_COMB_LOOP = ("Threshold::new(\n            thresh.k(),\n            {\n                let fi_src = thresh.data();\n                let mut fi_v: Vec<Arc<Concrete<Pk>>> = Vec::new();\n                let mut j: usize = 0;\n"
                 "                while j < fi_src.len()\n                    invariant\n                        j <= fi_src@.len(), fi_src@ == thresh.inner@, i < fi_src@.len(),\n"
                 "                        fi_v@ =~= (if j <= i { fi_src@.take(j as int) } else { fi_src@.take(j as int).remove(i as int) }), //@inv all_but_the_ith_child_are_kept [C08]\n"
                 "                    decreases fi_src@.len() - j,\n                {\n                    let sub = &fi_src[j];\n"
                 "                    match (%s) { Some(fi_x) => { fi_v.push(fi_x); } None => {} }\n                    j += 1;\n                }\n"
                 "                proof { assert(fi_src@.take(fi_src@.len() as int) =~= fi_src@); }\n                fi_v\n            },\n        )")


@rule("R14-from-iter-enumerate-filter-map")
def gen_comb_from_iter(text):
    """R14: `Threshold::from_iter(K, thresh.iter().enumerate().filter_map(|(j, sub)| BODY))` -> `Threshold::new(K, <index loop pushing the Some(..) results of BODY>)`
    (Threshold::from_iter with MAX = 0: collect the items, then `new`)."""
    m = re.search(r"Threshold::from_iter\(", text)
    if not m:
        return None
    close = match_close(text, m.end() - 1)
    arg = text[m.end():close]
    m2 = re.match(r"\s*thresh\.k\(\),\s*thresh\s*\.iter\(\)\s*\.enumerate\(\)\s*\.filter_map\(\|\(j, sub\)\|\s*(.*)\),?\s*$", arg, flags=re.S)
    if not m2:
        return None
    return text[:m.start()] + (GEN_COMB_LOOP % m2.group(1).strip()) + text[close + 1:]


NATIVE = r"""
const MAX_COMPILATION_LEAVES: usize = 1024;
#[verifier::external_body]
fn and_arm_excluded<Pk: MiniscriptKey>(p: &Concrete<Pk>, subs: &Vec<Arc<Concrete<Pk>>>, prob: F64) -> Vec<(F64, Arc<Concrete<Pk>>)> { unimplemented!() }
// has_if_fragment: the whole-tree `any` is summarised; the per-node predicate is verified against the script templates
uninterp spec fn spec_has_if<Pk: MiniscriptKey>(ms: Leaf<Pk>) -> bool;
#[verifier::external_body]
fn has_if_fragment<Pk: MiniscriptKey>(ms: &Miniscript<Pk, Tap>) -> (r: bool) ensures r == spec_has_if(*ms) { unimplemented!() }
spec fn lc_if_free<Pk: MiniscriptKey>(v: Seq<(OrdF64, Leaf<Pk>)>) -> bool { forall|i: int| 0 <= i < v.len() ==> !spec_has_if((#[trigger] v[i]).1) }
"""

LEMMAS_N = [
    ("alternatives_one_more", r"""
proof fn lemma_pv_take<Pk: MiniscriptKey>(v: PolVec<Pk>, n: int)
    requires 0 <= n < v.len(),
    ensures forall|a: Asg<Pk>| #[trigger] pv_any(v.take(n + 1), a) == (pv_any(v.take(n), a) || csem(*v[n].1, a)),
{
    let t1 = v.take(n + 1); let t0 = v.take(n);
    assert forall|a: Asg<Pk>| #[trigger] pv_any(t1, a) == (pv_any(t0, a) || csem(*v[n].1, a)) by {
        if pv_any(t1, a) { let i = choose|i: int| 0 <= i < t1.len() && #[trigger] pv_ent(t1, i, a); if i < n { assert(pv_ent(t0, i, a)); } }
        if pv_any(t0, a) { let i = choose|i: int| 0 <= i < t0.len() && #[trigger] pv_ent(t0, i, a); assert(pv_ent(t1, i, a)); }
        if csem(*v[n].1, a) { assert(pv_ent(t1, n, a)); }
    }
}
proof fn lemma_pv_take0<Pk: MiniscriptKey>(v: PolVec<Pk>)
    ensures forall|a: Asg<Pk>| !#[trigger] pv_any(v.take(0), a), v.take(v.len() as int) =~= v,
{}
proof fn lemma_if_free_bag<Pk: MiniscriptKey>(t: TapTree<Pk>, v: Seq<(OrdF64, Leaf<Pk>)>)
    requires tree_ms(t) =~= input_ms(v), lc_if_free(v),
    ensures forall|j: int| 0 <= j < n_leaves(t) ==> !spec_has_if(#[trigger] leaf_seq(t)[j]),
{
    leaf_seq(t).to_multiset_ensures();
    input_seq(v).to_multiset_ensures();
    assert forall|j: int| 0 <= j < n_leaves(t) implies !spec_has_if(#[trigger] leaf_seq(t)[j]) by {
        let m = leaf_seq(t)[j];
        assert(leaf_seq(t).contains(m));
        assert(input_seq(v).to_multiset().count(m) > 0);
        assert(input_seq(v).contains(m));
        let i = choose|i: int| 0 <= i < input_seq(v).len() && input_seq(v)[i] == m;
        assert(v[i].1 == m);
    }
}
"""),
]


def has_if_node(repo):
    """R16: the closure of `ms.pre_order_iter().any(|node| BODY)` lambda-lifted verbatim."""
    reg = repo.at(CONC, "fn:has_if_fragment")
    m = re.search(r"\.any\(", reg.text)
    if not m:
        raise Undecided("has_if_fragment: no `.any(|node| ..)` (anchor lost)")
    close = match_close(reg.text, m.end() - 1)
    mc = re.match(r"\|(\w+)\|\s*(.*)$", reg.text[m.end():close].strip(), flags=re.S)
    if not mc:
        raise Undecided("has_if_fragment: closure shape changed (anchor lost)")
    return "fn has_if_node<Pk: MiniscriptKey>(%s: &Miniscript<Pk, Tap>) -> bool {\n    %s\n}" % (mc.group(1), mc.group(2).strip())


def compile_tr_native_rewrites(partial):
    inv = ("                        forall|a: Asg<Pk>| #![trigger vec_spends(leaf_compilations@, a)] #![trigger pv_any(leaves@.take(nl_i as int), a)] "
           "vec_spends(leaf_compilations@, a) == pv_any(leaves@.take(nl_i as int), a), //@inv compiled_leaves_are_the_alternatives_so_far [C08]\n"
           "                        lc_if_free(leaf_compilations@), //@inv no_leaf_with_an_if_fragment_is_kept [C08]")
    rws = [
        CFG,
        lit("R12-eta", ".map_err(CompilerError::PolicyError)", ".map_err(|e: PolicyError| -> (o: CompilerError) ensures o == CompilerError::PolicyError(e) { CompilerError::PolicyError(e) })"),
        lit("R12-min", "max_leaves.min(MAX_COMPILATION_LEAVES)", "(if max_leaves <= MAX_COMPILATION_LEAVES { max_leaves } else { MAX_COMPILATION_LEAVES })"),
        sub("R7-path", r"\bcompiler::best_compilation\b", "best_compilation"),
        lit("R7-arc-as-ref", "pol.as_ref()", "&**pol"),
        sub("R6-fn-pointer", r"let leaves =\s*policy\.enumerate_leaves\(1\.0, max_leaves, Self::enumerate_pol_native\);",
            "let ghost nl_pol = policy;\n                        let leaves = policy.enumerate_leaves__enumerate_pol_native(1.0, max_leaves);"),
        for_slice_loop("for (leaf_idx, (prob, pol)) in leaves.iter().enumerate()", "leaves.as_slice()", "nl_src", "(prob, pol)", "nl_i",
                       "                        nl_i <= nl_src@.len(), nl_src@ == leaves@,\n" + inv,
                       before="proof { lemma_pv_take0(leaves@); }\n                        ",
                       body_pre="                            let leaf_idx = nl_i;\n                            let ghost nl_lc0 = leaf_compilations@;\n                            proof { lemma_pv_take(leaves@, nl_i as int); }\n",
                       after="                        proof { assert(leaves@.take(leaves@.len() as int) =~= leaves@);\n"
                             "                                assert forall|a: Asg<Pk>| #[trigger] csem(nl_pol, a) == vec_spends(leaf_compilations@, a) by { assert(pv_any(leaves@, a) == csem(nl_pol, a)); } }\n"),
        sub("R10-after-push", r"(leaf_compilations\.push\(\(OrdF64\(\*prob\), compilation\)\);)",
            r"\1" + "\n                            proof { lemma_vec_push(nl_lc0, leaf_compilations@.last()); assert(leaf_compilations@ =~= nl_lc0.push(leaf_compilations@.last())); }"),
        sub("R10-after-huffman", r"Some\(\s*(with_huffman_tree::<Pk>\(leaf_compilations\)(?:\s*\.map_err\([^()]*\)\?)?),?\s*\)",
            r"{ let ghost nl_lc = leaf_compilations@; let nl_tree = \1; proof { lemma_same_bag(nl_tree, nl_lc); lemma_if_free_bag(nl_tree, nl_lc); } Some(nl_tree) }"),
        UNNAMED_CLOSURE_PARAM,
        sub("R10-body-start", r"\{", "{\n        broadcast use lemma_key_or_rest;", count=1),
    ] + F64
    if partial:
        rws.insert(1, PartialNewTr())
    return rws


SAFE_ORACLE = r"""
// ---- ORACLE for is_safe_nonmalleable at the leaves (its doc: `signed` = every satisfaction needs a signature) -------------------------------
// a policy is SAFE when no assignment without any signing key satisfies it
spec fn no_keys<Pk: MiniscriptKey>(a: Asg<Pk>) -> bool { a.keys =~= Set::<Pk>::empty() }
spec fn needs_a_signature<Pk: MiniscriptKey>(p: Concrete<Pk>) -> bool { forall|a: Asg<Pk>| #[trigger] csem(p, a) ==> !no_keys(a) }
proof fn lemma_leaf_needs_a_signature<Pk: MiniscriptKey>(p: Concrete<Pk>)
    requires is_cleaf(p),
    ensures needs_a_signature(p) == (p is Key || p is Unsatisfiable),
{
    let base = Asg::<Pk> { keys: Set::empty(), sha256: Set::empty(), hash256: Set::empty(), ripemd160: Set::empty(), hash160: Set::empty(), older: Set::empty(), after: Set::empty() };
    assert(no_keys(base));
    match p {
        Concrete::Key(k) => { assert forall|a: Asg<Pk>| #[trigger] csem(p, a) implies !no_keys(a) by { if no_keys(a) { assert(!Set::<Pk>::empty().contains(k)); } } }
        Concrete::Unsatisfiable => {}
        Concrete::Trivial => { assert(csem(p, base)); }
        Concrete::After(t) => { let a = Asg::<Pk> { after: Set::empty().insert(t.consensus()), ..base }; assert(csem(p, a) && no_keys(a)); }
        Concrete::Older(t) => { let a = Asg::<Pk> { older: Set::empty().insert(t.consensus()), ..base }; assert(csem(p, a) && no_keys(a)); }
        Concrete::Sha256(h) => { let a = Asg::<Pk> { sha256: Set::empty().insert(h), ..base }; assert(csem(p, a) && no_keys(a)); }
        Concrete::Hash256(h) => { let a = Asg::<Pk> { hash256: Set::empty().insert(h), ..base }; assert(csem(p, a) && no_keys(a)); }
        Concrete::Ripemd160(h) => { let a = Asg::<Pk> { ripemd160: Set::empty().insert(h), ..base }; assert(csem(p, a) && no_keys(a)); }
        Concrete::Hash160(h) => { let a = Asg::<Pk> { hash160: Set::empty().insert(h), ..base }; assert(csem(p, a) && no_keys(a)); }
        _ => {}
    }
}
// R9: the And / Or / Thresh rows (`(0..n).map(|_| acc.pop().unwrap()).fold(..)` with tuple-pattern closures) are not verified
#[verifier::external_body]
fn isnm_nary_arm_excluded(acc: &mut Vec<(bool, bool)>) -> (bool, bool) { unimplemented!() }
"""


def emit_is_safe_nonmalleable(vf, repo):
    """is_safe_nonmalleable (rtl post-order loop + per-node match): the LEAF rows of its table.
    * the leaf arms of the real `match data.node` are cut verbatim TWICE: into the exec step `is_safe_nonmalleable_step` and into the spec function
      `isnm_leaf_row` (n-ary arms -> arbitrary());  `step.leaf_row_is_the_table_of_the_text` ties the two (same text, proved);
    * the table is judged against the oracle `needs_a_signature` (semantic: no key-less assignment satisfies the leaf) and the doc (leaves are non-malleable);
    * the whole function is consumed by compile_tr* through: for a LEAF policy the result is that leaf's row (one iteration: push, pop) -- the traversal is trusted."""
    from vlib.extract import split_arms
    anchor = impl_with_fn(repo, CONC, "Policy<Pk>", "is_safe_nonmalleable")
    reg = repo.at(CONC, anchor + "/match:data.node")
    arms = split_arms(reg.src, reg.start, reg.end)
    leaf_arms, nary = [], []
    for a in arms:
        pat = re.sub(r"\s+", " ", a["pat"])
        if re.match(r"^(And|Or|Thresh)\(", pat):
            nary.append(pat)
        else:
            if a["guard"]:
                raise Undecided("is_safe_nonmalleable: a leaf arm has a guard (anchor lost)")
            leaf_arms.append("        %s => %s," % (a["pat"], drop_docs_vis(a["body"]).strip().rstrip(",")))
    if sorted(p.split("(")[0] for p in nary) != ["And", "Or", "Thresh"]:
        raise Undecided("is_safe_nonmalleable: expected exactly the n-ary arms And / Or / Thresh next to the leaf arms (anchor lost)")
    vf.raw(SAFE_ORACLE)
    vf.trust("isnm_nary_arm_excluded (external_body, no contract)", "R9: the And / Or / Thresh rows of is_safe_nonmalleable are not verified in this unit")
    vf.functions["oracle::leaf_needs_a_signature"] = dict(props=("C08",), file=None, lines=None, clauses={}, start=vf._lines - 30, end=vf._lines - 4, origin="verif")
    # the leaf arms as a spec function (the text of /repo, used as its own specification twin)
    vf.raw("spec fn isnm_leaf_row<Pk: MiniscriptKey>(node: Concrete<Pk>) -> (bool, bool) {\n    match node {\n%s\n        _ => arbitrary(),\n    }\n}\n"
           % "\n".join(re.sub(r"(?<![\w:])(Unsatisfiable|Trivial|Key|After|Older|Sha256|Hash256|Ripemd160|Hash160)\b(?=\s*(\(|\||=>))", r"Concrete::\1", l) for l in leaf_arms))
    N_ = "*data.node"
    with vf.block("impl<Pk: MiniscriptKey> Concrete<Pk>"):
        vf.step(CONC, anchor + "/match:data.node", "Concrete::is_safe_nonmalleable_step",
                "fn is_safe_nonmalleable_step(data: PostOrderIterItem<&Concrete<Pk>>, acc: &mut Vec<(bool, bool)>) -> (bool, bool)", props=PROPS,
                exclude={"And(ref subs)": "isnm_nary_arm_excluded(acc)", "Or(ref subs)": "isnm_nary_arm_excluded(acc)", "Thresh(ref thresh)": "isnm_nary_arm_excluded(acc)"},
                pre_match="    use Concrete::*;\n    proof { if is_cleaf(*data.node) { lemma_leaf_needs_a_signature(*data.node); } }",
                contract=Contract(ensures=[
                    C("leaf_row_is_the_table_of_the_text", "is_cleaf(%s) ==> r == isnm_leaf_row(%s)" % (N_, N_)),
                    C("leaf_is_signed_iff_every_satisfaction_needs_a_signature", "is_cleaf(%s) ==> r.0 == needs_a_signature(%s)" % (N_, N_)),
                    C("trivial_is_satisfiable_without_a_signature", "%s is Trivial ==> !r.0" % N_),
                    C("key_and_unsatisfiable_are_signed", "(%s is Key || %s is Unsatisfiable) ==> r.0" % (N_, N_)),
                    C("hash_and_time_locks_are_unsigned", "(%s is Sha256 || %s is Hash256 || %s is Ripemd160 || %s is Hash160 || %s is After || %s is Older) ==> !r.0" % ((N_,) * 6)),
                    C("leaves_are_non_malleable", "is_cleaf(%s) ==> r.1" % N_),
                    C("leaf_stack_frame", "is_cleaf(%s) ==> final(acc)@ == old(acc)@" % N_, ("C08", "C11")),
                ]))
        vf.fn(CONC, anchor, qual="Concrete", assumed=True,
              contract=Contract(ensures=[C("a_leaf_policy_gets_its_row", "is_cleaf(*self) ==> r == isnm_leaf_row(*self)")]))
    vf.trust("Concrete::is_safe_nonmalleable (external_body): for a LEAF policy the result is isnm_leaf_row(policy)",
             "isnm_leaf_row is the text of the leaf arms of the real `match data.node` (cut mechanically, tied to the exec arms by "
             "is_safe_nonmalleable_step.leaf_row_is_the_table_of_the_text); for a one-node tree the rtl post-order loop runs once: push the row, pop it (traversal trusted, DESIGN 3.2). "
             "Nothing is assumed for And / Or / Thresh policies")


class SkipFns(T7.SkipFns):
    pass


def build(repo):
    vf = VerusFile(NAME, repo)
    strip = sub("derive-off", r"#\[derive\([^)]*\)\]\s*", "", required=False)

    # ---- prelude: real Miniscript / Terminal / Threshold definitions, the abstract policy and its meaning (imported) ----------
    _tree.emit(vf, ext="real", types="defs")
    bitcoin_stubs, k = re.subn(r"impl From<\w+> for \w+::LockTime \{.*?\n\}\n", "", S.BITCOIN_STUBS, flags=re.S)
    if k != 2:
        raise Undecided("units/c18_semantic.py BITCOIN_STUBS changed")
    bitcoin_stubs = bitcoin_stubs.replace("struct PostOrderIterItem<T> { node: T }", "")
    vf.raw(bitcoin_stubs, keep_vis=True)
    S.semantic_enum(vf)
    vf.raw(S.ORACLE)
    vf.trust("sem / Asg / bip68_lock / bip65_lock (oracle text of unit c18_semantic, imported)", "the truth-table meaning of an abstract policy; "
             "thresh_arm_excluded (external_body, contract-free) comes with that text and is not called here")
    N.emit_threshold_fns(SkipFns(vf, ("n", "k", "data")))
    with vf.block("impl<T, const MAX: usize> Threshold<T, MAX>"):
        vf.fn(_tree.THRESH, "impl:Threshold<T, MAX>/fn:is_or", qual="Threshold", props=PROPS,
              contract=Contract(ensures=[Clause("one_of_n", ("C08",), "r == (self.k == 1)")]))
        vf.fn(_tree.THRESH, "impl:Threshold<T, MAX>/fn:is_and", qual="Threshold", props=PROPS,
              contract=Contract(ensures=[Clause("n_of_n", ("C08",), "r == (self.k == self.inner@.len())")]))
    vf.item(CONC, "enum:Policy", rewrites=[sub("derive-off", r"#\[derive\([^)]*\)\]\s*", ""), sub("R7-rename", r"\benum Policy<", "enum Concrete<")])
    vf.raw(csem_oracle())
    vf.trust("csem / csem_count / cchild / carity (oracle text of unit c18_semantic, imported)", "truth-table meaning of a concrete policy: And = all, Or = any (odds dropped), Thresh = at least k")
    repo.at(CTX, "enum:Tap")
    vf.raw(STUBS)
    vf.trust("struct Tap { marker } + impl ScriptContext; enum Error; spec_ms_lift (uninterpreted)", "context marker / crate::Error reduced; the per-leaf lift of a compiled leaf is an uninterpreted result (unit c07_lift verifies its per-node step)")
    vf.trust("impl PartialEq / PartialEqSpecImpl / Clone for Concrete (external_body)", "derived PartialEq is structural equality, derived Clone returns an equal value (DESIGN 3.4)")
    vf.trust("axiom_key_eq (external_body proof fn)", "`==` on keys (MiniscriptKey: Eq) is equality of the key values")
    vf.raw(pick(L7.PRELUDE, "axiom_key_clone"))
    vf.trust("axiom_key_clone (admit)", "Clone on keys returns an equal value (DESIGN 3.4; text of unit c07_lift)")
    vf.raw(ORACLE_A)
    vf.raw(ORACLE_B)
    vf.raw(RANGE_EMPTY)
    vf.trust("struct F64 with external_body Mul / Div / Add / lit, usize_as_f64, sum_odds (no contracts)", "R7-f64: f64 probabilities are uninterpreted: they order the leaves (Huffman priority, key choice) and never enter a meaning clause")
    for name, text in LEMMAS_A:
        vf.spec_obligation("oracle::" + name, text, ("C08",))

    # ---- TapleafProbabilityIter ------------------------------------------------------------------------------------------------
    vf.item(CONC, "struct:TapleafProbabilityIter", rewrites=[CFG] + F64)
    OLD, FIN = "old(self).stack@", "final(self).stack@"
    with vf.block("impl<'p, Pk: MiniscriptKey> TapleafProbabilityIter<'p, Pk>"):
        vf.fn(CONC, "impl:Iterator for TapleafProbabilityIter<'p, Pk>/fn:next", qual="TapleafProbabilityIter", props=PROPS,
              rewrites=next_rewrites(),
              contract=Contract(ensures=[
                  C("yielded_leaf_or_rest_is_the_disjunction", "r is Some ==> forall|lp: LeafPred<Pk>| #![trigger stk_any(%s, lp)] #![trigger stk_any(%s, lp)] stk_any(%s, lp) == (peval(*r->Some_0.1, lp) || stk_any(%s, lp))" % (OLD, FIN, OLD, FIN)),
                  C("end_only_when_nothing_is_left", "r is None ==> %s.len() == 0 && forall|lp: LeafPred<Pk>| !#[trigger] stk_any(%s, lp)" % (FIN, OLD)),
                  C("yielded_leaf_is_not_a_root_disjunction", "r is Some ==> !splits(*r->Some_0.1)"),
                  C("work_left_decreases", "r is Some ==> stk_size(%s) < stk_size(%s)" % (FIN, OLD), ("C11",)),
              ]))
    register_named_invariants(vf, "TapleafProbabilityIter::next")

    for name, text in LEMMAS_B:
        vf.spec_obligation("oracle::" + name, text, ("C08",))
    vf.raw(pick(P20.PRELUDE, "child") + pick(P20.PRELUDE, "children_seq") + pick(P20.PRELUDE, "map_ref_pop"))
    vf.trust("map_ref_pop (external_body; text of unit c20_policy)", "R9: Threshold::map_ref keeps k and maps the elements in order; the closure pops once per element")

    vf.item(COMPILER, "struct:OrdF64", rewrites=[sub("derive-clone-copy", r"#\[derive\([^)]*\)\]", "#[derive(Clone, Copy)]")] + F64)
    vf.item(CONC, "enum:PolicyError", rewrites=[sub("derive-debug-only", r"#\[derive\([^)]*\)\]", "#[derive(Debug)]")])
    vf.item(COMPILER, "enum:CompilerError", rewrites=[sub("derive-debug-only", r"#\[derive\([^)]*\)\]", "#[derive(Debug)]"),
                                                     lit("R7", "policy::concrete::PolicyError", "PolicyError")])
    for name, text in LEMMAS_C:
        vf.spec_obligation("oracle::" + name, text, ("C08",))

    N_ = "**data.node"
    ST = "old(translated)@"
    with vf.block("impl<Pk: MiniscriptKey> Concrete<Pk>"):
        vf.fn(CONC, impl_with_fn(repo, CONC, "Policy<Pk>", "tapleaf_probability_iter"), qual="Concrete", props=PROPS, rewrites=[CFG] + F64,
              contract=Contract(ensures=[
                  C("starts_with_the_whole_policy", "r.stack@.len() == 1 && r.stack@[0].1 == self"),
              ]))
        # ---- translate_unsatisfiable_pk: per-node step ---------------------------------------------------------------------------
        vf.step(CONC, impl_with_fn(repo, CONC, "Policy<Pk>", "translate_unsatisfiable_pk") + "/match:data.node.as_ref()", "Concrete::translate_unsatisfiable_pk_step",
                "fn translate_unsatisfiable_pk_step(data: PostOrderIterItem<&Arc<Concrete<Pk>>>, translated: &mut Vec<Arc<Concrete<Pk>>>, key: &Pk) -> Option<Self>",
                props=PROPS, scrutinee=S.AS_REF,
                arm_rewrites={"And(ref subs)": P20.nary_rewrites("and"), "Or(ref subs)": P20.nary_rewrites("or"),
                              "Thresh(ref thresh)": [lit("R9", "thresh.map_ref(|_| translated.pop().unwrap())", "map_ref_pop(thresh, translated)")]},
                pre_match="    use Concrete::*;\n    broadcast use axiom_key_clone;\n    proof { axiom_key_eq::<Pk>(); }",
                post_match=TRANSLATE_HINT,
                contract=Contract(
                    requires=["%s.len() >= carity(%s)" % (ST, N_),
                              "forall|i: int| 0 <= i < carity(%s) ==> means_without(*#[trigger] child(%s, i), cchild(%s, i), *key)" % (N_, ST, N_)],
                    ensures=[
                        C("extracted_key_becomes_unsatisfiable", "%s matches Concrete::Key(k) && k == *key ==> r == Some(Concrete::<Pk>::Unsatisfiable)" % N_),
                        C("other_leaves_unchanged", "is_cleaf(%s) && !(%s matches Concrete::Key(k) && k == *key) ==> r is None" % (N_, N_)),
                        C("node_means_the_policy_without_the_key", "means_without(match r { Some(p) => p, None => %s }, %s, *key)" % (N_, N_)),
                        C("trivial_only_from_trivial", "(match r { Some(p) => p, None => %s }) is Trivial <==> %s is Trivial" % (N_, N_)),
                        C("or_keeps_its_odds", "%s matches Concrete::Or(subs) ==> r is Some && r->Some_0 is Or && r->Some_0->Or_0@.len() == subs@.len() && forall|i: int| 0 <= i < subs@.len() ==> (#[trigger] r->Some_0->Or_0@[i]).0 == subs@[i].0" % N_),
                        C("stack_frame", "final(translated)@ == %s.take(%s.len() - carity(%s))" % (ST, ST, N_), ("C08", "C11")),
                    ]))
        # ---- extract_key -----------------------------------------------------------------------------------------------------------
        reg = repo.at(CONC, impl_with_fn(repo, CONC, "Policy<Pk>", "extract_key"))
        chain = KeyChain()
        if chain(reg.text) is None:
            raise Undecided("extract_key: the internal key is not chosen by `self.tapleaf_probability_iter().filter_map(..).max_by_key(..).map(..)` (anchor lost)")
        vf.fn_text("Concrete::extract_key__filter_closure", chain.lifted("filter_map", "ek_filter", "(F64, &'p Self)", "Option<(OrdF64, &'p Pk)>"),
                   Contract(ensures=[
                       C("only_a_key_leaf_is_a_candidate", "r matches Some(c) ==> *item.1 == Concrete::Key(*c.1)"),
                       C("every_key_leaf_is_a_candidate", "*item.1 is Key ==> r is Some")]),
                   PROPS, file=CONC, lines=reg.lines(), anchor="extract_key closure of filter_map")
        vf.fn_text("Concrete::extract_key__map_closure", chain.lifted("map", "ek_map", "(OrdF64, &'p Pk)", "Pk").replace("{\n", "{\n        broadcast use axiom_key_clone;\n", 1),
                   Contract(ensures=[C("the_candidates_key", "r == *item.1")]),
                   PROPS, file=CONC, lines=reg.lines(), anchor="extract_key closure of map")
        vf.fn(CONC, impl_with_fn(repo, CONC, "Policy<Pk>", "translate_unsatisfiable_pk"), qual="Concrete", assumed=True,
              contract=Contract(ensures=[C("means_the_policy_without_the_key", "means_without(r, self, *key)"),
                                         C("trivial_only_from_trivial", "r is Trivial <==> self is Trivial")]))
        vf.fn(CONC, impl_with_fn(repo, CONC, "Policy<Pk>", "extract_key"), qual="Concrete", props=PROPS,
              rewrites=[CFG, KeyChain(), sub("R10-body-start", r"\{", "{\n        broadcast use lemma_key_or_rest;\n        broadcast use axiom_key_clone;", count=1)],
              contract=Contract(ensures=[
                  C("a_root_level_key_is_preferred", "has_root_key(self) ==> r is Ok && rk(self, r->Ok_0.0)"),
                  C("internal_key_or_rest_is_the_policy", "r is Ok && rk(self, r->Ok_0.0) ==> forall|a: Asg<Pk>| #[trigger] csem(self, a) == (a.keys.contains(r->Ok_0.0) || csem(r->Ok_0.1, a))"),
                  C("fallback_is_the_unspendable_key_and_the_policy_unchanged", "!has_root_key(self) && r is Ok ==> unspendable_key == Some(r->Ok_0.0) && r->Ok_0.1 == self"),
                  C("remainder_is_trivial_only_for_the_trivial_policy", "r is Ok && r->Ok_0.1 is Trivial ==> self is Trivial"),
                  C("error_only_without_any_key", "r is Err <==> (!has_root_key(self) && unspendable_key is None)"),
              ]))
    vf.spec_obligation("Concrete::extract_key__chain_loop", CHAIN, PROPS)

    # ---- TapTree::{leaf, combine}, with_huffman_tree ------------------------------------------------------------------------------
    vf.item(TAPTREE, "struct:TapTreeDepthError", rewrites=[sub("derive-debug-only", r"#\[derive\([^)]*\)\]\s*(#\[non_exhaustive\])?", "#[derive(Debug)]")])
    vf.item(TAPTREE, "struct:TapTree", rewrites=[strip])
    vf.raw(HUFF)
    vf.raw(PANICS)
    vf.trust("returns_ok_or_panics (external_body)", "partial correctness of `.expect(..)`: a call that returns had an Ok value; the panic itself is the obligation of the `__no_panic` instance of the same function text")
    vf.trust("axiom_vec_len (external_body proof fn)", "std: a Vec never holds more than isize::MAX bytes, so the sum of two lengths does not overflow usize")
    vf.trust("struct Reverse, const TAPROOT_CONTROL_MAX_NODE_COUNT = 128 (stubs)", "core::cmp::Reverse only reverses the order of its content; the bitcoin crate's constant is BIP341's 128")
    vf.trust("struct BinaryHeap with new / push / pop / len (external_body)", "std::collections::BinaryHeap is a bag: push adds one element, pop removes and returns one element "
             "(None iff empty), len counts them; WHICH element pop returns (the f64 priority) is not modelled: the clauses hold for every order")
    for name, text in LEMMAS_H:
        vf.spec_obligation("oracle::" + name, text, ("C08",))
    vf.spec_obligation("oracle::combined_leaves", COMBINE_LEMMA, ("C08",))
    with vf.block("impl<Pk: MiniscriptKey> TapTree<Pk>"):
        vf.fn(TAPTREE, "impl:TapTree<Pk>/fn:leaf", qual="TapTree", props=PROPS,
              rewrites=[lit("R7-into-specialised", "<A: Into<Arc<Miniscript<Pk, Tap>>>>(ms: A)", "(ms: Miniscript<Pk, Tap>)"), lit("R7-into-specialised", "ms.into()", "Arc::new(ms)")],
              contract=Contract(ensures=[
                  C("one_leaf_at_the_root", "r.depths_leaves@.len() == 1 && r.depths_leaves@[0].0 == 0 && *r.depths_leaves@[0].1 == ms"),
                  C("leaves", "leaf_seq(r) =~= seq![ms]")]))
        vf.fn(TAPTREE, "impl:TapTree<Pk>/fn:combine", qual="TapTree", props=PROPS,
              rewrites=[combine_chain_loop, sub("R10-body-start", r"\{", "{\n        proof { axiom_vec_len(&left.depths_leaves); axiom_vec_len(&right.depths_leaves); }", count=1)],
              contract=Contract(ensures=[
                  C("depth_error_iff_a_leaf_would_exceed_128", "r is Err <==> !(forall|i: int| 0 <= i < left.depths_leaves@.len() ==> (#[trigger] left.depths_leaves@[i]).0 <= 127) || !(forall|i: int| 0 <= i < right.depths_leaves@.len() ==> (#[trigger] right.depths_leaves@[i]).0 <= 127)"),
                  C("leaves_are_left_then_right", "r is Ok ==> leaf_seq(r->Ok_0) =~= leaf_seq(left) + leaf_seq(right)"),
                  C("every_leaf_one_level_deeper", "r is Ok ==> r->Ok_0.depths_leaves@.len() == left.depths_leaves@.len() + right.depths_leaves@.len() "
                    "&& (forall|i: int| 0 <= i < left.depths_leaves@.len() ==> (#[trigger] r->Ok_0.depths_leaves@[i]).0 == left.depths_leaves@[i].0 + 1) "
                    "&& (forall|i: int| 0 <= i < right.depths_leaves@.len() ==> (#[trigger] r->Ok_0.depths_leaves@[left.depths_leaves@.len() + i]).0 == right.depths_leaves@[i].0 + 1)"),
              ]))
    register_named_invariants(vf, "TapTree::combine")
    # two shapes of the function are understood: `-> TapTree<Pk>` with `combine(..).expect(..)` (then the partial-correctness / no-panic pair below) and
    # `-> Result<TapTree<Pk>, TapTreeDepthError>` with `combine(..)?` (the depth error surfaces as Err)
    hf_head = split_fn(drop_docs_vis(repo.at(CONC, "fn:with_huffman_tree").text))
    hf_result = hf_head[1] is not None and hf_head[1].replace(" ", "").startswith("Result<")
    HF_OK, HF_T = ("r is Ok ==> ", "r->Ok_0") if hf_result else ("", "r")
    vf.fn(CONC, "fn:with_huffman_tree", props=PROPS, rewrites=huffman_rewrites(True),
          contract=Contract(requires=["ms@.len() > 0"], ensures=[
              C("leaves_are_exactly_the_input_leaves", HF_OK + "tree_ms(%s) =~= input_ms(ms@)" % HF_T),
          ] + ([C("depth_error_only_with_more_than_128_leaves", "ms@.len() <= 128 ==> r is Ok")] if hf_result else [])))
    register_named_invariants(vf, "with_huffman_tree")
    with_huffman_done = True
    # the same text once more, with the real `.expect(..)` on TapTree::combine: may the construction panic?
    vf.fn(CONC, "fn:with_huffman_tree", rename="with_huffman_tree__no_panic", props=PROPS, rewrites=huffman_rewrites(False),
          contract=Contract(requires=["ms@.len() > 0"], canary=False))

    # ---- compile_tr: the glue -------------------------------------------------------------------------------------------------------
    vf.raw(re.sub(r"pub open spec fn some_leaf_is_trivial.*", "", T7.ORACLE, flags=re.S))
    vf.trust("n_leaves / leaf_lift / leaf_spends / some_leaf_spends (oracle text of unit c07_taptree, imported)", "BIP341: a script tree is spendable through any one of its leaves")
    vf.item(TR, "struct:Tr", rewrites=[strip, sub("R7-drop-cache-field", r"spend_info\s*:\s*Mutex<[^\n]*>\s*,", "")])
    vf.raw(GLUE)
    vf.trust("enum ScriptContextError, From<ScriptContextError> for Error, Debug for Error, enum Descriptor { Tr, Other } (stubs)", "crate types reduced to what the taproot compiler touches")
    vf.trust("best_compilation (external_body): an Ok result lifts and means its policy",
             "ASSUMPTION of this unit = the C08 obligation of the miniscript compiler for ONE leaf policy (its per-candidate half is unit c08_compiler_nodes; the cost search itself is not verified)")
    for name, text in LEMMAS_G:
        vf.spec_obligation("oracle::" + name, text, ("C08",))
    with vf.block("impl Tap"):
        vf.fn(CTX, "impl:ScriptContext for Tap/fn:check_pk", qual="Tap", assumed=True,
              contract=Contract(ensures=[C("tapscript_keys_are_not_uncompressed", "r is Ok <==> !pk.spec_is_uncompressed()")]))
    vf.trust("Tap::check_pk (external_body, contract only)", "verified in unit c12_validation (Tap rejects exactly the uncompressed keys)")
    with vf.block("impl<Pk: MiniscriptKey> Tr<Pk>"):
        vf.fn(TR, "impl:Tr<Pk>/fn:new", qual="Tr", props=PROPS,
              rewrites=[sub("R7-drop-cache-field", r",\s*spend_info\s*:\s*Mutex::new\(None\)", "")],
              contract=Contract(ensures=[
                  C("ok_iff_key_allowed_in_tapscript", "r is Ok <==> !internal_key.spec_is_uncompressed()"),
                  C("stores_key_and_tree", "r is Ok ==> r->Ok_0.internal_key == internal_key && r->Ok_0.tree == tree")]))
    with vf.block("impl<Pk: MiniscriptKey> Descriptor<Pk>"):
        vf.fn("src/descriptor/mod.rs", "impl:Descriptor<Pk>/fn:new_tr", qual="Descriptor", props=PROPS,
              rewrites=[sub("R7-path", r"\btr::TapTree\b", "TapTree")],
              contract=Contract(ensures=[
                  C("ok_iff_key_allowed_in_tapscript", "r is Ok <==> !key.spec_is_uncompressed()"),
                  C("is_the_tr_descriptor_of_key_and_tree", "r is Ok ==> r->Ok_0 is Tr && r->Ok_0->Tr_0.internal_key == key && r->Ok_0->Tr_0.tree == script")]))
    with vf.block("impl<Pk: MiniscriptKey> Concrete<Pk>"):
        for fname in ("is_valid", "check_binary_ops", "check_num_tapleaves"):
            vf.fn(CONC, impl_with_fn(repo, CONC, "Policy<Pk>", fname), qual="Concrete", assumed=True, rewrites=[CFG])
    emit_is_safe_nonmalleable(vf, repo)
    with vf.block("impl<Pk: MiniscriptKey> Concrete<Pk>"):
        TRC = [
            C("meaning_preserved", "!(*self is Trivial) ==> (r is Ok ==> tr_means_policy(*self, r->Ok_0))"),
            C("anyone_can_spend_policy_keeps_its_meaning", "*self is Trivial ==> (r is Ok ==> tr_means_policy(*self, r->Ok_0))"),
            C("root_level_key_becomes_the_internal_key", "r is Ok && has_root_key(*self) ==> r->Ok_0 is Tr && rk(*self, r->Ok_0->Tr_0.internal_key)"),
            C("unspendable_key_only_as_fallback", "r is Ok && !has_root_key(*self) ==> r->Ok_0 is Tr && unspendable_key == Some(r->Ok_0->Tr_0.internal_key)"),
            C("no_key_at_all_is_an_error", "!has_root_key(*self) && unspendable_key is None ==> r is Err"),
        ]
        vf.fn(CONC, impl_with_fn(repo, CONC, "Policy<Pk>", "compile_tr"), qual="Concrete", props=PROPS, rewrites=compile_tr_rewrites(True),
              contract=Contract(ensures=TRC))
        register_named_invariants(vf, "Concrete::compile_tr")
        vf.fn(CONC, impl_with_fn(repo, CONC, "Policy<Pk>", "compile_tr"), qual="Concrete", rename="compile_tr__no_panic", props=PROPS,
              rewrites=compile_tr_rewrites(False), contract=Contract())
    # ---- enumeration of alternatives: generate_combination, enumerate_pol ----------------------------------------------------------
    vf.raw(ENUM)
    vf.trust("fold_odds (external_body, no contract)", "R14: total odds of an `or` (usize sum; its overflow for hand-built policies with huge odds is NOT examined); feeds probabilities only")
    for name, text in LEMMAS_E:
        vf.spec_obligation("oracle::" + name, text, ("C08",))
    from units.c02_multi import range_for_invariant
    vf.fn(CONC, "fn:generate_combination", props=PROPS,
          rewrites=[CFG, gen_comb_from_iter,
                    range_for_invariant("for i in 0..thresh.n()", "i",
                                        "            ret@.len() == i, 1 <= thresh.k < thresh.inner@.len(),\n"
                                        "            forall|q: int| 0 <= q < i ==> is_thresh_less(*(#[trigger] ret@[q]).1, *thresh, q), //@inv entry_i_is_the_threshold_without_child_i [C08]",
                                        after="    proof { lemma_drop_one(*thresh, ret@); }\n"),
                    sub("R10-typed-vec", r"let mut ret: Vec<\(f64, Arc<Policy<Pk>>\)> = vec!\[\];", "let mut ret: Vec<(f64, Arc<Policy<Pk>>)> = Vec::new();", required=False)] + F64,
          contract=Contract(requires=["1 <= thresh.k < thresh.inner@.len()"], ensures=[
              C("one_alternative_per_child", "r@.len() == thresh.inner@.len()"),
              C("alternatives_are_the_threshold", "forall|a: Asg<Pk>| #[trigger] pv_any(r@, a) == csem(Concrete::Thresh(*thresh), a)"),
          ]))
    register_named_invariants(vf, "generate_combination")
    vf.trust("Threshold::from_iter(k, it) = Threshold::new(k, it.collect()) for MAX = 0", "its body: the size pre-check applies only when MAX > 0, then `for_each(push)`, then `new`")
    with vf.block("impl<Pk: MiniscriptKey> Concrete<Pk>"):
        vf.fn(CONC, impl_with_fn(repo, CONC, "Policy<Pk>", "enumerate_pol"), qual="Concrete", props=PROPS, rewrites=enumerate_pol_rewrites() + [
                  sub("R10-hints", r"\{\s*match self \{", "{\n        proof { if splits(*self) { lemma_splits(*self); } }\n        let ep_result = match self {", count=1),
                  sub("R10-hints", r"\}\s*\}\s*$", "};\n        proof { if splits(*self) { lemma_listed_children(*self, ep_result@); } else { let ep_self: bool = lists_only(ep_result@, *self); if ep_self { lemma_listed_self(*self, ep_result@); } } }\n        ep_result\n    }"),
              ],
              contract=Contract(requires=["thresh_wf(*self)", "*self matches Concrete::Or(subs) ==> subs@.len() >= 1"], ensures=[
                  C("never_empty", "r@.len() >= 1", ("C08", "C11")),
                  C("alternatives_are_the_policy", "forall|a: Asg<Pk>| #[trigger] pv_any(r@, a) == csem(*self, a)"),
              ]))
        register_named_invariants(vf, "Concrete::enumerate_pol")
    # ---- enumerate_pol_native (And arm excluded), enumerate_leaves (assumed), has_if_fragment, compile_tr_native ---------------------------
    vf.raw(NATIVE)
    vf.trust("and_arm_excluded (external_body, no contract)", "R9: the And arm of enumerate_pol_native (recursion + enumerate/filter/map closures + Vec::insert) is not verified; nothing is assumed about its result")
    vf.trust("spec_has_if / has_if_fragment (external_body): r == spec_has_if(ms)", "whole-tree `pre_order_iter().any(..)` summarised; its per-node predicate is verified (has_if_fragment__node)")
    for name, text in LEMMAS_N:
        vf.spec_obligation("oracle::" + name, text, ("C08",))
    with vf.block("impl<Pk: MiniscriptKey> Concrete<Pk>"):
        vf.fn(CONC, impl_with_fn(repo, CONC, "Policy<Pk>", "enumerate_pol_native"), qual="Concrete", props=PROPS, rewrites=enumerate_pol_rewrites() + [
                  replace_arm("self", "Self::And(subs)", "and_arm_excluded(self, subs, prob),"),
                  sub("R10-hints", r"\{\s*match self \{", "{\n        proof { if splits(*self) { lemma_splits(*self); } }\n        let ep_result = match self {", count=1),
                  sub("R10-hints", r"\}\s*\}\s*$", "};\n        proof { if splits(*self) { lemma_listed_children(*self, ep_result@); } else { let ep_self: bool = lists_only(ep_result@, *self); if ep_self { lemma_listed_self(*self, ep_result@); } } }\n        ep_result\n    }"),
              ],
              contract=Contract(requires=["thresh_wf(*self)", "*self matches Concrete::Or(subs) ==> subs@.len() >= 1"], ensures=[
                  C("never_empty", "!(*self is And) ==> r@.len() >= 1", ("C08", "C11")),
                  C("alternatives_are_the_policy", "!(*self is And) ==> forall|a: Asg<Pk>| #[trigger] pv_any(r@, a) == csem(*self, a)"),
              ]))
        register_named_invariants(vf, "Concrete::enumerate_pol_native")
        vf.excluded_arms.append("Concrete::enumerate_pol_native: arm `Self::And(subs)` excluded (R9)")
        # R6: no fn pointers in Verus -> one instance of enumerate_leaves per expansion function; BOTH ASSUMED (the fixed-point loop is not verified)
        for inst in ("enumerate_pol", "enumerate_pol_native"):
            vf.fn(CONC, impl_with_fn(repo, CONC, "Policy<Pk>", "enumerate_leaves"), qual="Concrete", assumed=True, rename="enumerate_leaves__" + inst,
                  rewrites=[CFG, sub("R6-fn-pointer-param", r",\s*expand_fn: fn\(&Self, f64\) -> Vec<\(f64, Arc<Self>\)>,?", ",")] + F64,
                  contract=Contract(ensures=[C("alternatives_are_the_policy", "forall|a: Asg<Pk>| #[trigger] pv_any(r@, a) == csem(self, a)")]))
        vf.fn(CONC, impl_with_fn(repo, CONC, "Policy<Pk>", "enumerate_policy_tree"), qual="Concrete", props=PROPS,
              rewrites=[CFG, lit("R6-fn-pointer", "self.enumerate_leaves(prob, MAX_COMPILATION_LEAVES, Self::enumerate_pol)", "self.enumerate_leaves__enumerate_pol(prob, MAX_COMPILATION_LEAVES)")] + F64,
              contract=Contract(ensures=[C("alternatives_are_the_policy", "forall|a: Asg<Pk>| #[trigger] pv_any(r@, a) == csem(self, a)")]))
    vf.trust("Concrete::enumerate_leaves (two instances, external_body): the returned alternatives are the policy",
             "ASSUMED, NOT VERIFIED: the fixed-point loop over BTreeSet / BTreeMap with labelled breaks is outside this unit; what it relies on -- every call of the "
             "expansion function returns alternatives whose disjunction is the expanded policy -- is proved here for enumerate_pol and (And arm excepted) enumerate_pol_native")
    vf.fn_text("has_if_fragment__node", has_if_node(repo), Contract(ensures=[
        C("exactly_the_fragments_whose_script_uses_if", "r == (node.node is DupIf || node.node is NonZero || node.node is AndOr || node.node is OrD || node.node is OrC || node.node is OrI)")]),
        PROPS, file=CONC, lines=repo.at(CONC, "fn:has_if_fragment").lines(), anchor="fn:has_if_fragment closure of any")
    with vf.block("impl<Pk: MiniscriptKey> Concrete<Pk>"):
        NTC = [
            C("meaning_preserved", "!(*self is Trivial) ==> (r is Ok ==> tr_means_policy(*self, r->Ok_0))"),
            C("anyone_can_spend_policy_keeps_its_meaning", "*self is Trivial ==> (r is Ok ==> tr_means_policy(*self, r->Ok_0))"),
            C("native_leaves_are_if_free", "r is Ok && r->Ok_0 is Tr && r->Ok_0->Tr_0.tree is Some ==> forall|j: int| 0 <= j < n_leaves(r->Ok_0->Tr_0.tree->Some_0) ==> !spec_has_if(#[trigger] leaf_seq(r->Ok_0->Tr_0.tree->Some_0)[j])"),
            C("root_level_key_becomes_the_internal_key", "r is Ok && has_root_key(*self) ==> r->Ok_0 is Tr && rk(*self, r->Ok_0->Tr_0.internal_key)"),
            C("unspendable_key_only_as_fallback", "r is Ok && !has_root_key(*self) ==> r->Ok_0 is Tr && unspendable_key == Some(r->Ok_0->Tr_0.internal_key)"),
            C("zero_leaves_is_an_error", "max_leaves == 0 ==> r is Err", ("C08", "C11")),
        ]
        vf.fn(CONC, impl_with_fn(repo, CONC, "Policy<Pk>", "compile_tr_native"), qual="Concrete", props=PROPS, rewrites=compile_tr_native_rewrites(True),
              contract=Contract(ensures=NTC))
        register_named_invariants(vf, "Concrete::compile_tr_native")
        vf.fn(CONC, impl_with_fn(repo, CONC, "Policy<Pk>", "compile_tr_native"), qual="Concrete", rename="compile_tr_native__no_panic", props=PROPS,
              rewrites=compile_tr_native_rewrites(False), contract=Contract())
    vf.trust("Concrete::{is_valid, check_binary_ops, check_num_tapleaves} (external_body, NO contract)", "sanity checks in front of the compilation: nothing is assumed about their answers")
    vf.trust("max_by_key_pick (external_body); extract_key_chain (verified loop standing for the iterator chain)",
             "Iterator::filter_map / max_by_key / map have their std meaning: max_by_key returns one of the elements that passed the filter (None iff none did); "
             "which one is decided by the f64 priority (not modelled)")
    vf.trust("Concrete::translate_unsatisfiable_pk (external_body, contract only)", "whole-tree result assumed from the per-node step proved in this unit "
             "(translate_unsatisfiable_pk_step.node_means_the_policy_without_the_key) + the rtl-post-order traversal contract (DESIGN 3.2)")
    return vf
