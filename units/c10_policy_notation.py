"""C10 unit (Verus): printer and parser of POLICIES (policy::Concrete, policy::Semantic) use the SAME notation, node by node.

Oracle = the policy LANGUAGE (doc comments of the two `enum Policy`, the crate's policy examples / round-trip tests, the grammar that
expression::Tree accepts):      EXPR ::= NAME | NAME(ARG,...,ARG)
    UNSATISFIABLE  TRIVIAL  pk(KEY)  after(NUM)  older(NUM)  sha256(HASH)  hash256(HASH)  ripemd160(HASH)  hash160(HASH)
    concrete:  and(A,B)   or(W@A,W@B) (W = relative odds; a branch written without `W@` has odds 1)   thresh(K,A,...)
    semantic:  and(A,B,...) = the n-of-n threshold   or(A,B,...) = the 1-of-n threshold   thresh(K,A,...) for 1 < K < n only
It is written down twice, independently:
    printer's side   `pnotation(v, sem, dbg)` = the TEXT of a policy value as a sequence of output tokens (characters, decimal numbers, and the
                     Display / Debug forms of keys, hashes, lock times, which stay abstract): `call(pname(head_name(v)), arg_toks(v))`;
    reader's side    `denote(NAME, args, sem)`: the VALUE a name applied to written arguments stands for (None = not in the language).
Values are compared through `PV` (ghost enum: variant, keys / hashes / lock times, odds, k, sub-policies in place) = what the derived PartialEq decides.

Part 1  PRINTER  `impl fmt::Display / fmt::Debug for Policy` of src/policy/concrete.rs and src/policy/semantic.rs (real text, verified as the inherent
        methods fmt_display / fmt_debug) and the helper they print thresholds with, `ThreshDisplay` of src/primitives/threshold.rs (Threshold::display /
        debug / k / n + both `fmt`, verified as the trait methods they are).  core::fmt is a ghost TOKEN LOG (model of c10_notation / c15_tapops, here at
        CHARACTER granularity so that how the literal pieces are chunked does not matter): `write!` expanded mechanically (R18 of c15_tapops).
        Clause per function: the tokens written are pnotation(value of self).  The recursive `write!(f, "{}", sub)` on a sub-policy appends
        pnotation(value of sub): the INDUCTION HYPOTHESIS of the structural induction over the policy (stub `impl fmt::Display for Concrete`, stated in
        the trusted list; Verus rejects the direct recursion through the trait as a cyclic definition).
Part 2  PARSER   the loop body of the two `impl FromTree for Policy { fn from_tree }` (units/c11_policy_parse.py's extraction, imported: from_tree_step,
        the verify_threshold call-site instance, the expression-tree model) with MEANING clauses per name:
            the value pushed == denote(NAME, the arguments as the reader meets them)   (builds_what_the_name_denotes.<name>)
        + the odds a node is pushed with (`W@` prefix through name_separated('@') / parse_num_nonzero when the parent is `or`, else 1)
        + names outside the language are rejected.  verify_threshold's instance: k from the FIRST child, sub-policies in order.
Part 3  ROUND TRIP (spec level, machine-checked) over the two oracles: `printed_form_denotes_the_value_{concrete,semantic}`:
            denote(head_name(v), written_args(v)) == Some(v)   for every variant (sub-policies by value = "given that the children round-trip"),
        `notation_is_the_text_of_the_written_form` (pnotation = NAME(ARG,..) of exactly those arguments), `names_are_distinct`,
        `concrete_and_or_never_read_as_thresh` (a concrete Thresh must print as thresh(k,..)), `omitted_odds_read_as_one`,
        `omitting_other_odds_changes_the_value`, `semantic_sugar_reads_back_as_the_same_threshold`.

RED on the unchanged tree (genuine, reproduced against the crate; obligations roundtrip::concrete::and_or_of_any_arity and
roundtrip::semantic::threshold_over_a_single_sub_policy, see UNREPRESENTABLE_PROPS): the two enums are public and hold Vec / Threshold, so there are VALUES
the readers cannot produce and whose printed form they reject:
    Concrete::And(vec![a, b, c]).to_string() == "and(pk(A),pk(B),pk(C))"   from_str: Err("and must have 2 children, but found 3")   (also 0 / 1 sub-policies; Or likewise)
    Semantic::Thresh(Threshold::new(1, vec![a])).to_string() == "and(pk(A))"   from_str: Err("and must have at least 2 children, but found 1")
Outside the token model (numbers are abstract) but observed while reproducing: Concrete::Or(vec![(0, a), (1, b)]) prints "or(0@pk(A),1@pk(B))" which is rejected
("fragment probability may not be 0"), and odds >= 2^32 print but do not parse (odds are a usize, the reader parses a u32).
Everything else is green: for the values the readers CAN produce (And / Or of exactly two, thresholds over >= 2 sub-policies in the semantic language) the round trip holds.

NOT decided here (what of the policy text round trip stays ASSUMED): `expression::Tree::from_str` turns the printed characters back into the tree
(node name = `W@NAME`, children = the arguments in order; assumed shape wf_tree); Display <-> FromStr of keys, hashes, lock times and decimal numbers
(`disp_toks` of the key types, spec_from_str, spec_parse_num* are uninterpreted -- incl. the RANGE of numbers: odds are parsed as u32 and stored as
usize); core::fmt itself; `Policy::from_str`'s extra acceptance test (check_timelocks) and the frame of from_tree (c11_policy_parse).
"""
import re

from vlib.verus import VerusFile, Contract, Clause, Undecided, sub, lit, rule, drop_vis, split_fn
from vlib.extract import match_close, strip_docs, AnchorLost
from units import _tree
from units import c18_semantic as S
from units import c11_policy_parse as C
from units import c10_notation as N
from units import c15_tapops as T
from units.c02_multi import register_named_invariants

NAME = "c10_policy_notation"
ENGINE = "verus"
PROPS = ("C10", "C11")
P10 = ("C10",)
P11 = ("C11",)
P1011 = ("C10", "C11")

EXPR = C.EXPR
THRESH = _tree.THRESH
CONC = C.CONC
SEM = C.SEM

DROPPED = [
    "core::fmt (R7 + R18): `fmt::Formatter` -> struct with a ghost token log (Tok::Ch(char) | Tok::Num(int) + whatever the abstract Display / Debug of keys, hashes, lock times yield); "
    "`f.write_str(s)` appends the characters of s, `f.write_char(c)` appends c, `write!(f, \"lit{}lit{:?}\", a, b)` -> the calls format_args! / fmt::write make, in order (write_macro of "
    "units/c15_tapops.py); fmt::Display / fmt::Debug are traits whose `fmt` appends the implementor's token sequence (disp_toks / dbg_toks); `impl Display for &T / Arc<T>` forward (std)",
    "`impl fmt::Display / fmt::Debug for Policy` (both policies): the trait method `fmt` is verified as the inherent method fmt_display / fmt_debug (same text); the trait impl itself is a "
    "stub with that contract = the INDUCTION HYPOTHESIS for the recursive `write!(f, \"{}\", sub)` on sub-policies (structural induction: sub-policies are strictly smaller)",
    "fmt_display / fmt_debug are verified once per variant of the enum (cases=: precondition `*self is V`, exhaustiveness lemma generated), so the clause id names the variant",
    "`for sub in &subs[1..] { .. }` (concrete And / Or arms), `for inner in inners { .. }` (ThreshDisplay): Verus' native `for` over a slice iterator + a ghost iterator name, an invariant and "
    "one ghost assertion at the head of the body (R10, ghost only); loop bodies verbatim; any other loop shape -> UNDECIDED.  Ghost prologue of every printer (R10): the log at entry, the value of "
    "self, and lemma calls (lits_printers: the characters of every string literal of the printers' texts, collected mechanically; lemma_put_call; lemma_<enum>_node)",
    "semantic Display / Debug: `X.display(..).fmt(f)` / `X.debug(..).fmt(f)` -> `fmt::Display::fmt(&X.display(..), f)` / `fmt::Debug::fmt(&X.debug(..), f)` (R7: the method of the only trait the "
    "`impl fmt::Display` / `impl fmt::Debug` return type exposes); Threshold::display / debug: return type `impl fmt::Display + 's` / `impl fmt::Debug + 's` -> `ThreshDisplay<'s, 's, T, MAX>` (the type it is)",
    "ThreshDisplay::fmt (both): `use core::fmt::Write;` dropped (write_char is a method of the Formatter stub); the Threshold invariant 1 <= k <= n (c11_policy_parse: Threshold::new accepts exactly it) "
    "is carried as a Verus type invariant of ThreshDisplay, established by the precondition of Threshold::display / debug (`requires self.inv()`); it is what makes `self.thresh.inner[0]` panic-free",
    "PRECONDITION of fmt_display / fmt_debug: the node's own Threshold satisfies its invariant (a type invariant of Threshold: private fields, validating constructors)",
    "policy from_tree (both): only the LOOP BODY = from_tree_step (extraction of units/c11_policy_parse.py: RevPreOrderLoop, call-site instance of verify_threshold, R8-range stubs); the frame (loop, stack "
    "invariant, final assert) is c11_policy_parse's.  Additional rewrites here: `X.map(Policy::V).map_err(Error::Parse)` / `X.map_err(Error::Parse).map(Policy::V)` / `X.map(Self::Thresh)` -> "
    "`match X { Ok(x_) => Ok(Policy::V(x_)), Err(e_) => Err(Error::Parse(e_)) }` (R14: definitions of Result::map / map_err; a `.map(..)` that is left over -> UNDECIDED); semantic and / or arms: "
    "`(0..N).map(|_| stack.pop().unwrap())` -> eager index loop as in c11_policy_parse, here with the invariant that the popped values are the top entries in order",
    "ASSUMED traversal contract for the VALUE clauses (as in c10_notation): when a node is visited the results of its sub-expressions are the top entries of the stack, FIRST child on top "
    "(the traversal is reversed pre-order: children are processed right to left, each pushes one entry; the length invariant is c11_policy_parse's, the positional statement is not proved)",
    "ASSUMED about the tree handed in: wf_tree (c11_policy_parse MODEL); what a key / hash string and a decimal string denote (spec_from_str, spec_parse_num_nonzero) is uninterpreted",
    "expression accessors (name, n_children, parent, is_first_child, children, next, parse_num, Threshold::new / is_or / is_and): external_body with the contracts c11_policy_parse PROVES (same Clause objects); "
    "verify_terminal_parent / verify_after / verify_older are re-verified here with the value clauses of units/c10_notation.py (emit_tree)",
]

# =====================================================================================================================
# PRELUDE: tokens, core::fmt as a token log, key stubs with their Display / Debug
# =====================================================================================================================
FMT_MOD = r"""
// ---- core::fmt reduced to a token log (R7; model of units/c10_notation.py / c15_tapops.py at character granularity) -------------------------
pub ghost enum Tok { Ch(char), Num(int), Atom(int) }
// the characters of a string, as output tokens
pub open spec fn chars(s: Seq<char>) -> Seq<Tok> { Seq::new(s.len(), |i: int| Tok::Ch(s[i])) }
mod fmt {
    use super::*;
    pub(crate) struct Error;
    pub(crate) type Result = core::result::Result<(), Error>;
    pub(crate) struct Formatter { pub(crate) log: Ghost<Seq<Tok>> }
    impl Formatter {
        #[verifier::external_body]
        pub(crate) fn write_str(&mut self, s: &str) -> (r: Result)
            ensures r is Ok ==> final(self).log@ == old(self).log@ + chars(s@),
        { unimplemented!() }
        #[verifier::external_body]
        pub(crate) fn write_char(&mut self, c: char) -> (r: Result)
            ensures r is Ok ==> final(self).log@ == old(self).log@.push(Tok::Ch(c)),
        { unimplemented!() }
        // R18: the Formatter that `write!(self, "..{}..", x)` hands to x's fmt: same output
        #[verifier::external_body]
        pub(crate) fn plain(&mut self) -> (r: &mut Formatter)
            ensures r.log@ == old(self).log@, final(self).log@ == final(r).log@,
        { unimplemented!() }
    }
    pub(crate) trait Display {
        spec fn disp_toks(&self) -> Seq<Tok>;
        fn fmt(&self, f: &mut Formatter) -> (r: Result)
            ensures r is Ok ==> final(f).log@ =~= old(f).log@ + self.disp_toks();
    }
    pub(crate) trait Debug {
        spec fn dbg_toks(&self) -> Seq<Tok>;
        fn fmt(&self, f: &mut Formatter) -> (r: Result)
            ensures r is Ok ==> final(f).log@ =~= old(f).log@ + self.dbg_toks();
    }
    // std: `impl<T: Display> Display for &T`, `impl<T: Display> Display for Arc<T>` (and the same for Debug) forward to T
    impl<T: Display> Display for &T {
        open spec fn disp_toks(&self) -> Seq<Tok> { (**self).disp_toks() }
        fn fmt(&self, f: &mut Formatter) -> (r: Result) { Display::fmt(*self, f) }
    }
    impl<T: Debug> Debug for &T {
        open spec fn dbg_toks(&self) -> Seq<Tok> { (**self).dbg_toks() }
        fn fmt(&self, f: &mut Formatter) -> (r: Result) { Debug::fmt(*self, f) }
    }
    impl<T: Display> Display for Arc<T> {
        open spec fn disp_toks(&self) -> Seq<Tok> { (**self).disp_toks() }
        #[verifier::external_body]
        fn fmt(&self, f: &mut Formatter) -> (r: Result) { unimplemented!() }
    }
    impl<T: Debug> Debug for Arc<T> {
        open spec fn dbg_toks(&self) -> Seq<Tok> { (**self).dbg_toks() }
        #[verifier::external_body]
        fn fmt(&self, f: &mut Formatter) -> (r: Result) { unimplemented!() }
    }
    // the decimal form of a usize is ONE token (Display <-> FromStr of numbers is not modelled)
    impl Display for usize {
        open spec fn disp_toks(&self) -> Seq<Tok> { seq![Tok::Num(*self as int)] }
        #[verifier::external_body]
        fn fmt(&self, f: &mut Formatter) -> (r: Result) { unimplemented!() }
    }
}
"""

LOCK_FMT = r"""
// the Display form of a lock time: abstract (k_locktime / the bitcoin crate)
uninterp spec fn abs_lock_toks(x: AbsLockTime) -> Seq<Tok>;
uninterp spec fn rel_lock_toks(x: RelLockTime) -> Seq<Tok>;
impl fmt::Display for AbsLockTime {
    spec fn disp_toks(&self) -> Seq<Tok> { abs_lock_toks(*self) }
    #[verifier::external_body]
    fn fmt(&self, f: &mut fmt::Formatter) -> (r: fmt::Result) { unimplemented!() }
}
impl fmt::Display for RelLockTime {
    spec fn disp_toks(&self) -> Seq<Tok> { rel_lock_toks(*self) }
    #[verifier::external_body]
    fn fmt(&self, f: &mut fmt::Formatter) -> (r: fmt::Result) { unimplemented!() }
}
"""


def key_stubs():
    """units/c18_semantic.py KEY_STUBS with the supertraits the real `trait MiniscriptKey` has for printing: fmt::Debug + fmt::Display on the key and on its four hash types (src/lib.rs)"""
    t = S.KEY_STUBS
    t, n1 = re.subn(r"pub trait MiniscriptKey: Sized \+ Clone \{", "pub trait MiniscriptKey: Sized + Clone + fmt::Display + fmt::Debug {", t)
    t, n2 = re.subn(r"(type (?:Sha256|Hash256|Ripemd160|Hash160)): Clone;", r"\1: Clone + fmt::Display + fmt::Debug;", t)
    if n1 != 1 or n2 != 4:
        raise Undecided("c18_semantic.KEY_STUBS changed shape")
    return t


def check_key_trait(repo):
    """the supertraits added to the stub are the real ones"""
    reg = repo.at("src/lib.rs", "trait:MiniscriptKey")
    text = strip_docs(reg.text)
    head = text[:text.index("{")]
    if not (re.search(r"fmt::Debug", head) and re.search(r"fmt::Display", head)):
        raise Undecided("trait MiniscriptKey no longer has fmt::Debug + fmt::Display as supertraits")
    for h in ("Sha256", "Hash256", "Ripemd160", "Hash160"):
        m = re.search(r"type %s\s*:([^;]*);" % h, text)
        if not m or "fmt::Display" not in m.group(1) or "fmt::Debug" not in m.group(1):
            raise Undecided("MiniscriptKey::%s no longer bounded by fmt::Display + fmt::Debug" % h)


# =====================================================================================================================
# ORACLES
# =====================================================================================================================
PNAMES = [("Unsatisfiable", "UNSATISFIABLE"), ("Trivial", "TRIVIAL"), ("Pk", "pk"), ("After", "after"), ("Older", "older"),
          ("Sha256", "sha256"), ("Hash256", "hash256"), ("Ripemd160", "ripemd160"), ("Hash160", "hash160"),
          ("And", "and"), ("Or", "or"), ("Thresh", "thresh")]
VARIANTS = ["Unsatisfiable", "Trivial", "Key", "After", "Older", "Sha256", "Hash256", "Ripemd160", "Hash160", "And", "Or", "Thresh"]
HASHES = ["Sha256", "Hash256", "Ripemd160", "Hash160"]
LEAVES1 = [("Key", "Pk", "Pk"), ("After", "AbsLockTime", "After"), ("Older", "RelLockTime", "Older")] + [(h, "Pk::" + h, h) for h in HASHES]   # (variant, payload type, PName)


def tok_seq(s):
    return "seq![%s]" % ", ".join("Tok::Ch('%s')" % ("\\'" if c == "'" else c) for c in s) if s else "Seq::<Tok>::empty()"


VALUES = r"""
// ================================================================================================================
// "EQUAL value": the variant, keys, hashes, lock times, odds, k and the sub-policies in place (what the derived
// PartialEq of the two enums decides).  One ghost type for both policies (semantic values use the leaves and Thresh).
// ================================================================================================================
ghost enum PV<Pk: MiniscriptKey> {
    Unsatisfiable, Trivial, Key(Pk), After(AbsLockTime), Older(RelLockTime),
    Sha256(Pk::Sha256), Hash256(Pk::Hash256), Ripemd160(Pk::Ripemd160), Hash160(Pk::Hash160),
    And(Seq<PV<Pk>>), Or(Seq<(usize, PV<Pk>)>), Thresh(usize, Seq<PV<Pk>>),
}
spec fn cvals<Pk: MiniscriptKey>(s: Seq<Arc<Concrete<Pk>>>) -> Seq<PV<Pk>> decreases s
{
    Seq::new(s.len(), |i: int| if 0 <= i < s.len() { cval(*s[i]) } else { arbitrary() })
}
spec fn cval<Pk: MiniscriptKey>(p: Concrete<Pk>) -> PV<Pk> decreases p
{
    match p {
        Concrete::Unsatisfiable => PV::Unsatisfiable, Concrete::Trivial => PV::Trivial, Concrete::Key(k) => PV::Key(k),
        Concrete::After(n) => PV::After(n), Concrete::Older(n) => PV::Older(n),
        Concrete::Sha256(h) => PV::Sha256(h), Concrete::Hash256(h) => PV::Hash256(h), Concrete::Ripemd160(h) => PV::Ripemd160(h), Concrete::Hash160(h) => PV::Hash160(h),
        Concrete::And(subs) => PV::And(Seq::new(subs@.len(), |i: int| if 0 <= i < subs@.len() { cval(*subs@[i]) } else { arbitrary() })),
        Concrete::Or(subs) => PV::Or(Seq::new(subs@.len(), |i: int| if 0 <= i < subs@.len() { (subs@[i].0, cval(*subs@[i].1)) } else { arbitrary() })),
        Concrete::Thresh(th) => PV::Thresh(th.k, Seq::new(th.inner@.len(), |i: int| if 0 <= i < th.inner@.len() { cval(*th.inner@[i]) } else { arbitrary() })),
    }
}
spec fn sval<Pk: MiniscriptKey>(p: Semantic<Pk>) -> PV<Pk> decreases p
{
    match p {
        Semantic::Unsatisfiable => PV::Unsatisfiable, Semantic::Trivial => PV::Trivial, Semantic::Key(k) => PV::Key(k),
        Semantic::After(n) => PV::After(n), Semantic::Older(n) => PV::Older(n),
        Semantic::Sha256(h) => PV::Sha256(h), Semantic::Hash256(h) => PV::Hash256(h), Semantic::Ripemd160(h) => PV::Ripemd160(h), Semantic::Hash160(h) => PV::Hash160(h),
        Semantic::Thresh(th) => PV::Thresh(th.k, Seq::new(th.inner@.len(), |i: int| if 0 <= i < th.inner@.len() { sval(*th.inner@[i]) } else { arbitrary() })),
    }
}
"""


def language_oracle():
    names = "\n".join('        PName::%s => "%s"@,' % (n, s) for n, s in PNAMES)
    return r"""
// ================================================================================================================
// ORACLE 1 (printer's side): the policy LANGUAGE as text.    EXPR ::= NAME | NAME(ARG,...,ARG)
//   UNSATISFIABLE  TRIVIAL  pk(KEY)  after(NUM)  older(NUM)  sha256(HASH)  hash256(HASH)  ripemd160(HASH)  hash160(HASH)
//   concrete language:  and(A,B)   or(W@A,W@B)   thresh(K,A,...)        (W: the branch's relative odds, always written)
//   semantic language:  and(A,...) for the n-of-n threshold, or(A,...) for the 1-of-n threshold, thresh(K,A,...) otherwise
//   Debug form: the same with `()` after the two constants and the Debug form of keys.
// ================================================================================================================
ghost enum PName { %(variants)s }
spec fn pname(n: PName) -> Seq<char> {
    match n {
%(names)s
    }
}
// l followed by  ARG_1 , ... , ARG_n   (the first n arguments)
spec fn put_args(l: Seq<Tok>, args: Seq<Seq<Tok>>, n: int) -> Seq<Tok> decreases n
{
    if n <= 0 || n > args.len() { l } else if n == 1 { l + args[0] } else { put_args(l, args, n - 1).push(Tok::Ch(',')) + args[n - 1] }
}
// l followed by  NAME ( ARG , ... , ARG )
spec fn put_call(l: Seq<Tok>, name: Seq<char>, args: Seq<Seq<Tok>>) -> Seq<Tok> {
    put_args((l + chars(name)).push(Tok::Ch('(')), args, args.len() as int).push(Tok::Ch(')'))
}
// NAME ( ARG , ... , ARG )
spec fn call(name: Seq<char>, args: Seq<Seq<Tok>>) -> Seq<Tok> { put_call(Seq::empty(), name, args) }
spec fn num_toks(n: usize) -> Seq<Tok> { seq![Tok::Num(n as int)] }
// W@
spec fn odds_toks(w: usize) -> Seq<Tok> { seq![Tok::Num(w as int), Tok::Ch('@')] }
spec fn key_toks<Pk: MiniscriptKey>(k: Pk, dbg: bool) -> Seq<Tok> { if dbg { fmt::Debug::dbg_toks(&k) } else { fmt::Display::disp_toks(&k) } }
// the NAME the language writes a value under
spec fn head_name<Pk: MiniscriptKey>(v: PV<Pk>, sem: bool) -> PName {
    match v {
        PV::Unsatisfiable => PName::Unsatisfiable, PV::Trivial => PName::Trivial, PV::Key(_) => PName::Pk, PV::After(_) => PName::After, PV::Older(_) => PName::Older,
        PV::Sha256(_) => PName::Sha256, PV::Hash256(_) => PName::Hash256, PV::Ripemd160(_) => PName::Ripemd160, PV::Hash160(_) => PName::Hash160,
        PV::And(_) => PName::And, PV::Or(_) => PName::Or,
        PV::Thresh(k, subs) => if sem && k == subs.len() { PName::And } else if sem && k == 1 { PName::Or } else { PName::Thresh },
    }
}
spec fn is_constant<Pk: MiniscriptKey>(v: PV<Pk>) -> bool { v is Unsatisfiable || v is Trivial }
// the texts of the arguments
spec fn arg_toks<Pk: MiniscriptKey>(v: PV<Pk>, sem: bool, dbg: bool) -> Seq<Seq<Tok>> decreases v, 0int
{
    match v {
        PV::Unsatisfiable | PV::Trivial => Seq::empty(),
        PV::Key(k) => seq![key_toks(k, dbg)],
        PV::After(n) => seq![fmt::Display::disp_toks(&n)], PV::Older(n) => seq![fmt::Display::disp_toks(&n)],
        PV::Sha256(h) => seq![fmt::Display::disp_toks(&h)], PV::Hash256(h) => seq![fmt::Display::disp_toks(&h)],
        PV::Ripemd160(h) => seq![fmt::Display::disp_toks(&h)], PV::Hash160(h) => seq![fmt::Display::disp_toks(&h)],
        PV::And(subs) => Seq::new(subs.len(), |i: int| if 0 <= i < subs.len() { pnotation(subs[i], sem, dbg) } else { arbitrary() }),
        PV::Or(subs) => Seq::new(subs.len(), |i: int| if 0 <= i < subs.len() { odds_toks(subs[i].0) + pnotation(subs[i].1, sem, dbg) } else { arbitrary() }),
        PV::Thresh(k, subs) => (if head_name(v, sem) is Thresh { seq![num_toks(k)] } else { Seq::empty() })
            + Seq::new(subs.len(), |i: int| if 0 <= i < subs.len() { pnotation(subs[i], sem, dbg) } else { arbitrary() }),
    }
}
// THE TEXT of a policy value (sem: the semantic language; dbg: the Debug form)
spec fn pnotation<Pk: MiniscriptKey>(v: PV<Pk>, sem: bool, dbg: bool) -> Seq<Tok> decreases v, 1int
{
    if is_constant(v) && !dbg { chars(pname(head_name(v, sem))) } else { call(pname(head_name(v, sem)), arg_toks(v, sem, dbg)) }
}
""" % dict(variants=", ".join(n for n, _ in PNAMES), names=names)


def names_lemmas():
    reveals = " ".join('reveal_strlit("%s");' % s for _, s in PNAMES)
    spelled = "\n".join("        chars(pname(PName::%s)) =~= %s," % (n, tok_seq(s)) for n, s in PNAMES)
    sig = lambda s: (len(s), s[0], s[1], s[4] if len(s) >= 5 else " ")
    if len(set(sig(s) for _, s in PNAMES)) != len(PNAMES):
        raise Undecided("the signature (length, 1st, 2nd, 5th character) no longer separates the names of the policy language")
    rows = "\n".join("        PName::%s => (%dint, '%s', '%s', '%s')," % ((n,) + sig(s)) for n, s in PNAMES)
    return r"""
// the names of the language, character by character (string-literal facts)
proof fn lemma_names_spelled()
    ensures
%(spelled)s
{
    %(reveals)s
}
// (length, 1st, 2nd, 5th character) of a name
spec fn name_sig(n: PName) -> (int, char, char, char) {
    match n {
%(rows)s
    }
}
proof fn lemma_name_sig(n: PName)
    ensures pname(n).len() == name_sig(n).0, pname(n)[0] == name_sig(n).1, pname(n)[1] == name_sig(n).2, pname(n).len() >= 5 ==> pname(n)[4] == name_sig(n).3,
{
    %(reveals)s
}
// the printed name selects one name of the language: the names are pairwise different strings
proof fn names_are_distinct(a: PName, b: PName)
    requires pname(a) == pname(b),
    ensures a == b,
{
    lemma_name_sig(a); lemma_name_sig(b);
}
""" % dict(spelled=spelled, reveals=reveals, rows=rows)


PRINTER_LEMMAS = r"""
// ---- the notation appended to a log, in left-nested form (what the printers' successive writes produce) -----------------
proof fn lemma_put_args(l: Seq<Tok>, m: Seq<Tok>, args: Seq<Seq<Tok>>, n: int)
    ensures put_args(l + m, args, n) == l + put_args(m, args, n),
    decreases n,
{
    if n <= 0 || n > args.len() {
    } else if n == 1 {
        assert((l + m) + args[0] =~= l + (m + args[0]));
    } else {
        lemma_put_args(l, m, args, n - 1);
        assert((l + put_args(m, args, n - 1)).push(Tok::Ch(',')) + args[n - 1] =~= l + (put_args(m, args, n - 1).push(Tok::Ch(',')) + args[n - 1]));
    }
}
proof fn lemma_put_call(l: Seq<Tok>, name: Seq<char>, args: Seq<Seq<Tok>>)
    ensures l + call(name, args) == put_call(l, name, args),
{
    let e = Seq::<Tok>::empty();
    let m = (e + chars(name)).push(Tok::Ch('('));
    assert((l + chars(name)).push(Tok::Ch('(')) =~= l + m);
    lemma_put_args(l, m, args, args.len() as int);
    assert((l + put_args(m, args, args.len() as int)).push(Tok::Ch(')')) =~= l + put_args(m, args, args.len() as int).push(Tok::Ch(')')));
}
// what ThreshDisplay writes: NAME ( [K ,] ITEM , ... , ITEM )   -- the items through their Display / Debug
spec fn items_disp<T: fmt::Display>(s: Seq<T>) -> Seq<Seq<Tok>> { Seq::new(s.len(), |i: int| fmt::Display::disp_toks(&s[i])) }
spec fn items_dbg<T: fmt::Debug>(s: Seq<T>) -> Seq<Seq<Tok>> { Seq::new(s.len(), |i: int| fmt::Debug::dbg_toks(&s[i])) }
spec fn thresh_args_disp<T: fmt::Display, const MAX: usize>(th: Threshold<T, MAX>, show_k: bool) -> Seq<Seq<Tok>> {
    (if show_k { seq![num_toks(th.k)] } else { Seq::empty() }) + items_disp(th.inner@)
}
spec fn thresh_args_dbg<T: fmt::Debug, const MAX: usize>(th: Threshold<T, MAX>, show_k: bool) -> Seq<Seq<Tok>> {
    (if show_k { seq![num_toks(th.k)] } else { Seq::empty() }) + items_dbg(th.inner@)
}
proof fn lemma_thresh_args_disp<T: fmt::Display, const MAX: usize>(th: Threshold<T, MAX>, show_k: bool)
    ensures ({
        let off: int = if show_k { 1 } else { 0 };
        &&& thresh_args_disp(th, show_k).len() == th.inner@.len() + off
        &&& (show_k ==> thresh_args_disp(th, show_k)[0] == num_toks(th.k))
        &&& (forall|i: int| 0 <= i < th.inner@.len() ==> #[trigger] thresh_args_disp(th, show_k)[i + off] == fmt::Display::disp_toks(&th.inner@[i]))
    }),
{
}
proof fn lemma_thresh_args_dbg<T: fmt::Debug, const MAX: usize>(th: Threshold<T, MAX>, show_k: bool)
    ensures ({
        let off: int = if show_k { 1 } else { 0 };
        &&& thresh_args_dbg(th, show_k).len() == th.inner@.len() + off
        &&& (show_k ==> thresh_args_dbg(th, show_k)[0] == num_toks(th.k))
        &&& (forall|i: int| 0 <= i < th.inner@.len() ==> #[trigger] thresh_args_dbg(th, show_k)[i + off] == fmt::Debug::dbg_toks(&th.inner@[i]))
    }),
{
}
// ---- the arguments of a node of the REAL enums in terms of its fields (one unfolding of cval / sval + arg_toks) --------
spec fn child_toks_c<Pk: MiniscriptKey>(c: Arc<Concrete<Pk>>, dbg: bool) -> Seq<Tok> { pnotation(cval(*c), false, dbg) }
spec fn child_toks_s<Pk: MiniscriptKey>(c: Arc<Semantic<Pk>>, dbg: bool) -> Seq<Tok> { pnotation(sval(*c), true, dbg) }
proof fn lemma_concrete_node<Pk: MiniscriptKey>(p: Concrete<Pk>, dbg: bool)
    ensures
        p matches Concrete::And(subs) ==> arg_toks(cval(p), false, dbg).len() == subs@.len()
            && (forall|i: int| 0 <= i < subs@.len() ==> #[trigger] arg_toks(cval(p), false, dbg)[i] == child_toks_c(subs@[i], dbg)),
        p matches Concrete::Or(subs) ==> arg_toks(cval(p), false, dbg).len() == subs@.len()
            && (forall|l: Seq<Tok>, i: int| 0 <= i < subs@.len() ==> #[trigger] (l + arg_toks(cval(p), false, dbg)[i]) == (l + num_toks(subs@[i].0)).push(Tok::Ch('@')) + child_toks_c(subs@[i].1, dbg)),
        p matches Concrete::Thresh(th) ==> head_name(cval(p), false) == PName::Thresh
            && arg_toks(cval(p), false, dbg) == (if dbg { thresh_args_dbg(th, true) } else { thresh_args_disp(th, true) }),
{
    match p {
        Concrete::Or(subs) => {
            assert forall|l: Seq<Tok>, i: int| 0 <= i < subs@.len() implies #[trigger] (l + arg_toks(cval(p), false, dbg)[i]) == (l + num_toks(subs@[i].0)).push(Tok::Ch('@')) + child_toks_c(subs@[i].1, dbg) by {
                assert(l + (odds_toks(subs@[i].0) + child_toks_c(subs@[i].1, dbg)) =~= (l + num_toks(subs@[i].0)).push(Tok::Ch('@')) + child_toks_c(subs@[i].1, dbg));
            }
        },
        Concrete::Thresh(th) => {
            lemma_thresh_args_disp(th, true); lemma_thresh_args_dbg(th, true);
            assert(arg_toks(cval(p), false, dbg) =~= (if dbg { thresh_args_dbg(th, true) } else { thresh_args_disp(th, true) }));
        },
        _ => {},
    }
}
proof fn lemma_semantic_node<Pk: MiniscriptKey>(p: Semantic<Pk>, dbg: bool)
    ensures
        p matches Semantic::Thresh(th) ==> ({
            let shows_k = !(th.k == th.inner@.len()) && !(th.k == 1);
            &&& head_name(sval(p), true) == (if th.k == th.inner@.len() { PName::And } else if th.k == 1 { PName::Or } else { PName::Thresh })
            &&& arg_toks(sval(p), true, dbg) == (if dbg { thresh_args_dbg(th, shows_k) } else { thresh_args_disp(th, shows_k) })
        }),
{
    match p {
        Semantic::Thresh(th) => {
            let shows_k = !(th.k == th.inner@.len()) && !(th.k == 1);
            lemma_thresh_args_disp(th, shows_k); lemma_thresh_args_dbg(th, shows_k);
            assert(arg_toks(sval(p), true, dbg) =~= (if dbg { thresh_args_dbg(th, shows_k) } else { thresh_args_disp(th, shows_k) }));
        },
        _ => {},
    }
}
"""

PRINTER_LEMMA_NAMES = ["lemma_put_args", "lemma_put_call", "lemma_thresh_args_disp", "lemma_thresh_args_dbg", "lemma_concrete_node", "lemma_semantic_node"]


# =====================================================================================================================
# PRINTER: rewrites
# =====================================================================================================================
def literals_of(text):
    lits = []
    for m in re.finditer(r'"((?:[^"\\]|\\.)*)"', text):
        s = m.group(1)
        if "\\" in s:
            raise Undecided("string literal with an escape in a printer: %r" % s)
        if s not in lits:
            lits.append(s)
    return lits


def pushes(base, s):
    return base + "".join(".push(Tok::Ch('%s'))" % c for c in s)


def note_literals(vf, text):
    """remember the string literals of a printer; the lemma about them (lits_printers) is emitted once, for all printers"""
    if not hasattr(vf, "printer_literals"):
        vf.printer_literals = []
    vf.printer_literals += [s for s in literals_of(text) if s not in vf.printer_literals]
    return "lits_printers();"


def literal_lemma(vf, name, lits):
    """R10 (ghost): one lemma per printer: appending a string literal of its text to a log, written with the language's NAME when the literal starts with one and one `push` per
    remaining character (left-nested: the form the successive writes of a printer produce).  Proved from reveal_strlit; the printer's body calls it"""
    ens, proofs = [], []
    for s in lits:
        if "'" in s:
            raise Undecided("string literal with a quote in a printer: %r" % s)
        rhs = None
        for n, nm in sorted(PNAMES, key=lambda x: -len(x[1])):
            if s.startswith(nm) and all(not c.isalnum() and c != "_" for c in s[len(nm):]):
                rhs = pushes("(l + chars(pname(PName::%s)))" % n, s[len(nm):])
                break
        if rhs is None:
            rhs = pushes("l", s)
        fact = 'forall|l: Seq<Tok>| #[trigger] (l + chars("%s"@)) == %s' % (s, rhs)
        ens.append("        %s," % fact)
        proofs.append('    assert %s by { reveal_strlit("%s"); assert(chars("%s"@) =~= %s); assert(l + chars("%s"@) =~= %s); }' % (fact, s, s, tok_seq(s), s, rhs))
    if not ens:
        return ""
    lemma = "proof fn %s()\n    ensures\n%s\n{\n    lemma_names_spelled();\n%s\n}\n" % (name, "\n".join(ens), "\n".join(proofs))
    vf.spec_obligation("lemma::%s" % name, lemma, P10)
    return "%s();" % name


def expanded_text(repo, rel, anchor, rewrites):
    """the text of a printer after macro expansion (to read its string literals off)"""
    text = drop_vis(strip_docs(repo.at(rel, anchor).text))
    for rw in rewrites:
        new = rw(text)
        if new is None:
            raise Undecided("rewrite %s found nothing to do in %s (anchor lost)" % (getattr(rw, "rule", rw), anchor))
        text = new
    return text


def formatter_name(text):
    head, ret, where, body = split_fn(text)
    m = re.search(r"(\w+)\s*:\s*&mut\s+fmt::Formatter", head)
    if not m:
        raise Undecided("printer: no `&mut fmt::Formatter` parameter")
    return m.group(1)


def ghost_prologue(make):
    """R10: ghost statements at the start of the body; `make(text, f)` builds them from the rewritten text and the formatter's name"""
    @rule("R10-prologue")
    def rw(text):
        head, ret, where, body = split_fn(text)
        if not body.startswith("{"):
            return None
        return text[:len(text) - len(body)] + "{\n        " + make(text, formatter_name(text)) + body[1:]
    return rw


def slice_tail_loops(inv, hint):
    """R10: `for X in &E[1..] {` -> `for X in it_: &E[1..] invariant .. { proof { hint } ` (ghost iterator name, invariant, one lemma call); the loop itself is Verus' native `for` over a slice"""
    @rule("R10-for-invariant")
    def rw(text):
        f = formatter_name(text)
        def repl(m):
            var, e = m.group(1), m.group(2)
            return ("for %s in it_: &%s[1..]\n                        invariant\n                            %s, //@inv written_so_far_is_the_notation_up_to_this_argument [C10]\n"
                    "                            it_.seq().len() == %s@.len() - 1, "
                    "forall|j_: int| 0 <= j_ < it_.seq().len() ==> *(#[trigger] it_.seq()[j_]) == %s@[j_ + 1],\n                    {\n                        proof { %s }"
                    % (var, e, inv.replace("$F", f), e, e, hint))
        new, n = re.subn(r"\bfor\s+(\w+)\s+in\s+&(\w+)\[1\.\.\]\s*\{", repl, text)
        if re.search(r"\b(while|loop)\b", new) or len(re.findall(r"\bfor\b", new)) != n:
            raise Undecided("printer: a loop that is not `for X in &E[1..]` (shape not modelled)")
        return new
    return rw


# `X.display(A).fmt(f)` on the `impl fmt::Display` value Threshold::display returns -> the trait method by path (R7)
DISPLAY_METHOD = sub("R7-trait-method", r"\b(\w+)\s*\.\s*(display|debug)\(([^()]*)\)\s*\.\s*fmt\((\w+)\)",
                     lambda m: "fmt::%s::fmt(&%s.%s(%s), %s)" % ("Display" if m.group(2) == "display" else "Debug", m.group(1), m.group(2), m.group(3), m.group(4)), required=False)


def find_impl_fn(repo, rel, impl, fn, limit=12):
    """anchor of `fn` in whichever `impl <impl>` block has it (several blocks with the same header)"""
    for k in range(limit):
        a = "impl:%s#%d/fn:%s" % (impl, k, fn)
        try:
            repo.at(rel, a)
            return a
        except AnchorLost:
            continue
    raise Undecided("%s: no fn %s in an `impl %s` block" % (rel, fn, impl))


# =====================================================================================================================
def emit_prelude(vf, repo):
    check_key_trait(repo)
    vf.raw(FMT_MOD, keep_vis=True)
    vf.trust("mod fmt { Formatter { log }, write_str, write_char, plain (external_body); traits Display / Debug with disp_toks / dbg_toks; impls for &T, Arc<T>, usize }",
             "core::fmt is outside Verus: the formatter is modelled as the log of what was written (characters; a usize is one Num token); format_args! / fmt::write hand every `{}` / `{:?}` argument to its "
             "Display / Debug impl in order (R18); std: the impls for &T and Arc<T> forward to T")
    vf.raw(key_stubs(), keep_vis=True)
    vf.trust("prelude stubs MiniscriptKey (+ fmt::Display + fmt::Debug on the key and its hash types, as in src/lib.rs; checked) / AbsLockTime / RelLockTime (text of units/c18_semantic.py KEY_STUBS)",
             "out-of-unit types reduced to opaque values; what their Display / Debug write is abstract (disp_toks / dbg_toks of the trait)")
    vf.raw(LOCK_FMT)
    vf.trust("impl fmt::Display for AbsLockTime / RelLockTime (external_body, uninterp abs_lock_toks / rel_lock_toks)", "the decimal form of a lock time is abstract here")


def emit_threshold_printer(vf, repo):
    vf.item(THRESH, "struct:Threshold", rewrites=[C.STRIP_DERIVE])
    vf.item(THRESH, "struct:ThreshDisplay")
    vf.raw("""
impl<'t, 's, T, const MAX: usize> ThreshDisplay<'t, 's, T, MAX> {
    // the Threshold invariant of the threshold being printed (established by Threshold::display / debug)
    #[verifier::type_invariant]
    spec fn wf(self) -> bool { self.thresh.inv() }
}
""")
    for trait, fn in (("Display", "display"), ("Debug", "debug")):
        anchor = find_impl_fn(repo, THRESH, "Threshold<T, MAX>", fn)
        with vf.block("impl<T: fmt::%s, const MAX: usize> Threshold<T, MAX>" % trait):
            vf.fn(THRESH, anchor, qual="Threshold", props=PROPS,
                  rewrites=[sub("R7-opaque-type", r"->\s*impl fmt::%s \+ 's" % trait, "-> ThreshDisplay<'s, 's, T, MAX>")],
                  contract=Contract(requires=["self.inv()"], ensures=[
                      Clause("hands_name_threshold_and_flag_to_the_printer", P10, "r.name == name && r.thresh == self && r.show_k == show_k")]))
    KN = find_impl_fn(repo, THRESH, "Threshold<T, MAX>", "k")
    with vf.block("impl<T, const MAX: usize> Threshold<T, MAX>"):
        vf.fn(THRESH, KN, qual="Threshold", props=PROPS, contract=Contract(ensures=[Clause("def", P10, "r == self.k")]))
        vf.fn(THRESH, find_impl_fn(repo, THRESH, "Threshold<T, MAX>", "n"), qual="Threshold", props=PROPS, contract=Contract(ensures=[Clause("def", P10, "r == self.inner@.len()")]))
    for trait, toks, args in (("Display", "disp_toks", "thresh_args_disp"), ("Debug", "dbg_toks", "thresh_args_dbg")):
        anchor = "impl:fmt::%s for ThreshDisplay<'_, '_, T, MAX>/fn:fmt" % trait
        lits = note_literals(vf, expanded_text(repo, THRESH, anchor, [T.write_macro()]))
        def prologue(text, f, args=args, lits=lits):
            return ("proof { use_type_invariant(self); %s }\n        let ghost log0_ = %s.log@;\n        let ghost args_ = %s(*self.thresh, self.show_k);\n"
                    "        let ghost base_ = (log0_ + chars(self.name@)).push(Tok::Ch('('));\n"
                    "        proof { lemma_put_call(log0_, self.name@, args_); lemma_%s(*self.thresh, self.show_k); }" % (lits, f, args, args))
        @rule("R10-for-invariant")
        def loop(text):
            f = formatter_name(text)
            new, n = re.subn(r"\bfor\s+(\w+)\s+in\s+(\w+)\s*\{",
                             lambda m: ("for %s in it_: %s\n            invariant\n                %s.log@ == put_args(base_, args_, it_.index() + 1) && it_.seq().len() + 1 == args_.len(), //@inv written_so_far_is_name_open_and_the_items_up_to_this_one [C10]\n                "
                                        "it_.seq().len() == %s@.len(), forall|j_: int| 0 <= j_ < it_.seq().len() ==> *(#[trigger] it_.seq()[j_]) == %s@[j_],\n        {\n"
                                        "            proof { assert(put_args(base_, args_, it_.index() + 2) == put_args(base_, args_, it_.index() + 1).push(Tok::Ch(',')) + args_[it_.index() + 1]); }" % (m.group(1), m.group(2), f, m.group(2), m.group(2))), text)
            if n != 1 or re.search(r"\b(while|loop)\b", new):
                return None
            return new
        with vf.block("impl<T, const MAX: usize> fmt::%s for ThreshDisplay<'_, '_, T, MAX>\nwhere\n    T: fmt::%s," % (trait, trait)):
            vf.raw("    spec fn %s(&self) -> Seq<Tok> { call(self.name@, %s(*self.thresh, self.show_k)) }\n" % (toks, args))
            vf.fn(THRESH, anchor, qual="ThreshDisplay as %s" % trait, props=PROPS, attrs="#[verifier::loop_isolation(false)]",
                  rewrites=[sub("R7-use", r"\buse core::fmt::Write;\s*", ""), T.write_macro(), loop, ghost_prologue(prologue)],
                  contract=Contract(ensures=[
                      Clause("writes_name_open_k_items_close", P10, "r is Ok ==> final(f).log@ == old(f).log@ + call(self.name@, %s(*self.thresh, self.show_k))" % args)]))
            register_named_invariants(vf, "ThreshDisplay as %s::fmt" % trait)


def emit_policy_printers(vf, repo):
    for kind, rel, En, sem, node_lemma in (("concrete", CONC, "Concrete", "false", "lemma_concrete_node"), ("semantic", SEM, "Semantic", "true", "lemma_semantic_node")):
        val = "cval" if kind == "concrete" else "sval"
        for trait, dbg, toks in (("Display", "false", "disp_toks"), ("Debug", "true", "dbg_toks")):
            # the induction hypothesis: the trait impl as the recursive calls see it
            vf.raw("impl<Pk: MiniscriptKey> fmt::%s for %s<Pk> {\n    spec fn %s(&self) -> Seq<Tok> { pnotation(%s(*self), %s, %s) }\n"
                   "    #[verifier::external_body]\n    fn fmt(&self, f: &mut fmt::Formatter) -> (r: fmt::Result) { unimplemented!() }\n}\n" % (trait, En, toks, val, sem, dbg))
            anchor = "impl:fmt::%s for Policy<Pk>/fn:fmt" % trait
            V = "%s(*self)" % val
            lits = note_literals(vf, expanded_text(repo, rel, anchor, [DISPLAY_METHOD, T.write_macro()]))
            def prologue(text, f, V=V, dbg=dbg, sem=sem, node_lemma=node_lemma, lits=lits):
                return ("let ghost log0_ = %s.log@;\n        let ghost v_ = %s;\n        let ghost args_ = arg_toks(v_, %s, %s);\n"
                        "        let ghost base_ = (log0_ + chars(pname(head_name(v_, %s)))).push(Tok::Ch('('));\n"
                        "        proof { %s %s(*self, %s); lemma_put_call(log0_, pname(head_name(v_, %s)), args_); }"
                        % (f, V, sem, dbg, sem, lits, node_lemma, dbg, sem))
            inv = "$F.log@ == put_args(base_, args_, it_.index() + 1) && it_.seq().len() + 1 == args_.len()"
            hint = "assert(put_args(base_, args_, it_.index() + 2) == put_args(base_, args_, it_.index() + 1).push(Tok::Ch(',')) + args_[it_.index() + 1]);"
            variants = [v for v in VARIANTS if kind == "concrete" or v not in ("And", "Or")]
            with vf.block("impl<Pk: MiniscriptKey> %s<Pk>" % En):
                vf.fn(rel, anchor, qual=En, rename="fmt_%s" % trait.lower(), props=PROPS, attrs="#[verifier::loop_isolation(false)]",
                      cases=[(v, "*self is %s" % v, []) for v in variants],
                      rewrites=[DISPLAY_METHOD, T.write_macro(), slice_tail_loops(inv, hint), ghost_prologue(prologue)],
                      contract=Contract(requires=["*self matches %s::Thresh(th) ==> th.inv()" % En], ensures=[
                          Clause("writes_the_notation_of_the_value", P10, "r is Ok ==> final(f).log@ == old(f).log@ + pnotation(%s, %s, %s)" % (V, sem, dbg))]))
                for v in variants:
                    register_named_invariants(vf, "%s::fmt_%s__%s" % (En, trait.lower(), v))
    vf.trust("impl fmt::Display / fmt::Debug for Concrete / Semantic (external_body): Display::fmt / Debug::fmt of a SUB-policy appends pnotation(value of the sub-policy)",
             "INDUCTION HYPOTHESIS of the structural induction over the policy: it is the very clause (writes_the_notation_of_the_value) proved for every node from this assumption about its strictly "
             "smaller sub-policies; Verus rejects the direct recursion through the trait as a cyclic definition.  The precondition (Threshold invariant of every nested threshold) is a type invariant")



# =====================================================================================================================
# PARSER SIDE
# =====================================================================================================================
# properties of the obligations that state the round trip for values OUTSIDE what the readers can produce (And / Or of another arity than two, a semantic
# threshold over a single sub-policy): RED on the unchanged tree -- genuine (reproduced against the crate, see the report); set to () to keep them as INFO
UNREPRESENTABLE_PROPS = P10


def reader_oracle():
    leaf1 = lambda n, v: "        PName::%s => if args.len() == 1 && args[0] is %s { Some(PV::%s(args[0]->%s_0)) } else { None }," % (n, v, v, v)
    rows = "\n".join(leaf1(n, v) for v, _, n in LEAVES1)
    wrows = " ".join("PV::%s(x) => seq![PArg::%s(x)]," % (v, v) for v, _, _ in LEAVES1)
    trows = "\n".join("        PArg::%s(x) => %s," % (v, "key_toks(x, dbg)" if v == "Key" else "fmt::Display::disp_toks(&x)") for v, _, _ in LEAVES1)
    return r"""
// ================================================================================================================
// ORACLE 2 (reader's side): the VALUE that NAME(ARG,...,ARG) denotes in the policy language.
// A written argument: a key, a hash, a lock time, the threshold K, or a sub-policy (by value) with the odds written in
// front of it (None: no `W@`).  None = the expression is not in the language.
// ================================================================================================================
ghost enum PArg<Pk: MiniscriptKey> {
    Key(Pk), After(AbsLockTime), Older(RelLockTime), Sha256(Pk::Sha256), Hash256(Pk::Hash256), Ripemd160(Pk::Ripemd160), Hash160(Pk::Hash160),
    K(usize), Sub(Option<usize>, PV<Pk>),
}
// a branch written without odds has odds 1
spec fn odds_read(o: Option<usize>) -> usize { match o { Some(w) => w, None => 1 } }
// the arguments from `from` on are sub-policies (plain: none of them carries odds)
spec fn all_subs<Pk: MiniscriptKey>(args: Seq<PArg<Pk>>, from: int, plain: bool) -> bool {
    forall|j: int| from <= j < args.len() ==> (#[trigger] args[j]) is Sub && (plain ==> args[j]->Sub_0 is None)
}
spec fn sub_vals<Pk: MiniscriptKey>(args: Seq<PArg<Pk>>, from: int) -> Seq<PV<Pk>> { Seq::new((args.len() - from) as nat, |j: int| args[j + from]->Sub_1) }
spec fn sub_odds<Pk: MiniscriptKey>(args: Seq<PArg<Pk>>) -> Seq<(usize, PV<Pk>)> { Seq::new(args.len(), |j: int| (odds_read(args[j]->Sub_0), args[j]->Sub_1)) }
spec fn denote<Pk: MiniscriptKey>(name: PName, args: Seq<PArg<Pk>>, sem: bool) -> Option<PV<Pk>> {
    match name {
        PName::Unsatisfiable => if args.len() == 0 { Some(PV::Unsatisfiable) } else { None },
        PName::Trivial => if args.len() == 0 { Some(PV::Trivial) } else { None },
%(rows)s
        // concrete: and(A,B) -- exactly two; semantic: and(A,B,...) IS the n-of-n threshold
        PName::And => if sem { if args.len() >= 2 && all_subs(args, 0, true) { Some(PV::Thresh(args.len() as usize, sub_vals(args, 0))) } else { None } }
                      else { if args.len() == 2 && all_subs(args, 0, true) { Some(PV::And(sub_vals(args, 0))) } else { None } },
        // concrete: or(W@A,W@B) -- exactly two, each with its odds (1 when not written); semantic: or(A,B,...) IS the 1-of-n threshold
        PName::Or => if sem { if args.len() >= 2 && all_subs(args, 0, true) { Some(PV::Thresh(1, sub_vals(args, 0))) } else { None } }
                     else { if args.len() == 2 && all_subs(args, 0, false) { Some(PV::Or(sub_odds(args))) } else { None } },
        // thresh(K,A,...): K first, 1 <= K <= n; the semantic language writes K = 1 and K = n as or / and only
        PName::Thresh => if args.len() >= 2 && args[0] is K && all_subs(args, 1, true) && 1 <= args[0]->K_0 <= args.len() - 1
                            && (sem ==> args[0]->K_0 != 1 && args[0]->K_0 != args.len() - 1)
                         { Some(PV::Thresh(args[0]->K_0, sub_vals(args, 1))) } else { None },
    }
}
// ---- the WRITTEN FORM of a value: the arguments its text shows (what expression::Tree hands to the reader: ASSUMED) -----------
spec fn written_args<Pk: MiniscriptKey>(v: PV<Pk>, sem: bool) -> Seq<PArg<Pk>> {
    match v {
        PV::Unsatisfiable | PV::Trivial => Seq::empty(),
        %(wrows)s
        PV::And(subs) => Seq::new(subs.len(), |i: int| PArg::Sub(None, subs[i])),
        PV::Or(subs) => Seq::new(subs.len(), |i: int| PArg::Sub(Some(subs[i].0), subs[i].1)),
        PV::Thresh(k, subs) => (if head_name(v, sem) is Thresh { seq![PArg::K(k)] } else { Seq::empty() }) + Seq::new(subs.len(), |i: int| PArg::Sub(None, subs[i])),
    }
}
// the text of one written argument
spec fn arg_text<Pk: MiniscriptKey>(a: PArg<Pk>, sem: bool, dbg: bool) -> Seq<Tok> {
    match a {
%(trows)s
        PArg::K(k) => num_toks(k),
        PArg::Sub(o, p) => (match o { Some(w) => odds_toks(w), None => Seq::empty() }) + pnotation(p, sem, dbg),
    }
}
// what the readers can produce at one node (the enum's own comment: "the vectors in And/Or are limited to two elements"; Threshold invariant)
spec fn concrete_shape<Pk: MiniscriptKey>(v: PV<Pk>) -> bool {
    match v { PV::And(s) => s.len() == 2, PV::Or(s) => s.len() == 2, PV::Thresh(k, s) => 1 <= k <= s.len(), _ => true }
}
spec fn semantic_shape<Pk: MiniscriptKey>(v: PV<Pk>) -> bool {
    match v { PV::And(_) | PV::Or(_) => false, PV::Thresh(k, s) => 1 <= k <= s.len() && s.len() >= 2, _ => true }
}
""" % dict(rows=rows, wrows=wrows, trows=trows)


def roundtrip_lemmas():
    out = []
    GOAL = "denote(head_name(v, %s), written_args(v, %s), %s) == Some(v)"
    for lang, sem in (("concrete", "false"), ("semantic", "true")):
        goal = GOAL % (sem, sem, sem)
        for c in ("Unsatisfiable", "Trivial"):
            out.append(("%s::%s" % (lang, c), "proof fn roundtrip_%s_%s<Pk: MiniscriptKey>()\n    ensures ({ let v = PV::<Pk>::%s; %s }),\n{}\n" % (lang, c, c, goal)))
        for v, ty, n in LEAVES1:
            out.append(("%s::%s" % (lang, v), "proof fn roundtrip_%s_%s<Pk: MiniscriptKey>(x: %s)\n    ensures ({ let v = PV::<Pk>::%s(x); %s }),\n{\n    let v = PV::<Pk>::%s(x);\n"
                        "    assert(written_args(v, %s) =~= seq![PArg::<Pk>::%s(x)]);\n}\n" % (lang, v, ty, v, goal, v, sem, v)))
    g = GOAL % ("false", "false", "false")
    out.append(("concrete::And", r"""
// and(A,B): read back as And([A, B])
proof fn roundtrip_concrete_And<Pk: MiniscriptKey>(subs: Seq<PV<Pk>>)
    requires subs.len() == 2,
    ensures ({ let v = PV::<Pk>::And(subs); %s }),
{
    let v = PV::<Pk>::And(subs);
    assert(sub_vals(written_args(v, false), 0) =~= subs);
}
""" % g))
    out.append(("concrete::Or", r"""
// or(W1@A,W2@B): read back as Or([(W1, A), (W2, B)]) -- the odds stay with their branch
proof fn roundtrip_concrete_Or<Pk: MiniscriptKey>(subs: Seq<(usize, PV<Pk>)>)
    requires subs.len() == 2,
    ensures ({ let v = PV::<Pk>::Or(subs); %s }),
{
    let v = PV::<Pk>::Or(subs);
    assert(sub_odds(written_args(v, false)) =~= subs);
}
""" % g))
    out.append(("concrete::Thresh", r"""
// thresh(K,A,...): read back as Thresh(K, [A, ...]) -- also for K = 1 and K = n (the concrete language has no sugar for them)
proof fn roundtrip_concrete_Thresh<Pk: MiniscriptKey>(k: usize, subs: Seq<PV<Pk>>)
    requires 1 <= k <= subs.len(),
    ensures ({ let v = PV::<Pk>::Thresh(k, subs); head_name(v, false) == PName::Thresh && %s }),
{
    let v = PV::<Pk>::Thresh(k, subs);
    let a = written_args(v, false);
    assert(a[0] == PArg::<Pk>::K(k));
    assert(sub_vals(a, 1) =~= subs);
}
""" % g))
    g = GOAL % ("true", "true", "true")
    out.append(("semantic::Thresh", r"""
// the semantic language: and(A,...) for K = n, or(A,...) for K = 1, thresh(K,A,...) otherwise -- each read back as the SAME Thresh(K, [A, ...])
proof fn semantic_sugar_reads_back_as_the_same_threshold<Pk: MiniscriptKey>(k: usize, subs: Seq<PV<Pk>>)
    requires 1 <= k <= subs.len(), subs.len() >= 2,
    ensures ({ let v = PV::<Pk>::Thresh(k, subs);
        &&& head_name(v, true) == (if k == subs.len() { PName::And } else if k == 1 { PName::Or } else { PName::Thresh })
        &&& %s }),
{
    let v = PV::<Pk>::Thresh(k, subs);
    let a = written_args(v, true);
    if head_name(v, true) is Thresh {
        assert(a[0] == PArg::<Pk>::K(k));
        assert(sub_vals(a, 1) =~= subs);
    } else {
        assert(a =~= Seq::new(subs.len(), |i: int| PArg::Sub(None, subs[i])));
        assert(sub_vals(a, 0) =~= subs);
    }
}
""" % g))
    leaves_c = "\n".join("        PV::%s(x) => roundtrip_concrete_%s::<Pk>(x)," % (v, v) for v, _, _ in LEAVES1)
    leaves_s = "\n".join("        PV::%s(x) => roundtrip_semantic_%s::<Pk>(x)," % (v, v) for v, _, _ in LEAVES1)
    out.append(("printed_form_denotes_the_value", r"""
// ROUND TRIP (node level): the NAME and the arguments the printer's notation shows for a value are read back as that value (sub-policies by value:
// "given that the children round-trip"), for every value the reader can produce at a node
proof fn printed_form_denotes_the_value_concrete<Pk: MiniscriptKey>(v: PV<Pk>)
    requires concrete_shape(v),
    ensures denote(head_name(v, false), written_args(v, false), false) == Some(v),
{
    match v {
        PV::Unsatisfiable => roundtrip_concrete_Unsatisfiable::<Pk>(), PV::Trivial => roundtrip_concrete_Trivial::<Pk>(),
%(leaves_c)s
        PV::And(subs) => roundtrip_concrete_And(subs), PV::Or(subs) => roundtrip_concrete_Or(subs), PV::Thresh(k, subs) => roundtrip_concrete_Thresh(k, subs),
    }
}
proof fn printed_form_denotes_the_value_semantic<Pk: MiniscriptKey>(v: PV<Pk>)
    requires semantic_shape(v),
    ensures denote(head_name(v, true), written_args(v, true), true) == Some(v),
{
    match v {
        PV::Unsatisfiable => roundtrip_semantic_Unsatisfiable::<Pk>(), PV::Trivial => roundtrip_semantic_Trivial::<Pk>(),
%(leaves_s)s
        PV::Thresh(k, subs) => semantic_sugar_reads_back_as_the_same_threshold(k, subs),
        _ => {},
    }
}
""" % dict(leaves_c=leaves_c, leaves_s=leaves_s)))
    out.append(("notation_is_the_text_of_the_written_form", r"""
// the printer's notation IS the text NAME(ARG,...,ARG) of exactly the written arguments (ties the token level to the form the reader is handed)
proof fn notation_is_the_text_of_the_written_form<Pk: MiniscriptKey>(v: PV<Pk>, sem: bool, dbg: bool)
    ensures
        arg_toks(v, sem, dbg) =~= Seq::new(written_args(v, sem).len(), |i: int| arg_text(written_args(v, sem)[i], sem, dbg)),
        pnotation(v, sem, dbg) == (if is_constant(v) && !dbg { chars(pname(head_name(v, sem))) } else { call(pname(head_name(v, sem)), arg_toks(v, sem, dbg)) }),
{
    let w = written_args(v, sem);
    let t = Seq::new(w.len(), |i: int| arg_text(w[i], sem, dbg));
    match v {
        PV::Or(subs) => { assert forall|i: int| 0 <= i < subs.len() implies arg_toks(v, sem, dbg)[i] == t[i] by {} },
        PV::And(subs) => { assert forall|i: int| 0 <= i < subs.len() implies arg_toks(v, sem, dbg)[i] == t[i] by { assert(Seq::<Tok>::empty() + pnotation(subs[i], sem, dbg) =~= pnotation(subs[i], sem, dbg)); } },
        PV::Thresh(k, subs) => {
            let off: int = if head_name(v, sem) is Thresh { 1 } else { 0 };
            assert forall|i: int| 0 <= i < arg_toks(v, sem, dbg).len() implies arg_toks(v, sem, dbg)[i] == t[i] by {
                if i >= off { assert(Seq::<Tok>::empty() + pnotation(subs[i - off], sem, dbg) =~= pnotation(subs[i - off], sem, dbg)); }
            }
        },
        _ => {},
    }
}
"""))
    out.append(("concrete_and_or_never_read_as_thresh", r"""
// a concrete Thresh must be printed as thresh(K,..): whatever arguments follow `and` / `or`, the concrete reader never yields a Thresh
// (and for n != 2 sub-policies it yields nothing at all)
proof fn concrete_and_or_never_read_as_thresh<Pk: MiniscriptKey>(args: Seq<PArg<Pk>>)
    ensures
        !(denote(PName::And, args, false) matches Some(PV::Thresh(_, _))), !(denote(PName::Or, args, false) matches Some(PV::Thresh(_, _))),
        args.len() != 2 ==> denote(PName::And, args, false) is None && denote(PName::Or, args, false) is None,
{}
"""))
    out.append(("odds_rule", r"""
// the rule for odds: a branch written without `W@` reads as odds 1 -- leaving out a 1 is harmless, leaving out anything else changes the value
proof fn omitted_odds_read_as_one<Pk: MiniscriptKey>(a: PV<Pk>, o: Option<usize>, b: PV<Pk>)
    ensures denote(PName::Or, seq![PArg::Sub(None, a), PArg::Sub(o, b)], false) == denote(PName::Or, seq![PArg::Sub(Some(1usize), a), PArg::Sub(o, b)], false),
            denote(PName::Or, seq![PArg::Sub(o, b), PArg::Sub(None, a)], false) == denote(PName::Or, seq![PArg::Sub(o, b), PArg::Sub(Some(1usize), a)], false),
{
    assert(sub_odds(seq![PArg::Sub(None, a), PArg::Sub(o, b)]) =~= sub_odds(seq![PArg::Sub(Some(1usize), a), PArg::Sub(o, b)]));
    assert(sub_odds(seq![PArg::Sub(o, b), PArg::Sub(None, a)]) =~= sub_odds(seq![PArg::Sub(o, b), PArg::Sub(Some(1usize), a)]));
}
proof fn omitting_other_odds_changes_the_value<Pk: MiniscriptKey>(w: usize, a: PV<Pk>, w2: usize, b: PV<Pk>)
    requires w != 1,
    ensures denote(PName::Or, seq![PArg::Sub(None, a), PArg::Sub(Some(w2), b)], false) != Some(PV::Or(seq![(w, a), (w2, b)])),
{
    let r = sub_odds(seq![PArg::Sub(None, a), PArg::Sub(Some(w2), b)]);
    assert(r[0].0 == 1usize);
    assert(seq![(w, a), (w2, b)][0].0 == w);
}
"""))
    return out


UNREPRESENTABLE_C = r"""
// The same statement WITHOUT the restriction to what the readers can produce.  RED on the unchanged tree (genuine, reproduced against the crate): the enums are public,
// `Concrete::And(vec![a, b, c])` / `Concrete::Or` of another arity than two / `Semantic::Thresh` over ONE sub-policy are values, they print as and(A,B,C) / or(..) / and(A),
// and the parsers reject that text ("and must have 2 children", "and must have at least 2 children").
proof fn printed_form_denotes_the_value_concrete__any_arity<Pk: MiniscriptKey>(v: PV<Pk>)
    requires v matches PV::Thresh(k, s) ==> 1 <= k <= s.len(),
    ensures denote(head_name(v, false), written_args(v, false), false) == Some(v),
{
    if concrete_shape(v) { printed_form_denotes_the_value_concrete(v); }
}
"""
UNREPRESENTABLE_S = r"""
proof fn printed_form_denotes_the_value_semantic__single_sub_policy<Pk: MiniscriptKey>(v: PV<Pk>)
    requires !(v is And) && !(v is Or), v matches PV::Thresh(k, s) ==> 1 <= k <= s.len(),
    ensures denote(head_name(v, true), written_args(v, true), true) == Some(v),
{
    if semantic_shape(v) { printed_form_denotes_the_value_semantic(v); }
}
"""


def reader_args_spec():
    leaf = {"Pk": "PArg::Key(spec_from_str::<Pk>(leaf_str(ns, i))->Some_0)",
            "After": "PArg::<Pk>::After(spec_abs_from_consensus(spec_parse_num(leaf_str(ns, i))->Ok_0)->Some_0)",
            "Older": "PArg::<Pk>::Older(spec_rel_from_consensus(spec_parse_num(leaf_str(ns, i))->Ok_0)->Some_0)"}
    for h in HASHES:
        leaf[h] = "PArg::<Pk>::%s(spec_from_str::<Pk::%s>(leaf_str(ns, i))->Some_0)" % (h, h)
    rows = "\n".join("        PName::%s => seq![%s]," % (n, leaf[n]) for _, _, n in LEAVES1)
    return r"""
// ================================================================================================================
// The arguments of node i as the reader meets them, left to right: the results of the sub-expressions are the top
// entries of the result stack, FIRST child on top (reversed pre-order: children are processed right to left, each
// pushes one entry -- ASSUMED position, the length is c11_policy_parse's invariant), each with the odds it was pushed
// with; keys / hashes / numbers are what FromStr / parse_num give for the child's name (uninterpreted).
// ================================================================================================================
spec fn leaf_str(ns: Seq<TreeNode>, i: int) -> Seq<char> { ns[i + 1].name@ }
spec fn tree_k(ns: Seq<TreeNode>, i: int) -> usize { spec_parse_num(ns[i + 1].name@)->Ok_0 as usize }
spec fn args_read<Pk: MiniscriptKey>(ns: Seq<TreeNode>, i: int, st: Seq<(usize, PV<Pk>)>, name: PName, sem: bool) -> Seq<PArg<Pk>> {
    let top = st.len() - 1;
    match name {
        PName::Unsatisfiable | PName::Trivial => Seq::empty(),
%(rows)s
        PName::And => Seq::new(nch(ns, i) as nat, |j: int| PArg::Sub(None, st[top - j].1)),
        PName::Or => Seq::new(nch(ns, i) as nat, |j: int| PArg::Sub(if sem { None } else { Some(st[top - j].0) }, st[top - j].1)),
        PName::Thresh => seq![PArg::<Pk>::K(tree_k(ns, i))] + Seq::new((nch(ns, i) - 1) as nat, |j: int| PArg::Sub(None, st[top - j].1)),
    }
}
// the result stacks by value: (odds, policy value); the semantic reader has no odds (1)
spec fn cstack<Pk: MiniscriptKey>(st: Seq<(usize, Arc<Concrete<Pk>>)>) -> Seq<(usize, PV<Pk>)> { Seq::new(st.len(), |j: int| (st[j].0, cval(*st[j].1))) }
spec fn sstack<Pk: MiniscriptKey>(st: Seq<Arc<Semantic<Pk>>>) -> Seq<(usize, PV<Pk>)> { Seq::new(st.len(), |j: int| (1usize, sval(*st[j]))) }
// the node is a branch of an `or` (the concrete reader then parses `W@` out of its name: allow_prob)
spec fn in_or(ns: Seq<TreeNode>, i: int) -> bool { par(ns, i) matches Some(p) && base_name(ns, p as int, true) == "or"@ }
// the NAME of node i as the reader reads it (sep: the concrete reader)
spec fn own_name(ns: Seq<TreeNode>, i: int, sep: bool) -> Seq<char> { if sep && in_or(ns, i) { sepname(ns[i].name@, '@') } else { ns[i].name@ } }
// the odds written in front of node i's name
spec fn written_odds(ns: Seq<TreeNode>, i: int) -> Option<usize> {
    if in_or(ns, i) && ns[i].name@.contains('@') { Some(spec_parse_num_nonzero(seppref(ns[i].name@, '@'))->Ok_0 as usize) } else { None }
}
proof fn lemma_names_pairwise()
    ensures forall|a: PName, b: PName| a != b ==> #[trigger] pname(a) != #[trigger] pname(b),
%(ground)s
{
    assert forall|a: PName, b: PName| a != b implies #[trigger] pname(a) != #[trigger] pname(b) by { if pname(a) == pname(b) { names_are_distinct(a, b); } }
}
""" % dict(rows=rows, ground="\n".join('        pname(PName::%s) == "%s"@,' % x for x in PNAMES))


def meaning_lemma(kind):
    """from the SHAPE of the node an arm built (fields in terms of the popped stack entries) to the value the name denotes: one unfolding of cval / sval, args_read and denote"""
    if kind == "concrete":
        En, val, stk, sem, elem, sel = "Concrete", "cval", "cstack", "false", "(usize, Arc<Concrete<Pk>>)", ".1"
    else:
        En, val, stk, sem, elem, sel = "Semantic", "sval", "sstack", "true", "Arc<Semantic<Pk>>", ""
    A = lambda n: "args_read::<Pk>(ns, i, %s(st), PName::%s, %s)" % (stk, n, sem)
    D = lambda n: "denote(PName::%s, %s, %s) == Some(%s(e))" % (n, A(n), sem, val)
    ens, prf = [], []
    ens.append("        e is Unsatisfiable && nch(ns, i) == 0 ==> %s," % D("Unsatisfiable"))
    ens.append("        e is Trivial && nch(ns, i) == 0 ==> %s," % D("Trivial"))
    ens.append("        e matches %s::Key(x) && spec_from_str::<Pk>(leaf_str(ns, i)) == Some(x) ==> %s," % (En, D("Pk")))
    ens.append("        e matches %s::After(x) && spec_parse_num(leaf_str(ns, i)) matches Ok(n) && spec_abs_from_consensus(n) == Some(x) ==> %s," % (En, D("After")))
    ens.append("        e matches %s::Older(x) && spec_parse_num(leaf_str(ns, i)) matches Ok(n) && spec_rel_from_consensus(n) == Some(x) ==> %s," % (En, D("Older")))
    for h in HASHES:
        ens.append("        e matches %s::%s(x) && spec_from_str::<Pk::%s>(leaf_str(ns, i)) == Some(x) ==> %s," % (En, h, h, D(h)))
    TOP = "st.len() - 1"
    if kind == "concrete":
        ens.append("        e matches Concrete::And(v) && nch(ns, i) == 2 && st.len() >= 2 && v@ == seq![st[%s].1, st[%s - 1].1] ==> %s," % (TOP, TOP, D("And")))
        ens.append("        e matches Concrete::Or(v) && nch(ns, i) == 2 && st.len() >= 2 && v@ == seq![st[%s], st[%s - 1]] ==> %s," % (TOP, TOP, D("Or")))
        prf.append("    if e matches Concrete::And(v) && nch(ns, i) == 2 && st.len() >= 2 && v@ == seq![st[%s].1, st[%s - 1].1] { assert(%s(e)->And_0 =~= sub_vals(%s, 0)); }" % (TOP, TOP, val, A("And")))
        prf.append("    if e matches Concrete::Or(v) && nch(ns, i) == 2 && st.len() >= 2 && v@ == seq![st[%s], st[%s - 1]] { assert(%s(e)->Or_0 =~= sub_odds(%s)); }" % (TOP, TOP, val, A("Or")))
        TH = ("e matches Concrete::Thresh(th) && nch(ns, i) >= 2 && st.len() >= nch(ns, i) - 1 && th.inner@.len() == nch(ns, i) - 1 && th.k == tree_k(ns, i) && 1 <= th.k <= th.inner@.len() "
              "&& (forall|j: int| 0 <= j < th.inner@.len() ==> #[trigger] th.inner@[j] == st[%s - j]%s)" % (TOP, sel))
        ens.append("        %s ==> %s," % (TH, D("Thresh")))
        prf.append("    if %s { let a = %s; assert(a[0] == PArg::<Pk>::K(tree_k(ns, i))); assert(%s(e)->Thresh_1 =~= sub_vals(a, 1)); }" % (TH, A("Thresh"), val))
    else:
        for n, k in (("And", "th.k == nch(ns, i)"), ("Or", "th.k == 1")):
            H = ("e matches Semantic::Thresh(th) && nch(ns, i) >= 2 && st.len() >= nch(ns, i) && th.inner@.len() == nch(ns, i) && %s "
                 "&& (forall|j: int| 0 <= j < th.inner@.len() ==> #[trigger] th.inner@[j] == st[%s - j])" % (k, TOP))
            ens.append("        %s ==> %s," % (H, D(n)))
            prf.append("    if %s { assert(%s(e)->Thresh_1 =~= sub_vals(%s, 0)); }" % (H, val, A(n)))
        TH = ("e matches Semantic::Thresh(th) && nch(ns, i) >= 2 && st.len() >= nch(ns, i) - 1 && th.inner@.len() == nch(ns, i) - 1 && th.k == tree_k(ns, i) && 1 < th.k < th.inner@.len() "
              "&& (forall|j: int| 0 <= j < th.inner@.len() ==> #[trigger] th.inner@[j] == st[%s - j])" % TOP)
        ens.append("        %s ==> %s," % (TH, D("Thresh")))
        prf.append("    if %s { let a = %s; assert(a[0] == PArg::<Pk>::K(tree_k(ns, i))); assert(%s(e)->Thresh_1 =~= sub_vals(a, 1)); }" % (TH, A("Thresh"), val))
    return ("#[verifier::spinoff_prover]\nproof fn lemma_meaning_%s<Pk: MiniscriptKey>(ns: Seq<TreeNode>, i: int, st: Seq<%s>, e: %s<Pk>)\n    ensures\n%s\n{\n%s\n}\n"
            % (kind, elem, En, "\n".join(ens), "\n".join(prf)))


# R14: `RECV.map(Ctor).map_err(Ctor)` (any order / subset) on a `node.method(..)` receiver -> match (definitions of Result::map / map_err)
@rule("R14-map-ctor-chain")
def CTOR_CHAIN(text):
    pat = re.compile(r"(\bnode\s*\.\s*\w+\([^()]*\))((?:\s*\.\s*(?:map|map_err)\(\s*(?:\w+::)+\w+\s*\))+)")
    def repl(m):
        v, e = "x_", "e_"
        for op, ctor in re.findall(r"\.\s*(map|map_err)\(\s*((?:\w+::)+\w+)\s*\)", m.group(2)):
            if op == "map":
                v = "%s(%s)" % (ctor, v)
            else:
                e = "%s(%s)" % (ctor, e)
        return "(match %s { Ok(x_) => Ok(%s), Err(e_) => Err(%s) })" % (m.group(1), v, e)
    new = pat.sub(repl, text)
    if re.search(r"\.\s*map(_err)?\(", new):
        raise Undecided("policy from_tree: a `.map(..)` / `.map_err(..)` whose value is not modelled (shape changed)")
    return new


# R14: `X.map_err(From::from).map_err(Error::Parse)` -> verified helpers (definition of map_err + the From impls of src/error.rs)
@rule("R14-map_err")
def ERR_PLUMBING(text):
    new = N.R14_TREE(text)
    new = re.sub(r"(\bparse_num_nonzero\([^()]*\))\s*\.map_err\(From::from\)\s*\.map_err\(Error::Parse\)", r"map_err_num_(\1)", new)
    new = re.sub(r"(\bThreshold::from_iter_drained_\([^;]*?\))\s*\.map_err\(Error::Threshold\)\?", r"(match \1 { Ok(v_) => v_, Err(e_) => { return Err(Error::Threshold(e_)); } })", new)
    return new


def pop_map_loop_values():
    """R14 (c11_policy_parse.pop_map_loop with the VALUES in the invariant): `let X = (0..N).map(|_| stack.pop().unwrap());` -> eager index loop (closure body verbatim)"""
    @rule("R14-range-map-pop")
    def rw(text):
        pat = r"let (\w+) = \(0\.\.([^;]+?)\)\.map\(\|_\|\s*(stack\.pop\(\)\.unwrap\(\))\);"
        def repl(m):
            return ("let %s = {\n                        let n_ = %s;\n                        let ghost st0_ = stack@;\n                        let mut v_ = Vec::new();\n"
                    "                        let mut j_: usize = 0;\n                        while j_ < n_\n"
                    "                            invariant j_ <= n_, n_ <= st0_.len(), v_@.len() == j_, stack@ =~= st0_.take(st0_.len() - j_),\n"
                    "                                forall|q_: int| 0 <= q_ < j_ ==> #[trigger] v_@[q_] == st0_[st0_.len() - 1 - q_],\n"
                    "                            decreases n_ - j_,\n                        {\n                            v_.push(%s);\n                            j_ += 1;\n                        }\n"
                    "                        v_\n                    };" % (m.group(1), m.group(2), m.group(3)))
        return re.sub(pat, repl, text)
    return rw


EXTRA_ERRORS = r"""
// src/error.rs: From<ParseNumError> for ParseError (the conversion `.map_err(From::from)` goes through)
fn map_err_num_<T>(x: Result<T, ParseNumError>) -> (r: Result<T, Error>)
    ensures x is Ok <==> r is Ok, x is Ok ==> r->Ok_0 == x->Ok_0,
{ match x { Ok(v) => Ok(v), Err(e) => Err(Error::Parse(ParseError::Num(e))) } }
"""


def emit_parser(vf, repo, c11):
    # ---- what c11_policy_parse provides beyond units/c10_notation.py's emit_tree ----------------------------------------------------------
    m = re.search(r"\n    // Threshold::from_iter over an iterator.*?\{ unimplemented!\(\) \}\n", C.THRESH_SPEC, flags=re.S)
    if not m:
        raise Undecided("c11_policy_parse.THRESH_SPEC changed shape (from_iter_drained_)")
    with vf.block("impl<T, const MAX: usize> Threshold<T, MAX>"):
        for f in ("is_or", "is_and"):
            vf.fn(THRESH, "impl:Threshold<T, MAX>/fn:%s" % f, qual="Threshold", assumed=True, contract=N.other_contract(c11, "Threshold::%s" % f))
        vf.raw(m.group(0))
    vf.trust("Threshold::is_or / is_and (external_body): contracts proved in units/c11_policy_parse.py (same Clause objects); Threshold::from_iter_drained_ (external_body, text of c11_policy_parse.THRESH_SPEC)",
             "proved on the real text there; from_iter drains its iterator and then is Threshold::new: Ok ==> k, items kept, invariant")
    vf.fn(EXPR, "fn:parse_num_nonzero", assumed=True, contract=Contract(ensures=[Clause("def", (), "r == spec_parse_num_nonzero(s@)")]))
    vf.trust("parse_num_nonzero (external_body)", "its result IS the uninterpreted spec_parse_num_nonzero(s)")
    vf.raw(EXTRA_ERRORS)
    with vf.block("impl<'s> TreeIterItem<'s>"):
        vf.raw("""
    // R8-range stub of verify_n_children for a RangeFrom argument (text of units/c11_policy_parse.py): Ok exactly when the number of children is at least lo
    #[verifier::external_body] fn verify_n_children_from_(self, description: &'static str, lo: usize) -> (r: Result<(), ParseTreeError>)
        requires self.valid(), ensures r is Ok <==> lo <= nch(self.nodes@, self.index as int) { unimplemented!() }
""")
    vf.trust("TreeIterItem::verify_n_children_from_ (external_body)", "verify_n_children's text: Ok iff `n_children.contains(&self.n_children())`; std: (A..).contains(x) <=> A <= x")
    spec = C.POLICY_SPEC
    spec, n = re.subn(r"// name_separated\(sep\)\.1[^\n]*\nspec fn sepname\(s: Seq<char>, sep: char\) -> Seq<char> \{\n[^\n]*\n\}\n", "", spec)
    if n != 1 or "spec fn sepname(s: Seq<char>, sep: char) -> Seq<char> {\n    if !s.contains(sep) { s } else { s.subrange(s.index_of(sep) + 1, s.len() as int) }\n}" not in N.SEP_SPEC:
        raise Undecided("c11_policy_parse.POLICY_SPEC / c10_notation.SEP_SPEC changed shape (sepname)")
    vf.raw(spec)
    for l in C.POLICY_LEMMAS:
        C._register(vf, l)
    vf.raw(reader_oracle())
    for name, text in roundtrip_lemmas():
        vf.spec_obligation("roundtrip::%s" % name, text, P10)
    vf.spec_obligation("roundtrip::concrete::and_or_of_any_arity", UNREPRESENTABLE_C, UNREPRESENTABLE_PROPS)
    vf.spec_obligation("roundtrip::semantic::threshold_over_a_single_sub_policy", UNREPRESENTABLE_S, UNREPRESENTABLE_PROPS)
    vf.raw(reader_args_spec())
    C._register(vf, "lemma_names_pairwise")
    vf.functions["lemma_names_pairwise"]["props"] = P10

    NS, I = "self.nodes@", "self.index as int"
    VT = "impl:TreeIterItem<'s>/fn:verify_threshold"
    FT = "impl:expression::FromTree for Policy<Pk>/fn:from_tree"
    for kind, rel in (("concrete", CONC), ("semantic", SEM)):
        En, sep = C.ENUM[kind], C.SEP[kind]
        sem = "false" if kind == "concrete" else "true"
        val, stk = ("cval", "cstack") if kind == "concrete" else ("sval", "sstack")
        reg = repo.at(rel, FT)
        src = C.R7_PATHS(drop_vis(strip_docs(reg.text)).strip("\n"))
        src = re.sub(r"\bPolicy::", En + "::", src)
        loop = C.RevPreOrderLoop(kind)
        loop(src)                                                   # fills loop.body / var / root
        recv, closure_body, _ = C.closure_of_call_site(loop.body, "policy from_tree (%s)" % kind)
        mm = re.fullmatch(r"Ok(?:::<[^>]*>)?\(stack\.pop\(\)\.unwrap\(\)(\.1)?\)", closure_body)
        if not mm or (mm.group(1) or "") != (".1" if kind == "concrete" else ""):
            raise Undecided("policy from_tree (%s): verify_threshold closure `%s` is not the modelled pop" % (kind, closure_body))
        SEL = mm.group(1) or ""
        # ---- the call-site instance of verify_threshold (c11_policy_parse's rewrites) with the VALUES it hands on ----------------------------
        tail = C.ThresholdTail(
            ghost0="let ghost rem0_ = child_iter.remaining(); let ghost st0_ = stack@;",
            inv=C.ITER_INV + " n_ <= st0_.len(), stack@ =~= st0_.take(st0_.len() - i_), forall|j_: int| 0 <= j_ < i_ ==> inner_@[j_] == st0_[st0_.len() - 1 - j_]%s," % SEL,
            post="")
        L = "old(stack)@.len()"
        with vf.block("impl<'s> TreeIterItem<'s>"):
            vf.fn(EXPR, VT, qual="TreeIterItem", rename="verify_threshold_pop_%s" % kind, props=PROPS, attrs="#[verifier::spinoff_prover]",
                  rewrites=[C.ETA, C.instance_signature(kind, "Error"), C.inline_closure(closure_body), tail, C.VALID_HINT],
                  contract=Contract(requires=["self.valid()", "nch(%s, %s) >= 1 ==> %s >= nch(%s, %s) - 1" % (NS, I, L, NS, I)], ensures=[
                      Clause("k_child_is_a_terminal", P11, "r is Ok ==> nch(%s, %s) >= 1 && nch(%s, %s + 1) == 0" % (NS, I, NS, I)),
                      Clause("pops_one_entry_per_value_child", P1011, "r is Ok ==> final(stack)@ =~= old(stack)@.take(%s - (nch(%s, %s) - 1))" % (L, NS, I)),
                      Clause("sub_policies_are_the_popped_entries_first_child_on_top", P10,
                             "r is Ok ==> r->Ok_0.inner@.len() == nch(%s, %s) - 1 && forall|j: int| 0 <= j < r->Ok_0.inner@.len() ==> #[trigger] r->Ok_0.inner@[j] == old(stack)@[%s - 1 - j]%s" % (NS, I, L, SEL)),
                      Clause("k_is_the_number_in_the_first_child", P10, "r is Ok ==> spec_parse_num(%s[%s + 1].name@) is Ok && r->Ok_0.k == tree_k(%s, %s)" % (NS, I, NS, I)),
                      Clause("threshold_invariant", P10, "r is Ok ==> r->Ok_0.inv()")], canary=False))
        vf.rewrites_used.append("R16-closure-inlined [%s] @ %s" % (closure_body, VT))
        # ---- the loop body as a step, with what each arm builds -----------------------------------------------------------------------------
        vf.spec_obligation("lemma::meaning_%s" % kind, meaning_lemma(kind), P10)
        NSN, IN = "%s.nodes@" % loop.var, "%s.index as int" % loop.var
        step = ("fn from_tree_step<'s>(%s: TreeIterItem<'s>, stack: &mut Vec<%s>) -> Result<(), Error> {\n"
                "        let ghost stack0_ = stack@;\n"
                "        proof { lemma_nsc(%s, %s, %s); lemma_names(); lemma_names_pairwise(); assert(wf_node(%s, %s)); }%s    Ok(())\n}"
                % (loop.var, C.STACK_ELEM[kind], NSN, IN, sep, NSN, IN, loop.body))
        vf.rewrites_used.append("R8/R16-rev-preorder-loop @ %s" % FT)
        hint = sub("R10", r"(\n\s*)(stack\.push\()", r"\1proof { lemma_meaning_%s::<Pk>(%s, %s, stack0_, new); }\1\2" % (kind, NSN, IN))
        step_rw = [C.RANGE_INCL, C.RANGE_FROM, C.call_site_instance(kind), pop_map_loop_values(), C.FROM_ITER, ERR_PLUMBING, CTOR_CHAIN, C.TO_OWNED, hint,
                   sub("R10", r"(if let Some\((\w+)\) = \w+\.parent\(\) \{)", r"\1\n                proof { assert(wf_node(\2.nodes@, \2.index as int)); }", required=False)]
        OWN = "own_name(%s, %s, %s)" % (NSN, IN, sep)
        SKIP = "skip(%s, %s, %s)" % (NSN, IN, sep)
        LAST = "*final(stack)@.last()%s" % SEL
        ens = [Clause("stack_effect_is_one_push_minus_one_pop_per_value_child", P11,
                      "r is Ok ==> final(stack)@.len() == old(stack)@.len() + (if %s { 0 } else { 1 - nsc(%s, %s, %s) })" % (SKIP, NSN, IN, sep))]
        for n, s in PNAMES:
            ens.append(Clause("builds_what_the_name_denotes.%s" % s, P10,
                              "%s == pname(PName::%s) && r is Ok && !%s ==> final(stack)@.len() >= 1 && denote(PName::%s, args_read::<Pk>(%s, %s, %s(old(stack)@), PName::%s, %s), %s) == Some(%s(%s))"
                              % (OWN, n, SKIP, n, NSN, IN, stk, n, sem, sem, val, LAST)))
        ens.append(Clause("names_outside_the_language_are_rejected", P1011, "%s && r is Ok ==> %s" % (" && ".join("%s != pname(PName::%s)" % (OWN, n) for n, _ in PNAMES), SKIP)))
        if kind == "concrete":
            ens.append(Clause("pushed_with_the_odds_written_in_front_of_the_name", P10,
                              "r is Ok && !%s ==> final(stack)@.len() >= 1 && final(stack)@.last().0 == odds_read(written_odds(%s, %s))" % (SKIP, NSN, IN)))
        with vf.block("impl<Pk: MiniscriptKey> %s<Pk>" % En):
            text = vf._apply(step, step_rw, FT + "/loop body")
            vf.fn_text("%s::from_tree_step" % En, text, Contract(
                requires=["%s.valid()" % loop.var, "old(stack)@.len() >= nsc(%s, %s, %s)" % (NSN, IN, sep)], ensures=ens, canary=False),
                PROPS, file=rel, lines=reg.lines(), anchor=FT + "/loop body", attrs="#[verifier::spinoff_prover]")
            cname = "canary_%s_from_tree_step" % En
            start = vf._emit("proof fn %s<'s>(%s: TreeIterItem<'s>, stack: Seq<%s>)\n    requires %s.valid(), stack.len() >= nsc(%s, %s, %s),\n    ensures false,\n{}\n"
                             % (cname, loop.var, C.STACK_ELEM[kind], loop.var, NSN, IN, sep), dict(origin="verif", fn=cname, canary_for="%s::from_tree_step" % En))
            vf.canaries.append((cname, "%s::from_tree_step" % En, start, vf._lines))


def build(repo):
    vf = VerusFile(NAME, repo)
    emit_prelude(vf, repo)
    emit_threshold_printer(vf, repo)
    c11 = N.emit_tree(vf, repo)
    vf.item(CONC, "enum:Policy", rewrites=[C.STRIP_DERIVE, sub("R7-rename", r"\benum Policy<", "enum Concrete<")])
    vf.item(SEM, "enum:Policy", rewrites=[C.STRIP_DERIVE, sub("R7-rename", r"\benum Policy<", "enum Semantic<")])
    vf.raw(VALUES)
    vf.raw(language_oracle())
    vf.spec_obligation("lemma::names", names_lemmas(), P10)
    vf.raw(PRINTER_LEMMAS)
    for l in PRINTER_LEMMA_NAMES:
        C._register(vf, l)
        vf.functions[l]["props"] = P10
    emit_policy_printers(vf, repo)
    literal_lemma(vf, "lits_printers", vf.printer_literals)
    emit_parser(vf, repo, c11)
    return vf
