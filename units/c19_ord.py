"""C19 unit (2/3): `impl Ord for Terminal` (src/miniscript/display.rs) -- the per-pair comparison step over
the zipped DISPLAY trees, the display tree itself (`fragment_name`, `DisplayNode::as_node / nary_len /
nary_index`), and the order laws at pair level.

Oracle: the Miniscript text notation.  A fragment is displayed as NAME(ARG, ...) where NAME is the fragment
name with the notation's sugar (pk = c:pk_k, pkh = c:pk_h, t:X = and_v(X,1), l:X = or_i(0,X), u:X = or_i(X,0),
and_n(X,Y) = andor(X,Y,0)) and the arguments are, in order: the threshold value (thresh, multi*), then the keys /
hash / lock time / sub-expressions.  `display_children` gives that argument list, `frag` the name.
Order laws (mathematics): the pair comparison is Equal exactly on identical labels, antisymmetric, transitive;
and -- for the zipped traversal to be meaningful at all -- a pair that compares Equal must have the same number
and kinds of display children (alignment), otherwise the next pairs are misaligned (`unreachable!`, F6) or the
zip silently stops (Equal for unequal fragments).
"""
import re

from vlib.verus import VerusFile, Contract, Clause, sub, lit, replace_arm
from units import _tree
from units import c19_eq as E

NAME = "c19_ord"
ENGINE = "verus"
PROPS = ("C19", "C11")
DISPLAY = "src/miniscript/display.rs"
MSMOD = "src/miniscript/mod.rs"
ITER = "src/iter/tree.rs"
ABSLT = "src/primitives/absolute_locktime.rs"
RELLT = "src/primitives/relative_locktime.rs"

DROPPED = [
    "Terminal::cmp: the leading `self.fragment_name().cmp(other.fragment_name())` shortcut, the `for .. zip ..` loop and the early returns on Less/Greater are dropped; "
    "the per-pair `match (me, you)` arms are cut verbatim into cmp_step (step result = me_you_cmp).  Composition as in c19_eq (lemma preorder_zip_complete).",
    "impl TreeLike for DisplayNode: as_node / nary_len / nary_index are verified as inherent methods (the trait's iterator machinery is not extracted); "
    "`Self::NaryChildren` is replaced by its definition `NaryChildren<'a, Pk, Ctx>` (R7)",
    "the statement 'hence the same string form' is not decided (fmt); only the display TREE (names, argument lists) is",
]

FRAGS = [  # (ghost name, notation)
    ("True", "1"), ("False", "0"), ("PkK", "pk_k"), ("PkH", "pk_h"), ("RawPkH", "expr_raw_pkh"), ("After", "after"), ("Older", "older"),
    ("Sha256", "sha256"), ("Hash256", "hash256"), ("Ripemd160", "ripemd160"), ("Hash160", "hash160"),
    ("Alt", "a"), ("Swap", "s"), ("Pk", "pk"), ("Pkh", "pkh"), ("Check", "c"), ("DupIf", "d"), ("Verify", "v"),
    ("NonZero", "j"), ("ZeroNotEqual", "n"), ("T", "t"), ("AndV", "and_v"), ("AndN", "and_n"), ("AndB", "and_b"), ("AndOr", "andor"),
    ("OrB", "or_b"), ("OrD", "or_d"), ("OrC", "or_c"), ("U", "u"), ("L", "l"), ("OrI", "or_i"),
    ("Thresh", "thresh"), ("Multi", "multi"), ("SortedMulti", "sortedmulti"), ("MultiA", "multi_a"), ("SortedMultiA", "sortedmulti_a"),
]

ORD_GLUE = r"""
// ---- order laws of leaf types -------------------------------------------------------------------
spec fn key_ord_laws<Pk: MiniscriptKey + Ord>() -> bool
    where Pk::Sha256: Ord, Pk::Hash256: Ord, Pk::Ripemd160: Ord, Pk::Hash160: Ord
{
    ord_structural::<Pk>() && ord_structural::<Pk::Sha256>() && ord_structural::<Pk::Hash256>()
    && ord_structural::<Pk::Ripemd160>() && ord_structural::<Pk::Hash160>() && ord_structural::<hash160::Hash>()
}
// hash160::Hash: #[derive(PartialOrd, Ord)] in bitcoin_hashes (byte-wise lexicographic)
impl PartialOrd for hash160::Hash { #[verifier::external_body] fn partial_cmp(&self, other: &Self) -> Option<Ordering> { unimplemented!() } }
impl Ord for hash160::Hash { #[verifier::external_body] fn cmp(&self, other: &Self) -> Ordering { unimplemented!() } }
// &str: lexicographic total order whose Equal is equality of the character sequences (std)
#[verifier::external_body]
proof fn axiom_str_ord()
    ensures <str as OrdSpec>::obeys_cmp_spec(),
        forall|a: &str, b: &str| (#[trigger] a.cmp_spec(b) == Ordering::Equal) <==> a@ == b@,
        forall|a: &str, b: &str| #[trigger] a.cmp_spec(b) == rev(b.cmp_spec(a)),
        forall|a: &str, b: &str, c: &str| #[trigger] a.cmp_spec(b) == Ordering::Less && #[trigger] b.cmp_spec(c) == Ordering::Less ==> a.cmp_spec(c) == Ordering::Less,
{ }
spec fn lex(first: Ordering, second: Ordering) -> Ordering { if first == Ordering::Equal { second } else { first } }
spec fn u_cmp(a: int, b: int) -> Ordering { if a < b { Ordering::Less } else if a == b { Ordering::Equal } else { Ordering::Greater } }
"""


def frag_oracle():
    names = ", ".join(n for n, _ in FRAGS)
    strs = "\n".join('        Frag::%s => "%s",' % (n, s) for n, s in FRAGS)
    reveals = " ".join('reveal_strlit("%s");' % s for _, s in FRAGS)
    return r"""
// ---- oracle: Miniscript text notation ---------------------------------------------------------------
ghost enum Frag { %s }
spec fn frag_str(f: Frag) -> &'static str {
    match f {
%s
    }
}
// fragment name incl. the notation's sugar
spec fn frag<Pk: MiniscriptKey, Ctx: ScriptContext>(t: Terminal<Pk, Ctx>) -> Frag {
    match t {
        Terminal::True => Frag::True, Terminal::False => Frag::False,
        Terminal::PkK(..) => Frag::PkK, Terminal::PkH(..) => Frag::PkH, Terminal::RawPkH(..) => Frag::RawPkH,
        Terminal::After(..) => Frag::After, Terminal::Older(..) => Frag::Older,
        Terminal::Sha256(..) => Frag::Sha256, Terminal::Hash256(..) => Frag::Hash256,
        Terminal::Ripemd160(..) => Frag::Ripemd160, Terminal::Hash160(..) => Frag::Hash160,
        Terminal::Alt(..) => Frag::Alt, Terminal::Swap(..) => Frag::Swap,
        Terminal::Check(x) => if x.node is PkK { Frag::Pk } else if x.node is PkH { Frag::Pkh } else { Frag::Check },
        Terminal::DupIf(..) => Frag::DupIf, Terminal::Verify(..) => Frag::Verify,
        Terminal::NonZero(..) => Frag::NonZero, Terminal::ZeroNotEqual(..) => Frag::ZeroNotEqual,
        Terminal::AndV(_, y) => if y.node is True { Frag::T } else { Frag::AndV },
        Terminal::AndB(..) => Frag::AndB,
        Terminal::AndOr(_, _, z) => if z.node is False { Frag::AndN } else { Frag::AndOr },
        Terminal::OrB(..) => Frag::OrB, Terminal::OrD(..) => Frag::OrD, Terminal::OrC(..) => Frag::OrC,
        Terminal::OrI(x, z) => if z.node is False { Frag::U } else if x.node is False { Frag::L } else { Frag::OrI },
        Terminal::Thresh(..) => Frag::Thresh, Terminal::Multi(..) => Frag::Multi, Terminal::SortedMulti(..) => Frag::SortedMulti,
        Terminal::MultiA(..) => Frag::MultiA, Terminal::SortedMultiA(..) => Frag::SortedMultiA,
    }
}
// abstract display node: what is printed at that position
ghost enum ADisp<Pk: MiniscriptKey, Ctx: ScriptContext> {
    Node(Terminal<Pk, Ctx>), K(usize), Key(Pk), RawKeyHash(hash160::Hash), After(AbsLockTime), Older(RelLockTime),
    Sha256(Pk::Sha256), Hash256(Pk::Hash256), Ripemd160(Pk::Ripemd160), Hash160(Pk::Hash160),
}
// the argument list NAME(ARG, ...) of a fragment in the notation, in order
spec fn display_children<Pk: MiniscriptKey, Ctx: ScriptContext>(t: Terminal<Pk, Ctx>) -> Seq<ADisp<Pk, Ctx>> {
    match t {
        Terminal::True | Terminal::False => Seq::empty(),
        Terminal::PkK(k) | Terminal::PkH(k) => seq![ADisp::Key(k)],
        Terminal::RawPkH(h) => seq![ADisp::RawKeyHash(h)],
        Terminal::After(x) => seq![ADisp::After(x)],
        Terminal::Older(x) => seq![ADisp::Older(x)],
        Terminal::Sha256(h) => seq![ADisp::Sha256(h)],
        Terminal::Hash256(h) => seq![ADisp::Hash256(h)],
        Terminal::Ripemd160(h) => seq![ADisp::Ripemd160(h)],
        Terminal::Hash160(h) => seq![ADisp::Hash160(h)],
        // pk(KEY) / pkh(KEY) show the key of the wrapped pk_k / pk_h directly (a raw key hash has no such sugar: expr_raw_pkh(HASH) is
        // the bare fragment, c: over it is an ordinary wrapper)
        Terminal::Check(x) => match x.node {
            Terminal::PkK(k) | Terminal::PkH(k) => seq![ADisp::Key(k)],
            _ => seq![ADisp::Node(x.node)],
        },
        Terminal::Alt(x) | Terminal::Swap(x) | Terminal::DupIf(x) | Terminal::Verify(x) | Terminal::NonZero(x)
        | Terminal::ZeroNotEqual(x) => seq![ADisp::Node(x.node)],
        Terminal::AndV(x, y) => if y.node is True { seq![ADisp::Node(x.node)] } else { seq![ADisp::Node(x.node), ADisp::Node(y.node)] },
        Terminal::OrI(x, z) => if z.node is False { seq![ADisp::Node(x.node)] } else if x.node is False { seq![ADisp::Node(z.node)] }
                               else { seq![ADisp::Node(x.node), ADisp::Node(z.node)] },
        Terminal::AndB(x, y) | Terminal::OrB(x, y) | Terminal::OrD(x, y) | Terminal::OrC(x, y) => seq![ADisp::Node(x.node), ADisp::Node(y.node)],
        Terminal::AndOr(x, y, z) => if z.node is False { seq![ADisp::Node(x.node), ADisp::Node(y.node)] }
                                    else { seq![ADisp::Node(x.node), ADisp::Node(y.node), ADisp::Node(z.node)] },
        Terminal::Thresh(th) => seq![ADisp::K(th.k)] + Seq::new(th.inner@.len(), |i: int| ADisp::Node(th.inner@[i].node)),
        Terminal::Multi(th) | Terminal::SortedMulti(th) => seq![ADisp::K(th.k)] + Seq::new(th.inner@.len(), |i: int| ADisp::Key(th.inner@[i])),
        Terminal::MultiA(th) | Terminal::SortedMultiA(th) => seq![ADisp::K(th.k)] + Seq::new(th.inner@.len(), |i: int| ADisp::Key(th.inner@[i])),
    }
}
spec fn achildren<Pk: MiniscriptKey, Ctx: ScriptContext>(a: ADisp<Pk, Ctx>) -> Seq<ADisp<Pk, Ctx>> {
    match a { ADisp::Node(t) => display_children(t), _ => Seq::empty() }
}
// kind of a display node (which arm of the pair comparison applies)
spec fn akind<Pk: MiniscriptKey, Ctx: ScriptContext>(a: ADisp<Pk, Ctx>) -> int {
    match a { ADisp::Node(..) => 0, ADisp::K(..) => 1, ADisp::Key(..) => 2, ADisp::RawKeyHash(..) => 3, ADisp::After(..) => 4, ADisp::Older(..) => 5,
              ADisp::Sha256(..) => 6, ADisp::Hash256(..) => 7, ADisp::Ripemd160(..) => 8, ADisp::Hash160(..) => 9 }
}
spec fn kinds<Pk: MiniscriptKey, Ctx: ScriptContext>(s: Seq<ADisp<Pk, Ctx>>) -> Seq<int> { Seq::new(s.len(), |i: int| akind(s[i])) }
// label of a display node: what the pair comparison has to look at -- for a fragment its name AND its number of
// arguments (for every name but thresh / multi* the name fixes the number), for an argument its value
ghost enum DLabel<Pk: MiniscriptKey> {
    Name(Frag, nat), K(usize), Key(Pk), RawKeyHash(hash160::Hash), After(AbsLockTime), Older(RelLockTime),
    Sha256(Pk::Sha256), Hash256(Pk::Hash256), Ripemd160(Pk::Ripemd160), Hash160(Pk::Hash160),
}
spec fn alabel<Pk: MiniscriptKey, Ctx: ScriptContext>(a: ADisp<Pk, Ctx>) -> DLabel<Pk> {
    match a {
        ADisp::Node(t) => DLabel::Name(frag(t), display_children(t).len()), ADisp::K(k) => DLabel::K(k), ADisp::Key(k) => DLabel::Key(k),
        ADisp::RawKeyHash(h) => DLabel::RawKeyHash(h), ADisp::After(x) => DLabel::After(x), ADisp::Older(x) => DLabel::Older(x),
        ADisp::Sha256(h) => DLabel::Sha256(h), ADisp::Hash256(h) => DLabel::Hash256(h), ADisp::Ripemd160(h) => DLabel::Ripemd160(h),
        ADisp::Hash160(h) => DLabel::Hash160(h),
    }
}
spec fn is_nary(f: Frag) -> bool { f is Thresh || f is Multi || f is SortedMulti || f is MultiA || f is SortedMultiA }
// the order on labels of the same kind: names by their notation string (then, one admissible choice, by argument
// count), numbers numerically, lock times by consensus value, keys and hashes by their own order
spec fn label_cmp<Pk: MiniscriptKey + Ord>(a: DLabel<Pk>, b: DLabel<Pk>) -> Ordering
    where Pk::Sha256: Ord, Pk::Hash256: Ord, Pk::Ripemd160: Ord, Pk::Hash160: Ord
{
    match (a, b) {
        (DLabel::Name(x, n), DLabel::Name(y, m)) => lex(frag_str(x).cmp_spec(frag_str(y)), u_cmp(n as int, m as int)),
        (DLabel::K(x), DLabel::K(y)) => u_cmp(x as int, y as int),
        (DLabel::Key(x), DLabel::Key(y)) => x.cmp_spec(&y),
        (DLabel::RawKeyHash(x), DLabel::RawKeyHash(y)) => x.cmp_spec(&y),
        (DLabel::After(x), DLabel::After(y)) => u_cmp(x.consensus() as int, y.consensus() as int),
        (DLabel::Older(x), DLabel::Older(y)) => u_cmp(x.consensus() as int, y.consensus() as int),
        (DLabel::Sha256(x), DLabel::Sha256(y)) => x.cmp_spec(&y),
        (DLabel::Hash256(x), DLabel::Hash256(y)) => x.cmp_spec(&y),
        (DLabel::Ripemd160(x), DLabel::Ripemd160(y)) => x.cmp_spec(&y),
        (DLabel::Hash160(x), DLabel::Hash160(y)) => x.cmp_spec(&y),
        _ => arbitrary(),
    }
}
spec fn lkind<Pk: MiniscriptKey>(a: DLabel<Pk>) -> int {
    match a { DLabel::Name(..) => 0, DLabel::K(..) => 1, DLabel::Key(..) => 2, DLabel::RawKeyHash(..) => 3, DLabel::After(..) => 4, DLabel::Older(..) => 5,
              DLabel::Sha256(..) => 6, DLabel::Hash256(..) => 7, DLabel::Ripemd160(..) => 8, DLabel::Hash160(..) => 9 }
}
""" % (names, strs), reveals


def frag_lemmas(reveals):
    distinct = r"""
// the notation's names are pairwise different strings
proof fn frag_names_distinct()
    ensures forall|x: Frag, y: Frag| #[trigger] frag_str(x)@ == #[trigger] frag_str(y)@ ==> x == y,
{
    %s
    assert forall|x: Frag, y: Frag| #[trigger] frag_str(x)@ == #[trigger] frag_str(y)@ implies x == y by {
        let a = frag_str(x)@; let b = frag_str(y)@;
        assert(a.len() == b.len());
        assert(a[0] == b[0]);
        if a.len() > 1 { assert(a[1] == b[1]); }
        if a.len() > 2 { assert(a[2] == b[2]); }
        if a.len() > 3 { assert(a[3] == b[3]); }
        if a.len() > 4 { assert(a[4] == b[4]); }
        if a.len() > 5 { assert(a[5] == b[5]); }
        if a.len() > 11 { assert(a[11] == b[11]); }
    }
}
""" % reveals
    return distinct


LAWS = r"""
// ---- order laws at pair level (mathematics), over labels of the same kind -------------------------
proof fn label_cmp_equal_iff_same<Pk: MiniscriptKey + Ord>(a: DLabel<Pk>, b: DLabel<Pk>)
    where Pk::Sha256: Ord, Pk::Hash256: Ord, Pk::Ripemd160: Ord, Pk::Hash160: Ord
    requires key_ord_laws::<Pk>(), lkind(a) == lkind(b),
    ensures label_cmp(a, b) == Ordering::Equal <==> a == b,
{
    axiom_str_ord(); frag_names_distinct();
    if a is Name { assert(frag_str(a->Name_0)@ == frag_str(b->Name_0)@ ==> a->Name_0 == b->Name_0); }
}
proof fn label_cmp_antisymmetric<Pk: MiniscriptKey + Ord>(a: DLabel<Pk>, b: DLabel<Pk>)
    where Pk::Sha256: Ord, Pk::Hash256: Ord, Pk::Ripemd160: Ord, Pk::Hash160: Ord
    requires key_ord_laws::<Pk>(), lkind(a) == lkind(b),
    ensures label_cmp(a, b) == rev(label_cmp(b, a)),
{
    axiom_str_ord();
}
proof fn label_cmp_transitive<Pk: MiniscriptKey + Ord>(a: DLabel<Pk>, b: DLabel<Pk>, c: DLabel<Pk>)
    where Pk::Sha256: Ord, Pk::Hash256: Ord, Pk::Ripemd160: Ord, Pk::Hash160: Ord
    requires key_ord_laws::<Pk>(), lkind(a) == lkind(b), lkind(b) == lkind(c),
        label_cmp(a, b) == Ordering::Less, label_cmp(b, c) == Ordering::Less,
    ensures label_cmp(a, c) == Ordering::Less,
{
    axiom_str_ord();
}
// a label determines the kinds of the display children -- except for the n-ary fragments, whose label does
// not contain n (this is what F6 trips over)
proof fn name_determines_child_kinds<Pk: MiniscriptKey, Ctx: ScriptContext>(a: Terminal<Pk, Ctx>, b: Terminal<Pk, Ctx>)
    requires frag(a) == frag(b), !is_nary(frag(a)),
    ensures kinds(display_children(a)) == kinds(display_children(b)), display_children(a).len() == display_children(b).len(),
{
    assert(kinds(display_children(a)) =~= kinds(display_children(b)));
}
// for the n-ary fragments the name and the argument count determine the kinds
proof fn nary_count_determines_child_kinds<Pk: MiniscriptKey, Ctx: ScriptContext>(a: Terminal<Pk, Ctx>, b: Terminal<Pk, Ctx>)
    requires frag(a) == frag(b), is_nary(frag(a)), display_children(a).len() == display_children(b).len(),
    ensures kinds(display_children(a)) == kinds(display_children(b)),
{
    assert(kinds(display_children(a)) =~= kinds(display_children(b)));
}
"""

DISPLAY_ABS = r"""
// ---- abstraction of the crate's DisplayNode / NaryChildren / Tree values ------------------------------
spec fn dabs<'a, Pk: MiniscriptKey, Ctx: ScriptContext>(d: DisplayNode<'a, Pk, Ctx>) -> ADisp<Pk, Ctx> {
    match d {
        DisplayNode::Node(_, t) => ADisp::Node(*t), DisplayNode::ThresholdK(k) => ADisp::K(k), DisplayNode::Key(k) => ADisp::Key(*k),
        DisplayNode::RawKeyHash(h) => ADisp::RawKeyHash(*h), DisplayNode::After(x) => ADisp::After(*x), DisplayNode::Older(x) => ADisp::Older(*x),
        DisplayNode::Sha256(h) => ADisp::Sha256(*h), DisplayNode::Hash256(h) => ADisp::Hash256(*h),
        DisplayNode::Ripemd160(h) => ADisp::Ripemd160(*h), DisplayNode::Hash160(h) => ADisp::Hash160(*h),
    }
}
spec fn nary_view<'a, Pk: MiniscriptKey, Ctx: ScriptContext>(nc: NaryChildren<'a, Pk, Ctx>) -> Seq<ADisp<Pk, Ctx>> {
    match nc {
        NaryChildren::Nodes(k, n) => seq![ADisp::K(k)] + Seq::new(n@.len(), |i: int| ADisp::Node(n@[i].node)),
        NaryChildren::Keys(k, keys) => seq![ADisp::K(k)] + Seq::new(keys@.len(), |i: int| ADisp::Key(keys@[i])),
    }
}
spec fn tree_view<'a, Pk: MiniscriptKey, Ctx: ScriptContext>(t: Tree<DisplayNode<'a, Pk, Ctx>, NaryChildren<'a, Pk, Ctx>>) -> Seq<ADisp<Pk, Ctx>> {
    match t {
        Tree::Nullary => Seq::empty(),
        Tree::Unary(a) => seq![dabs(a)],
        Tree::Binary(a, b) => seq![dabs(a), dabs(b)],
        Tree::Ternary(a, b, c) => seq![dabs(a), dabs(b), dabs(c)],
        Tree::Nary(nc) => nary_view(nc),
    }
}
"""


def emit_display(vf):
    """DisplayNode machinery + fragment_name, verified against the notation oracle."""
    vf.item(ITER, "enum:Tree")
    vf.item(DISPLAY, "enum:DisplayNode", rewrites=[lit("R7", "crate::AbsLockTime", "AbsLockTime"), lit("R7", "crate::RelLockTime", "RelLockTime")])
    vf.item(DISPLAY, "enum:NaryChildren")
    vf.raw(DISPLAY_ABS)
    with vf.block("impl<Pk: MiniscriptKey, Ctx: ScriptContext> Miniscript<Pk, Ctx>"):
        vf.fn(MSMOD, "impl:Miniscript<Pk, Ctx>/fn:as_inner", qual="Miniscript", props=("C11",),
              contract=Contract(ensures=[Clause("as_inner", (), "*r == self.node")]))
    with vf.block("impl<Pk: MiniscriptKey, Ctx: ScriptContext> Terminal<Pk, Ctx>"):
        vf.fn(DISPLAY, "impl:Terminal<Pk, Ctx>/fn:fragment_name", qual="Terminal", props=PROPS,
              contract=Contract(ensures=[Clause("is_notation_name", ("C19",), "r == frag_str(frag(*self))")]))
    with vf.block("impl<Pk: MiniscriptKey, Ctx: ScriptContext> Terminal<Pk, Ctx>"):
        # helper introduced by the F6 repair: argument count of the variable-arity fragments
        vf.fn(DISPLAY, "impl:Terminal<Pk, Ctx>#1/fn:nary_arity", qual="Terminal", props=PROPS,
              contract=Contract(ensures=[Clause("is_argument_count", ("C19",), "r == (if is_nary(frag(*self)) { display_children(*self).len() - 1 } else { 0 })")]))
    nary = lit("R7", "Self::NaryChildren", "NaryChildren<'a, Pk, Ctx>")
    with vf.block("impl<'a, Pk: MiniscriptKey, Ctx: ScriptContext> DisplayNode<'a, Pk, Ctx>"):
        vf.fn(DISPLAY, "impl:TreeLike for DisplayNode<'a, Pk, Ctx>/fn:nary_len", qual="DisplayNode", props=PROPS, rewrites=[nary],
              contract=Contract(requires=["nary_view(*tc).len() <= usize::MAX"],
                                ensures=[Clause("len", ("C19",), "r == nary_view(*tc).len()")]))
        vf.fn(DISPLAY, "impl:TreeLike for DisplayNode<'a, Pk, Ctx>/fn:nary_index", qual="DisplayNode", props=PROPS, rewrites=[nary],
              contract=Contract(requires=["idx < nary_view(tc).len()"],
                                ensures=[Clause("index", ("C19",), "dabs(r) == nary_view(tc)[idx as int]")]))
        vf.fn(DISPLAY, "impl:TreeLike for DisplayNode<'a, Pk, Ctx>/fn:as_node", qual="DisplayNode", props=PROPS, rewrites=[nary],
              contract=Contract(ensures=[
                  Clause("children_are_the_notation_arguments", ("C19",), "tree_view(r) =~= achildren(dabs(*self))"),
                  Clause("nary_shape", ("C19",), "r is Nary <==> (self is Node && is_nary(frag(*self->Node_1)))")]))


def cmp_step_contract():
    nargs_me = "display_children(*me->Node_1).len()"
    nargs_you = "display_children(*you->Node_1).len()"
    ens = [
        # the comparison is the order of the labels (for same-name fragments with different argument counts -- possible
        # only for thresh / multi* -- any order is admissible, only `not Equal` is demanded, see equal_iff_same_label)
        Clause("is_label_order", ("C19",), "!(me is Node) || frag(*me->Node_1) != frag(*you->Node_1) || %s == %s ==> r == label_cmp(alabel(dabs(me)), alabel(dabs(you)))" % (nargs_me, nargs_you)),
        Clause("equal_iff_same_label.fixed", ("C19",), "!(me is Node && is_nary(frag(*me->Node_1))) ==> (r == Ordering::Equal <==> alabel(dabs(me)) == alabel(dabs(you)))"),
        # F6: thresh / multi* nodes with different n compare Equal
        Clause("equal_iff_same_label.nary", ("C19",), "me is Node && is_nary(frag(*me->Node_1)) ==> (r == Ordering::Equal <==> alabel(dabs(me)) == alabel(dabs(you)))"),
        # alignment of the NEXT pairs: Equal nodes must have display children of the same number and kinds, otherwise the
        # zipped traversals are misaligned (`unreachable!` arm) or the zip stops early (Equal for different fragments)
        Clause("alignment_preserved.fixed", ("C19", "C11"),
               "r == Ordering::Equal && me is Node && !is_nary(frag(*me->Node_1)) ==> kinds(achildren(dabs(me))) == kinds(achildren(dabs(you)))"),
        Clause("alignment_preserved.nary", ("C19", "C11"),
               "r == Ordering::Equal && me is Node && is_nary(frag(*me->Node_1)) ==> kinds(achildren(dabs(me))) == kinds(achildren(dabs(you)))"),
    ]
    return Contract(requires=["key_ord_laws::<Pk>()", "akind(dabs(me)) == akind(dabs(you))"], ensures=ens)


def build(repo):
    vf = VerusFile(NAME, repo)
    E.emit_prelude(vf, hashing=False)
    vf.raw(ORD_GLUE)
    vf.trust("PartialOrd / Ord for hash160::Hash (external_body) + ord_structural::<hash160::Hash>() inside key_ord_laws",
             "derived byte-wise lexicographic order of bitcoin_hashes' hash160::Hash")
    vf.trust("axiom_str_ord (external_body proof fn)", "std: Ord for str is the lexicographic total order on the characters, Equal iff same string")
    text, reveals = frag_oracle()
    vf.raw(text)
    vf.spec_obligation("lemma::frag_names_distinct", frag_lemmas(reveals), ("C19",))
    for name in ("label_cmp_equal_iff_same", "label_cmp_antisymmetric", "label_cmp_transitive", "name_determines_child_kinds", "nary_count_determines_child_kinds"):
        m = re.search(r"(?s)((?://[^\n]*\n)*proof fn %s<.*?\n}\n)" % name, LAWS)
        vf.spec_obligation("law::%s" % name, m.group(1), ("C19",))

    # lock times: cmp_by_consensus (two one-liners; also covered by the Kani unit k_locktime)
    # bitcoin::relative::LockTime as the dependency documents it (BIP68): From<RelLockTime> keeps the type flag (bit 22) and the
    # low 16 bits only; PartialOrd compares within one unit and is None across units.  Only so that a cmp_by_consensus written
    # through the typed lock time is JUDGED (it identifies values that differ in the unused bits) instead of not compiling.
    vf.raw(r"""
mod relative {
    use super::*;
    #[derive(Clone, Copy, PartialEq, Eq)]
    pub(crate) enum LockTime { Blocks(u16), Time(u16) }
    pub(crate) open spec fn rcmp(a: int, b: int) -> cmp::Ordering { if a < b { cmp::Ordering::Less } else if a == b { cmp::Ordering::Equal } else { cmp::Ordering::Greater } }
    pub(crate) open spec fn of_consensus(n: u32) -> LockTime {
        if n & 0x0040_0000u32 != 0 { LockTime::Time((n & 0xffffu32) as u16) } else { LockTime::Blocks((n & 0xffffu32) as u16) }
    }
    impl LockTime {
        #[verifier::external_body]
        pub(crate) fn from(t: RelLockTime) -> (r: LockTime) ensures r == of_consensus(t.consensus()) { unimplemented!() }
        #[verifier::external_body]
        pub(crate) fn partial_cmp(&self, other: &LockTime) -> (r: Option<cmp::Ordering>)
            ensures r == (match (*self, *other) {
                (LockTime::Blocks(a), LockTime::Blocks(b)) => Some(rcmp(a as int, b as int)),
                (LockTime::Time(a), LockTime::Time(b)) => Some(rcmp(a as int, b as int)),
                _ => None::<cmp::Ordering>,
            }) { unimplemented!() }
    }
}
pub assume_specification [<bool as Ord>::cmp] (a: &bool, b: &bool) -> (r: cmp::Ordering)
    ensures *a == *b ==> r is Equal, !*a && *b ==> r is Less, *a && !*b ==> r is Greater;
impl RelLockTime {
    #[verifier::external_body]
    fn is_time_locked(&self) -> (r: bool) ensures r == (self.consensus() & 0x0040_0000u32 != 0) { unimplemented!() }
    #[verifier::external_body]
    fn is_height_locked(&self) -> (r: bool) ensures r == (self.consensus() & 0x0040_0000u32 == 0) { unimplemented!() }
}
""", keep_vis=True)
    vf.trust("mod relative { LockTime, From<RelLockTime>, partial_cmp }, RelLockTime::is_time_locked / is_height_locked, <bool as Ord>::cmp",
             "bitcoin::relative::LockTime per BIP68 (type flag bit 22, value = low 16 bits; comparable within one unit only); std bool order false < true; not used by the unchanged code")
    with vf.block("impl AbsLockTime"):
        vf.fn(ABSLT, "impl:AbsLockTime/fn:cmp_by_consensus", qual="AbsLockTime", props=PROPS,
              contract=Contract(ensures=[Clause("by_consensus", ("C19",), "r == u_cmp(self.consensus() as int, other.consensus() as int)")]))
    with vf.block("impl RelLockTime"):
        vf.fn(RELLT, "impl:RelLockTime/fn:cmp_by_consensus", qual="RelLockTime", props=PROPS,
              contract=Contract(ensures=[Clause("by_consensus", ("C19",), "r == u_cmp(self.consensus() as int, other.consensus() as int)")]))

    emit_display(vf)

    vf.step(DISPLAY, "impl:Ord for Terminal<Pk, Ctx>/fn:cmp/match:(me, you)", "Terminal::cmp_step",
            "fn cmp_step<'a, %s>(me: DisplayNode<'a, Pk, Ctx>, you: DisplayNode<'a, Pk, Ctx>) -> cmp::Ordering %s" % (E.BOUNDS.replace(" + Hash", ""), E.WHERE.replace(" + Hash", "")),
            contract=cmp_step_contract(), props=PROPS, rewrites=[E.R_UNREACHABLE],
            pre_match="    proof { axiom_str_ord(); frag_names_distinct(); if me is Node && frag(*me->Node_1) == frag(*you->Node_1) && !is_nary(frag(*me->Node_1)) { name_determines_child_kinds(*me->Node_1, *you->Node_1); } if me is Node && frag(*me->Node_1) == frag(*you->Node_1) && is_nary(frag(*me->Node_1)) && display_children(*me->Node_1).len() == display_children(*you->Node_1).len() { nary_count_determines_child_kinds(*me->Node_1, *you->Node_1); } }")
    return vf
